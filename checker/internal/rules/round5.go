package rules

import (
	"go/ast"
	"go/constant"
	"go/parser"
	"go/token"
	"go/types"
	"os"
	"regexp"
	"strings"

	"gbcheck/internal/prog"
)

// Rules added after round 5 of independently seeded changes (DESIGN.md 10.5).

func addRule(prop string, r Rule) {
	p := Registry[prop]
	if p == nil {
		return
	}
	for _, x := range p.Rules {
		if x.ID == r.ID {
			return
		}
	}
	p.Rules = append(p.Rules, r)
}

func init() {
	for _, p := range []string{"C04", "C01", "C09", "C12"} {
		d := "flush advances the write buffer past the flushed prefix (no compaction over records being freed)"
		if p != "C04" {
			d = "shared: " + d
		}
		addRule(p, Rule{"C04.L10", "q", d, c04l10})
	}
	addRule("C12", Rule{"C04.L5", "q", "shared: a buffered record is freed only after it left the write buffer", c04l5})
	addRule("C01", Rule{"C01.R14", "q", "get hands out the version kept in the index", c01r14})
	addRule("C10", Rule{"C10.R11", "q", "the safe decompressors reject no well-formed stream (stored blocks included)", c10r11})
	addRule("C11", Rule{"C11.R12", "q", "numeric fields are decimal; the byte count is validated before it is narrowed", c11r12})
	addRule("C16", Rule{"C16.R6", "q", "the C CRC routine returns the running register on every path", c16r6})
	addRule("C09", Rule{"C16.R6", "q", "shared: the C CRC routine returns the running register on every path", c16r6})
	addRule("C17", Rule{"C17.R9", "q", "a file is dated by the first record of its successor; only an empty successor is skipped", c17r9})
	addRule("C18", Rule{"C18.R7", "q", "a rewritten chunk's size follows its write head", c18r7})
	addRule("C03", Rule{"C18.R7", "q", "shared: a rewritten chunk's size follows its write head", c18r7})
	addRule("C13", Rule{"C13.R14", "q", "hint lookups cover every chunk that holds hints (loaded or written)", c13r14})
	addRule("C02", Rule{"C13.R14", "q", "shared: hint lookups cover every chunk that holds hints (loaded or written)", c13r14})
	// sharing, so that the property a change breaks raises the alarm itself
	addRule("C05", Rule{"C17.R2", "q", "shared: a pass runs only on the range the range check returned", c17r2})
	addRule("C05", Rule{"C17.R5", "q", "shared: the range ends below the file receiving client writes", c17r5})
	addRule("C06", Rule{"C02.R3", "q", "shared: append ⇒ hint with the appended position, inside the write critical section", c02r3})
	addRule("C06", Rule{"C01.R1", "q", "shared: index updates follow the append on its success edge", c01r1})
	addRule("C11", Rule{"C15.R6", "q", "shared: listing dispatch (a bad path is answered, not dereferenced)", c15r6})
}

// ---------------------------------------------------------------- C04.L10

// c04l10: dataChunk.flush detaches the flushed prefix by re-slicing
// `wbuf = wbuf[n:]`. The prefix `wbuf[:n]` is freed afterwards, outside the
// lock; any write into the shared backing array (a compaction by copy/append
// onto wbuf[:0]) would put records appended meanwhile among the ones being freed.
func c04l10(c *Ctx) {
	const R = "C04.L10"
	f := c.fn(R, "store.dataChunk.flush")
	if f == nil {
		return
	}
	info := f.Info()
	isWbuf := func(e ast.Expr) bool { k, _ := prog.FieldOf(info, prog.Unparen(e)); return k == "store.dataChunk.wbuf" }
	n := 0
	ast.Inspect(f.Decl.Body, func(x ast.Node) bool {
		switch s := x.(type) {
		case *ast.AssignStmt:
			for i, l := range s.Lhs {
				if isWbuf(l) && i < len(s.Rhs) {
					n++
					se, ok := prog.Unparen(s.Rhs[i]).(*ast.SliceExpr)
					c.check(ok && isWbuf(se.X) && se.Low != nil && se.High == nil && se.Max == nil, R, f.Key+": detach = wbuf[n:]", c.pos(s), "re-slice past the flushed prefix",
						"the write buffer is not simply advanced past the flushed prefix: whatever else is stored here shares (or overwrites) the backing array of the records that are freed next, so a record appended during the flush can be freed while it is still buffered")
				}
				if ie, ok := prog.Unparen(l).(*ast.IndexExpr); ok && isWbuf(ie.X) {
					n++
					c.viol(R, f.Key+": element of wbuf overwritten", c.pos(s), "the flusher overwrites an element of the write buffer")
				}
			}
		case *ast.CallExpr:
			if k := prog.CalleeKey(info, s); (k == "builtin.copy" || k == "builtin.append") && len(s.Args) > 0 {
				root := prog.Unparen(s.Args[0])
				if se, ok := root.(*ast.SliceExpr); ok {
					root = prog.Unparen(se.X)
				}
				if isWbuf(root) {
					n++
					c.viol(R, f.Key+": "+strings.TrimPrefix(k, "builtin.")+" into wbuf", c.pos(s), "the flusher moves records inside the write buffer's backing array while the flushed prefix, which aliases it, is about to be freed")
				}
			}
		}
		return true
	})
	if n == 0 {
		c.undec(R, f.Key, "no store to dataChunk.wbuf found in flush")
	}
}

// ---------------------------------------------------------------- C01.R14

// c01r14: on the branch of Bucket.get that hands out the fetched record, the
// payload's version is set from the index entry (tree slot or collision item):
// with check_vhash a revision-only update changes the index alone.
func c01r14(c *Ctx) {
	const R = "C01.R14"
	f := c.fn(R, "store.Bucket.get")
	if f == nil {
		return
	}
	info := f.Info()
	// the meta variable: result 0 of HTree.get
	var metaObj types.Object
	for _, call := range f.CallsTo("store.HTree.get") {
		metaObj = f.ResultObj(call.Expr, 0)
		if metaObj == nil {
			if l := f.ResultLhs(call.Expr, 0); l != nil {
				metaObj = prog.ObjOf(info, l)
			}
		}
	}
	if metaObj == nil {
		c.undec(R, f.Key, "result of HTree.get not bound to a variable")
		return
	}
	found := false
	var at ast.Node
	ast.Inspect(f.Decl.Body, func(x ast.Node) bool {
		as, ok := x.(*ast.AssignStmt)
		if !ok || len(as.Lhs) != 1 || len(as.Rhs) != 1 || as.Tok != token.ASSIGN {
			return true
		}
		lk, _ := prog.FieldOf(info, as.Lhs[0])
		rk, _ := prog.FieldOf(info, as.Rhs[0])
		if lk == "store.Meta.Ver" && rk == "store.Meta.Ver" && prog.RootObj(info, as.Rhs[0]) == metaObj && prog.RootObj(info, as.Lhs[0]) != metaObj {
			// guarded by the key comparison
			for _, a := range f.GuardsAt(as) {
				ok := false
				ast.Inspect(a.X, func(y ast.Node) bool {
					if call, isC := y.(*ast.CallExpr); isC {
						if k := prog.CalleeKey(info, call); k == "bytes.Compare" || k == "bytes.Equal" {
							ok = true
						}
					}
					return true
				})
				if ok {
					found, at = true, as
				}
			}
		}
		return true
	})
	pos := f.Pos()
	if at != nil {
		pos = c.pos(at)
	}
	c.check(found, R, f.Key+": payload.Ver = index version on the key-match branch", pos, "payload.Ver = meta.Ver",
		"the record handed out by Bucket.get keeps the version stored in the data file instead of the one in the index: after a revision-only update (check_vhash) meta-get reports, and incr continues from, a stale version")
}

// ---------------------------------------------------------------- C10.R11

// c10r11: a guard that makes a safe decompressor give up before it calls the
// decompressor is evaluated on the header values of well-formed streams; if it
// rejects one of them, values that were compressed by the server come back as
// compressed bytes. Witnesses (sizeDecompressed, sizeCompressed = len(src)):
// a compressible value, and incompressible values QuickLZ stores verbatim
// behind its 9-byte (3-byte for small inputs) header.
func c10r11(c *Ctx) {
	const R = "C10.R11"
	type wit struct{ d, cz int64 }
	wits := []wit{{1000, 300}, {100000, 20000}, {100000, 100009}, {5000, 5009}, {100, 103}, {300, 309}}
	for _, k := range []string{"quicklz.CDecompressSafe", "quicklz.DecompressSafe"} {
		f := c.fn(R, k)
		if f == nil {
			continue
		}
		info := f.Info()
		dcall := f.CallsTo("quicklz.CDecompress", "quicklz.Decompress")
		if len(dcall) == 0 {
			c.undec(R, f.Key, "decompress call not found")
			continue
		}
		classify := func(e ast.Expr) string {
			e = prog.Unparen(prog.StripConv(info, e))
			if call, ok := e.(*ast.CallExpr); ok {
				switch prog.CalleeKey(info, call) {
				case "builtin.len":
					if len(call.Args) == 1 && prog.ObjOf(info, call.Args[0]) == f.Param(0) {
						return "C"
					}
				case "quicklz.SizeCompressed":
					return "C"
				case "quicklz.SizeDecompressed":
					return "D"
				}
				return ""
			}
			if prog.ObjOf(info, e) == nil {
				return ""
			}
			kind := ""
			for _, s := range f.SourcesAt(e, e) {
				k := ""
				if s.Kind == "call" {
					switch s.Key {
					case "quicklz.SizeCompressed":
						k = "C"
					case "quicklz.SizeDecompressed":
						k = "D"
					}
				}
				if k == "" || (kind != "" && kind != k) {
					return ""
				}
				kind = k
			}
			return kind
		}
		var eval func(e ast.Expr, w wit) (constant.Value, bool)
		eval = func(e ast.Expr, w wit) (constant.Value, bool) {
			e = prog.Unparen(e)
			if tv, ok := info.Types[e]; ok && tv.Value != nil {
				return tv.Value, true
			}
			switch cl := classify(e); cl {
			case "C":
				return constant.MakeInt64(w.cz), true
			case "D":
				return constant.MakeInt64(w.d), true
			}
			switch x := e.(type) {
			case *ast.BinaryExpr:
				a, ok1 := eval(x.X, w)
				b, ok2 := eval(x.Y, w)
				if !ok1 || !ok2 {
					// short-circuit forms stay decidable when one side decides
					if x.Op == token.LOR || x.Op == token.LAND {
						for _, v := range []struct {
							v  constant.Value
							ok bool
						}{{a, ok1}, {b, ok2}} {
							if v.ok && v.v.Kind() == constant.Bool {
								if x.Op == token.LOR && constant.BoolVal(v.v) {
									return constant.MakeBool(true), true
								}
								if x.Op == token.LAND && !constant.BoolVal(v.v) {
									return constant.MakeBool(false), true
								}
							}
						}
					}
					return nil, false
				}
				switch x.Op {
				case token.LAND:
					return constant.MakeBool(constant.BoolVal(a) && constant.BoolVal(b)), true
				case token.LOR:
					return constant.MakeBool(constant.BoolVal(a) || constant.BoolVal(b)), true
				case token.EQL, token.NEQ, token.LSS, token.LEQ, token.GTR, token.GEQ:
					if a.Kind() == constant.Bool || b.Kind() == constant.Bool {
						return nil, false
					}
					return constant.MakeBool(constant.Compare(a, x.Op, b)), true
				case token.ADD, token.SUB, token.MUL:
					return constant.BinaryOp(a, x.Op, b), true
				}
			case *ast.UnaryExpr:
				if x.Op == token.NOT {
					if a, ok := eval(x.X, w); ok && a.Kind() == constant.Bool {
						return constant.MakeBool(!constant.BoolVal(a)), true
					}
				}
			case *ast.CallExpr:
				if tv, ok := info.Types[x.Fun]; ok && tv.IsType() && len(x.Args) == 1 {
					return eval(x.Args[0], w)
				}
			}
			return nil, false
		}
		n := 0
		ast.Inspect(f.Decl.Body, func(x ast.Node) bool {
			if _, isLit := x.(*ast.FuncLit); isLit {
				return false
			}
			is, ok := x.(*ast.IfStmt)
			if !ok || is.Pos() > dcall[0].Expr.Pos() || !f.Terminates(is.Body) {
				return true
			}
			n++
			bad := ""
			for _, w := range wits {
				if v, ok := eval(is.Cond, w); ok && v.Kind() == constant.Bool && constant.BoolVal(v) {
					bad = "sizeDecompressed=" + itoa(int(w.d)) + ", sizeCompressed=len(src)=" + itoa(int(w.cz))
					break
				}
			}
			c.check(bad == "", R, f.Key+": early exit `"+types.ExprString(is.Cond)+"` passes well-formed streams", c.pos(is), "false for every witness header",
				"the safe decompressor gives up on a well-formed stream ("+bad+"; incompressible input is stored behind a 9- or 3-byte header, so its compressed size exceeds its decompressed size): such values are returned to clients still compressed, with the internal flag bit set")
			return true
		})
		if n == 0 {
			c.undec(R, f.Key, "no early exit before the decompress call")
		}
	}
}

// ---------------------------------------------------------------- C11.R12

// c11r12: (a) every strconv.ParseInt/ParseUint in the request parser uses base
// 10 (the memcached protocol is decimal; base 0 reads `010` as 8 and frames
// the body wrongly); (b) the byte count reaches the size predicate, which works
// on 32 bits, only after it is known to fit: a wider parse result narrowed
// first lets 2^32+1 pass for 1.
func c11r12(c *Ctx) {
	const R = "C11.R12"
	f := c.fn(R, "memcache.Request.Read")
	if f == nil {
		return
	}
	info := f.Info()
	for _, call := range f.CallsTo("strconv.ParseInt", "strconv.ParseUint") {
		if len(call.Expr.Args) == 3 {
			v, isC := prog.ConstInt(info, call.Expr.Args[1])
			c.check(isC && v == 10, R, f.Key+": "+short(call.Key)+" base 10", call.Pos(), "decimal", "a numeric field of the command line is not parsed as a decimal number (base "+types.ExprString(call.Expr.Args[1])+"): zero-padded counts are read in another base and the body is framed wrongly")
		}
	}
	allocs := f.CallsTo("cmem.CArray.Alloc")
	if len(allocs) == 0 {
		c.undec(R, f.Key, "body allocation not found")
		return
	}
	al := allocs[0]
	length := prog.ObjOf(info, prog.Unparen(prog.StripConv(info, al.Expr.Args[0])))
	if length == nil {
		c.undec(R, f.Key, "allocation size is not a variable")
		return
	}
	// how wide is the parsed value?
	wide := false
	for _, s := range f.SourcesAt(al.Expr.Args[0], al.Expr) {
		if s.Kind != "call" {
			continue
		}
		switch s.Key {
		case "strconv.Atoi":
			wide = true
		case "strconv.ParseInt", "strconv.ParseUint":
			if len(s.Call.Args) == 3 {
				if b, isC := prog.ConstInt(info, s.Call.Args[2]); !isC || b == 0 || b > 32 {
					wide = true
				}
			}
		}
	}
	okFit := !wide
	if wide {
		// an upper bound on the un-narrowed value must hold at the allocation
		for _, a := range f.GuardsAt(al.Expr) {
			mentions := func(e ast.Expr) bool {
				e = prog.Unparen(prog.StripConv(info, e))
				return prog.ObjOf(info, e) == length
			}
			isBound := func(e ast.Expr) bool {
				if tv, ok := info.Types[e]; ok && tv.Value != nil {
					if v, exact := constant.Uint64Val(constant.ToInt(tv.Value)); exact && v <= 1<<32-1 {
						return true
					}
					return false
				}
				return prog.MentionsField(info, e, "config.MCConfig.BodyMax")
			}
			if prog.AtomCmp(a, token.LEQ, mentions, isBound) || prog.AtomCmp(a, token.LSS, mentions, isBound) {
				okFit = true
			}
		}
	}
	c.check(okFit, R, f.Key+": byte count known to fit 32 bits before it is narrowed for the size check", al.Pos(), "parsed narrow, or bounded on the wide value",
		"the byte count is parsed into a machine-word integer and validated only after a conversion to uint32: `set k 0 0 4294967297` passes as 1, the server allocates 4 GiB and waits for that many bytes (no reply, a request token held)")
}

// ---------------------------------------------------------------- C16.R6

var reCReturn = regexp.MustCompile(`return\s+([^;]*);`)

func c16r6(c *Ctx) {
	const R = "C16.R6"
	pre, path := crcPreamble(c)
	if pre == "" {
		c.undec(R, "store/crc32.go", "cgo preamble with crc32_write not found")
		return
	}
	i := strings.Index(pre, "crc32_write")
	if i < 0 {
		c.undec(R, "crc32_write", "C function not found in the preamble")
		return
	}
	j := strings.Index(pre[i:], "{")
	if j < 0 {
		c.undec(R, "crc32_write", "C function body not found")
		return
	}
	body := pre[i+j:]
	depth, end := 0, -1
	for k, ch := range body {
		if ch == '{' {
			depth++
		} else if ch == '}' {
			depth--
			if depth == 0 {
				end = k
				break
			}
		}
	}
	if end < 0 {
		c.undec(R, "crc32_write", "unbalanced braces in the C function")
		return
	}
	body = body[:end]
	rets := reCReturn.FindAllStringSubmatch(body, -1)
	if len(rets) == 0 {
		c.undec(R, "crc32_write", "no return statement recognised")
		return
	}
	bad := ""
	for _, r := range rets {
		if strings.TrimSpace(r[1]) != "crc" {
			bad = strings.TrimSpace(r[1])
		}
	}
	c.check(bad == "", R, "crc32_write: every return hands back the running register", path, "return crc", "crc32_write has an exit that returns `"+bad+"` instead of the running register: a chunk taking it (e.g. an empty value) resets the checksum of everything hashed before it")
}

// crcPreamble returns the cgo preamble of the file defining crc32_write (the
// original source file: the type-checked syntax is cgo's output).
func crcPreamble(c *Ctx) (string, string) {
	pk := c.P.ByName["store"]
	if pk == nil {
		return "", ""
	}
	for _, g := range pk.GoFiles {
		b, err := os.ReadFile(g)
		if err != nil || !strings.Contains(string(b), "crc32_write") {
			continue
		}
		fs := token.NewFileSet()
		af, err := parser.ParseFile(fs, g, b, parser.ParseComments)
		if err != nil {
			continue
		}
		for _, d := range af.Decls {
			gd, ok := d.(*ast.GenDecl)
			if !ok || gd.Tok != token.IMPORT || gd.Doc == nil {
				continue
			}
			for _, sp := range gd.Specs {
				if is, ok := sp.(*ast.ImportSpec); ok && is.Path.Value == `"C"` {
					if t := gd.Doc.Text(); strings.Contains(t, "crc32_write") {
						rel := g
						if strings.HasPrefix(g, c.P.Dir+"/") {
							rel = g[len(c.P.Dir)+1:]
						}
						return t, rel
					}
				}
			}
		}
	}
	return "", ""
}

// ---------------------------------------------------------------- C17.R9

// c17r9: gcCheckEnd decides whether file `next-1` is old enough by the time
// stamp of the first record of its successor `next` (everything in a file is
// older than the first record of the next one). The chunk whose time stamp is
// read must be the one whose on-disk size was just found positive, and a
// successor with nothing on disk is skipped unconditionally.
func c17r9(c *Ctx) {
	const R = "C17.R9"
	f := c.fn(R, "store.Bucket.gcCheckEnd")
	if f == nil {
		return
	}
	info := f.Info()
	ts := f.CallsTo("store.dataChunk.getFirstRecTs")
	sz := f.CallsTo("store.dataChunk.getDiskFileSize")
	if len(ts) != 1 || len(sz) == 0 {
		c.undec(R, f.Key, "calls of getFirstRecTs / getDiskFileSize not recognised")
		return
	}
	idx := func(call prog.Call) ast.Expr {
		se, ok := prog.Unparen(call.Expr.Fun).(*ast.SelectorExpr)
		if !ok {
			return nil
		}
		ie, ok := prog.Unparen(se.X).(*ast.IndexExpr)
		if !ok {
			return nil
		}
		return prog.Unparen(ie.Index)
	}
	ti, si := idx(ts[0]), idx(sz[0])
	var loopVar types.Object
	for _, a := range f.Enclosing(ts[0].Expr) {
		if fs, ok := a.(*ast.ForStmt); ok && fs.Init != nil {
			if as, ok := fs.Init.(*ast.AssignStmt); ok && len(as.Lhs) == 1 {
				loopVar = prog.ObjOf(info, as.Lhs[0])
			}
		}
	}
	same := ti != nil && si != nil && loopVar != nil && prog.ObjOf(info, ti) == loopVar && prog.ObjOf(info, si) == loopVar
	c.check(same, R, f.Key+": time stamp read from the successor whose disk size was tested", ts[0].Pos(), "chunks[next] in both",
		"the age of a file is no longer taken from the first record of its successor (the chunk passed to getFirstRecTs is not the loop's `next` whose on-disk size was tested): dating a file by one of its own records makes a file that still receives young records collectable")
	// the skip of an empty successor is unconditional
	okSkip := false
	ast.Inspect(f.Decl.Body, func(x ast.Node) bool {
		is, ok := x.(*ast.IfStmt)
		if !ok || len(f.CallsIn(is.Cond, "store.dataChunk.getDiskFileSize")) == 0 {
			return true
		}
		if len(is.Body.List) == 1 {
			if br, ok := is.Body.List[0].(*ast.BranchStmt); ok && br.Tok == token.CONTINUE {
				okSkip = true
			}
		}
		return true
	})
	c.check(okSkip, R, f.Key+": a successor with nothing on disk is skipped", f.Pos(), "if size <= 0 { continue }", "a successor without data on disk is not simply skipped: the age test then runs against a file that cannot date its predecessor")
}

// ---------------------------------------------------------------- C18.R7

// c18r7: AppendRecordGC keeps dataChunk.size >= dataChunk.writingHead: after
// the head advanced, size is raised to it whenever the head passed it. The
// final truncate (endGCWriting) and the in-place rewrite rely on it.
func c18r7(c *Ctx) {
	const R = "C18.R7"
	f := c.fn(R, "store.dataChunk.AppendRecordGC")
	if f == nil {
		return
	}
	info := f.Info()
	isHead := prog.IsField(info, "store.dataChunk.writingHead")
	isSize := prog.IsField(info, "store.dataChunk.size")
	var adv, set *ast.AssignStmt
	ast.Inspect(f.Decl.Body, func(x ast.Node) bool {
		as, ok := x.(*ast.AssignStmt)
		if !ok || len(as.Lhs) != 1 {
			return true
		}
		if isHead(prog.Unparen(as.Lhs[0])) && (as.Tok == token.ADD_ASSIGN || (as.Tok == token.ASSIGN && prog.MentionsField(info, as.Rhs[0], "store.dataChunk.writingHead"))) {
			adv = as
		}
		if isSize(prog.Unparen(as.Lhs[0])) && as.Tok == token.ASSIGN && isHead(prog.Unparen(as.Rhs[0])) {
			set = as
		}
		return true
	})
	if adv == nil || set == nil {
		c.viol(R, f.Key+": size follows the write head", f.Pos(), "AppendRecordGC no longer advances writingHead and raises size to it")
		return
	}
	gs := f.GuardsAt(set)
	ok := len(gs) == 0
	for _, a := range gs {
		h := func(e ast.Expr) bool { return isHead(prog.Unparen(e)) }
		s := func(e ast.Expr) bool { return isSize(prog.Unparen(e)) }
		if prog.AtomCmp(a, token.GEQ, h, s) || prog.AtomCmp(a, token.GTR, h, s) {
			ok = true
		}
	}
	after := f.CFG().Dominates(adv, set) || adv.Pos() < set.Pos()
	c.check(ok && after, R, f.Key+": size = writingHead whenever the advanced head passed it", c.pos(set), "if writingHead >= size { size = writingHead }",
		"the chunk size is not raised whenever the advanced write head passes it (the guard compares something other than the new head with the size): a multi-block record straddling the old end leaves size < writingHead, a later pass truncates too little or too much")
}

// ---------------------------------------------------------------- C13.R14

// c13r14: hintMgr.getItem / getItemCollision walk the chunks from maxChunkID
// downwards. Every function that installs hint items under a chunk id — the
// writer (setItem) and the start-up loader (loadHintsByChunk) — raises
// maxChunkID to that id, otherwise the chunks above it are invisible to the
// lookups that resolve colliding keys.
func c13r14(c *Ctx) {
	const R = "C13.R14"
	for _, k := range []string{"store.hintMgr.setItem", "store.hintMgr.loadHintsByChunk"} {
		f := c.fn(R, k)
		if f == nil {
			continue
		}
		info := f.Info()
		isMax := prog.IsField(info, "store.hintMgr.maxChunkID")
		var chunkParam types.Object
		sig := f.Obj.Type().(*types.Signature)
		for i := 0; i < sig.Params().Len(); i++ {
			if sig.Params().At(i).Name() == "chunkID" {
				chunkParam = sig.Params().At(i)
			}
		}
		ok := false
		var at ast.Node
		ast.Inspect(f.Decl.Body, func(x ast.Node) bool {
			as, isA := x.(*ast.AssignStmt)
			if !isA || len(as.Lhs) != 1 || as.Tok != token.ASSIGN || !isMax(prog.Unparen(as.Lhs[0])) {
				return true
			}
			if chunkParam != nil && prog.ObjOf(info, prog.Unparen(as.Rhs[0])) == chunkParam {
				for _, a := range f.GuardsAt(as) {
					if prog.AtomCmp(a, token.GTR, prog.IsObj(info, chunkParam), func(e ast.Expr) bool { return isMax(prog.Unparen(e)) }) {
						ok, at = true, as
					}
				}
			}
			return true
		})
		pos := f.Pos()
		if at != nil {
			pos = c.pos(at)
		}
		c.check(ok, R, f.Key+": maxChunkID raised to the chunk that received hints", pos, "if chunkID > maxChunkID { maxChunkID = chunkID }",
			"hints are installed under a chunk id without raising hintMgr.maxChunkID to it: getItem/getItemCollision start at maxChunkID, so until the next write the hints of the higher chunks are not searched and a key that shares its hash with a later key reads as a miss after a restart")
	}
	for _, k := range []string{"store.hintMgr.getItem", "store.hintMgr.getItemCollision"} {
		f := c.fn(R, k)
		if f == nil {
			continue
		}
		info := f.Info()
		ok := false
		ast.Inspect(f.Decl.Body, func(x ast.Node) bool {
			if fs, isF := x.(*ast.ForStmt); isF && fs.Init != nil {
				if as, isA := fs.Init.(*ast.AssignStmt); isA && len(as.Rhs) == 1 && prog.IsField(info, "store.hintMgr.maxChunkID")(prog.Unparen(as.Rhs[0])) {
					ok = true
				}
			}
			return true
		})
		c.check(ok, R, f.Key+": walk starts at maxChunkID", f.Pos(), "for i := maxChunkID; …", "the lookup no longer starts at the newest chunk that holds hints")
	}
}
