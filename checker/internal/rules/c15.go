package rules

import (
	"go/ast"
	"go/token"
	"strings"

	"gbcheck/internal/prog"
)

func init() {
	register(&Property{
		ID:      "C15",
		Clause:  "every store-level operation selects its bucket after hashing the key and preparing the key path, and touches the bucket's tree/hints/data only when its state is READY (a not-ready Set releases the payload and stores nothing); the bucket id is folded from the leading TreeDepth digits (most significant first) of a path whose digit i is bits 4·(15−i) of the hash; a bucket is opened with the directory derived from its own id and every file path inside it derives from that home; BucketID and TreeDepth have single writers; listings dispatch on key length ≥ TreeDepth and the upper tree aggregates READY buckets only",
		NotDec:  "the digit arithmetic for all hashes (shape only), the numeric value of listing aggregates",
		Engines: "E2 guards/dominance + E3 value flow + E5 who-may-write/path origins",
		Rules: []Rule{
			{"C15.R1", "q", "READY gate", c15r1},
			{"C15.R2", "q", "hash → prepare → index", c15r2},
			{"C15.R3", "q", "bucket id from the leading digits", c15r3},
			{"C15.R4", "q", "home = path(id); paths derive from home", c15r4},
			{"C15.R5", "q", "single writers of BucketID / TreeDepth", c15r5},
			{"C15.R6", "q", "listing dispatch and READY-only aggregation", c15r6},
			{"C15.R7", "q", "route table decodes every bucket id", c15r7},
			{"C15.R8", "q", "who may mark a bucket as served", c15r8},
			{"C08.R4", "q", "shared: upper tree refreshed from READY buckets, reset on every refresh", c08r4},
			{"C15.R9", "q", "path keys invert ParsePathUint64 for all 16 digits", c15r9},
			{"C15.R10", "q", "tree parameters derived after the number of buckets is final", c15r10},
			{"C15.R11", "q", "served-bucket vector = the route table entry of this server", c15r11},
			{"C15.R12", "q", "bucket directory naming and opening", c15r12},
			{"C15.R13", "q", "hot-loaded bucket READY only after a successful open", c15r13},
			{"C04.L7", "q", "shared: tree node summaries read under the tree lock", c04l7},
		},
	})
}

// bucketUses: in f, every use of the bucket variable obtained from store.buckets[...]
// that touches htree/hints/datas or calls a Bucket method.
func c15r1(c *Ctx) {
	const R = "C15.R1"
	c.Floor(R, 6)
	funcs := []string{"store.HStore.Get", "store.HStore.Set", "store.HStore.Incr", "store.HStore.GetRecordByKeyHash", "store.HStore.ListDir", "store.HStore.GetCollisionsByBucket", "store.HStore.GC", "store.HStore.getBucket"}
	for _, k := range funcs {
		f := c.fn(R, k)
		if f == nil {
			continue
		}
		info := f.Info()
		// bucket variables: locals defined from store.buckets[i]
		var bkts []ast.Expr
		ast.Inspect(f.Decl.Body, func(x ast.Node) bool {
			if as, ok := x.(*ast.AssignStmt); ok && len(as.Lhs) == 1 && len(as.Rhs) == 1 {
				if ix, ok := prog.Unparen(as.Rhs[0]).(*ast.IndexExpr); ok && prog.IsField(info, "store.HStore.buckets")(prog.Unparen(ix.X)) {
					bkts = append(bkts, as.Lhs[0])
				}
			}
			return true
		})
		if len(bkts) == 0 {
			c.undec(R, f.Key, "no bucket selected from store.buckets in this function")
			continue
		}
		bo := prog.ObjOf(info, bkts[0])
		isReady := func(atoms []prog.Atom) bool {
			for _, a := range atoms {
				if prog.AtomCmp(a, token.EQL, func(e ast.Expr) bool {
					return prog.IsField(info, "store.BucketStat.State")(e) && prog.RootObj(info, e) == bo
				}, prog.IsConstNamed(info, "store.BUCKET_STAT_READY")) {
					return true
				}
			}
			return false
		}
		n, bad := 0, ""
		ast.Inspect(f.Decl.Body, func(x ast.Node) bool {
			switch s := x.(type) {
			case *ast.CallExpr:
				// method call on the bucket, or bucket passed on (e.g. to gcMgr.gc)
				if se, ok := prog.Unparen(s.Fun).(*ast.SelectorExpr); ok && prog.ObjOf(info, se.X) == bo {
					if k := prog.CalleeKey(info, s); strings.HasPrefix(k, "store.Bucket.") {
						n++
						if !isReady(f.GuardsAt(s)) {
							bad = c.pos(s)
						}
					}
				}
				for _, a := range s.Args {
					if prog.ObjOf(info, a) == bo && prog.CalleeKey(info, s) != "sync/atomic.AddInt64" {
						n++
						if !isReady(f.GuardsAt(s)) {
							bad = c.pos(s)
						}
					}
				}
			case *ast.SelectorExpr:
				if prog.ObjOf(info, s.X) == bo {
					switch k, _ := prog.FieldOf(info, s); k {
					case "store.Bucket.htree", "store.Bucket.hints", "store.Bucket.datas":
						n++
						if !isReady(f.GuardsAt(s)) {
							bad = c.pos(s)
						}
					}
				}
			case *ast.ReturnStmt:
				// handing the bucket out (getBucket)
				for _, r := range s.Results {
					if prog.ObjOf(info, r) == bo {
						n++
						if !isReady(f.GuardsAt(s)) {
							bad = c.pos(s)
						}
					}
				}
			}
			return true
		})
		if n == 0 {
			c.undec(R, f.Key, "no use of the selected bucket recognised")
			continue
		}
		c.check(bad == "", R, f.Key+": bucket used only when State == READY", f.Pos(), itoa(n)+" uses, all gated", "the selected bucket's tree/hints/data are used without checking State == BUCKET_STAT_READY ("+bad+"): a server that does not serve that bucket would store or answer for the key (or dereference nil)")
	}
	// Set: the not-ready branch releases the payload and stores nothing
	if f := c.fn(R, "store.HStore.Set"); f != nil {
		info := f.Info()
		okRel := false
		ast.Inspect(f.Decl.Body, func(x ast.Node) bool {
			if is, ok := x.(*ast.IfStmt); ok && prog.MentionsField(info, is.Cond, "store.BucketStat.State") {
				if be, ok := prog.Unparen(is.Cond).(*ast.BinaryExpr); ok && be.Op == token.NEQ && f.Terminates(is.Body) {
					if len(f.CallsIn(is.Body, "cmem.CArray.Free")) > 0 && len(f.CallsIn(is.Body, "cmem.ResourceLimiter.SubSizeAndCount")) > 0 && len(f.CallsIn(is.Body, "store.Bucket.checkAndSet")) == 0 {
						okRel = true
					}
				}
			}
			return true
		})
		c.check(okRel, R, f.Key+": not-ready branch releases the payload and stores nothing", f.Pos(), "SubSizeAndCount + Free, no checkAndSet", "the not-ready branch of HStore.Set no longer releases the payload (or stores)")
	}
	c15r1b(c)
}

func c15r2(c *Ctx) {
	const R = "C15.R2"
	for _, k := range []string{"store.HStore.Get", "store.HStore.Set", "store.HStore.Incr"} {
		f := c.fn(R, k)
		if f == nil {
			continue
		}
		info := f.Info()
		ki := f.Param(0)
		var hashStore *ast.AssignStmt
		ast.Inspect(f.Decl.Body, func(x ast.Node) bool {
			if as, ok := x.(*ast.AssignStmt); ok && len(as.Lhs) == 1 && prog.IsField(info, "store.KeyInfo.KeyHash")(as.Lhs[0]) && prog.RootObj(info, as.Lhs[0]) == ki {
				hashStore = as
			}
			return true
		})
		preps := f.CallsTo("store.KeyInfo.Prepare")
		var index *ast.IndexExpr
		ast.Inspect(f.Decl.Body, func(x ast.Node) bool {
			if ix, ok := x.(*ast.IndexExpr); ok && prog.IsField(info, "store.HStore.buckets")(prog.Unparen(ix.X)) {
				index = ix
			}
			return true
		})
		if hashStore == nil || len(preps) == 0 || index == nil {
			c.viol(R, f.Key+": hash ≺ Prepare ≺ buckets[BucketID]", f.Pos(), "the function no longer computes the key hash, prepares the key path and then selects the bucket")
			continue
		}
		call, isCall := prog.Unparen(hashStore.Rhs[0]).(*ast.CallExpr)
		okHash := isCall && prog.CalleeKey(info, call) == "var:store.getKeyHash" && len(call.Args) == 1 && prog.IsField(info, "store.KeyInfo.Key")(call.Args[0]) && prog.RootObj(info, call.Args[0]) == ki
		c.check(okHash, R, f.Key+": KeyHash = getKeyHash(ki.Key)", c.pos(hashStore), "hash of the requested key", "the key hash is not computed by getKeyHash from the requested key")
		cfg := f.CFG()
		c.Paths += 2
		okIdx := prog.IsField(info, "store.KeyPos.BucketID")(prog.Unparen(index.Index)) && prog.RootObj(info, index.Index) == ki
		c.check(cfg.Dominates(hashStore, preps[0].Expr) && cfg.Dominates(preps[0].Expr, index) && okIdx, R, f.Key+": hash ≺ Prepare ≺ buckets[ki.BucketID]", preps[0].Pos(), "ordered",
			"the bucket is selected before the key path was prepared from the freshly computed hash (or not by ki.BucketID): the key is routed by a stale/zero hash")
	}
}

func c15r3(c *Ctx) {
	const R = "C15.R3"
	if f := c.fn(R, "store.KeyInfo.Prepare"); f != nil {
		info := f.Info()
		// range over KeyPath[:Conf.TreeDepth]; BucketID <<= 4; BucketID += v
		// the loop: `for _, v := range KeyPath[:TreeDepth]`, or the indexed spelling
		// `for i := 0; i < len(KeyPath[:TreeDepth]) (or < TreeDepth); i++` reading KeyPath[…][i]
		var rng ast.Node
		var loopBody *ast.BlockStmt
		isDigit := func(e ast.Expr) bool { return false }
		isPrefix := func(e ast.Expr) bool {
			se, ok := prog.Unparen(e).(*ast.SliceExpr)
			return ok && prog.IsField(info, "store.KeyPos.KeyPath")(prog.Unparen(se.X)) && se.Low == nil && se.High != nil && prog.MentionsField(info, se.High, "store.HtreeDerivedConfig.TreeDepth")
		}
		ast.Inspect(f.Decl.Body, func(x ast.Node) bool {
			switch r := x.(type) {
			case *ast.RangeStmt:
				if isPrefix(r.X) && r.Value != nil {
					rng, loopBody = r, r.Body
					vObj := prog.ObjOf(info, r.Value)
					isDigit = func(e ast.Expr) bool { return vObj != nil && prog.ObjOf(info, prog.Unparen(e)) == vObj }
				}
			case *ast.ForStmt:
				as, okI := r.Init.(*ast.AssignStmt)
				be, okC := prog.Unparen(r.Cond).(*ast.BinaryExpr)
				if r.Init == nil || r.Cond == nil || r.Post == nil || !okI || !okC || len(as.Lhs) != 1 || len(as.Rhs) != 1 {
					return true
				}
				iObj := prog.ObjOf(info, as.Lhs[0])
				if v, isC := prog.ConstInt(info, as.Rhs[0]); !isC || v != 0 || iObj == nil {
					return true
				}
				if px, ptok, okP := prog.IncDecOf(info, r.Post); !okP || ptok != token.INC || prog.ObjOf(info, px) != iObj {
					return true
				}
				if be.Op != token.LSS || prog.ObjOf(info, prog.Unparen(be.X)) != iObj {
					return true
				}
				bound := prog.Unparen(prog.StripConv(info, be.Y))
				okBound := prog.IsField(info, "store.HtreeDerivedConfig.TreeDepth")(bound)
				if ce, isCall := bound.(*ast.CallExpr); isCall && prog.CalleeKey(info, ce) == "builtin.len" && len(ce.Args) == 1 {
					if isPrefix(ce.Args[0]) {
						okBound = true
					} else if srcs := f.SourcesAt(ce.Args[0], r); len(srcs) > 0 {
						okBound = true
						for _, src := range srcs {
							if src.Expr == nil || !isPrefix(src.Expr) {
								okBound = false
							}
						}
					}
				}
				if !okBound {
					return true
				}
				rng, loopBody = r, r.Body
				isDigit = func(e ast.Expr) bool {
					ie, ok := prog.Unparen(e).(*ast.IndexExpr)
					if !ok || prog.ObjOf(info, prog.Unparen(ie.Index)) != iObj {
						return false
					}
					b := prog.Unparen(ie.X)
					if isPrefix(b) || prog.IsField(info, "store.KeyPos.KeyPath")(b) {
						return true
					}
					for _, src := range f.SourcesAt(b, ie) {
						if src.Expr == nil || !(isPrefix(src.Expr) || prog.IsField(info, "store.KeyPos.KeyPath")(prog.Unparen(src.Expr))) {
							return false
						}
					}
					return len(f.SourcesAt(b, ie)) > 0
				}
			}
			return true
		})
		if rng == nil {
			c.viol(R, f.Key+": BucketID folded from KeyPath[:TreeDepth]", f.Pos(), "the bucket id is no longer computed from the leading TreeDepth digits of the key path")
		} else {
			shl, add := false, false
			order := true
			var shlPos, addPos ast.Node
			ast.Inspect(loopBody, func(x ast.Node) bool {
				if as, ok := x.(*ast.AssignStmt); ok && len(as.Lhs) == 1 && prog.IsField(info, "store.KeyPos.BucketID")(as.Lhs[0]) {
					switch as.Tok {
					case token.SHL_ASSIGN:
						if v, isC := prog.ConstInt(info, as.Rhs[0]); isC && v == 4 {
							shl, shlPos = true, as
						}
					case token.ADD_ASSIGN, token.OR_ASSIGN:
						if isDigit(as.Rhs[0]) {
							add, addPos = true, as
						}
					case token.ASSIGN:
						// BucketID = BucketID<<4 + v  or  BucketID*16 + v
						s := prog.Unparen(as.Rhs[0])
						if be, ok := s.(*ast.BinaryExpr); ok && (be.Op == token.ADD || be.Op == token.OR) && (isDigit(be.X) || isDigit(be.Y)) {
							shl, add, shlPos, addPos = true, true, as, as
						}
					}
				}
				return true
			})
			if shlPos != nil && addPos != nil && shlPos.Pos() > addPos.Pos() {
				order = false
			}
			c.check(shl && add && order, R, f.Key+": id = id<<4 + digit, most significant digit first", c.pos(rng), "shift then add over KeyPath[:TreeDepth]", "the bucket id is not folded as id<<4 + digit over the leading digits (shift="+boolStr(shl)+" add="+boolStr(add)+" shift-before-add="+boolStr(order)+")")
		}
		// non-path keys take their path from the hash
		okU := false
		for _, call := range f.CallsTo("store.ParsePathUint64") {
			if prog.IsField(info, "store.KeyInfo.KeyHash")(prog.Unparen(call.Expr.Args[0])) {
				okU = true
			}
		}
		c.check(okU, R, f.Key+": key path from the key hash", f.Pos(), "ParsePathUint64(ki.KeyHash, …)", "for ordinary keys the path is not derived from ki.KeyHash")
	}
	if f := c.fn(R, "store.ParsePathUint64"); f != nil {
		info := f.Info()
		// shift = 4*(15-i); idx = (khash >> shift) & 0xf
		ok15, ok4, okMask := false, false, false
		ast.Inspect(f.Decl.Body, func(x ast.Node) bool {
			if be, ok := x.(*ast.BinaryExpr); ok {
				switch be.Op {
				case token.SUB:
					if v, isC := prog.ConstInt(info, be.X); isC && v == 15 {
						ok15 = true
					}
				case token.MUL:
					if v, isC := prog.ConstInt(info, be.X); isC && v == 4 {
						ok4 = true
					}
					if v, isC := prog.ConstInt(info, be.Y); isC && v == 4 {
						ok4 = true
					}
				case token.AND:
					if v, isC := prog.ConstInt(info, be.Y); isC && v == 0xf {
						okMask = true
					}
				}
			}
			return true
		})
		loop16 := false
		ast.Inspect(f.Decl.Body, func(x ast.Node) bool {
			if fs, ok := x.(*ast.ForStmt); ok && fs.Cond != nil {
				if be, ok := prog.Unparen(fs.Cond).(*ast.BinaryExpr); ok && be.Op == token.LSS {
					if v, isC := prog.ConstInt(info, be.Y); isC && v == 16 {
						loop16 = true
					}
				}
			}
			return true
		})
		c.check(ok15 && ok4 && okMask && loop16, R, f.Key+": digit i = (hash >> 4·(15−i)) & 0xf for i < 16", f.Pos(), "most significant nibble first", "the key path digits are not the 16 nibbles of the hash, most significant first")
	}
}

func c15r4(c *Ctx) {
	const R = "C15.R4"
	n := 0
	for _, call := range c.P.CallersOf("store.Bucket.open") {
		f := call.Fn
		info := f.Info()
		c.Funcs[f.Key] = true
		n++
		idArg := call.Expr.Args[0]
		ok := false
		if h, isCall := prog.Unparen(call.Expr.Args[1]).(*ast.CallExpr); isCall && prog.CalleeKey(info, h) == "store.GetBucketPath" && len(h.Args) == 1 && prog.SameExpr(info, h.Args[0], idArg) {
			ok = true
		}
		// the receiver is buckets[id]
		okRecv := false
		if se, isSel := prog.Unparen(call.Expr.Fun).(*ast.SelectorExpr); isSel {
			for _, s := range f.SourcesAt(se.X, call.Expr) {
				if ix, isIx := prog.Unparen(s.Expr).(*ast.IndexExpr); isIx && prog.SameExpr(info, ix.Index, idArg) {
					okRecv = true
				}
			}
			if ix, isIx := prog.Unparen(se.X).(*ast.IndexExpr); isIx && prog.SameExpr(info, ix.Index, idArg) {
				okRecv = true
			}
		}
		c.check(ok && okRecv, R, f.Key+": buckets[id].open(id, GetBucketPath(id))", call.Pos(), "same id three times", "a bucket is opened with a directory (or slot) that belongs to another bucket id: its records are written into the wrong directory")
	}
	if n == 0 {
		c.undec(R, "store.Bucket.open", "no caller found")
	}
	// every path-building function of package store derives from the home it was given
	for _, pr := range [][2]string{{"store.genDataPath", "0"}, {"store.getIndexPath", "0"}} {
		if f := c.fn(R, pr[0]); f != nil {
			info := f.Info()
			ok := false
			for _, call := range f.CallsTo("fmt.Sprintf") {
				if s, isC := prog.ConstString(info, call.Expr.Args[0]); isC && strings.HasPrefix(s, "%s/") && prog.ObjOf(info, call.Expr.Args[1]) == f.Param(0) {
					ok = true
				}
			}
			c.check(ok, R, f.Key+": path = home + \"/\" + name", f.Pos(), "home is the first component", "file names are no longer formed under the home directory argument")
		}
	}
	homeOf := map[string]string{"store.NewdataStore": "store.dataStore.home", "store.newHintMgr": "store.hintMgr.home"}
	for ctor, fld := range homeOf {
		f := c.fn(R, ctor)
		if f == nil {
			continue
		}
		info := f.Info()
		ok := false
		ast.Inspect(f.Decl.Body, func(x ast.Node) bool {
			switch s := x.(type) {
			case *ast.AssignStmt:
				if len(s.Lhs) == 1 && prog.IsField(info, fld)(s.Lhs[0]) && prog.ObjOf(info, s.Rhs[0]) == f.Param(1) {
					ok = true
				}
			case *ast.KeyValueExpr:
				if id, isId := s.Key.(*ast.Ident); isId && id.Name == "home" && prog.ObjOf(info, s.Value) == f.Param(1) {
					ok = true
				}
			}
			return true
		})
		c.check(ok, R, f.Key+": remembers the home it was given", f.Pos(), fld+" = home", "the constructor does not store the bucket's own home directory")
	}
	if f := c.fn(R, "store.Bucket.open"); f != nil {
		info := f.Info()
		okH := true
		for _, call := range f.CallsTo("store.NewdataStore", "store.newHintMgr") {
			if !(prog.ObjOf(info, call.Expr.Args[1]) == f.Param(1) && prog.ObjOf(info, call.Expr.Args[0]) == f.Param(0)) {
				okH = false
			}
		}
		c.check(okH && len(f.CallsTo("store.NewdataStore", "store.newHintMgr")) == 2, R, f.Key+": data store and hint manager created with (bucketID, home)", f.Pos(), "arguments forwarded", "Bucket.open creates its data store / hint manager with another id or directory")
	}
}

func c15r5(c *Ctx) {
	const R = "C15.R5"
	ws := fieldWriters(c, "store.KeyPos.BucketID", "store.HtreeDerivedConfig.TreeDepth")
	w := ws["store.KeyPos.BucketID"]
	c.check(len(w) == 1 && w[0] == "store.KeyInfo.Prepare", R, "who-may-write KeyPos.BucketID", "-", "only KeyInfo.Prepare", "KeyPos.BucketID is written by "+strings.Join(w, ",")+" (expected only KeyInfo.Prepare)")
	w = ws["store.HtreeDerivedConfig.TreeDepth"]
	c.check(len(w) == 1 && w[0] == "store.HStoreConfig.InitTree", R, "who-may-write TreeDepth", "-", "only InitTree", "TreeDepth is written by "+strings.Join(w, ",")+" (expected only InitTree)")
	if f := c.fn(R, "store.HStoreConfig.InitTree"); f != nil {
		info := f.Info()
		// TreeDepth counts divisions of NumBucket by 16
		ok16 := false
		ast.Inspect(f.Decl.Body, func(x ast.Node) bool {
			if as, ok := x.(*ast.AssignStmt); ok && as.Tok == token.QUO_ASSIGN {
				if v, isC := prog.ConstInt(info, as.Rhs[0]); isC && v == 16 {
					ok16 = true
				}
			}
			return true
		})
		c.check(ok16 && prog.MentionsField(info, f.Decl.Body, "config.DBRouteConfig.NumBucket"), R, f.Key+": TreeDepth = log16(NumBucket)", f.Pos(), "n /= 16 loop", "TreeDepth is no longer derived as log16 of the bucket count")
	}
}

func c15r6(c *Ctx) {
	const R = "C15.R6"
	if f := c.fn(R, "store.HStore.ListDir"); f != nil {
		info := f.Info()
		lu := f.CallsTo("store.HStore.ListUpper")
		lb := f.CallsTo("store.Bucket.listDir")
		okB, okU := false, false
		isLen := func(e ast.Expr) bool {
			call, ok := prog.Unparen(e).(*ast.CallExpr)
			return ok && prog.CalleeKey(info, call) == "builtin.len" && (prog.MentionsField(info, call, "store.KeyInfo.Key") || prog.MentionsField(info, call, "store.KeyPos.KeyPath") || prog.MentionsField(info, call, "store.KeyInfo.StringKey"))
		}
		isDepth := prog.IsField(info, "store.HtreeDerivedConfig.TreeDepth")
		for _, b := range lb {
			for _, a := range f.GuardsAt(b.Expr) {
				if prog.AtomCmp(a, token.GEQ, isLen, isDepth) {
					okB = true
				}
			}
		}
		for _, u := range lu {
			for _, a := range f.GuardsAt(u.Expr) {
				if prog.AtomCmp(a, token.LSS, isLen, isDepth) {
					okU = true
				}
			}
		}
		c.check(okB && okU, R, f.Key+": len(key) >= TreeDepth → bucket, else upper tree", f.Pos(), "dispatch recognised", "directory listings are not dispatched on `prefix length >= bucket depth`: prefixes at bucket level are answered by the wrong tree")
		// Prepare error ⇒ empty listing
		pr := f.CallsTo("store.KeyInfo.Prepare")
		okP := false
		if len(pr) > 0 {
			if e := f.ResultObj(pr[0].Expr, 0); e != nil {
				for _, b := range append(lb, lu...) {
					if prog.HasNilFact(info, f.GuardsAt(b.Expr), prog.IsObj(info, e), true) {
						okP = true
					}
				}
			}
		}
		c.check(okP, R, f.Key+": malformed path ⇒ no listing", f.Pos(), "Prepare error tested", "a malformed directory key is listed although KeyInfo.Prepare failed")
	}
	// READY-only aggregation is C08.R4's updateNodesUpper obligation; restate the bucket index
	if f := c.fn(R, "store.HStore.updateNodesUpper"); f != nil {
		info := f.Info()
		ok := false
		ast.Inspect(f.Decl.Body, func(x ast.Node) bool {
			if ix, isIx := x.(*ast.IndexExpr); isIx && prog.IsField(info, "store.HStore.buckets")(prog.Unparen(ix.X)) && prog.ObjOf(info, ix.Index) == f.Param(1) {
				ok = true
			}
			return true
		})
		gate := false
		for _, u := range f.CallsTo("store.HTree.Update") {
			for _, a := range f.GuardsAt(u.Expr) {
				if prog.AtomCmp(a, token.EQL, prog.IsField(info, "store.BucketStat.State"), prog.IsConstNamed(info, "store.BUCKET_STAT_READY")) {
					gate = true
				}
			}
		}
		c.check(ok && gate, R, f.Key+": leaf i of the upper tree = root of READY bucket i", f.Pos(), "buckets[offset], READY only", "the upper tree's leaf is not taken from the READY bucket with the same index")
	}
}

// c15r7: bucket ids in the route table are hex numbers up to ff.
func c15r7(c *Ctx) {
	const R = "C15.R7"
	f := c.fn(R, "config.Server.Decode")
	if f == nil {
		return
	}
	info := f.Info()
	n := 0
	for _, call := range f.CallsTo("strconv.ParseInt", "strconv.ParseUint") {
		if len(call.Expr.Args) != 3 {
			continue
		}
		n++
		base, _ := prog.ConstInt(info, call.Expr.Args[1])
		bits, _ := prog.ConstInt(info, call.Expr.Args[2])
		need := int64(9) // signed: 0..255 needs 9 bits
		if call.Key == "strconv.ParseUint" {
			need = 8
		}
		c.check(base == 16 && (bits == 0 || bits >= need), R, f.Key+": bucket ids parsed as hex wide enough for 00..ff", call.Pos(), "base 16, bitSize "+itoa(int(bits)),
			"bucket ids are parsed with base "+itoa(int(base))+" / bitSize "+itoa(int(bits))+": ids from 0x80 (resp. 0x100) up fail to parse, Decode returns early and the failing and all later buckets of that server stay unserved (their keys miss, and keys of bucket 0 are stored instead)")
	}
	if n == 0 {
		c.undec(R, f.Key, "no ParseInt/ParseUint call found")
	}
}

// c15r8: the served set (BucketsStat) is written only when loading the route
// table and by the hot-reload; discovering directories on disk must not mark a bucket as served.
func c15r8(c *Ctx) {
	const R = "C15.R8"
	allowed := map[string]string{
		"store.HStore.ChangeRoute":           "hot reload of the route table",
		"config.RouteTable.GetDBRouteConfig": "route table → per-server config",
	}
	n := 0
	for _, f := range c.P.SortedFuncs() {
		info := f.Info()
		ast.Inspect(f.Decl.Body, func(x ast.Node) bool {
			as, ok := x.(*ast.AssignStmt)
			if !ok {
				return true
			}
			for _, l := range as.Lhs {
				e := prog.Unparen(l)
				if ix, isI := e.(*ast.IndexExpr); isI {
					e = prog.Unparen(ix.X)
				}
				if k, _ := prog.FieldOf(info, e); k == "config.DBRouteConfig.BucketsStat" {
					n++
					c.Funcs[f.Key] = true
					_, ok := allowed[f.Key]
					// make() of the slice itself in config code is fine
					if f.Pkg.Name == "config" {
						ok = true
					}
					c.check(ok, R, f.Key+": writes the served-bucket table", c.pos(as), "route loading / ChangeRoute", f.Key+" writes Conf.BucketsStat: the set of buckets this server serves must come from the route table only — marking a bucket whose directory merely exists on disk makes NewHStore open and serve a bucket that belongs to another server")
				}
			}
			return true
		})
	}
	if n == 0 {
		c.undec(R, "config.DBRouteConfig.BucketsStat", "no writer found")
	}
	// NewHStore serves exactly the buckets with BucketsStat > 0
	if f := c.fn(R, "store.NewHStore"); f != nil {
		info := f.Info()
		ok := false
		ast.Inspect(f.Decl.Body, func(x ast.Node) bool {
			if as, isA := x.(*ast.AssignStmt); isA && len(as.Lhs) == 1 && prog.IsField(info, "store.BucketStat.State")(as.Lhs[0]) && prog.ConstObjName(info, as.Rhs[0]) == "store.BUCKET_STAT_READY" {
				for _, a := range f.GuardsAt(as) {
					if a.Op == token.ILLEGAL && !a.Neg {
						for _, s := range f.SourcesAt(a.X, as) {
							if s.Expr != nil && prog.MentionsField(info, s.Expr, "config.DBRouteConfig.BucketsStat") {
								ok = true
							}
						}
					}
				}
			}
			return true
		})
		c.check(ok, R, f.Key+": READY only for buckets the route table assigns", f.Pos(), "State = READY under BucketsStat[i] > 0", "NewHStore marks buckets READY independently of the route table")
	}
}
