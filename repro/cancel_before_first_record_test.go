package store

import (
	"os"
	"testing"
	"time"

	"github.com/douban/gobeansdb/cmem"
)

// F-C05-2: GC cancelled before the first record of an in-place rewritten file was
// scanned removed that file. Fails before repair 8839f2a, passes after it.
func testCancelBeforeFirstRecord(t *testing.T, store *HStore, bucketID, numRecPerFile int) {
	gen := newKVGen(16)
	var ki KeyInfo
	N := numRecPerFile / 2
	for i := 0; i < N; i++ {
		payload := gen.gen(&ki, i, 0)
		cmem.DBRL.SetData.AddSizeAndCount(payload.CArray.Cap)
		if err := store.Set(&ki, payload); err != nil {
			t.Fatal(err)
		}
	}
	store.flushdatas(true)
	for i := N; i < 3*N; i++ { // rotate into 001
		payload := gen.gen(&ki, i, 0)
		cmem.DBRL.SetData.AddSizeAndCount(payload.CArray.Cap)
		store.Set(&ki, payload)
	}
	store.flushdatas(true)
	bkt := store.buckets[bucketID]
	SecsBeforeDump = 1
	if _, _, err := store.GC(bucketID, 0, 0, 0, true, false); err != nil {
		t.Fatal(err)
	}
	time.Sleep(500 * time.Millisecond)
	store.CancelGC(bucketID)
	for store.IsGCRunning() {
		time.Sleep(100 * time.Millisecond)
	}
	if _, e := os.Stat(bkt.Home + "/000.data"); e != nil {
		t.Fatalf("000.data after cancelled GC: %v (all %d live records of file 0 are gone)", e, N)
	}
	for i := 0; i < N; i++ {
		gen.gen(&ki, i, 0)
		p, _, err := store.Get(&ki, false)
		if err != nil || p == nil {
			t.Fatalf("key %d unreadable after cancelled GC: %v", i, err)
		}
		cmem.DBRL.GetData.SubSizeAndCount(p.CArray.Cap)
		p.CArray.Free()
	}
}

func TestZZCancelBeforeFirstRecord(t *testing.T) {
	testGC(t, testCancelBeforeFirstRecord, "cancelfirst", 10)
}
