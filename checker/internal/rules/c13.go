package rules

import (
	"go/ast"
	"go/token"
	"strings"

	"gbcheck/internal/prog"
)

func init() {
	register(&Property{
		ID:      "C13",
		Clause:  "the mechanisms that separate colliding keys are wired on every path: the collision table is consulted (with the requested hash and key) before the tree, the key is compared before a record is returned, both keys are registered on a mismatch, GC consults table/hint buffers before dropping a record the tree does not point at and keeps what it cannot decide, writes refresh the table with the full position, the table is persisted on close and after a merge and loaded before replay, merge reports every same-hash group; production code never replaces the hash function; results of lookups that may be nil on success are nil-tested before use",
		NotDec:  "that these mechanisms suffice (e.g. a tree slot overwritten by the other key's tombstone is survivable only through the table), independence of colliding keys' values",
		Engines: "E2 guards/dominance + E3 value flow + E5 who-may-write",
		Rules: []Rule{
			{"C13.R1", "q", "table before tree", c13r1},
			{"C01.R3", "q", "shared: key gate and hint lookup with the requested key", c01r3},
			{"C13.R2", "q", "both keys registered before the second fetch", c13r2},
			{"C13.R3", "q", "GC consults table/hints before dropping", c13r3},
			{"C13.R3b", "q", "getCollisionGC reports the chunk of the table item", c13r3b},
			{"C13.R4", "q", "writes refresh the table with the full position", c13r4},
			{"C13.R5", "q", "table persisted and loaded", c13r5},
			{"C13.R6", "q", "merge reports same-hash groups", c13r6},
			{"C13.R7", "q", "hash function never replaced", c13r7},
			{"C13.R8", "q", "nil-result discipline of the lookups", c13r8},
			{"C13.R9", "q", "hint buffer reports a foreign owner of the hash as a collision", c13r9},
			{"C13.R10", "q", "collision table reports `hash known` independently of the key", c13r10},
			{"C13.R6b", "q", "merge flushes its last group on every path", c13r6b},
			{"C14.R4", "q", "shared: hint file order and index search (lookup of colliding keys goes through it)", c14r4},
			{"C18.R2", "q", "shared: keep table (collision entries)", c18r2},
			{"C14.R10", "q", "shared: hint lookups are newest-first", c14r10},
			{"C14.R11", "q", "shared: an item is never dropped when a split is full", c14r11},
			{"C13.R11", "q", "collision table persistence: dump/load pair and serialised fields", c13r11},
			{"C13.R12", "q", "collision table replacement rule (new key, GC move, not-lower position)", c13r12},
			{"C14.R15", "q", "shared: merge heap interface", c14r15},
			{"C13.R13", "q", "a failed hint lookup ends the search with its error", c13r13},
			{"C14.R17", "q", "shared: collision table compare-and-set is one critical section", c14r17},
			{"C14.R14", "q", "shared: split dump discipline", c14r14},
		},
	})
}

func c13r1(c *Ctx) {
	const R = "C13.R1"
	f := c.fn(R, kBucketGet)
	if f == nil {
		return
	}
	info := f.Info()
	ki := f.Param(0)
	tb := f.CallsTo("store.CollisionTable.get")
	tr := f.CallsTo("store.HTree.get")
	if len(tb) == 0 {
		c.viol(R, f.Key+": collision table consulted first", f.Pos(), "Bucket.get no longer consults the collision table: a key whose tree slot belongs to a colliding key is never found")
		return
	}
	if len(tr) == 0 {
		c.undec(R, f.Key, "tree lookup not found")
		return
	}
	t := tb[0]
	k0, _ := prog.FieldOf(info, t.Expr.Args[0])
	k1, _ := prog.FieldOf(info, t.Expr.Args[1])
	okArgs := k0 == "store.KeyInfo.KeyHash" && k1 == "store.KeyInfo.StringKey" && prog.RootObj(info, t.Expr.Args[0]) == ki && prog.RootObj(info, t.Expr.Args[1]) == ki
	c.check(okArgs, R, f.Key+": table looked up with the requested hash and key", t.Pos(), "get(ki.KeyHash, ki.StringKey)", "the collision table is not looked up with the requested key's hash and string")
	c.Paths++
	item := f.ResultObj(t.Expr, 0)
	c.check(f.CFG().Dominates(t.Expr, tr[0].Expr) && item != nil && prog.HasNilFact(info, f.GuardsAt(tr[0].Expr), prog.IsObj(info, item), true), R, f.Key+": tree consulted only when the table misses", tr[0].Pos(), "table ≺ tree, tree under item == nil",
		"the tree slot is consulted before (or regardless of) the collision table: for a colliding key the slot holds the other key's position")
}

func c13r2(c *Ctx) {
	const R = "C13.R2"
	f := c.fn(R, kBucketGet)
	if f == nil {
		return
	}
	cas := f.CallsTo("store.CollisionTable.compareAndSet")
	fetches := f.CallsTo("store.dataStore.GetRecordByPos")
	if len(fetches) < 2 {
		c.undec(R, f.Key, "second fetch not recognised")
		return
	}
	second := fetches[len(fetches)-1]
	n := 0
	for _, ca := range cas {
		c.Paths++
		if f.CFG().Dominates(ca.Expr, second.Expr) {
			n++
		}
	}
	c.check(n >= 2, R, f.Key+": both colliding keys registered before the second fetch", second.Pos(), itoa(n)+" compareAndSet calls dominate it", "on a same-hash/different-key read only "+itoa(n)+" of the two keys is registered in the collision table before the wanted record is fetched: the next read (and GC) cannot tell the keys apart")
}

func c13r3(c *Ctx) {
	const R = "C13.R3"
	m := buildGCModel(c, R)
	if m == nil {
		return
	}
	f := m.f
	if m.collGet == nil {
		c.viol(R, f.Key+": getCollisionGC consulted", f.Pos(), "gc no longer asks the collision table / hint buffers (getCollisionGC) before deciding on a record the tree does not point at: the non-slot-holding key of a colliding pair is dropped")
		return
	}
	info := f.Info()
	// called on the path found ∧ scanned != tree, with the scanned record's key info
	g := f.GuardsAt(m.collGet.Expr)
	okPath := prog.HasBoolFact(g, prog.IsObj(info, m.found), true)
	c.check(okPath, R, f.Key+": getCollisionGC on the found ∧ position-differs path", m.collGet.Pos(), "guarded by found", "getCollisionGC is not consulted on the path where the tree knows the hash but points elsewhere")
	// the keep table's collision entries exist
	hasB, hasC := false, false
	for _, s := range m.stores {
		if !s.value || len(s.unk) > 0 {
			continue
		}
		switch s.signature() {
		case "coveredByCollision ∧ found ∧ item!=nil ∧ scanned!=tree ∧ scanned==collisionItem":
			hasB = true
		case "coveredByCollision ∧ found ∧ item==nil ∧ scanned!=tree":
			hasC = true
		}
	}
	c.check(hasB, R, f.Key+": record kept when the collision item points at it", f.Pos(), "keep-table entry (b)", "a record that the collision table / hint buffer marks as current for its key is not kept")
	c.check(hasC, R, f.Key+": record kept when the hash collides but the item is unknown", f.Pos(), "keep-table entry (c)", "when the hash is known to collide but this key's item is unknown, gc no longer keeps the record (guess): a colliding key's only copy can be dropped")
	// argument is the scanned record's key
	okArg := false
	for _, s := range f.SourcesAt(m.collGet.Expr.Args[0], m.collGet.Expr) {
		if s.Kind == "call" && s.Key == "store.NewKeyInfoFromBytes" && prog.Mentions(info, s.Call, m.rec) {
			okArg = true
		}
	}
	c.check(okArg, R, f.Key+": consulted for the scanned record's key", m.collGet.Pos(), "ki from rec.Key", "getCollisionGC is not called with the key of the scanned record")
}

func c13r4(c *Ctx) {
	const R = "C13.R4"
	f := c.fn(R, kHintSet)
	if f == nil {
		return
	}
	info := f.Info()
	gets := f.CallsTo("store.CollisionTable.get")
	cas := f.CallsTo("store.CollisionTable.compareAndSet")
	if len(gets) == 0 || len(cas) == 0 {
		c.viol(R, f.Key+": table refreshed on writes", f.Pos(), "hintMgr.set no longer refreshes the collision table entry of a key that is registered there: the table keeps pointing at the old record of that key")
		return
	}
	okObj := f.ResultObj(gets[0].Expr, 1)
	guarded := okObj != nil && prog.HasBoolFact(f.GuardsAt(cas[0].Expr), prog.IsObj(info, okObj), true)
	extra := 0
	for _, a := range f.GuardsAt(cas[0].Expr) {
		if !(a.Op == token.ILLEGAL && prog.ObjOf(info, a.X) == okObj) {
			extra++
		}
	}
	c.check(guarded && extra == 0, R, f.Key+": compareAndSet whenever the table knows the hash", cas[0].Pos(), "guarded by ok only", "the collision table is refreshed under a narrower condition than `the table has an entry for this hash`")
	// the item handed over carries the full position: ChunkID = pos.ChunkID, Offset = pos.Offset
	pos := f.Param(2)
	arg := cas[0].Expr.Args[0]
	ck := f.SourcesOfField(arg, "Pos.ChunkID", cas[0].Expr)
	okCk := len(ck) > 0
	for _, s := range ck {
		if !(s.Kind == "param" && s.Obj == pos && strings.HasSuffix(s.Field, "ChunkID")) {
			okCk = false
		}
	}
	c.check(okCk, R, f.Key+": table entry carries the chunk id of the write", cas[0].Pos(), "it2.Pos.ChunkID = pos.ChunkID", "the collision table entry is refreshed without the chunk id (hint items carry chunk 0): the table points into the wrong file")
}

func c13r5(c *Ctx) {
	const R = "C13.R5"
	if f := c.fn(R, "store.hintMgr.Merge"); f != nil {
		dc := f.CallsTo("store.hintMgr.dumpCollisions")
		mg := f.CallsTo("store.merge")
		if len(dc) == 0 || len(mg) == 0 {
			c.viol(R, f.Key+": collisions persisted after a successful merge", f.Pos(), "hintMgr.Merge no longer persists the collision table after merging")
		} else {
			errObj := f.ResultObj(mg[0].Expr, 1)
			stop := func(n ast.Node) bool {
				if rs, ok := n.(*ast.ReturnStmt); ok && errObj != nil {
					return prog.HasNilFact(f.Info(), f.GuardsAt(rs), prog.IsObj(f.Info(), errObj), false)
				}
				return false
			}
			c.Paths++
			esc := f.CFG().EscapesWithout(mg[0].Expr, f.ContainsCall("store.hintMgr.dumpCollisions"), stop)
			c.check(!esc.Found, R, f.Key+": collisions persisted after a successful merge", dc[0].Pos(), "every non-error path after merge() dumps the table", "a successful merge can return without persisting the groups it found", c.trail(esc.Trail)...)
		}
	}
	if f := c.fn(R, "store.Bucket.open"); f != nil {
		ld := f.CallsTo("store.hintMgr.loadCollisions")
		up := f.CallsTo("store.Bucket.updateHtreeFromHint")
		c.Paths++
		c.check(len(ld) > 0 && len(up) > 0 && f.CFG().Dominates(ld[0].Expr, up[0].Expr), R, f.Key+": loadCollisions ≺ hint replay", f.Pos(), "dominated", "the collision table is not loaded before hints are replayed into the tree")
	}
	if f := c.fn(R, "store.Bucket.close"); f != nil {
		c.check(len(f.CallsTo("store.hintMgr.dumpCollisions")) > 0, R, f.Key+": dumpCollisions on close", f.Pos(), "called (path coverage: C02.R1a)", "Bucket.close no longer persists the collision table")
	}
	for _, pr := range [][2]string{{"store.hintMgr.dumpCollisions", "store.CollisionTable.dump"}, {"store.hintMgr.loadCollisions", "store.CollisionTable.load"}} {
		if f := c.fn(R, pr[0]); f != nil {
			okc := false
			for _, call := range f.CallsTo(pr[1]) {
				if len(f.CallsIn(call.Expr, "store.hintMgr.getCollisionPath")) > 0 {
					okc = true
				}
			}
			c.check(okc, R, f.Key+": same file (getCollisionPath)", f.Pos(), pr[1]+"(h.getCollisionPath())", "the collision table is dumped to / loaded from different paths")
		}
	}
}

func c13r6(c *Ctx) {
	const R = "C13.R6"
	f := c.fn(R, "store.mergeWriter.flush")
	if f == nil {
		return
	}
	info := f.Info()
	cas := f.CallsTo("store.CollisionTable.compareAndSet")
	wr := f.CallsTo("store.hintFileWriter.writeItem")
	if len(cas) == 0 {
		c.viol(R, f.Key+": same-hash group reported to the collision table", f.Pos(), "merge no longer reports groups of different keys sharing a hash to the collision table")
		return
	}
	ca := cas[0]
	isNum := prog.IsField(info, "store.mergeWriter.num")
	okG := false
	for _, a := range f.GuardsAt(ca.Expr) {
		if prog.AtomCmp(a, token.GTR, isNum, prog.IsIntConst(info, 1)) || prog.AtomCmp(a, token.GEQ, isNum, prog.IsIntConst(info, 2)) {
			okG = true
		}
	}
	// loop over all members: for i := 0; i < mw.num; i++ with buf[i]
	okLoop := false
	for _, a := range f.Enclosing(ca.Expr) {
		if fs, ok := a.(*ast.ForStmt); ok && fs.Cond != nil {
			if be, ok := prog.Unparen(fs.Cond).(*ast.BinaryExpr); ok && be.Op == token.LSS && isNum(prog.Unparen(be.Y)) {
				if as, ok := fs.Init.(*ast.AssignStmt); ok {
					if v, isC := prog.ConstInt(info, as.Rhs[0]); isC && v == 0 {
						okLoop = true
					}
				}
			}
		}
	}
	c.check(okG && okLoop, R, f.Key+": every member of a group with more than one key is reported", ca.Pos(), "num > 1 ⇒ compareAndSet(buf[i]) for all i < num", "a same-hash group is reported only partially (or only for larger groups): one of the colliding keys is missing from the table")
	if len(wr) > 0 {
		c.Paths++
		c.check(f.CFG().ReachesWithout(ca.Expr, wr[0].Expr, nil) && !f.CFG().ReachesWithout(wr[0].Expr, ca.Expr, nil), R, f.Key+": reported before the group is written", ca.Pos(), "compareAndSet precedes writeItem", "the group is written before it is reported")
	}
}

func c13r7(c *Ctx) {
	const R = "C13.R7"
	pk := c.P.ByName["store"]
	if pk == nil {
		c.undec(R, "store", "package not loaded")
		return
	}
	v := pk.Types.Scope().Lookup("getKeyHash")
	if v == nil {
		c.undec(R, "store.getKeyHash", "the hash-function variable no longer exists: rule needs re-derivation")
		return
	}
	// initialiser is getKeyHashDefalut
	initOK := false
	for _, file := range pk.Syntax {
		ast.Inspect(file, func(x ast.Node) bool {
			if vs, ok := x.(*ast.ValueSpec); ok {
				for i, nm := range vs.Names {
					if pk.TypesInfo.Defs[nm] == v && i < len(vs.Values) {
						if o := prog.ObjOf(pk.TypesInfo, vs.Values[i]); o != nil && o.Name() == "getKeyHashDefalut" {
							initOK = true
						}
					}
				}
			}
			return true
		})
	}
	c.check(initOK, R, "store.getKeyHash initialised with the default hash", "-", "= getKeyHashDefalut", "the hash-function variable is initialised with something other than getKeyHashDefalut")
	nreads := 0
	for _, f := range c.P.SortedFuncs() {
		info := f.Info()
		ast.Inspect(f.Decl.Body, func(x ast.Node) bool {
			switch s := x.(type) {
			case *ast.AssignStmt:
				for _, l := range s.Lhs {
					if prog.ObjOf(info, l) == v {
						c.viol(R, f.Key+": assigns store.getKeyHash", c.pos(s), "production code replaces the key hash function (only tests may): every stored hash, bucket routing and replica comparison changes silently")
					}
				}
			case *ast.UnaryExpr:
				if s.Op == token.AND && prog.ObjOf(info, s.X) == v {
					c.viol(R, f.Key+": takes the address of store.getKeyHash", c.pos(s), "production code takes the address of the hash-function variable")
				}
			case *ast.Ident:
				if info.Uses[s] == v {
					nreads++
				}
			}
			return true
		})
	}
	// positive control: the detector sees the variable being used
	c.check(nreads >= 3, R, "store.getKeyHash: detector sees its uses", "-", itoa(nreads)+" reads in non-test code, 0 writes", "the rule no longer sees the uses of getKeyHash (detector broken)")
}

var nilLookups = []string{
	"store.CollisionTable.get", "store.HintBuffer.Get", "store.hintChunk.get", "store.hintChunk.getMemOnly",
	"store.hintChunk.getItemCollision", "store.hintMgr.getItem", "store.hintMgr.getItemCollision", "store.hintMgr.getCollisionGC",
	"store.hintFileIndex.get", "store.Bucket.get", "store.HStore.Get", "store.dataStore.GetRecordByPos", "store.dataChunk.GetRecordByOffsetInBuffer",
}

func c13r8(c *Ctx) {
	const R = "C13.R8"
	c.Floor(R, 12)
	for _, callee := range nilLookups {
		if c.P.F(callee) == nil {
			c.undec(R, callee, "lookup function not found")
			continue
		}
		for _, f := range c.P.SortedFuncs() {
			if len(f.CallsTo(callee)) == 0 {
				continue
			}
			nilDiscipline(c, R, f, callee, 0)
		}
	}
}

func c13r3b(c *Ctx) {
	const R = "C13.R3b"
	f := c.fn(R, "store.hintMgr.getCollisionGC")
	if f == nil {
		return
	}
	info := f.Info()
	ck := f.Result(1)
	tb := f.CallsTo("store.CollisionTable.get")
	if ck == nil || len(tb) == 0 {
		c.undec(R, f.Key, "table lookup / chunk result not recognised")
		return
	}
	it := f.ResultLhs(tb[0].Expr, 0)
	ok := false
	ast.Inspect(f.Decl.Body, func(x ast.Node) bool {
		if as, isA := x.(*ast.AssignStmt); isA && len(as.Lhs) == 1 && prog.ObjOf(info, as.Lhs[0]) == ck {
			if prog.MentionsField(info, as.Rhs[0], "store.Position.ChunkID") && it != nil && prog.RootObj(info, as.Rhs[0]) == prog.RootObj(info, it) {
				ok = true
			}
		}
		return true
	})
	// or returned directly
	for _, rs := range f.CFG().Returns() {
		if len(rs.Results) == 3 && prog.MentionsField(info, rs.Results[1], "store.Position.ChunkID") {
			ok = true
		}
	}
	c.check(ok, R, f.Key+": chunk id of a table hit = it.Pos.ChunkID", f.Pos(), "ChunkID = it.Pos.ChunkID", "for a key found in the collision table getCollisionGC no longer reports the item's chunk id (zero value 0 instead): GC compares Position{0, offset} with the scanned position, so the current record of a colliding key in any file but 0 is released as garbage")
}

// c13r9: HintBuffer.Get must report iscollision whenever the slot of the hash
// is owned by another key — before (and independently of) its own collision map.
func c13r9(c *Ctx) {
	const R = "C13.R9"
	f := c.fn(R, "store.HintBuffer.Get")
	if f == nil {
		return
	}
	info := f.Info()
	isc := f.Result(1)
	var store *ast.AssignStmt
	var lookup ast.Node
	ast.Inspect(f.Decl.Body, func(x ast.Node) bool {
		switch s := x.(type) {
		case *ast.AssignStmt:
			for i, l := range s.Lhs {
				if prog.ObjOf(info, l) == isc && i < len(s.Rhs) {
					if b, isC := prog.ConstBool(info, s.Rhs[i]); isC && b {
						store = s
					}
				}
			}
		case *ast.IndexExpr:
			if prog.IsField(info, "store.HintBuffer.collisions")(prog.Unparen(s.X)) && lookup == nil {
				lookup = s
			}
		}
		return true
	})
	if store == nil || lookup == nil {
		c.undec(R, f.Key, "collision flag store / collision-map lookup not recognised")
		return
	}
	// guards of the store: found ∧ key != items[idx].Key — nothing derived from the collision map
	bad := ""
	for _, a := range f.GuardsAt(store) {
		if a.X != nil {
			for _, s := range f.SourcesAt(a.X, store) {
				if s.Expr != nil && prog.MentionsField(info, s.Expr, "store.HintBuffer.collisions") {
					bad = c.pos(a.X)
				}
			}
		}
	}
	c.Paths++
	c.check(bad == "" && f.CFG().Dominates(store, lookup), R, f.Key+": `another key owns this hash` ⇒ collision, before the buffer's own collision map is consulted", c.pos(store), "iscollision = true dominates the lookup of h.collisions",
		"HintBuffer.Get reports a collision only when its own collision map already knows the hash: a key whose hash slot is owned by a different key that was written once into this buffer is reported as (nil, false), so GC's hint-buffer check sees no collision and drops the other key's only record")
}

// c13r10: CollisionTable.get's second result means "this hash has a group".
func c13r10(c *Ctx) {
	const R = "C13.R10"
	f := c.fn(R, "store.CollisionTable.get")
	if f == nil {
		return
	}
	info := f.Info()
	okRes := f.Result(1)
	if okRes == nil {
		c.undec(R, f.Key, "second result is not a named value")
		return
	}
	n, bad := 0, ""
	ast.Inspect(f.Decl.Body, func(x ast.Node) bool {
		as, isA := x.(*ast.AssignStmt)
		if !isA {
			return true
		}
		for i, l := range as.Lhs {
			if prog.ObjOf(info, l) != okRes {
				continue
			}
			n++
			good := false
			if len(as.Rhs) == 1 && len(as.Lhs) == 2 && i == 1 {
				if ix, isI := prog.Unparen(as.Rhs[0]).(*ast.IndexExpr); isI && prog.IsField(info, "store.CollisionTable.Items")(prog.Unparen(ix.X)) && prog.ObjOf(info, ix.Index) == f.Param(0) {
					good = true
				}
			}
			if !good {
				bad = c.pos(as)
			}
		}
		return true
	})
	for _, rs := range f.CFG().Returns() {
		if len(rs.Results) == 2 && prog.ObjOf(info, rs.Results[1]) != okRes {
			bad = c.pos(rs)
		}
	}
	c.check(n > 0 && bad == "", R, f.Key+": ok ⇔ the hash has an entry (whatever the key)", f.Pos(), "ok only from `table.Items[keyhash]`",
		"the collision table's `ok` result is (also) derived from the per-key lookup ("+bad+"): callers rely on `ok` meaning `this hash is known to collide` — hintMgr.set registers a new key of a known group only then, and getCollisionGC keeps a hash-known/key-unknown record only then")
}

// c13r6b: merge() flushes the last buffered group on every non-error path,
// independently of whether a merged file is written.
func c13r6b(c *Ctx) {
	const R = "C13.R6b"
	f := c.fn(R, "store.merge")
	if f == nil {
		return
	}
	info := f.Info()
	fl := f.CallsTo("store.mergeWriter.flush")
	init := f.CallsTo("heap.Init")
	if len(fl) == 0 || len(init) == 0 {
		c.viol(R, f.Key+": last group flushed", f.Pos(), "merge no longer flushes the merge writer after the heap loop")
		return
	}
	c.Paths++
	esc := f.CFG().EscapesWithout(init[0].Expr, f.ContainsCall("store.mergeWriter.flush"), func(n ast.Node) bool {
		rs, ok := n.(*ast.ReturnStmt)
		if !ok {
			return false
		}
		for _, a := range f.GuardsAt(rs) {
			if a.Op == token.NEQ && a.Y != nil && prog.IsNil(info, a.Y) {
				return true
			}
		}
		return false
	})
	c.check(!esc.Found, R, f.Key+": last group flushed on every path (with or without a merged file)", fl[0].Pos(), "mw.flush() unconditional after the heap loop",
		"the final flush of the merge writer is conditional (e.g. only when a merged file is written): flush is also what reports a same-hash group, so in a GC merge (no writer) the group with the greatest hash is never registered and GC drops the key that does not own the tree slot", c.trail(esc.Trail)...)
}
