package prog

import (
	"go/ast"
	"go/types"
	"sort"
	"strings"

	"golang.org/x/tools/go/cfg"
)

// LockSet maps an abstract lock (owner type + field, e.g.
// "store.Bucket.writeLock", "store.HTree.Mutex", "store.gcLock") to the mode
// held: "W" (Lock) or "R" (RLock).
type LockSet map[string]string

func (s LockSet) clone() LockSet {
	o := LockSet{}
	for k, v := range s {
		o[k] = v
	}
	return o
}

func (s LockSet) String() string {
	var ks []string
	for k, v := range s {
		ks = append(ks, k+":"+v)
	}
	sort.Strings(ks)
	return "{" + strings.Join(ks, ",") + "}"
}

func meet(a, b LockSet) LockSet {
	if a == nil {
		return b.clone()
	}
	o := LockSet{}
	for k, v := range a {
		if w, ok := b[k]; ok {
			if v == w {
				o[k] = v
			} else {
				o[k] = "R"
			}
		}
	}
	return o
}

func equalLS(a, b LockSet) bool {
	if (a == nil) != (b == nil) || len(a) != len(b) {
		return false
	}
	for k, v := range a {
		if b[k] != v {
			return false
		}
	}
	return true
}

// LockOp classifies a call as a mutex operation.
// kind: "Lock","Unlock","RLock","RUnlock" or "".
func LockOp(info *types.Info, c *ast.CallExpr) (kind, lock string, recv ast.Expr) {
	se, ok := Unparen(c.Fun).(*ast.SelectorExpr)
	if !ok {
		return
	}
	fn, _ := info.Uses[se.Sel].(*types.Func)
	if fn == nil || fn.Pkg() == nil || fn.Pkg().Path() != "sync" {
		return
	}
	switch FuncKey(fn) {
	case "sync.Mutex.Lock", "sync.RWMutex.Lock":
		kind = "Lock"
	case "sync.Mutex.Unlock", "sync.RWMutex.Unlock":
		kind = "Unlock"
	case "sync.RWMutex.RLock":
		kind = "RLock"
	case "sync.RWMutex.RUnlock":
		kind = "RUnlock"
	default:
		return
	}
	recv = se.X
	sel := info.Selections[se]
	if sel != nil && len(sel.Index()) > 1 {
		// promoted through an embedded mutex: owner is the receiver type
		idx := sel.Index()
		lock = FieldKey(sel.Recv(), idx[:len(idx)-1], nil)
		return
	}
	// explicit mutex expression: field selector or variable
	if k, _ := FieldOf(info, se.X); k != "" {
		lock = k
		return
	}
	if o := RootObj(info, se.X); o != nil && o.Pkg() != nil {
		if o.Parent() == o.Pkg().Scope() {
			lock = o.Pkg().Name() + "." + o.Name()
		} else {
			lock = "local:" + o.Name()
		}
	}
	return
}

// lockAnalysis holds per-body block-entry locksets.
type lockAnalysis struct {
	c     *CFG
	in    map[*cfg.Block]LockSet
	entry LockSet
}

func applyNode(f *Func, n ast.Node, s LockSet) {
	if _, ok := n.(*ast.DeferStmt); ok {
		return // runs at exit
	}
	if _, ok := n.(*ast.GoStmt); ok {
		return
	}
	info := f.Info()
	// evaluation order: collect calls, order by End()
	var calls []*ast.CallExpr
	ast.Inspect(n, func(x ast.Node) bool {
		if _, ok := x.(*ast.FuncLit); ok {
			return false
		}
		if c, ok := x.(*ast.CallExpr); ok {
			calls = append(calls, c)
		}
		return true
	})
	sort.SliceStable(calls, func(i, j int) bool { return calls[i].End() < calls[j].End() })
	for _, c := range calls {
		kind, lock, _ := LockOp(info, c)
		switch kind {
		case "Lock":
			s[lock] = "W"
		case "RLock":
			s[lock] = "R"
		case "Unlock", "RUnlock":
			delete(s, lock)
		}
	}
}

func (f *Func) analyseLocks(c *CFG, entry LockSet) *lockAnalysis {
	la := &lockAnalysis{c: c, in: map[*cfg.Block]LockSet{}, entry: entry}
	if len(c.G.Blocks) == 0 {
		return la
	}
	la.in[c.G.Blocks[0]] = entry.clone()
	work := []*cfg.Block{c.G.Blocks[0]}
	for len(work) > 0 {
		b := work[0]
		work = work[1:]
		s := la.in[b].clone()
		for _, n := range b.Nodes {
			applyNode(f, n, s)
		}
		for _, succ := range b.Succs {
			old, ok := la.in[succ]
			var nw LockSet
			if !ok {
				nw = s.clone()
			} else {
				nw = meet(old, s)
			}
			if !ok || !equalLS(old, nw) {
				la.in[succ] = nw
				work = append(work, succ)
			}
		}
	}
	return la
}

// at returns the lockset immediately before AST node n is evaluated.
func (la *lockAnalysis) at(f *Func, n ast.Node) (LockSet, bool) {
	loc, ok := la.c.Locate(n)
	if !ok {
		return nil, false
	}
	in, ok := la.in[loc.B]
	if !ok {
		return nil, false // unreachable
	}
	s := in.clone()
	for i := 0; i < loc.I; i++ {
		applyNode(f, loc.B.Nodes[i], s)
	}
	// within the node: apply calls that end before n starts being evaluated
	info := f.Info()
	var calls []*ast.CallExpr
	ast.Inspect(loc.B.Nodes[loc.I], func(x ast.Node) bool {
		if _, ok := x.(*ast.FuncLit); ok {
			return false
		}
		if c, ok := x.(*ast.CallExpr); ok && c.End() < n.End() && !(c.Pos() >= n.Pos() && c.End() <= n.End()) {
			calls = append(calls, c)
		}
		return true
	})
	if _, isDefer := loc.B.Nodes[loc.I].(*ast.DeferStmt); !isDefer {
		sort.SliceStable(calls, func(i, j int) bool { return calls[i].End() < calls[j].End() })
		for _, c := range calls {
			kind, lock, _ := LockOp(info, c)
			switch kind {
			case "Lock":
				s[lock] = "W"
			case "RLock":
				s[lock] = "R"
			case "Unlock", "RUnlock":
				delete(s, lock)
			}
		}
	}
	return s, true
}

// exitSet returns the meet of locksets at all normal exits.
func (la *lockAnalysis) exitSet(f *Func) LockSet {
	var out LockSet
	for _, b := range la.c.G.Blocks {
		if !b.Live || len(b.Succs) > 0 {
			continue
		}
		in, ok := la.in[b]
		if !ok {
			continue
		}
		if la.c.exitKind(b) == ExitAbort {
			continue
		}
		s := in.clone()
		for _, n := range b.Nodes {
			applyNode(f, n, s)
		}
		out = meet(out, s)
	}
	if out == nil {
		out = LockSet{}
	}
	return out
}

// Locks is the whole-program lockset oracle.
type Locks struct {
	p     *Program
	entry map[*Func]LockSet
	an    map[*Func]*lockAnalysis
	lits  map[*ast.FuncLit]*lockAnalysis
	dyn   map[*Func]bool
}

// Locks computes (once) held-on-entry summaries by fixpoint over static call
// sites, then per-body flow. Functions with no static callers, with dynamic
// callers, spawned with `go` or deferred start with the empty set.
func (p *Program) Locks() *Locks {
	if p.locks != nil {
		return p.locks
	}
	L := &Locks{p: p, entry: map[*Func]LockSet{}, an: map[*Func]*lockAnalysis{},
		lits: map[*ast.FuncLit]*lockAnalysis{}, dyn: map[*Func]bool{}}
	p.locks = L
	funcs := p.SortedFuncs()
	// static call sites per callee; and value-uses (method values, func refs)
	type site struct {
		caller *Func
		call   *ast.CallExpr
		empty  bool // go / defer
	}
	sites := map[*Func][]site{}
	for _, f := range funcs {
		info := f.Info()
		callFun := map[*ast.Ident]bool{}
		ast.Inspect(f.Decl.Body, func(n ast.Node) bool {
			switch x := n.(type) {
			case *ast.CallExpr:
				if o, ok := Callee(info, x).(*types.Func); ok {
					if g := p.ByObj[o]; g != nil {
						par := f.Parent(x)
						_, isGo := par.(*ast.GoStmt)
						_, isDefer := par.(*ast.DeferStmt)
						sites[g] = append(sites[g], site{f, x, isGo || isDefer})
					}
				}
				switch fun := Unparen(x.Fun).(type) {
				case *ast.Ident:
					callFun[fun] = true
				case *ast.SelectorExpr:
					callFun[fun.Sel] = true
				}
			}
			return true
		})
		ast.Inspect(f.Decl.Body, func(n ast.Node) bool {
			if id, ok := n.(*ast.Ident); ok && !callFun[id] {
				if o, ok := info.Uses[id].(*types.Func); ok {
					if g := p.ByObj[o]; g != nil {
						L.dyn[g] = true
					}
				}
			}
			return true
		})
	}
	// methods reachable through interface dispatch: any method whose name is
	// declared by an interface of the program and whose receiver implements it
	var ifaces []*types.Interface
	for _, pk := range p.Pkgs {
		sc := pk.Types.Scope()
		for _, name := range sc.Names() {
			if tn, ok := sc.Lookup(name).(*types.TypeName); ok {
				if it, ok := tn.Type().Underlying().(*types.Interface); ok && it.NumMethods() > 0 {
					ifaces = append(ifaces, it)
				}
			}
		}
	}
	// methods of well-known library interfaces (sort, heap, io, fmt, error, http) are matched by name
	libMethods := map[string]bool{}
	for _, m := range []string{"Len", "Less", "Swap", "Push", "Pop", "Write", "Read", "Close", "String", "Error", "GoString", "ServeHTTP"} {
		libMethods[m] = true
	}
	for _, f := range funcs {
		if f.Decl.Recv == nil {
			continue
		}
		name := f.Decl.Name.Name
		if libMethods[name] {
			L.dyn[f] = true
			continue
		}
		recv := f.Obj.Type().(*types.Signature).Recv()
		if recv == nil {
			continue
		}
		rt := recv.Type()
		base := rt
		if pt, ok := rt.(*types.Pointer); ok {
			base = pt.Elem()
		}
		for _, it := range ifaces {
			has := false
			for i := 0; i < it.NumMethods(); i++ {
				if it.Method(i).Name() == name {
					has = true
				}
			}
			if has && (types.Implements(base, it) || types.Implements(types.NewPointer(base), it)) {
				L.dyn[f] = true
			}
		}
	}
	// fixpoint: start optimistic (nil = top) for functions with static sites
	top := map[*Func]bool{}
	for _, f := range funcs {
		if len(sites[f]) > 0 && !L.dyn[f] {
			top[f] = true
		} else {
			L.entry[f] = LockSet{}
		}
	}
	for iter := 0; iter < 50; iter++ {
		changed := false
		L.lits = map[*ast.FuncLit]*lockAnalysis{}
		// analyse every function whose entry is known
		snap := map[*Func]bool{}
		for f := range top {
			snap[f] = true
		}
		for _, f := range funcs {
			if top[f] {
				continue
			}
			L.an[f] = f.analyseLocks(f.CFG(), L.entry[f])
		}
		for _, g := range funcs {
			ss := sites[g]
			if len(ss) == 0 || L.dyn[g] {
				continue
			}
			var acc LockSet
			unknown := false
			for _, s := range ss {
				if s.empty {
					acc = meet(acc, LockSet{})
					continue
				}
				if snap[s.caller] {
					unknown = true // optimistic: skip
					continue
				}
				ls, ok := L.atRaw(s.caller, s.call)
				if !ok {
					continue // unreachable call site
				}
				acc = meet(acc, ls)
			}
			if acc == nil {
				if unknown {
					continue
				}
				acc = LockSet{}
			}
			if top[g] || !equalLS(L.entry[g], acc) {
				L.entry[g] = acc
				delete(top, g)
				changed = true
			}
		}
		if !changed {
			break
		}
	}
	for f := range top {
		L.entry[f] = LockSet{}
		L.an[f] = f.analyseLocks(f.CFG(), L.entry[f])
	}
	for _, f := range funcs {
		L.an[f] = f.analyseLocks(f.CFG(), L.entry[f])
	}
	L.lits = map[*ast.FuncLit]*lockAnalysis{}
	return L
}

// Entry returns the lockset proven held at every entry of f.
func (L *Locks) Entry(f *Func) LockSet { return L.entry[f] }

func (L *Locks) atRaw(f *Func, n ast.Node) (LockSet, bool) {
	if lit := f.EnclosingLit(n); lit != nil {
		la := L.litAnalysis(f, lit)
		if la == nil {
			return LockSet{}, true
		}
		return la.at(f, n)
	}
	la := L.an[f]
	if la == nil {
		return nil, false
	}
	return la.at(f, n)
}

// litAnalysis analyses a function literal; its entry set depends on how the
// literal is used: deferred call -> locks at exits of the parent; immediate
// call or synchronous callback argument -> locks at that point; assigned to a
// local and called -> meet over its call sites; `go` or unknown -> empty.
func (L *Locks) litAnalysis(f *Func, lit *ast.FuncLit) *lockAnalysis {
	if la, ok := L.lits[lit]; ok {
		return la
	}
	L.lits[lit] = nil // cycle guard
	entry := LockSet{}
	par := f.Parent(lit)
	parentSet := func(n ast.Node) LockSet {
		ls, ok := L.atRaw(f, n)
		if !ok {
			return LockSet{}
		}
		return ls
	}
	switch x := par.(type) {
	case *ast.CallExpr:
		gp := f.Parent(x)
		if Unparen(x.Fun) == ast.Expr(lit) {
			switch gp.(type) {
			case *ast.DeferStmt:
				// runs at exit of the enclosing body
				if outer := f.EnclosingLit(x); outer != nil {
					if la := L.litAnalysis(f, outer); la != nil {
						entry = la.exitSet(f)
					}
				} else if la := L.an[f]; la != nil {
					entry = la.exitSet(f)
				}
			case *ast.GoStmt:
			default:
				entry = parentSet(x)
			}
		} else {
			// literal passed as an argument: assume synchronous callback unless `go`
			if _, isGo := gp.(*ast.GoStmt); !isGo {
				entry = parentSet(x)
			}
		}
	case *ast.AssignStmt, *ast.ValueSpec:
		// closure stored in a local: meet over calls through that local
		var obj types.Object
		info := f.Info()
		switch s := par.(type) {
		case *ast.AssignStmt:
			for i, r := range s.Rhs {
				if Unparen(r) == ast.Expr(lit) && i < len(s.Lhs) {
					obj = ObjOf(info, s.Lhs[i])
				}
			}
		case *ast.ValueSpec:
			for i, r := range s.Values {
				if Unparen(r) == ast.Expr(lit) && i < len(s.Names) {
					obj = info.Defs[s.Names[i]]
				}
			}
		}
		if obj != nil {
			var acc LockSet
			ast.Inspect(f.Decl.Body, func(n ast.Node) bool {
				if c, ok := n.(*ast.CallExpr); ok && ObjOf(info, c.Fun) == obj {
					if lit2 := f.EnclosingLit(c); lit2 == lit {
						return true
					}
					switch f.Parent(c).(type) {
					case *ast.GoStmt, *ast.DeferStmt:
						acc = meet(acc, LockSet{})
					default:
						acc = meet(acc, parentSet(c))
					}
				}
				return true
			})
			if acc != nil {
				entry = acc
			}
		}
	}
	la := f.analyseLocks(f.LitCFG(lit), entry)
	L.lits[lit] = la
	return la
}

// At returns the set of locks proven held whenever node n of f is evaluated.
// ok=false when n is unreachable.
func (L *Locks) At(f *Func, n ast.Node) (LockSet, bool) { return L.atRaw(f, n) }

// ExitSet returns locks held at every normal exit of f's declared body.
func (L *Locks) ExitSet(f *Func) LockSet {
	if la := L.an[f]; la != nil {
		return la.exitSet(f)
	}
	return LockSet{}
}

// DebugEntries lists entry locksets (diagnostics).
func (L *Locks) DebugEntries() map[string]string {
	out := map[string]string{}
	for f, s := range L.entry {
		if len(s) > 0 || L.dyn[f] {
			d := ""
			if L.dyn[f] {
				d = " dyn"
			}
			out[f.Key] = s.String() + d
		}
	}
	return out
}
