#!/usr/bin/env python3
"""Generate mutants/*.patch and benign/*.patch from tools/specs/*.py edit specs.

Each spec: dict(name=, rule=, kind='mutant'|'benign', edits=[(file, old, new), ...]).
`old` must occur exactly once in the file. The scratch copy must still compile.
usage: tools/mkmut.py [name-substring]
"""
import os, sys, subprocess, shutil, tempfile, glob, importlib.util

V = os.path.dirname(os.path.dirname(os.path.abspath(__file__)))
REPO = '/repo'
env = dict(os.environ, GOFLAGS='-mod=mod', GOPROXY='off', GOSUMDB='off', GOTOOLCHAIN='local')

def load_specs():
    specs = []
    for p in sorted(glob.glob(os.path.join(V, 'tools', 'specs', '*.py'))):
        spec = importlib.util.spec_from_file_location('s', p)
        m = importlib.util.module_from_spec(spec); spec.loader.exec_module(m)
        specs += m.SPECS
    return specs

def main():
    pat = sys.argv[1] if len(sys.argv) > 1 else ''
    ok = True
    for s in load_specs():
        if pat not in s['name']:
            continue
        kind = s.get('kind', 'mutant')
        outdir = os.path.join(V, 'mutants' if kind == 'mutant' else 'benign')
        out = os.path.join(outdir, s['name'] + '.patch')
        if os.path.exists(out) and '-f' not in sys.argv:
            continue
        w = tempfile.mkdtemp(prefix='gbmk.')
        try:
            subprocess.check_call(['rsync', '-a', '--exclude', '.git', '--exclude', '*.tmp', REPO + '/', w + '/'])
            for ed in s['edits']:
                f, old, new = ed[0], ed[1], ed[2]
                want = ed[3] if len(ed) > 3 else 1
                p = os.path.join(w, f)
                src = open(p).read()
                if (want == 1 and src.count(old) != 1) or (want != 1 and src.count(old) < 1):
                    print('SPEC-ERROR %s: %r occurs %d times in %s' % (s['name'], old[:50], src.count(old), f)); ok = False; raise StopIteration
                open(p, 'w').write(src.replace(old, new))
            r = subprocess.run(['go', 'build', './...'], cwd=w, env=env, capture_output=True, text=True)
            if r.returncode != 0:
                print('SPEC-ERROR %s: does not compile: %s' % (s['name'], r.stderr[:300])); ok = False; raise StopIteration
            r = subprocess.run(['go', 'vet', '-vet=off', './...'], cwd=w, env=env, capture_output=True, text=True) if False else None
            d = subprocess.run(['diff', '-ruN', '--exclude', '.git', '--exclude', '*.tmp', '.', w], cwd=REPO, capture_output=True, text=True)
            body = d.stdout.replace(w, '.')
            open(out, 'w').write('# expect: %s\n# %s\n%s' % (s.get('rule', ''), s.get('why', '').replace('\n', ' '), body))
            print('wrote', os.path.relpath(out, V))
        except StopIteration:
            pass
        finally:
            shutil.rmtree(w, ignore_errors=True)
    sys.exit(0 if ok else 1)

main()
