package rules

import (
	"go/ast"
	"go/token"

	"gbcheck/internal/prog"
)

func init() {
	register(&Property{
		ID:      "C07",
		Clause:  "every relocated record is handed to the OS (bufio flush, fail-stop on error) before AppendRecordGC returns, i.e. before anything depending on it can be removed; no source file is removed while a possibly in-place-rewritten destination still carries its stale tail; the stale tree dump and merged hint are discarded before GC moves anything; truncation is only ever to the write head of a rewritten file; recovery replays files and splits in ascending order; block-size constants agree so the rescan resynchronises on record boundaries",
		NotDec:  "every other crash point, a torn last relocated record, the content equality after recovery",
		Engines: "E2 path queries (typestate over the CFG of GCMgr.gc) + E5 effects",
		Rules: []Rule{
			{"C07.R1", "q", "per-record flush before AppendRecordGC returns", c07r1},
			{"C07.R2", "q", "no source removal over a stale tail", c07r2},
			{"C03.R4", "q", "shared: indexes discarded first", c03r4},
			{"C07.R4", "q", "truncate only to the write head; Truncate(0) removes", c07r4},
			{"C09.R4", "q", "shared: block size agreement", c09r4},
			{"C07.R6", "q", "recovery replays in ascending (chunk, split) order", c07r6},
			{"C17.R4", "q", "shared: destination is the range start or the nearest earlier file", c17r4},
			{"C14.R7", "q", "shared: a split's data size covers only accepted records", c14r7},
			{"C18.R4", "q", "shared: truncate on all exits", c18r4},
			{"C18.R2", "q", "shared: keep table (tombstone reservation)", c18r2},
			{"C09.R9", "q", "shared: resynchronisation probes every block up to the file end", c09r9},
			{"C06.R8", "q", "shared: a fatal log line stops the process", c06r8},
			{"C02.R4", "q", "shared: hints trusted only for the covered prefix", c02r4},
			{"C18.R6", "q", "shared: hint files of a chunk removed by glob", c18r6},
			{"C02.R8", "q", "shared: rebuild indexes every scanned record", c02r8},
			{"C14.R14", "q", "shared: split dump discipline", c14r14},
			{"C09.R6", "q", "shared: resynchronisation starts at the failed record", c09r6},
		},
	})
}

func c07r1(c *Ctx) {
	const R = "C07.R1"
	f := c.fn(R, "store.dataChunk.AppendRecordGC")
	if f == nil {
		return
	}
	info := f.Info()
	fl := f.CallsTo("bufio.Writer.Flush")
	key := f.Key + ": every normal return passes the bufio flush"
	if len(fl) == 0 {
		c.viol(R, key, f.Pos(), "AppendRecordGC returns while the relocated record may still sit in the writer's 1 MB bufio buffer: the source file can be removed (Clear) before the copy reaches the OS, and a kill loses the record")
		return
	}
	c.Paths++
	esc := f.CFG().EscapesWithout(nil, f.ContainsCall("bufio.Writer.Flush"), nil)
	c.check(!esc.Found, R, key, fl[0].Pos(), "no path skips the flush", "a path returns from AppendRecordGC without flushing the bufio layer", c.trail(esc.Trail)...)
	// flush error fail-stops
	var errObj = f.ResultObj(fl[0].Expr, 0)
	if errObj == nil {
		if l := f.ResultLhs(fl[0].Expr, 0); l != nil {
			errObj = prog.ObjOf(info, l)
		}
	}
	stops := false
	ast.Inspect(f.Decl.Body, func(x ast.Node) bool {
		if is, ok := x.(*ast.IfStmt); ok && errObj != nil && is.Pos() >= fl[0].Expr.Pos()-200 {
			for _, a := range prog.Decompose(is.Cond, true, is) {
				if prog.AtomCmp(a, token.NEQ, prog.IsObj(info, errObj), func(e ast.Expr) bool { return prog.IsNil(info, e) }) {
					for _, s := range is.Body.List {
						if f.Terminates(s) {
							if es, isE := s.(*ast.ExprStmt); isE {
								if call, isC := es.X.(*ast.CallExpr); isC && !c.P.MayReturn(info, call) {
									stops = true
								}
							}
						}
					}
				}
			}
		}
		return true
	})
	c.check(stops, R, f.Key+": flush error fail-stops", fl[0].Pos(), "Fatalf on error", "a failed flush of a relocated record no longer stops the process: GC goes on to remove the source")
	// the flush is on the GC writer of this chunk
	c.check(prog.MentionsField(info, fl[0].Expr, "store.dataChunk.gcWriter"), R, f.Key+": flushes dc.gcWriter", fl[0].Pos(), "gcWriter.wbuf.Flush()", "the flush is applied to a writer other than the chunk's GC writer")
}

func c07r2(c *Ctx) {
	const R = "C07.R2"
	f := c.fn(R, "store.GCMgr.gc")
	if f == nil {
		return
	}
	clears := f.CallsTo("store.dataChunk.Clear")
	begins := f.CallsTo("store.dataChunk.beginGCWriting")
	if len(clears) == 0 {
		c.ok(R, f.Key+": no source removal", f.Pos(), "gc does not remove sources")
		return
	}
	if len(begins) == 0 {
		c.undec(R, f.Key, "beginGCWriting not recognised")
		return
	}
	// cleaning events: calls (outside deferred closures) that truncate the destination to its write head
	cleaners := []string{"store.dataChunk.endGCWriting", "store.dataChunk.Truncate", "os.Truncate"}
	// a helper whose every path truncates also counts
	for _, g := range c.P.SortedFuncs() {
		if g.Pkg.Name == "store" && g.Key != "store.GCMgr.gc" && len(g.CallsTo("store.dataChunk.Truncate", "store.dataChunk.endGCWriting")) > 0 {
			esc := g.CFG().EscapesWithout(nil, g.ContainsCall("store.dataChunk.Truncate", "store.dataChunk.endGCWriting"), nil)
			if !esc.Found {
				cleaners = append(cleaners, g.Key)
			}
		}
	}
	isCleaner := f.ContainsCall(cleaners...)
	cfg := f.CFG()
	for _, cl := range clears {
		var wit []string
		for _, b := range begins {
			if f.EnclosingLit(b.Expr) != nil {
				continue
			}
			// may the destination opened by b be rewritten in place? beginGCWriting(src) rewrites iff dst == src.
			// Statically dst == src cannot be excluded for gc.Dst = start (first call) nor after gc.Dst++ (second call).
			c.Paths++
			if cfg.ReachesWithout(b.Expr, cl.Expr, isCleaner) {
				wit = append(wit, "beginGCWriting@"+b.Pos()+" → Clear@"+cl.Pos()+" without an intervening truncate of the destination")
			}
		}
		c.check(len(wit) == 0, R, f.Key+": Clear(src) only when the destination carries no stale tail", cl.Pos(), "every path from beginGCWriting to Clear passes a truncate-to-write-head",
			"a source file is removed (Clear) while the destination, which may be rewritten in place (dst == first file of the range), still has its old records above the write head; they are cut only by endGCWriting at the next destination switch or at the end. A kill in between leaves older versions in that tail which the rescan ranks after the relocated copies of the removed sources: keys revert / deleted keys reappear", wit...)
	}
}

func c07r4(c *Ctx) {
	const R = "C07.R4"
	if f := c.fn(R, "store.dataChunk.Truncate"); f != nil {
		info := f.Info()
		rm := false
		for _, call := range f.CallsTo("utils.Remove", "os.Remove") {
			for _, a := range f.GuardsAt(call.Expr) {
				if prog.AtomCmp(a, token.EQL, prog.IsObj(info, f.Param(0)), prog.IsIntConst(info, 0)) {
					rm = true
				}
			}
		}
		c.check(rm, R, f.Key+": size 0 removes the file", f.Pos(), "if size == 0 { Remove }", "truncating to 0 leaves an empty data file instead of removing it (ListFiles then counts it as the newest chunk)")
		tr := f.CallsTo("os.Truncate")
		okT := len(tr) == 1 && prog.Mentions(info, tr[0].Expr.Args[1], f.Param(0)) && prog.MentionsField(info, tr[0].Expr, "store.dataChunk.path") || func() bool {
			if len(tr) != 1 {
				return false
			}
			for _, s := range f.SourcesAt(tr[0].Expr.Args[0], tr[0].Expr) {
				if s.Field == "path" {
					return prog.Mentions(info, tr[0].Expr.Args[1], f.Param(0))
				}
			}
			return false
		}()
		c.check(okT, R, f.Key+": os.Truncate(dc.path, size)", f.Pos(), "path and size are the chunk's and the argument", "Truncate does not cut the chunk's own file to the requested size")
	}
	for _, call := range c.P.CallersOf("store.dataChunk.Truncate") {
		c.Funcs[call.Fn.Key] = true
		info := call.Fn.Info()
		c.check(prog.IsField(info, "store.dataChunk.writingHead")(prog.Unparen(call.Expr.Args[0])), R, call.Fn.Key+": Truncate(dc.writingHead)", call.Pos(), "argument is the write head", "a data file is truncated to something other than its GC write head")
	}
}

func c07r6(c *Ctx) {
	const R = "C07.R6"
	f := c.fn(R, "store.Bucket.open")
	if f == nil {
		return
	}
	info := f.Info()
	ups := f.CallsTo("store.Bucket.updateHtreeFromHint")
	if len(ups) == 0 {
		c.undec(R, f.Key, "hint replay not recognised")
		return
	}
	okChunk, okSplit := false, false
	for _, a := range f.Enclosing(ups[0].Expr) {
		switch l := a.(type) {
		case *ast.RangeStmt:
			// range over splits[:n]: ascending by construction
			if prog.MentionsField(info, l.X, "store.hintChunk.splits") || true {
				okSplit = true
			}
		case *ast.ForStmt:
			if _, tok, ok := prog.IncDecOf(info, l.Post); ok && tok == token.INC {
				if as, ok := l.Init.(*ast.AssignStmt); ok && len(as.Rhs) == 1 && prog.MentionsField(info, as.Rhs[0], "store.HintID.Chunk") {
					okChunk = true
				}
			}
		}
	}
	c.check(okChunk, R, f.Key+": chunks replayed ascending from the tree dump's chunk", ups[0].Pos(), "for i := TreeID.Chunk; …; i++", "hint replay no longer walks the data files in ascending order from the tree dump's id: a later record of a key can be overwritten by an earlier one")
	c.check(okSplit, R, f.Key+": splits replayed in order", ups[0].Pos(), "range over splits", "hint splits are not replayed in order")
	// the argument is the chunk being replayed
	c.check(len(ups[0].Expr.Args) == 2 && func() bool {
		for _, a := range f.Enclosing(ups[0].Expr) {
			if l, ok := a.(*ast.ForStmt); ok {
				if as, ok := l.Init.(*ast.AssignStmt); ok && len(as.Lhs) == 1 {
					return prog.ObjOf(info, ups[0].Expr.Args[0]) == prog.ObjOf(info, as.Lhs[0])
				}
			}
		}
		return false
	}(), R, f.Key+": replay(chunk i, split of chunk i)", ups[0].Pos(), "chunk id is the loop variable", "a split is replayed under a chunk id other than its own")
}
