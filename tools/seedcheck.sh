#!/bin/bash
# Confirm one seeded change and run the checks against it.
#   tools/seedcheck.sh <seeddir> <name>     (seeddir holds patch.diff + demo *_test.go)
# Writes <out>/<name>.result with: applies / builds / suite / demo_with / demo_without / detected-by
set -u
SD=$1; NAME=$2; OUT=${3:-/tmp/seedres}
V=$(cd "$(dirname "$0")/.." && pwd)
export GOFLAGS=-mod=mod GOPROXY=off GOSUMDB=off GOTOOLCHAIN=local
mkdir -p "$OUT"; R="$OUT/$NAME.result"; : > "$R"
W=/tmp/sw/$NAME; rm -rf "$W"; git -C /repo worktree prune; git -C /repo worktree add --detach "$W" HEAD >/dev/null 2>&1 || { echo "worktree failed" >> "$R"; exit 1; }
cleanup() { git -C /repo worktree remove --force "$W" >/dev/null 2>&1; rm -rf "/tmp/tgb_$NAME"; }
trap cleanup EXIT
cd "$W"
if git apply --check "$SD/patch.diff" 2>/dev/null; then git apply "$SD/patch.diff"; echo "applies: clean" >> "$R";
elif patch -p1 -s -f --dry-run < "$SD/patch.diff" >/dev/null 2>&1; then patch -p1 -s -f < "$SD/patch.diff"; echo "applies: fuzz" >> "$R";
else echo "applies: NO" >> "$R"; exit 0; fi
git diff > "$OUT/$NAME.rebased.diff"
if go build ./... 2>>"$R"; then echo "builds: yes" >> "$R"; else echo "builds: NO" >> "$R"; exit 0; fi
# checks on the patched tree
det=""
for p in C01 C02 C03 C04 C05 C06 C07 C08 C09 C10 C11 C12 C13 C14 C15 C16 C17 C18; do
  o=$("${GBBIN:-$V/bin/gbcheck}" -verif "$V" -repo "$W" -property $p -tier quick -no-evidence -json "$OUT/$NAME.$p.json" 2>&1); code=$?
  if [ $code -ne 0 ]; then
    rules=$(python3 -c "
import json,sys
obs=json.load(open('$OUT/$NAME.$p.json'))
kf=json.load(open('$V/known_findings.json'))
known={(f['property'],f['rule'],f['key']) for f in kf['findings']}
print(','.join(sorted(set(o['rule']+('?' if o['verdict']=='UNDECIDED' else '') for o in obs if o['verdict']!='ok' and ('$p',o['rule'],o['key']) not in known))))")
    det="$det $p[$rules]"
  fi
  rm -f "$OUT/$NAME.$p.json"
done
echo "detected:$det" >> "$R"
[ -n "${DETECT_ONLY:-}" ] && exit 0
# demo with the change
mkdir -p /tmp/tgb_$NAME
demos=$(ls "$SD"/*_test.go 2>/dev/null)
pkgof() { pk=$(sed -n 's/^package \([a-z_]*\).*/\1/p' "$1" | head -1); pk=${pk%_test}; case "$pk" in main) echo .;; *) echo "$pk";; esac; }
pkgdirs=$(for d in $demos; do pkgof "$d"; done | sort -u)
putdemos() { for d in $demos; do cp "$d" "$W/$(pkgof "$d")/"; done; }
rmdemos() { for d in $demos; do rm -f "$W/$(pkgof "$d")/$(basename $d)"; done; }
tests=$(grep -h '^func Test' $demos | sed 's/func \(Test[A-Za-z0-9_]*\).*/\1/' | paste -sd'|')
rundemos() { # $1 = log ; returns 0 if every package passes
  rc=0; : > "$1"
  for pd in $pkgdirs; do
    extra=""; [ "$pd" = store ] && extra="-args -base /tmp/tgb_$NAME"
    go test -vet=off -count=1 -timeout 15m -run "^($tests)\$" ./$pd/ $extra >> "$1" 2>&1 || rc=1
  done
  return $rc
}
putdemos
if rundemos "$OUT/$NAME.demo_with.log"; then echo "demo_with_change: PASS (unexpected)" >> "$R"; else echo "demo_with_change: FAIL (expected)" >> "$R"; fi
# existing suite with the change (demo files removed)
rmdemos
rm -rf /tmp/tgb_$NAME; mkdir -p /tmp/tgb_$NAME
( go test -vet=off -count=1 -timeout 25m ./store/ -args -base /tmp/tgb_$NAME; go test -vet=off -count=1 -timeout 25m $(go list ./... | grep -v '/store$') ) > "$OUT/$NAME.suite.log" 2>&1
fails=$(grep -E '^(--- FAIL|FAIL|panic)' "$OUT/$NAME.suite.log" | grep -v 'TestConfig\|gobeansdb/gobeansdb\|^FAIL$' | head -5 | tr '\n' ';')
echo "suite_with_change: ${fails:-pass (only TestConfig fails)}" >> "$R"
# demo without the change
git checkout -q -- . ; putdemos
rm -rf /tmp/tgb_$NAME; mkdir -p /tmp/tgb_$NAME
if rundemos "$OUT/$NAME.demo_without.log"; then echo "demo_without_change: PASS (expected)" >> "$R"; else echo "demo_without_change: FAIL (unexpected)" >> "$R"; fi
echo "pkg: $(echo $pkgdirs | tr ' ' ',') tests: $tests" >> "$R"
