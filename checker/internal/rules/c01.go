package rules

import (
	"go/ast"
	"go/token"
	"go/types"
	"strings"

	"gbcheck/internal/prog"
)

const (
	kAppendRecord = "store.dataStore.AppendRecord"
	kHTreeSet     = "store.HTree.set"
	kHintSet      = "store.hintMgr.set"
	kBucketSet    = "store.Bucket.set"
	kBucketGet    = "store.Bucket.get"
)

func init() {
	register(&Property{
		ID:      "C01",
		Clause:  "the write path publishes exactly the position it appended to (after a successful append); the read path looks in the write buffer before the file; Bucket.get compares the key before it returns a record fetched through the tree slot; tombstones are hidden from get but visible to meta-get; incr tests and writes the same flag constant; every client-supplied revision passes the version arbitration before it reaches the index",
		NotDec:  "equality of replies with a reference map, the version arithmetic itself, offsets across rotation, reply statuses",
		Engines: "E2 guards/dominance + E3 reaching-definition value flow",
		Rules: []Rule{
			{"C01.R1", "q", "index updates after AppendRecord use the appended position on the err==nil edge", c01r1},
			{"C01.R2", "q", "GetRecordByOffset consults the write buffer before the file", c01r2},
			{"C01.R3", "q", "Bucket.get key gate", c01r3},
			{"C01.R4", "q", "tombstone hidden from get, visible to meta-get", c01r4},
			{"C04.L1", "q", "shared: checkAndSet critical section", c04l1},
			{"C01.R6", "q", "incr flag constant agreement", c01r6},
			{"C01.R7", "q", "every client revision arbitrated", c01r7},
			{"C01.R9", "q", "explicit revisions compared by absolute value", c01r9},
			{"C01.R10", "q", "tree item carries the key hash, position, version and value hash it was given", c01r10},
			{"C09.R7", "q", "shared: positions resolve to (chunk, offset); header sizes are actual sizes", c09r7},
			{"C04.L5", "q", "shared: flush writes the file before detaching from the buffer", c04l5},
			{"C14.R10", "q", "shared: hint lookups are newest-first (colliding keys are served from the hints)", c14r10},
			{"C01.R11", "q", "memcache adapter maps key, bytes, flags and revision both ways", c01r11},
			{"C01.R8", "t", "discovery: every caller of HTree.set/hintMgr.set passes a position from an append, a lookup or a hint item", c01r8},
			{"C01.R12", "q", "version arithmetic: |oldv|+1 on set, -|oldv|-1 on delete", c01r12},
			{"C08.R7", "q", "shared: stored key-hash width covers the digits below the leaf level", c08r7},
			{"C11.R9", "q", "shared: per-command state reset unconditional (a stale noreply swallows the next replies)", c11r9},
			{"C02.R10", "q", "shared: hint item / key info constructors", c02r10},
			{"C01.R13", "q", "incr refusal flag is sticky; write only when unset", c01r13},
		},
	})
}

// posArg returns the position argument of an index update call.
func posArgOf(c prog.Call) ast.Expr {
	switch c.Key {
	case kHTreeSet, kHintSet:
		if len(c.Expr.Args) > 2 {
			return c.Expr.Args[2]
		}
	}
	return nil
}

// updSite is a call that publishes a position to the tree and/or the hints:
// HTree.set / hintMgr.set themselves, or a helper that forwards one of its
// parameters to them (transitively).
type updSite struct {
	call prog.Call
	arg  ast.Expr
	tree bool
	hint bool
}

type fwdInfo struct {
	param      int
	tree, hint bool
}

// forwarders computes, for every function of package store, which parameter it
// passes on (unchanged) as the position argument of an index update.
func forwarders(c *Ctx) map[string][]fwdInfo {
	if c.fwd != nil {
		return c.fwd
	}
	c.fwd = map[string][]fwdInfo{}
	for iter := 0; iter < 4; iter++ {
		changed := false
		for _, f := range c.P.SortedFuncs() {
			if f.Pkg.Name != "store" {
				continue
			}
			for _, call := range f.Calls() {
				var cands []fwdInfo // (arg index in this call, kinds)
				switch call.Key {
				case kHTreeSet:
					cands = []fwdInfo{{2, true, false}}
				case kHintSet:
					cands = []fwdInfo{{2, false, true}}
				default:
					cands = c.fwd[call.Key]
				}
				for _, cd := range cands {
					if cd.param >= len(call.Expr.Args) {
						continue
					}
					srcs := f.SourcesAt(call.Expr.Args[cd.param], call.Expr)
					if len(srcs) != 1 || srcs[0].Kind != "param" || srcs[0].Field != "" {
						continue
					}
					for i := 0; ; i++ {
						pv := f.Param(i)
						if pv == nil {
							break
						}
						if pv == srcs[0].Obj {
							found := false
							for k, e := range c.fwd[f.Key] {
								if e.param == i {
									found = true
									if (cd.tree && !e.tree) || (cd.hint && !e.hint) {
										c.fwd[f.Key][k].tree = e.tree || cd.tree
										c.fwd[f.Key][k].hint = e.hint || cd.hint
										changed = true
									}
								}
							}
							if !found {
								c.fwd[f.Key] = append(c.fwd[f.Key], fwdInfo{i, cd.tree, cd.hint})
								changed = true
							}
						}
					}
				}
			}
		}
		if !changed {
			break
		}
	}
	return c.fwd
}

func updateSites(c *Ctx, f *prog.Func) []updSite {
	fw := forwarders(c)
	var out []updSite
	for _, call := range f.Calls() {
		switch call.Key {
		case kHTreeSet:
			out = append(out, updSite{call, call.Expr.Args[2], true, false})
		case kHintSet:
			out = append(out, updSite{call, call.Expr.Args[2], false, true})
		default:
			for _, e := range fw[call.Key] {
				if e.param < len(call.Expr.Args) {
					out = append(out, updSite{call, call.Expr.Args[e.param], e.tree, e.hint})
				}
			}
		}
	}
	return out
}

func c01r1(c *Ctx) {
	c.Floor("C01.R1", 3)
	for _, f := range c.P.SortedFuncs() {
		apps := f.CallsTo(kAppendRecord)
		if len(apps) == 0 {
			continue
		}
		c.Funcs[f.Key] = true
		info := f.Info()
		sites := updateSites(c, f)
		for _, u := range sites {
			what := "tree"
			if u.hint && u.tree {
				what = "tree+hint"
			} else if u.hint {
				what = "hint"
			}
			key := f.Key + ": " + what + " update (" + short(u.call.Key) + ") after AppendRecord"
			ok, calls := f.OnlyFromCall(u.arg, kAppendRecord, 0)
			if !ok {
				c.viol("C01.R1", key, u.call.Pos(), "position passed to "+u.call.Key+" does not (only) flow from the result of AppendRecord in the same function: the index would point at a record other than the one just appended")
				continue
			}
			good := true
			for _, a := range calls {
				cfg := f.CFGFor(u.call.Expr)
				c.Paths++
				if !cfg.Dominates(a, u.call.Expr) {
					good = false
					c.viol("C01.R1", key, u.call.Pos(), "index update is reachable without passing the AppendRecord call at "+c.pos(a))
					continue
				}
				errObj := f.ResultObj(a, 1)
				if errObj == nil {
					good = false
					c.viol("C01.R1", key, u.call.Pos(), "error result of AppendRecord at "+c.pos(a)+" is discarded, so the index update is not confined to the err==nil edge")
					continue
				}
				if !prog.HasNilFact(info, f.GuardsAt(u.call.Expr), prog.IsObj(info, errObj), true) {
					good = false
					c.viol("C01.R1", key, u.call.Pos(), "index update is not guarded by err == nil of the AppendRecord at "+c.pos(a)+": a failed append would still be published")
				}
			}
			if good {
				c.ok("C01.R1", key, u.call.Pos(), "pos <= res0(AppendRecord), dominated, on err==nil edge")
			}
		}
		// every successful append is published to the tree and to the hints
		for _, a := range apps {
			errObj := f.ResultObj(a.Expr, 1)
			stop := func(n ast.Node) bool {
				if rs, ok := n.(*ast.ReturnStmt); ok && errObj != nil {
					return prog.HasNilFact(info, f.GuardsAt(rs), prog.IsObj(info, errObj), false)
				}
				return false
			}
			for _, kind := range []string{"tree", "hint"} {
				pass := func(n ast.Node) bool {
					for _, u := range sites {
						if ((kind == "tree" && u.tree) || (kind == "hint" && u.hint)) && prog.NodeIs(u.call.Expr)(n) {
							return true
						}
					}
					return false
				}
				c.Paths++
				esc := f.CFGFor(a.Expr).EscapesWithout(a.Expr, pass, stop)
				c.check(!esc.Found, "C01.R1", f.Key+": AppendRecord ⇒ "+kind+" update", a.Pos(), "every non-error path publishes the appended position to the "+kind,
					"a record is appended but a non-error path returns without publishing its position to the "+kind+": the acknowledged write is not readable (tree) or is lost at the next index rebuild (hint)", c.trail(esc.Trail)...)
			}
		}
	}
}

func c01r2(c *Ctx) {
	f := c.fn("C01.R2", "store.dataChunk.GetRecordByOffset")
	if f == nil {
		return
	}
	info := f.Info()
	bufs := f.CallsTo("store.dataChunk.GetRecordByOffsetInBuffer")
	files := f.CallsTo("store.readRecordAtPath", "store.readRecordAt")
	key := f.Key + ": buffer lookup before file read"
	if len(bufs) == 0 {
		c.viol("C01.R2", key, f.Pos(), "GetRecordByOffset no longer consults the write buffer (no call to GetRecordByOffsetInBuffer): records not yet flushed become unreadable")
		return
	}
	if len(files) == 0 {
		c.undec("C01.R2", key, "no file read call recognised in GetRecordByOffset")
		return
	}
	b := bufs[0]
	resObj, errObj := f.ResultObj(b.Expr, 0), f.ResultObj(b.Expr, 1)
	for _, fr := range files {
		g := f.GuardsAt(fr.Expr)
		c.Paths++
		dom := f.CFGFor(fr.Expr).Dominates(b.Expr, fr.Expr)
		hasErr := errObj != nil && prog.HasNilFact(info, g, prog.IsObj(info, errObj), true)
		hasRes := resObj != nil && prog.HasNilFact(info, g, prog.IsObj(info, resObj), true)
		switch {
		case !dom:
			c.viol("C01.R2", key, fr.Pos(), "file read is reachable without first looking into the write buffer")
		case !hasRes:
			c.viol("C01.R2", key, fr.Pos(), "file read is not confined to the case `buffer lookup returned nil`: a buffered (newer, unflushed) record would be bypassed or read twice")
		case !hasErr:
			c.viol("C01.R2", key, fr.Pos(), "file read is not confined to err == nil of the buffer lookup")
		default:
			c.ok("C01.R2", key, fr.Pos(), "buffer ≺ file; file read guarded by res==nil ∧ err==nil")
		}
	}
}

// keyGate reports whether guards contain an equality test between the key of
// record variable recObj and the key of the requested KeyInfo kiObj.
func keyGate(f *prog.Func, atoms []prog.Atom, recKey, kiKey func(ast.Expr) bool) bool {
	info := f.Info()
	for _, a := range atoms {
		// bytes.Compare(a,b) == 0
		if a.Op == token.EQL {
			for _, pair := range [][2]ast.Expr{{a.X, a.Y}, {a.Y, a.X}} {
				if call, ok := prog.Unparen(pair[0]).(*ast.CallExpr); ok && prog.CalleeKey(info, call) == "bytes.Compare" && len(call.Args) == 2 {
					if v, ok := prog.ConstInt(info, pair[1]); ok && v == 0 {
						if (recKey(call.Args[0]) && kiKey(call.Args[1])) || (recKey(call.Args[1]) && kiKey(call.Args[0])) {
							return true
						}
					}
				}
			}
			// string(rec.Key) == ki.StringKey
			x, y := prog.StripConv(info, a.X), prog.StripConv(info, a.Y)
			if (recKey(x) && kiKey(y)) || (recKey(y) && kiKey(x)) {
				return true
			}
		}
		if a.Op == token.ILLEGAL && !a.Neg {
			if call, ok := prog.Unparen(a.X).(*ast.CallExpr); ok && prog.CalleeKey(info, call) == "bytes.Equal" && len(call.Args) == 2 {
				if (recKey(call.Args[0]) && kiKey(call.Args[1])) || (recKey(call.Args[1]) && kiKey(call.Args[0])) {
					return true
				}
			}
		}
	}
	return false
}

func c01r3(c *Ctx) {
	const R = "C01.R3"
	f := c.fn(R, kBucketGet)
	if f == nil {
		return
	}
	info := f.Info()
	payload := f.Result(0)
	ki := f.Param(0)
	memOnly := f.Param(1)
	if payload == nil || ki == nil || memOnly == nil {
		c.undec(R, f.Key, "Bucket.get no longer has the (ki, memOnly) -> (payload named result) shape")
		return
	}
	kiKey := func(e ast.Expr) bool {
		e = prog.StripConv(info, e)
		k, _ := prog.FieldOf(info, e)
		return (k == "store.KeyInfo.Key" || k == "store.KeyInfo.StringKey") && prog.RootObj(info, e) == ki
	}
	n := 0
	// all assignments to the named result `payload`
	ast.Inspect(f.Decl.Body, func(x ast.Node) bool {
		as, ok := x.(*ast.AssignStmt)
		if !ok {
			return true
		}
		for i, l := range as.Lhs {
			if prog.ObjOf(info, l) != payload || i >= len(as.Rhs) && len(as.Rhs) != 1 {
				continue
			}
			var rhs ast.Expr
			if len(as.Rhs) == len(as.Lhs) {
				rhs = as.Rhs[i]
			} else {
				rhs = as.Rhs[0]
			}
			n++
			pos := c.pos(as)
			if prog.IsNil(info, rhs) {
				c.ok(R, f.Key+": payload = nil", pos, "miss")
				continue
			}
			if call, ok := prog.Unparen(rhs).(*ast.CallExpr); ok && (prog.CalleeKey(info, call) == "builtin.new" || prog.CalleeKey(info, call) == "conv") {
				// fresh, body-less payload: only for memOnly
				g := f.GuardsAt(as)
				if prog.HasBoolFact(g, prog.IsObj(info, memOnly), true) {
					c.ok(R, f.Key+": payload = new(Payload) [meta only]", pos, "guarded by memOnly")
				} else {
					c.viol(R, f.Key+": payload = new(Payload) [meta only]", pos, "a body-less payload is returned outside the memOnly branch")
				}
				continue
			}
			if u, ok := prog.Unparen(rhs).(*ast.UnaryExpr); ok && u.Op == token.AND {
				if _, isLit := prog.Unparen(u.X).(*ast.CompositeLit); isLit {
					g := f.GuardsAt(as)
					c.check(prog.HasBoolFact(g, prog.IsObj(info, memOnly), true), R, f.Key+": payload = &Payload{} [meta only]", pos, "guarded by memOnly", "a body-less payload is returned outside the memOnly branch")
					continue
				}
			}
			// payload = <rec>.Payload
			fk, _ := prog.FieldOf(info, rhs)
			recObj := prog.RootObj(info, rhs)
			if fk != "store.Record.Payload" || recObj == nil {
				c.viol(R, f.Key+": payload = <unrecognised>", pos, "Bucket.get returns a payload that is neither a fetched record's payload, a meta-only payload under memOnly, nor nil")
				continue
			}
			// where does the record come from?
			srcs := f.SourcesAt(prog.Unparen(rhs).(*ast.SelectorExpr).X, as)
			class := ""
			var fetch *ast.CallExpr
			for _, s := range srcs {
				if s.Kind == "call" && s.Key == "store.dataStore.GetRecordByPos" {
					fetch = s.Call
				} else {
					class = "unknown"
				}
			}
			if fetch == nil || class == "unknown" {
				c.viol(R, f.Key+": payload = rec.Payload", pos, "record does not come from dataStore.GetRecordByPos")
				continue
			}
			// classify the position argument
			psrcs := f.SourcesAt(fetch.Args[0], fetch)
			fromHint, fromTree, other := false, false, false
			var hintCalls []*ast.CallExpr
			for _, s := range psrcs {
				switch {
				case s.Kind == "call" && s.Key == "store.hintMgr.getItem":
					fromHint = true
					hintCalls = append(hintCalls, s.Call)
				case s.Kind == "call" && (s.Key == "store.HTree.get" || s.Key == "store.CollisionTable.get"):
					fromTree = true
				case s.Kind == "zero":
					// named result's zero value before assignment
				default:
					other = true
				}
			}
			recKey := func(e ast.Expr) bool {
				e = prog.StripConv(info, e)
				k, _ := prog.FieldOf(info, e)
				return k == "store.Record.Key" && prog.RootObj(info, e) == recObj
			}
			switch {
			case other || (fromHint && fromTree) || (!fromHint && !fromTree):
				c.viol(R, f.Key+": payload = rec.Payload", pos, "cannot attribute the fetched position to the tree/collision table or to a hint lookup of the requested key")
			case fromTree:
				if keyGate(f, f.GuardsAt(as), recKey, kiKey) {
					c.ok(R, f.Key+": payload = rec.Payload [tree position]", pos, "guarded by key equality with the requested key")
				} else {
					c.viol(R, f.Key+": payload = rec.Payload [tree position]", pos, "a record fetched through the tree slot is returned without comparing its key with the requested key: a colliding or relocated slot would return another key's value")
				}
			case fromHint:
				good := true
				for _, hc := range hintCalls {
					if len(hc.Args) < 2 {
						good = false
						continue
					}
					k0, _ := prog.FieldOf(info, hc.Args[0])
					k1, _ := prog.FieldOf(info, hc.Args[1])
					if k0 != "store.KeyInfo.KeyHash" || prog.RootObj(info, hc.Args[0]) != ki || k1 != "store.KeyInfo.StringKey" || prog.RootObj(info, hc.Args[1]) != ki {
						good = false
					}
				}
				c.check(good, R, f.Key+": payload = rec2.Payload [hint position]", pos, "position comes from hintMgr.getItem(ki.KeyHash, ki.StringKey)", "the second fetch uses a hint item that was not looked up with the requested key hash and key")
			}
		}
		return true
	})
	c.Floor(R, 3)
	_ = n
}

func c01r4(c *Ctx) {
	const R = "C01.R4"
	if f := c.fn(R, "gobeansdb.StorageClient.Get"); f != nil {
		info := f.Info()
		found := false
		ast.Inspect(f.Decl.Body, func(x ast.Node) bool {
			as, ok := x.(*ast.AssignStmt)
			if !ok || len(as.Lhs) != 1 || len(as.Rhs) != 1 {
				return true
			}
			lk, _ := prog.FieldOf(info, as.Lhs[0])
			rk, _ := prog.FieldOf(info, as.Rhs[0])
			if lk == "memcache.Item.CArray" && rk == "store.Payload.CArray" {
				found = true
				pl := prog.RootObj(info, as.Rhs[0])
				isVer := func(e ast.Expr) bool {
					k, _ := prog.FieldOf(info, e)
					return k == "store.Meta.Ver" && prog.RootObj(info, e) == pl
				}
				g := f.GuardsAt(as)
				okg := false
				for _, a := range g {
					if prog.AtomCmp(a, token.GEQ, isVer, prog.IsIntConst(info, 0)) || prog.AtomCmp(a, token.GTR, isVer, prog.IsIntConst(info, 0)) || prog.AtomCmp(a, token.GTR, isVer, prog.IsIntConst(info, -1)) {
						okg = true
					}
				}
				c.check(okg, R, f.Key+": item.CArray = payload.CArray", c.pos(as), "value handed to the client only when payload.Ver >= 0", "a tombstone (negative version) can be handed to the client as a live value: deleted keys would read as present")
			}
			return true
		})
		if !found {
			c.undec(R, f.Key, "hand-over `item.CArray = payload.CArray` not found in StorageClient.Get")
		}
	}
	if f := c.fn(R, "gobeansdb.StorageClient.getMeta"); f != nil {
		info := f.Info()
		// the formatted reply must not be conditional on the sign of Ver
		bad := ""
		n := 0
		for _, call := range f.CallsTo("fmt.Sprintf") {
			if !prog.MentionsField(info, call.Expr, "store.Meta.Ver") {
				continue
			}
			n++
			for _, a := range f.GuardsAt(call.Expr) {
				isVer := func(e ast.Expr) bool { k, _ := prog.FieldOf(info, e); return k == "store.Meta.Ver" }
				isZero := prog.IsIntConst(info, 0)
				if prog.AtomCmp(a, token.GEQ, isVer, isZero) || prog.AtomCmp(a, token.GTR, isVer, isZero) {
					bad = call.Pos()
				}
			}
		}
		if n == 0 {
			c.undec(R, f.Key, "no Sprintf formatting payload.Ver found in getMeta")
		} else {
			c.check(bad == "", R, f.Key+": meta reply formats Ver unconditionally", f.Pos(), "tombstones are visible to meta-get", "meta-get hides negative versions (formatting is guarded by Ver >= 0 at "+bad+")")
		}
	}
	if f := c.fn(R, "store.GetPayloadForDelete"); f != nil {
		info := f.Info()
		okv, seen := false, false
		ast.Inspect(f.Decl.Body, func(x ast.Node) bool {
			if as, ok := x.(*ast.AssignStmt); ok && len(as.Lhs) == 1 && len(as.Rhs) == 1 {
				if k, _ := prog.FieldOf(info, as.Lhs[0]); k == "store.Meta.Ver" {
					seen = true
					if v, ok := prog.ConstInt(info, as.Rhs[0]); ok && v < 0 {
						okv = true
					}
				}
			}
			return true
		})
		if !seen {
			c.undec(R, f.Key, "no assignment to Ver in GetPayloadForDelete")
		} else {
			c.check(okv, R, f.Key+": Ver = negative constant", f.Pos(), "delete payload carries a negative version", "delete payload no longer carries a negative version")
		}
	}
}

func c01r6(c *Ctx) {
	const R = "C01.R6"
	f := c.fn(R, "store.Bucket.incr")
	if f == nil {
		return
	}
	info := f.Info()
	var tested, written []string
	var tpos, wpos string
	ast.Inspect(f.Decl.Body, func(x ast.Node) bool {
		switch s := x.(type) {
		case *ast.BinaryExpr:
			if s.Op == token.EQL || s.Op == token.NEQ {
				for _, pr := range [][2]ast.Expr{{s.X, s.Y}, {s.Y, s.X}} {
					if k, _ := prog.FieldOf(info, pr[0]); k == "store.Meta.Flag" {
						if n := prog.ConstObjName(info, pr[1]); n != "" {
							tested = append(tested, n)
							tpos = c.pos(s)
						}
					}
				}
			}
		case *ast.AssignStmt:
			if len(s.Lhs) == 1 && len(s.Rhs) == 1 {
				if k, _ := prog.FieldOf(info, s.Lhs[0]); k == "store.Meta.Flag" {
					if n := prog.ConstObjName(info, s.Rhs[0]); n != "" {
						written = append(written, n)
						wpos = c.pos(s)
					} else {
						written = append(written, "<non-constant>")
						wpos = c.pos(s)
					}
				}
			}
		}
		return true
	})
	key := f.Key + ": flag tested == flag written"
	if len(tested) == 0 || len(written) == 0 {
		c.viol(R, key, f.Pos(), "incr no longer both tests the old record's flag against a named constant and writes a named constant flag (tested="+join(tested)+" written="+join(written)+")")
		return
	}
	same := true
	for _, t := range tested {
		for _, w := range written {
			if t != w {
				same = false
			}
		}
	}
	c.check(same, R, key, wpos, "tests and writes "+tested[0], "incr tests the old flag against "+join(tested)+" ("+tpos+") but writes "+join(written)+": its own counters would be rejected (or foreign values accepted) on the next incr")
}

func join(s []string) string {
	out := ""
	for i, x := range s {
		if i > 0 {
			out += ","
		}
		out += x
	}
	if out == "" {
		return "∅"
	}
	return out
}

func c01r7(c *Ctx) {
	const R = "C01.R7"
	f := c.fn(R, "store.Bucket.checkAndSet")
	if f == nil {
		return
	}
	info := f.Info()
	v := f.Param(1)
	arbs := f.CallsTo("store.Bucket.checkAndUpdateVerison")
	if len(arbs) == 0 {
		c.viol(R, f.Key+": version arbitration", f.Pos(), "checkAndSet no longer calls the version arbitration (checkAndUpdateVerison) at all")
		return
	}
	arb := arbs[0]
	valid := f.ResultObj(arb.Expr, 1)
	n := 0
	for _, u := range f.CallsTo(kHTreeSet, kBucketSet) {
		// does the update carry v's meta?
		carries := false
		for _, a := range u.Expr.Args {
			if prog.Mentions(info, a, v) {
				carries = true
			}
		}
		if !carries {
			continue
		}
		n++
		key := f.Key + ": " + short(u.Key) + " storing the client revision"
		c.Paths++
		dom := f.CFGFor(u.Expr).Dominates(arb.Expr, u.Expr)
		okValid := valid != nil && prog.HasBoolFact(f.GuardsAt(u.Expr), prog.IsObj(info, valid), true)
		if dom && okValid {
			c.ok(R, key, u.Pos(), "dominated by the valid==true edge of checkAndUpdateVerison")
		} else {
			c.viol(R, key, u.Pos(), "an index update that stores the client-supplied revision is reachable without passing the valid==true edge of checkAndUpdateVerison: an explicit revision that is not larger in absolute value can be accepted")
		}
	}
	if n == 0 {
		c.undec(R, f.Key, "no index update carrying the client payload found in checkAndSet")
	}
}

// c01r8 (thorough): discovery over the whole program.
func c01r8(c *Ctx) {
	const R = "C01.R8"
	allowed := map[string]bool{
		kAppendRecord: true, "store.dataChunk.AppendRecordGC": true,
		"store.HTree.get": true, "store.CollisionTable.get": true, "store.hintMgr.getItem": true,
		"store.hintFileReader.next": true, "store.Bucket.get": true,
	}
	for _, key := range []string{kHTreeSet, kHintSet} {
		for _, call := range c.P.CallersOf(key) {
			f := call.Fn
			c.Funcs[f.Key] = true
			arg := posArgOf(call)
			okAll := true
			why := ""
			for _, s := range f.SourcesAt(arg, call.Expr) {
				switch s.Kind {
				case "call":
					if !allowed[s.Key] {
						okAll, why = false, "call "+s.Key
					}
				case "param", "zero", "const", "global", "range":
					// parameters are checked at the callers; zero = composite built field by field
				case "other":
					if _, isLit := prog.Unparen(s.Expr).(*ast.CompositeLit); !isLit {
						okAll, why = false, "expression at "+c.pos(s.Expr)
					}
				}
			}
			c.check(okAll, R, f.Key+": "+short(key)+" position provenance", call.Pos(), "position flows from an append, a lookup or a hint item", "position argument has an unexpected origin ("+why+")")
		}
	}
}

// isAbsFunc: f returns -n for n < 0 and n otherwise.
func isAbsFunc(f *prog.Func) bool {
	if f == nil || f.Param(0) == nil || f.Param(1) != nil {
		return false
	}
	info := f.Info()
	neg, pos := false, false
	for _, rs := range f.CFG().Returns() {
		if len(rs.Results) != 1 {
			continue
		}
		r := prog.Unparen(rs.Results[0])
		if u, ok := r.(*ast.UnaryExpr); ok && u.Op == token.SUB && prog.ObjOf(info, u.X) == f.Param(0) {
			for _, a := range f.GuardsAt(rs) {
				if prog.AtomCmp(a, token.LSS, prog.IsObj(info, f.Param(0)), prog.IsIntConst(info, 0)) {
					neg = true
				}
			}
		}
		if prog.ObjOf(info, r) == f.Param(0) {
			pos = true
		}
	}
	return neg && pos
}

func c01r9(c *Ctx) {
	const R = "C01.R9"
	f := c.fn(R, "store.Bucket.checkAndUpdateVerison")
	if f == nil {
		return
	}
	info := f.Info()
	oldv, ver := f.Param(0), f.Param(1)
	n := 0
	for _, rs := range f.CFG().Returns() {
		if len(rs.Results) != 2 {
			continue
		}
		if b, isC := prog.ConstBool(info, rs.Results[1]); !isC || b {
			continue
		}
		n++
		// the rejecting comparison must be on absolute values of both versions
		okAbs, raw := false, false
		for _, a := range f.GuardsAt(rs) {
			if a.Y == nil {
				continue
			}
			absOf := func(e ast.Expr, v types.Object) bool {
				call, ok := prog.Unparen(e).(*ast.CallExpr)
				if !ok || len(call.Args) != 1 || prog.ObjOf(info, call.Args[0]) != v {
					return false
				}
				return isAbsFunc(c.P.F(prog.CalleeKey(info, call)))
			}
			if (absOf(a.X, ver) && absOf(a.Y, oldv)) || (absOf(a.X, oldv) && absOf(a.Y, ver)) {
				okAbs = true
			}
			if (prog.ObjOf(info, a.X) == ver && prog.ObjOf(info, a.Y) == oldv) || (prog.ObjOf(info, a.X) == oldv && prog.ObjOf(info, a.Y) == ver) {
				raw = true
			}
		}
		switch {
		case okAbs:
			c.ok(R, f.Key+": explicit revision rejected unless larger in absolute value", c.pos(rs), "abs(ver) vs abs(oldv)")
		case raw:
			c.viol(R, f.Key+": explicit revision rejected unless larger in absolute value", c.pos(rs), "the arbitration compares the signed versions instead of their absolute values: over a tombstone (negative stored version) any positive explicit revision is accepted, so a stale sync write resurrects a deleted key with a version that goes backwards")
		default:
			c.undec(R, f.Key+": explicit revision rejected unless larger in absolute value", "the rejecting comparison is neither on abs(ver)/abs(oldv) nor on the raw versions: arbitration mechanism not recognised")
		}
		// the version handed back on rejection must not be negative: callers key the release of the payload on its sign (C12)
		v, isC := prog.ConstInt(info, rs.Results[0])
		if c.Prop != "C12" {
			continue
		}
		c.check(isC && v >= 0, "C12.R8", f.Key+": rejected revision reports a non-negative version", c.pos(rs), "constant >= 0",
			"on rejection checkAndUpdateVerison hands back a version that can be negative (e.g. the stored tombstone's); checkAndSet assigns it to v.Ver and its deferred release is keyed on v.Ver >= 0, so the rejected payload's SetData unit and buffer are never released")
	}
	if n == 0 {
		c.undec(R, f.Key, "no rejecting return found")
	}
}

func c01r10(c *Ctx) {
	const R = "C01.R10"
	if f := c.fn(R, kHTreeSet); f != nil {
		info := f.Info()
		ki, meta, pos := f.Param(0), f.Param(1), f.Param(2)
		ok := false
		ast.Inspect(f.Decl.Body, func(x ast.Node) bool {
			cl, isC := x.(*ast.CompositeLit)
			if !isC || len(cl.Elts) != 4 {
				return true
			}
			if t := info.TypeOf(cl); t == nil || !strings.HasSuffix(t.String(), "HTreeItem") {
				return true
			}
			e := cl.Elts
			k0, _ := prog.FieldOf(info, e[0])
			k2, _ := prog.FieldOf(info, e[2])
			k3, _ := prog.FieldOf(info, e[3])
			if k0 == "store.KeyInfo.KeyHash" && prog.RootObj(info, e[0]) == ki && prog.ObjOf(info, e[1]) == pos && k2 == "store.Meta.Ver" && prog.RootObj(info, e[2]) == meta && k3 == "store.Meta.ValueHash" && prog.RootObj(info, e[3]) == meta {
				ok = true
			}
			return true
		})
		c.check(ok, R, f.Key+": item = {ki.KeyHash, pos, meta.Ver, meta.ValueHash}", f.Pos(), "all four from the arguments", "the tree item built by HTree.set does not carry the key hash, position, version and value hash it was handed")
		c.check(len(f.CallsTo("store.HTree.setReq")) == 1, R, f.Key+": stored through setReq", f.Pos(), "setReq(&req)", "HTree.set no longer stores the item")
	}
	if f := c.fn(R, "store.HTree.get"); f != nil {
		info := f.Info()
		okPos, okFound, okMeta := false, false, false
		// what each result can be: assignments to the named result, explicit return
		// operands, and (one step back) the definitions of a local that is returned
		resExprs := func(i int) []ast.Expr {
			var out []ast.Expr
			res := f.Result(i)
			var add func(e ast.Expr, at ast.Node, depth int)
			add = func(e ast.Expr, at ast.Node, depth int) {
				out = append(out, e)
				if depth > 0 {
					if o := prog.ObjOf(info, prog.Unparen(e)); o != nil && o != res {
						for _, d := range f.DefsOfPath(prog.Unparen(e)) {
							if d.Rhs != nil {
								out = append(out, d.Rhs)
							}
						}
						for _, src := range f.SourcesAt(e, at) {
							if src.Expr != nil && src.Expr != e {
								add(src.Expr, at, depth-1)
							}
							if src.Call != nil {
								out = append(out, src.Call)
							}
						}
					}
				}
			}
			ast.Inspect(f.Decl.Body, func(x ast.Node) bool {
				switch s := x.(type) {
				case *ast.FuncLit:
					return false
				case *ast.AssignStmt:
					for j, l := range s.Lhs {
						if res != nil && prog.ObjOf(info, l) == res {
							if len(s.Rhs) == len(s.Lhs) {
								add(s.Rhs[j], s, 1)
							} else if len(s.Rhs) == 1 {
								add(s.Rhs[0], s, 1)
							}
						}
					}
				case *ast.ReturnStmt:
					if i < len(s.Results) {
						add(s.Results[i], s, 2)
					}
				}
				return true
			})
			return out
		}
		for _, e := range resExprs(1) {
			if k, _ := prog.FieldOf(info, e); strings.HasSuffix(k, ".Pos") {
				okPos = true
			}
		}
		for _, e := range resExprs(2) {
			if call, isC := prog.Unparen(e).(*ast.CallExpr); isC && prog.CalleeKey(info, call) == "store.HTree.getReq" {
				okFound = true
			}
		}
		for _, e := range resExprs(0) {
			// &Meta{0, 0, item.Ver, item.Vhash, 0} or the keyed form
			ast.Inspect(e, func(y ast.Node) bool {
				cl, isC := y.(*ast.CompositeLit)
				if !isC {
					return true
				}
				ver, vh := false, false
				for idx, el := range cl.Elts {
					v := el
					name := ""
					if kv, isKV := el.(*ast.KeyValueExpr); isKV {
						v = kv.Value
						if id, isId := kv.Key.(*ast.Ident); isId {
							name = id.Name
						}
					}
					k, _ := prog.FieldOf(info, v)
					if strings.HasSuffix(k, ".Ver") && (name == "Ver" || (name == "" && idx == 2 && len(cl.Elts) == 5)) {
						ver = true
					}
					if strings.HasSuffix(k, ".Vhash") && (name == "ValueHash" || (name == "" && idx == 3 && len(cl.Elts) == 5)) {
						vh = true
					}
				}
				if ver && vh {
					okMeta = true
				}
				return true
			})
		}
		c.check(okPos && okFound && okMeta, R, f.Key+": returns the stored item's position, version and value hash", f.Pos(), "pos = item.Pos; meta = {Ver, Vhash}", "HTree.get does not hand back the position / version / value hash of the stored item")
	}
	if f := c.fn(R, "store.Payload.CalcValueHash"); f != nil {
		info := f.Info()
		ok := false
		ast.Inspect(f.Decl.Body, func(x ast.Node) bool {
			if as, isA := x.(*ast.AssignStmt); isA && len(as.Lhs) == 1 && prog.IsField(info, "store.Meta.ValueHash")(as.Lhs[0]) {
				if call, isC := prog.Unparen(as.Rhs[0]).(*ast.CallExpr); isC && prog.CalleeKey(info, call) == "store.Getvhash" && prog.MentionsField(info, call.Args[0], "cmem.CArray.Body") {
					ok = true
				}
			}
			return true
		})
		c.check(ok, R, f.Key+": ValueHash = Getvhash(p.Body)", f.Pos(), "hash of the payload's own body", "CalcValueHash no longer stores the hash of the payload's body")
	}
	if f := c.fn(R, "gobeansdb.StorageClient.Delete"); f != nil {
		info := f.Info()
		sets := f.CallsTo("store.HStore.Set")
		ok := false
		for _, s := range sets {
			for _, src := range f.SourcesAt(s.Expr.Args[1], s.Expr) {
				if src.Kind == "call" && src.Key == "store.GetPayloadForDelete" {
					ok = true
				}
			}
		}
		c.check(ok, R, f.Key+": delete = set of the delete payload", f.Pos(), "hstore.Set(ki, GetPayloadForDelete())", "Delete no longer writes the tombstone payload")
		// NOT_FOUND ⇒ (false, nil)
		nf := false
		ast.Inspect(f.Decl.Body, func(x ast.Node) bool {
			if is, isI := x.(*ast.IfStmt); isI {
				ast.Inspect(is.Cond, func(y ast.Node) bool {
					if v, isS := y.(*ast.BasicLit); isS && v.Value == `"NOT_FOUND"` {
						for _, st := range is.Body.List {
							if rs, isR := st.(*ast.ReturnStmt); isR && len(rs.Results) == 2 {
								if b, isC := prog.ConstBool(info, rs.Results[0]); isC && !b && prog.IsNil(info, rs.Results[1]) {
									nf = true
								}
							}
						}
					}
					return true
				})
			}
			return true
		})
		c.check(nf, R, f.Key+": deleting a missing key reports not-found, not an error", f.Pos(), `"NOT_FOUND" ⇒ (false, nil)`, "the NOT_FOUND outcome of a delete is no longer mapped to (false, nil): deleting a missing key yields SERVER_ERROR or DELETED")
	}
}
