SPECS = [
 dict(name='C01.R1-stale-pos-to-hint', rule='C01.R1', why='Bucket.set passes a zero Position to hints.set',
      edits=[('store/bucket.go', 'bkt.hints.set(ki, &v.Meta, pos, v.RecSize, "set")', 'bkt.hints.set(ki, &v.Meta, Position{}, v.RecSize, "set")')]),
 dict(name='C01.R1-publish-on-error', rule='C01.R1', why='index updated even when the append failed',
      edits=[('store/bucket.go', '''	pos, err := bkt.datas.AppendRecord(&Record{ki.Key, v})
	if err != nil {
		return err
	}
	bkt.htree.set(ki, &v.Meta, pos)''', '''	pos, err := bkt.datas.AppendRecord(&Record{ki.Key, v})
	bkt.htree.set(ki, &v.Meta, pos)
	if err != nil {
		return err
	}''')]),
 dict(name='C01.R2-file-first', rule='C01.R2', why='GetRecordByOffset reads the file first, the buffer only on file error',
      edits=[('store/datachunk.go', '''	res, err = dc.GetRecordByOffsetInBuffer(offset)
	if err != nil {
		inbuffer = true
		return
	}
	if res != nil {
		inbuffer = true
		cmem.DBRL.GetData.AddSize(res.Payload.DiffSizeAfterDecompressed())
		res.Payload.Decompress()
		return
	}
	wrec, e := readRecordAtPath(dc.path, offset)
	if e != nil {
		return nil, false, e
	}''', '''	wrec, e := readRecordAtPath(dc.path, offset)
	if e != nil {
		res, err = dc.GetRecordByOffsetInBuffer(offset)
		if err != nil || res == nil {
			return nil, true, e
		}
		inbuffer = true
		cmem.DBRL.GetData.AddSize(res.Payload.DiffSizeAfterDecompressed())
		res.Payload.Decompress()
		return
	}''')]),
 dict(name='C01.R3-len-only-key-gate', rule='C01.R3', why='key gate compares lengths only',
      edits=[('store/bucket.go', '} else if bytes.Compare(rec.Key, ki.Key) == 0 {', '} else if len(rec.Key) == len(ki.Key) && bytes.Compare(rec.Key[:1], ki.Key[:1]) == 0 {')]),
 dict(name='C01.R4-tombstone-served', rule='C01.R4', why='tombstone branch removed from StorageClient.Get',
      edits=[('gobeansdb/store.go', '''	if payload.Ver < 0 {
		cmem.DBRL.GetData.SubSizeAndCount(payload.CArray.Cap)
		payload.CArray.Free()
		return nil, nil
	}
	item := new(mc.Item) // TODO: avoid alloc?
	item.CArray = payload.CArray''', '''	item := new(mc.Item) // TODO: avoid alloc?
	item.CArray = payload.CArray''')]),
 dict(name='C01.R6-incr-flag-mismatch', rule='C01.R6', why='incr writes a different flag than it tests',
      edits=[('store/bucket.go', '	payload.Flag = FLAG_INCR\n', '	payload.Flag = FLAG_CLIENT_COMPRESS\n')]),
 dict(name='C01.R7-set-above-valid', rule='C01.R7', why='bkt.set moved above the !valid return',
      edits=[('store/bucket.go', '''	if !valid {
		return nil
	}
	if v.Ver < 0 && (payload == nil || oldv < 0) {
		return fmt.Errorf("NOT_FOUND")
	}
	ok = true
	bkt.set(ki, v)
	return nil''', '''	if v.Ver < 0 && (payload == nil || oldv < 0) {
		return fmt.Errorf("NOT_FOUND")
	}
	ok = true
	bkt.set(ki, v)
	if !valid {
		return nil
	}
	return nil''')]),
 dict(name='C04.L1-lock-after-get', rule='C04.L1', why='writeLock taken after the old version was read',
      edits=[('store/bucket.go', '''	bkt.writeLock.Lock()
	ok := false
	defer func() {
		bkt.writeLock.Unlock()
		if !ok && v.Ver >= 0 {
			cmem.DBRL.SetData.SubSizeAndCount(v.CArray.Cap)
			v.Free()
		}
	}()
	oldv := int32(0)
	payload, pos, err := bkt.get(ki, true)
	if err != nil {
		return err
	}
''', '''	ok := false
	oldv := int32(0)
	payload, pos, err := bkt.get(ki, true)
	bkt.writeLock.Lock()
	defer func() {
		bkt.writeLock.Unlock()
		if !ok && v.Ver >= 0 {
			cmem.DBRL.SetData.SubSizeAndCount(v.CArray.Cap)
			v.Free()
		}
	}()
	if err != nil {
		return err
	}
''')]),
 dict(name='C04.L3-unlock-before-chunk-append', rule='C04.L3', why='ds.Unlock() moved before chunks[newHead].AppendRecord',
      edits=[('store/data.go', '''	wrec.pos = pos
	ds.chunks[ds.newHead].AppendRecord(wrec)
	ds.wbufSize += size
''', '''	wrec.pos = pos
	head := &ds.chunks[ds.newHead]
	ds.wbufSize += size
	ds.Unlock()
	head.AppendRecord(wrec)
	ds.Lock()
''')]),
 dict(name='C04.L4-no-copy', rule='C04.L4', why='buffered record returned without Copy',
      edits=[('store/datachunk.go', '		res = wrec.rec.Copy()\n', '		res = wrec.rec\n')]),
 dict(name='C04.L5-detach-before-flush', rule='C04.L5', why='detach before bufio.Flush (seed C01/a)',
      edits=[('store/datachunk.go', '''	if err = w.wbuf.Flush(); err != nil {
		logger.Fatalf("write data fail, stop! err: %v", err)
		return 0, err
	}

	dc.Lock()
	tofree := dc.wbuf[:n]
	dc.wbuf = dc.wbuf[n:]
	dc.Unlock()
''', '''	dc.Lock()
	tofree := dc.wbuf[:n]
	dc.wbuf = dc.wbuf[n:]
	dc.Unlock()
	if err = w.wbuf.Flush(); err != nil {
		logger.Fatalf("write data fail, stop! err: %v", err)
		return 0, err
	}

''')]),
 dict(name='C04.L5-free-before-detach', rule='C04.L5', why='Free loop before the detach',
      edits=[('store/datachunk.go', '''	dc.Lock()
	tofree := dc.wbuf[:n]
	dc.wbuf = dc.wbuf[n:]
	dc.Unlock()
	for _, wrec := range tofree {
		wrec.rec.Payload.Free()
	}
''', '''	for _, wrec := range dc.wbuf[:n] {
		wrec.rec.Payload.Free()
	}
	dc.Lock()
	dc.wbuf = dc.wbuf[n:]
	dc.Unlock()
''')]),
 dict(name='C04.L6-no-size-check', rule='C04.L6', why='flush writes without comparing offset with file size',
      edits=[('store/data.go', '''	if w.offset != filessize {
		logger.Fatalf(''', '''	if w.offset != filessize && false {
		logger.Fatalf(''')]),
 dict(name='C04.L7-unlocked-leaf-reader', rule='C04.L7', why='new unlocked reader of tree.leafs',
      edits=[('store/htree.go', '''func (tree *HTree) ListTop() {''', '''func (tree *HTree) LeafBytes() (n int) {
	for i := range tree.leafs {
		n += tree.leafs[i].Len
	}
	return
}

func (tree *HTree) ListTop() {''')]),
 dict(name='C04.L2-set-outside-lock', rule='C04.L2', why='a new caller publishes through Bucket.set without the write lock',
      edits=[('store/bucket.go', '''func (bkt *Bucket) listDir(ki *KeyInfo) ([]byte, error) {''', '''func (bkt *Bucket) touch(ki *KeyInfo, v *Payload) error {
	return bkt.set(ki, v)
}

func (bkt *Bucket) listDir(ki *KeyInfo) ([]byte, error) {''')]),
 # benign edits: must stay silent
 dict(name='benign-bytes-equal', kind='benign', rule='C01', why='bytes.Compare==0 -> bytes.Equal',
      edits=[('store/bucket.go', '} else if bytes.Compare(rec.Key, ki.Key) == 0 {', '} else if bytes.Equal(rec.Key, ki.Key) {')]),
 dict(name='benign-early-return-to-else', kind='benign', rule='C01', why='early return <-> else in Bucket.set',
      edits=[('store/bucket.go', '''	if err != nil {
		return err
	}
	bkt.htree.set(ki, &v.Meta, pos)
	bkt.hints.set(ki, &v.Meta, pos, v.RecSize, "set")
	return nil''', '''	if err == nil {
		bkt.htree.set(ki, &v.Meta, pos)
		bkt.hints.set(ki, &v.Meta, pos, v.RecSize, "set")
		return nil
	} else {
		return err
	}''')]),
 dict(name='benign-rename-locals-log', kind='benign', rule='C04', why='rename local + extra logging in dataChunk.flush',
      edits=[('store/datachunk.go', '''	dc.Lock()
	tofree := dc.wbuf[:n]
	dc.wbuf = dc.wbuf[n:]
	dc.Unlock()
	for _, wrec := range tofree {
		wrec.rec.Payload.Free()
	}''', '''	dc.Lock()
	done := dc.wbuf[:n]
	dc.wbuf = dc.wbuf[n:]
	dc.Unlock()
	logger.Debugf("flushed %d records", len(done))
	for _, w2 := range done {
		w2.rec.Payload.Free()
	}''')]),
 dict(name='benign-split-set', kind='benign', rule='C01', why='Bucket.set split into helpers, both called under the lock',
      edits=[('store/bucket.go', '''	bkt.htree.set(ki, &v.Meta, pos)
	bkt.hints.set(ki, &v.Meta, pos, v.RecSize, "set")
	return nil
}''', '''	bkt.publish(ki, v, pos)
	return nil
}

func (bkt *Bucket) publish(ki *KeyInfo, v *Payload, pos Position) {
	bkt.htree.set(ki, &v.Meta, pos)
	bkt.hints.set(ki, &v.Meta, pos, v.RecSize, "set")
}''')]),
]
