#!/bin/sh
# Self-validation of the checker: every mutant patch must make its expected rule
# fire; every benign patch must leave all checks silent. One process per variant.
#   tools/selftest.sh [property-id|all] [mutants|benign|both]
cd "$(dirname "$0")/.."
V=$(pwd)
P=${1:-all}; KIND=${2:-both}
export GOFLAGS=-mod=mod GOPROXY=off GOSUMDB=off GOTOOLCHAIN=local
T=$(mktemp -d "${TMPDIR:-/tmp}/gbself.XXXXXX")
trap 'rm -rf "$T"' EXIT
run_one() {
  patch=$1; kind=$2
  name=$(basename "$patch" .patch)
  expect=$(sed -n 's/^# expect: *//p' "$patch" | head -1)
  prop=$(echo "$expect" | cut -d. -f1)
  [ "$kind" = benign ] && prop=${expect:-all}
  d="$T/$name.$kind"; mkdir -p "$d"
  rsync -a --exclude .git --exclude '*.tmp' /repo/ "$d/"
  if ! ( cd "$d" && patch -p1 -s -f < "$patch" ) >/dev/null 2>&1; then
    echo "SKIP $kind $name (patch does not apply to the current tree)"; rm -rf "$d"; return 0
  fi
  out=$("$V/bin/gbcheck" -verif "$V" -repo "$d" -property "$prop" -tier quick -no-evidence -json "$d.json" 2>&1); code=$?
  rm -rf "$d"
  if [ "$kind" = mutants ]; then
    if python3 - "$d.json" "$expect" <<'PY'
import json,sys
obs=json.load(open(sys.argv[1])); want=sys.argv[2]
sys.exit(0 if any(o['verdict']=='VIOLATION' and o['rule']==want for o in obs) else 1)
PY
    then echo "DETECTED $name ($expect)"; else echo "SELFTEST-FAILED rule=$expect mutant=$name not detected (exit $code)"; echo "$out" | tail -3; rm -f "$d.json"; return 1; fi
  else
    if [ $code -eq 0 ]; then echo "SILENT $name"; else echo "SELFTEST-FAILED benign=$name raised an alarm (exit $code)"; echo "$out" | grep -v '^ok' | head -5; rm -f "$d.json"; return 1; fi
  fi
  rm -f "$d.json"
}
fail=0; n=0
for kind in mutants benign; do
  [ "$KIND" = both ] || [ "$KIND" = "$kind" ] || continue
  for patch in "$V/$kind"/*.patch; do
    [ -f "$patch" ] || continue
    if [ "$P" != all ]; then
      e=$(sed -n 's/^# expect: *//p' "$patch" | head -1)
      case "$kind:$e" in mutants:$P.*|benign:$P|benign:all|benign:) ;; *) continue;; esac
    fi
    n=$((n+1))
    run_one "$patch" "$kind" || fail=$((fail+1))
  done
done
echo "selftest: $n variants, $fail failures"
[ $fail -eq 0 ]
