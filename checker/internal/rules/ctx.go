// Package rules holds the repository-specific static rules, one file per
// property. Every rule emits obligations: a recognised construct plus a verdict.
package rules

import (
	"fmt"
	"go/ast"
	"go/constant"
	"go/token"
	"go/types"
	"sort"
	"strings"

	"gbcheck/internal/prog"
)

type Status int

const (
	OK Status = iota
	Violation
	Undecided
)

func (s Status) String() string { return [...]string{"ok", "VIOLATION", "UNDECIDED"}[s] }

// Ob is one evaluated obligation.
type Ob struct {
	Rule    string   `json:"rule"`
	Key     string   `json:"key"` // stable construct key: function + construct, never a line number
	Pos     string   `json:"pos"`
	Status  string   `json:"verdict"`
	Msg     string   `json:"msg"`
	Witness []string `json:"witness,omitempty"`
	st      Status
}

type Ctx struct {
	P     *prog.Program
	PT    *prog.Program // program loaded with tests (lazily, for who-may-write rules)
	Tier  string
	Prop  string
	Obs   []Ob
	Funcs map[string]bool // functions analysed
	Paths int             // CFG paths / path queries evaluated
	Notes []string
	LoadT func() (*prog.Program, error)
	Verif string
	fwd   map[string][]fwdInfo
	acq   map[*prog.Func]map[string]bool
	verbs *verbTables
	memo  map[string]bool
	Repo  string
	rule  string
	floor map[string]int
	count map[string]int
}

func NewCtx(p *prog.Program, prop, tier string) *Ctx {
	return &Ctx{P: p, Prop: prop, Tier: tier, Funcs: map[string]bool{}, floor: map[string]int{}, count: map[string]int{}, memo: map[string]bool{}}
}

func (c *Ctx) Thorough() bool { return c.Tier == "thorough" }

func (c *Ctx) add(st Status, rule, key, pos, msg string, wit ...string) {
	c.Obs = append(c.Obs, Ob{Rule: rule, Key: key, Pos: pos, Status: st.String(), Msg: msg, Witness: wit, st: st})
	c.count[rule]++
}

func (c *Ctx) ok(rule, key, pos, msg string) { c.add(OK, rule, key, pos, msg) }
func (c *Ctx) viol(rule, key, pos, msg string, wit ...string) {
	c.add(Violation, rule, key, pos, msg, wit...)
}
func (c *Ctx) undec(rule, key, msg string) { c.add(Undecided, rule, key, "-", msg) }

// check emits ok or violation depending on cond.
func (c *Ctx) check(cond bool, rule, key, pos, okmsg, badmsg string, wit ...string) bool {
	if cond {
		c.ok(rule, key, pos, okmsg)
	} else {
		c.viol(rule, key, pos, badmsg, wit...)
	}
	return cond
}

// fn resolves an anchor; a missing anchor makes the rule undecided.
func (c *Ctx) fn(rule, key string) *prog.Func {
	f := c.P.F(key)
	if f == nil {
		c.undec(rule, key, "anchor function "+key+" not found in the program (renamed or removed): rule not evaluated")
		return nil
	}
	c.Funcs[key] = true
	return f
}

// fns resolves several anchors; nil if any is missing.
func (c *Ctx) fns(rule string, keys ...string) []*prog.Func {
	var out []*prog.Func
	okAll := true
	for _, k := range keys {
		f := c.fn(rule, k)
		if f == nil {
			okAll = false
		}
		out = append(out, f)
	}
	if !okAll {
		return nil
	}
	return out
}

// Floor declares the minimum number of obligations a rule must have produced.
func (c *Ctx) Floor(rule string, n int) { c.floor[rule] = n }

// Finish applies instance floors.
func (c *Ctx) Finish() {
	var rules []string
	for r := range c.floor {
		rules = append(rules, r)
	}
	sort.Strings(rules)
	for _, r := range rules {
		if c.count[r] < c.floor[r] {
			c.undec(r, "floor", fmt.Sprintf("rule matched %d instances, floor is %d: the constructs it governs were not recognised", c.count[r], c.floor[r]))
		}
	}
}

func (c *Ctx) pos(n ast.Node) string { return c.P.Pos(n.Pos()) }

func (c *Ctx) note(format string, a ...interface{}) {
	c.Notes = append(c.Notes, fmt.Sprintf(format, a...))
}

// trail renders a CFG trail for diagnostics (branch conditions only).
func (c *Ctx) trail(nodes []ast.Node) []string {
	var out []string
	for _, n := range nodes {
		switch n.(type) {
		case ast.Expr:
			out = append(out, "cond@"+c.pos(n))
		case *ast.ReturnStmt:
			out = append(out, "return@"+c.pos(n))
		}
	}
	if len(out) > 12 {
		out = append(out[:6], append([]string{"…"}, out[len(out)-5:]...)...)
	}
	return out
}

// one returns the single call to key in f, or reports.
func (c *Ctx) oneCall(rule string, f *prog.Func, key string) (prog.Call, bool) {
	cs := f.CallsTo(key)
	if len(cs) == 0 {
		return prog.Call{}, false
	}
	return cs[0], true
}

func short(key string) string {
	if i := strings.Index(key, "."); i >= 0 {
		return key[i+1:]
	}
	return key
}

// Rule is a registered rule of a property.
type Rule struct {
	ID   string
	Tier string // "q" or "t"
	Doc  string
	Run  func(c *Ctx)
}

// Property bundles the rules deciding the structural clause of one property.
type Property struct {
	ID       string
	Clause   string // what is decided
	NotDec   string // what is not decided
	Engines  string
	Rules    []Rule
	Assume   []string
}

var Registry = map[string]*Property{}

func register(p *Property) { Registry[p.ID] = p }

// RunProperty evaluates all rules of the property for the tier.
func RunProperty(c *Ctx, p *Property) {
	for _, r := range p.Rules {
		if r.Tier == "t" && !c.Thorough() {
			continue
		}
		func() {
			defer func() {
				if e := recover(); e != nil {
					c.undec(r.ID, "panic", fmt.Sprintf("rule panicked: %v", e))
				}
			}()
			before := len(c.Obs)
			r.Run(c)
			if len(c.Obs) == before {
				c.undec(r.ID, "empty", "rule produced no obligation")
			}
		}()
	}
	c.Finish()
}

// funcKeyAny renders the key of a types.Func handed over as an interface.
func funcKeyAny(o interface{ Name() string }) string {
	if f, ok := o.(*types.Func); ok {
		return prog.FuncKey(f)
	}
	return o.Name()
}

func constOf(o types.Object) (int64, bool) {
	c, ok := o.(*types.Const)
	if !ok {
		return 0, false
	}
	v := constant.ToInt(c.Val())
	if v.Kind() != constant.Int {
		return 0, false
	}
	i, ok := constant.Int64Val(v)
	return i, ok
}

// incDecNode is prog.IncDecOf for an arbitrary node met during an ast.Inspect walk.
func incDecNode(info *types.Info, n ast.Node) (ast.Expr, token.Token, bool) {
	if s, ok := n.(ast.Stmt); ok {
		return prog.IncDecOf(info, s)
	}
	return nil, token.ILLEGAL, false
}
