package prog

import (
	"go/ast"
	"go/constant"
	"go/token"
	"go/types"
	"strings"
)

// ------------------------------------------------------------------ parents

// Parents returns the child->parent map of the file holding f.
func (p *Program) parentsOf(file *ast.File) map[ast.Node]ast.Node {
	if m, ok := p.parents[file]; ok {
		return m
	}
	m := map[ast.Node]ast.Node{}
	var stack []ast.Node
	ast.Inspect(file, func(n ast.Node) bool {
		if n == nil {
			stack = stack[:len(stack)-1]
			return true
		}
		if len(stack) > 0 {
			m[n] = stack[len(stack)-1]
		}
		stack = append(stack, n)
		return true
	})
	p.parents[file] = m
	return m
}

// Parent of a node inside f's file.
func (f *Func) Parent(n ast.Node) ast.Node { return f.p.parentsOf(f.File)[n] }

// Enclosing returns the chain of ancestors of n, innermost first, up to and
// excluding the function declaration.
func (f *Func) Enclosing(n ast.Node) []ast.Node {
	var out []ast.Node
	m := f.p.parentsOf(f.File)
	for cur := m[n]; cur != nil && cur != ast.Node(f.Decl); cur = m[cur] {
		out = append(out, cur)
	}
	return out
}

// EnclosingLit returns the innermost function literal containing n, or nil
// when n belongs to the declared function's own body.
func (f *Func) EnclosingLit(n ast.Node) *ast.FuncLit {
	for _, a := range f.Enclosing(n) {
		if l, ok := a.(*ast.FuncLit); ok {
			return l
		}
	}
	return nil
}

// -------------------------------------------------------------------- calls

// Call is a resolved call site.
type Call struct {
	Fn   *Func
	Expr *ast.CallExpr
	Key  string // CalleeKey
}

func (c Call) Pos() string { return c.Fn.p.Pos(c.Expr.Pos()) }

// Calls lists every call site in f (closures included), in source order.
func (f *Func) Calls() []Call {
	var out []Call
	ast.Inspect(f.Decl.Body, func(n ast.Node) bool {
		if c, ok := n.(*ast.CallExpr); ok {
			out = append(out, Call{f, c, CalleeKey(f.Info(), c)})
		}
		return true
	})
	return out
}

// CallsTo lists call sites in f whose callee key is one of keys.
func (f *Func) CallsTo(keys ...string) []Call {
	var out []Call
	for _, c := range f.Calls() {
		for _, k := range keys {
			if c.Key == k {
				out = append(out, c)
				break
			}
		}
	}
	return out
}

// CallsIn lists call sites inside node n (closures included).
func (f *Func) CallsIn(n ast.Node, keys ...string) []Call {
	var out []Call
	if n == nil {
		return nil
	}
	ast.Inspect(n, func(x ast.Node) bool {
		if c, ok := x.(*ast.CallExpr); ok {
			k := CalleeKey(f.Info(), c)
			if len(keys) == 0 {
				out = append(out, Call{f, c, k})
			}
			for _, want := range keys {
				if k == want {
					out = append(out, Call{f, c, k})
					break
				}
			}
		}
		return true
	})
	return out
}

// CallersOf returns, over the whole program (non-test files), every call site
// whose static callee key is key.
func (p *Program) CallersOf(key string) []Call {
	var out []Call
	for _, f := range p.SortedFuncs() {
		out = append(out, f.CallsTo(key)...)
	}
	return out
}

// ---------------------------------------------------------------- expression

// Unparen strips parentheses.
func Unparen(e ast.Expr) ast.Expr {
	for {
		p, ok := e.(*ast.ParenExpr)
		if !ok {
			return e
		}
		e = p.X
	}
}

// StripConv strips parentheses and type conversions (T(x)), returning x.
func StripConv(info *types.Info, e ast.Expr) ast.Expr {
	for {
		e = Unparen(e)
		c, ok := e.(*ast.CallExpr)
		if !ok || len(c.Args) != 1 {
			return e
		}
		if tv, ok := info.Types[c.Fun]; ok && tv.IsType() {
			e = c.Args[0]
			continue
		}
		return e
	}
}

// ConstInt returns the integer constant value of e, if any.
func ConstInt(info *types.Info, e ast.Expr) (int64, bool) {
	tv, ok := info.Types[e]
	if !ok || tv.Value == nil {
		return 0, false
	}
	v := constant.ToInt(tv.Value)
	if v.Kind() != constant.Int {
		return 0, false
	}
	if i, ok := constant.Int64Val(v); ok {
		return i, true
	}
	if u, ok := constant.Uint64Val(v); ok {
		return int64(u), true
	}
	return 0, false
}

// ConstUint returns the unsigned constant value of e.
func ConstUint(info *types.Info, e ast.Expr) (uint64, bool) {
	tv, ok := info.Types[e]
	if !ok || tv.Value == nil {
		return 0, false
	}
	v := constant.ToInt(tv.Value)
	if v.Kind() != constant.Int {
		return 0, false
	}
	if u, ok := constant.Uint64Val(v); ok {
		return u, true
	}
	if i, ok := constant.Int64Val(v); ok {
		return uint64(i), true
	}
	return 0, false
}

// ConstString returns the string constant value of e.
func ConstString(info *types.Info, e ast.Expr) (string, bool) {
	tv, ok := info.Types[e]
	if !ok || tv.Value == nil || tv.Value.Kind() != constant.String {
		return "", false
	}
	return constant.StringVal(tv.Value), true
}

// ConstBool returns the boolean constant value of e.
func ConstBool(info *types.Info, e ast.Expr) (bool, bool) {
	tv, ok := info.Types[e]
	if !ok || tv.Value == nil || tv.Value.Kind() != constant.Bool {
		return false, false
	}
	return constant.BoolVal(tv.Value), true
}

// IsNil reports whether e is the predeclared nil.
func IsNil(info *types.Info, e ast.Expr) bool {
	id, ok := Unparen(e).(*ast.Ident)
	if !ok {
		return false
	}
	_, isNil := info.Uses[id].(*types.Nil)
	return isNil
}

// ObjOf returns the object an identifier expression denotes.
func ObjOf(info *types.Info, e ast.Expr) types.Object {
	id, ok := Unparen(e).(*ast.Ident)
	if !ok {
		return nil
	}
	if o := info.Uses[id]; o != nil {
		return o
	}
	return info.Defs[id]
}

// ConstObjName returns "pkg.NAME" when e denotes a named constant.
func ConstObjName(info *types.Info, e ast.Expr) string {
	e = Unparen(e)
	var id *ast.Ident
	switch x := e.(type) {
	case *ast.Ident:
		id = x
	case *ast.SelectorExpr:
		id = x.Sel
	default:
		return ""
	}
	if c, ok := info.Uses[id].(*types.Const); ok && c.Pkg() != nil {
		return c.Pkg().Name() + "." + c.Name()
	}
	return ""
}

// FieldOf: when e is a selector denoting a struct field, returns
// "pkg.Struct.Field" of the field finally selected (owner = the named struct
// type that declares the field) and the field object.
func FieldOf(info *types.Info, e ast.Expr) (string, *types.Var) {
	se, ok := Unparen(e).(*ast.SelectorExpr)
	if !ok {
		return "", nil
	}
	sel := info.Selections[se]
	if sel == nil || sel.Kind() != types.FieldVal {
		return "", nil
	}
	v, _ := sel.Obj().(*types.Var)
	if v == nil {
		return "", nil
	}
	return FieldKey(sel.Recv(), sel.Index(), v), v
}

// FieldKey computes "pkg.Owner.Field" by walking the selection index path
// from the receiver type to the struct that declares the field.
func FieldKey(recv types.Type, index []int, v *types.Var) string {
	t := recv
	owner := ""
	for i, idx := range index {
		if pt, ok := t.Underlying().(*types.Pointer); ok {
			t = pt.Elem()
		}
		if nt, ok := t.(*types.Named); ok {
			owner = nt.Obj().Name()
			if nt.Obj().Pkg() != nil {
				owner = nt.Obj().Pkg().Name() + "." + owner
			}
		} else if at, ok := t.(*types.Alias); ok {
			owner = at.Obj().Name()
		}
		st, ok := t.Underlying().(*types.Struct)
		if !ok {
			return ""
		}
		fld := st.Field(idx)
		if i == len(index)-1 {
			k := owner + "." + fld.Name()
			if o, ok := renamedField[k]; ok {
				return o
			}
			return k
		}
		t = fld.Type()
	}
	_ = v
	return ""
}

// PathOf renders an lvalue-like expression as root-object + field names,
// e.g. "v#1234.Pos.Offset"; ok=false for anything else (calls, indexes...).
// Index expressions are rendered with "[]".
func PathOf(info *types.Info, e ast.Expr) (string, bool) {
	e = Unparen(e)
	switch x := e.(type) {
	case *ast.Ident:
		o := ObjOf(info, x)
		if o == nil {
			return "", false
		}
		return objID(o), true
	case *ast.SelectorExpr:
		if sel := info.Selections[x]; sel != nil && sel.Kind() == types.FieldVal {
			base, ok := PathOf(info, x.X)
			if !ok {
				return "", false
			}
			return base + "." + x.Sel.Name, true
		}
		// package-qualified identifier
		if o := info.Uses[x.Sel]; o != nil {
			return objID(o), true
		}
	case *ast.StarExpr:
		return PathOf(info, x.X)
	case *ast.UnaryExpr:
		if x.Op == token.AND {
			return PathOf(info, x.X)
		}
	case *ast.IndexExpr:
		base, ok := PathOf(info, x.X)
		if !ok {
			return "", false
		}
		return base + "[]", true
	}
	return "", false
}

func objID(o types.Object) string {
	if o.Pkg() != nil && o.Parent() == o.Pkg().Scope() {
		return o.Pkg().Name() + "." + o.Name()
	}
	return o.Name() + "#" + itoa(int(o.Pos()))
}

func itoa(i int) string {
	if i == 0 {
		return "0"
	}
	neg := i < 0
	if neg {
		i = -i
	}
	var b [24]byte
	n := len(b)
	for i > 0 {
		n--
		b[n] = byte('0' + i%10)
		i /= 10
	}
	if neg {
		n--
		b[n] = '-'
	}
	return string(b[n:])
}

// FieldPath renders only the field-name suffix chain of a selector chain,
// dropping the root: "wrec.rec.Payload.TS" -> "rec.Payload.TS".
func FieldPath(info *types.Info, e ast.Expr) string {
	var parts []string
	e = Unparen(e)
	for {
		se, ok := e.(*ast.SelectorExpr)
		if !ok {
			break
		}
		if sel := info.Selections[se]; sel == nil || sel.Kind() != types.FieldVal {
			break
		}
		parts = append([]string{se.Sel.Name}, parts...)
		e = Unparen(se.X)
	}
	return strings.Join(parts, ".")
}

// RootObj returns the root object of a selector/index/star chain.
func RootObj(info *types.Info, e ast.Expr) types.Object {
	for {
		e = Unparen(e)
		switch x := e.(type) {
		case *ast.Ident:
			return ObjOf(info, x)
		case *ast.SelectorExpr:
			if sel := info.Selections[x]; sel != nil {
				e = x.X
				continue
			}
			return info.Uses[x.Sel]
		case *ast.StarExpr:
			e = x.X
		case *ast.IndexExpr:
			e = x.X
		case *ast.SliceExpr:
			e = x.X
		case *ast.UnaryExpr:
			e = x.X
		case *ast.CallExpr:
			return nil
		default:
			return nil
		}
	}
}

// Mentions reports whether expression e contains a reference to obj.
func Mentions(info *types.Info, e ast.Node, obj types.Object) bool {
	found := false
	if e == nil || obj == nil {
		return false
	}
	ast.Inspect(e, func(n ast.Node) bool {
		if id, ok := n.(*ast.Ident); ok {
			if info.Uses[id] == obj || info.Defs[id] == obj {
				found = true
			}
		}
		return !found
	})
	return found
}

// MentionsField reports whether e contains a selector of the given field key.
func MentionsField(info *types.Info, e ast.Node, fieldKey string) bool {
	found := false
	if e == nil {
		return false
	}
	ast.Inspect(e, func(n ast.Node) bool {
		if se, ok := n.(*ast.SelectorExpr); ok {
			if k, _ := FieldOf(info, se); k == fieldKey {
				found = true
			}
		}
		return !found
	})
	return found
}

// SameExpr compares two side-effect-free expressions structurally with
// identifiers resolved to objects.
func SameExpr(info *types.Info, a, b ast.Expr) bool {
	a, b = Unparen(a), Unparen(b)
	switch x := a.(type) {
	case *ast.Ident:
		y, ok := b.(*ast.Ident)
		if !ok {
			return false
		}
		ox, oy := ObjOf(info, x), ObjOf(info, y)
		if ox == nil || oy == nil {
			return x.Name == y.Name
		}
		return ox == oy
	case *ast.SelectorExpr:
		y, ok := b.(*ast.SelectorExpr)
		return ok && x.Sel.Name == y.Sel.Name && SameExpr(info, x.X, y.X)
	case *ast.BasicLit:
		y, ok := b.(*ast.BasicLit)
		return ok && x.Value == y.Value
	case *ast.StarExpr:
		y, ok := b.(*ast.StarExpr)
		return ok && SameExpr(info, x.X, y.X)
	case *ast.UnaryExpr:
		y, ok := b.(*ast.UnaryExpr)
		return ok && x.Op == y.Op && SameExpr(info, x.X, y.X)
	case *ast.BinaryExpr:
		y, ok := b.(*ast.BinaryExpr)
		return ok && x.Op == y.Op && SameExpr(info, x.X, y.X) && SameExpr(info, x.Y, y.Y)
	case *ast.IndexExpr:
		y, ok := b.(*ast.IndexExpr)
		return ok && SameExpr(info, x.X, y.X) && SameExpr(info, x.Index, y.Index)
	case *ast.CallExpr:
		y, ok := b.(*ast.CallExpr)
		if !ok || len(x.Args) != len(y.Args) || !SameExpr(info, x.Fun, y.Fun) {
			return false
		}
		for i := range x.Args {
			if !SameExpr(info, x.Args[i], y.Args[i]) {
				return false
			}
		}
		return true
	}
	return false
}

// MentionsConst reports whether n contains a reference to named constant "pkg.NAME".
func MentionsConst(info *types.Info, n ast.Node, name string) bool {
	found := false
	ast.Inspect(n, func(x ast.Node) bool {
		if e, ok := x.(ast.Expr); ok && ConstObjName(info, e) == name {
			found = true
		}
		return !found
	})
	return found
}

// IncDecOf recognises a unit step of a variable in either spelling: `x++`,
// `x--`, `x += 1`, `x -= 1` (the loader rewrites the first two into the last
// two, test files and fixtures may still carry them). tok is token.INC or token.DEC.
func IncDecOf(info *types.Info, s ast.Stmt) (x ast.Expr, tok token.Token, ok bool) {
	switch st := s.(type) {
	case *ast.IncDecStmt:
		return st.X, st.Tok, true
	case *ast.AssignStmt:
		if len(st.Lhs) == 1 && len(st.Rhs) == 1 && (st.Tok == token.ADD_ASSIGN || st.Tok == token.SUB_ASSIGN) {
			if v, isC := ConstInt(info, st.Rhs[0]); isC && v == 1 {
				if st.Tok == token.ADD_ASSIGN {
					return st.Lhs[0], token.INC, true
				}
				return st.Lhs[0], token.DEC, true
			}
		}
	}
	return nil, token.ILLEGAL, false
}
