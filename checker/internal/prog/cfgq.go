package prog

import (
	"go/ast"
	"go/token"

	"golang.org/x/tools/go/cfg"
)

// CFG wraps a go/cfg graph of one function body (declared or literal).
type CFG struct {
	G    *cfg.CFG
	F    *Func
	Body *ast.BlockStmt
}

// Loc addresses one node of the graph.
type Loc struct {
	B *cfg.Block
	I int
}

func (l Loc) Node() ast.Node { return l.B.Nodes[l.I] }

// CFG of the declared body.
func (f *Func) CFG() *CFG {
	if f.cfg == nil {
		f.cfg = cfg.New(f.Decl.Body, func(c *ast.CallExpr) bool { return f.p.MayReturn(f.Info(), c) })
	}
	return &CFG{G: f.cfg, F: f, Body: f.Decl.Body}
}

// LitCFG of a function literal inside f.
func (f *Func) LitCFG(l *ast.FuncLit) *CFG {
	g, ok := f.p.litCFG[l]
	if !ok {
		g = cfg.New(l.Body, func(c *ast.CallExpr) bool { return f.p.MayReturn(f.Info(), c) })
		f.p.litCFG[l] = g
	}
	return &CFG{G: g, F: f, Body: l.Body}
}

// CFGFor returns the graph of the innermost function body containing n.
func (f *Func) CFGFor(n ast.Node) *CFG {
	if l := f.EnclosingLit(n); l != nil {
		return f.LitCFG(l)
	}
	return f.CFG()
}

// Locate finds the smallest CFG node containing n (live blocks only).
func (c *CFG) Locate(n ast.Node) (Loc, bool) {
	var best Loc
	found := false
	var bestSize token.Pos
	for _, b := range c.G.Blocks {
		if !b.Live {
			continue
		}
		for i, x := range b.Nodes {
			if x.Pos() <= n.Pos() && n.End() <= x.End() {
				sz := x.End() - x.Pos()
				if !found || sz < bestSize {
					best, bestSize, found = Loc{b, i}, sz, true
				}
			}
		}
	}
	if found {
		return best, true
	}
	// n is a compound statement that is not itself a CFG node: use the first
	// CFG node evaluated inside it
	var first token.Pos
	for _, b := range c.G.Blocks {
		if !b.Live {
			continue
		}
		for i, x := range b.Nodes {
			if n.Pos() <= x.Pos() && x.End() <= n.End() {
				if !found || x.Pos() < first {
					best, first, found = Loc{b, i}, x.Pos(), true
				}
			}
		}
	}
	return best, found
}

// before reports whether a is evaluated before b when both sit in the same
// CFG node (inner/left expressions end earlier).
func before(a, b ast.Node) bool { return a.End() < b.End() }

// Dominates: every path from entry to b passes a (a strictly earlier).
// an/bn are the precise AST nodes (used for ordering inside one CFG node).
func (c *CFG) Dominates(an, bn ast.Node) bool {
	a, ok1 := c.Locate(an)
	b, ok2 := c.Locate(bn)
	if !ok1 || !ok2 {
		return false
	}
	if a.B == b.B && a.I == b.I {
		return before(an, bn)
	}
	// search from entry avoiding a; if b is reached, a does not dominate
	if len(c.G.Blocks) == 0 {
		return false
	}
	seen := map[*cfg.Block]bool{}
	var walk func(blk *cfg.Block, from int) bool // returns true if b reached
	walk = func(blk *cfg.Block, from int) bool {
		for i := from; i < len(blk.Nodes); i++ {
			if blk == a.B && i == a.I {
				return false
			}
			if blk == b.B && i == b.I {
				return true
			}
		}
		for _, s := range blk.Succs {
			if seen[s] {
				continue
			}
			seen[s] = true
			if walk(s, 0) {
				return true
			}
		}
		return false
	}
	entry := c.G.Blocks[0]
	seen[entry] = true
	return !walk(entry, 0)
}

// ExitKind classifies how a path leaves the function.
type ExitKind int

const (
	ExitReturn  ExitKind = iota // explicit return statement
	ExitFallOff                 // end of body
	ExitAbort                   // panic / Fatalf / os.Exit
)

func (c *CFG) exitKind(b *cfg.Block) ExitKind {
	if n := len(b.Nodes); n > 0 {
		switch x := b.Nodes[n-1].(type) {
		case *ast.ReturnStmt:
			return ExitReturn
		case *ast.ExprStmt:
			if call, ok := x.X.(*ast.CallExpr); ok && !c.F.p.MayReturn(c.F.Info(), call) {
				return ExitAbort
			}
		}
	}
	return ExitFallOff
}

// PathResult describes a path found by a search.
type PathResult struct {
	Found bool
	Trail []ast.Node // the conditions/statements passed, for diagnostics
	Exit  ast.Node   // the return statement (nil for fall-off)
}

// EscapesWithout searches for a path that starts right after node `from`
// (or at function entry when from == nil) and reaches a *normal* exit
// (return or fall-off) without passing any node for which pass() is true.
// stop(): nodes at which the path is abandoned (e.g. the error return).
func (c *CFG) EscapesWithout(from ast.Node, pass func(ast.Node) bool, stop func(ast.Node) bool) PathResult {
	var startB *cfg.Block
	startI := 0
	if from != nil {
		l, ok := c.Locate(from)
		if !ok {
			return PathResult{}
		}
		startB, startI = l.B, l.I+1
		// other nodes evaluated later inside the same CFG node are not visible
	} else {
		if len(c.G.Blocks) == 0 {
			return PathResult{}
		}
		startB = c.G.Blocks[0]
	}
	type key struct {
		b *cfg.Block
	}
	seen := map[*cfg.Block]bool{}
	var trail []ast.Node
	var res PathResult
	var walk func(blk *cfg.Block, from int) bool
	walk = func(blk *cfg.Block, from int) bool {
		mark := len(trail)
		defer func() { trail = trail[:mark] }()
		for i := from; i < len(blk.Nodes); i++ {
			n := blk.Nodes[i]
			if pass(n) {
				return false
			}
			if stop != nil && stop(n) {
				return false
			}
			trail = append(trail, n)
		}
		if len(blk.Succs) == 0 {
			k := c.exitKind(blk)
			if k == ExitAbort {
				return false
			}
			res.Found = true
			res.Trail = append([]ast.Node(nil), trail...)
			if k == ExitReturn {
				res.Exit = blk.Nodes[len(blk.Nodes)-1]
			}
			return true
		}
		for _, s := range blk.Succs {
			if seen[s] {
				continue
			}
			seen[s] = true
			if walk(s, 0) {
				return true
			}
		}
		return false
	}
	if startI == 0 {
		seen[startB] = true
	}
	walk(startB, startI)
	return res
}

// ReachesWithout searches for a path from right after `from` (entry if nil)
// to node `to` avoiding nodes where avoid() is true.
func (c *CFG) ReachesWithout(from ast.Node, to ast.Node, avoid func(ast.Node) bool) bool {
	tl, ok := c.Locate(to)
	if !ok {
		return false
	}
	var startB *cfg.Block
	startI := 0
	if from != nil {
		l, ok := c.Locate(from)
		if !ok {
			return false
		}
		startB, startI = l.B, l.I+1
		if l.B == tl.B && l.I == tl.I {
			return before(from, to)
		}
	} else {
		startB = c.G.Blocks[0]
	}
	seen := map[*cfg.Block]bool{}
	var walk func(blk *cfg.Block, from int) bool
	walk = func(blk *cfg.Block, from int) bool {
		for i := from; i < len(blk.Nodes); i++ {
			if blk == tl.B && i == tl.I {
				return true
			}
			if avoid != nil && avoid(blk.Nodes[i]) {
				return false
			}
		}
		for _, s := range blk.Succs {
			if seen[s] {
				continue
			}
			seen[s] = true
			if walk(s, 0) {
				return true
			}
		}
		return false
	}
	if startI == 0 {
		seen[startB] = true
	}
	return walk(startB, startI)
}

// ContainsCall returns a predicate on CFG nodes: node contains (outside
// function literals) a call whose callee key is one of keys.
func (f *Func) ContainsCall(keys ...string) func(ast.Node) bool {
	return func(n ast.Node) bool {
		found := false
		ast.Inspect(n, func(x ast.Node) bool {
			if found {
				return false
			}
			if _, ok := x.(*ast.FuncLit); ok {
				return false
			}
			if c, ok := x.(*ast.CallExpr); ok {
				k := CalleeKey(f.Info(), c)
				for _, want := range keys {
					if k == want {
						found = true
					}
				}
			}
			return true
		})
		return found
	}
}

// NodeIs returns a predicate: CFG node contains the given AST node.
func NodeIs(target ast.Node) func(ast.Node) bool {
	return func(n ast.Node) bool {
		return n.Pos() <= target.Pos() && target.End() <= n.End()
	}
}

// Returns lists the return statements of the body owned by this CFG
// (function literals excluded).
func (c *CFG) Returns() []*ast.ReturnStmt {
	var out []*ast.ReturnStmt
	ast.Inspect(c.Body, func(n ast.Node) bool {
		if _, ok := n.(*ast.FuncLit); ok {
			return false
		}
		if r, ok := n.(*ast.ReturnStmt); ok {
			out = append(out, r)
		}
		return true
	})
	return out
}
