package rules

import (
	"fmt"
	"go/ast"
	"go/token"
	"go/types"
	"sort"
	"strings"

	"gbcheck/internal/prog"
)

// E4 — resource-balance engine: bounded path enumeration over the (goto-free)
// AST of one function with a small store of nil/bool facts and opaque
// propositions, counting +1/−1 events of linear resources and applying frozen
// callee contracts (finite outcome lists). Deferred closures run at every exit.

type absVal int

const (
	vUnknown absVal = iota
	vNil
	vNonNil
	vTrue
	vFalse
)

// outcome of a contracted callee: facts about its results plus resource deltas.
type calleeOutcome struct {
	name  string
	res   map[int]absVal // result index -> fact
	delta map[string]int // resource class -> delta
	when  func(st *bstate, call *ast.CallExpr, f *prog.Func) bool
	apply func(st *bstate, call *ast.CallExpr, f *prog.Func)
}

type bstate struct {
	cnt    map[string]int
	facts  map[string]absVal // PathOf / "prop:<expr>" -> value
	defers []ast.Node        // *ast.FuncLit bodies or *ast.CallExpr
	tags   []string          // switch-case labels taken on the tag of interest
	trail  []string
	world  map[string]string // analysis-level assumptions (e.g. verb class)
}

func (s *bstate) clone() *bstate {
	n := &bstate{cnt: map[string]int{}, facts: map[string]absVal{}, world: s.world}
	for k, v := range s.cnt {
		n.cnt[k] = v
	}
	for k, v := range s.facts {
		n.facts[k] = v
	}
	n.defers = append([]ast.Node(nil), s.defers...)
	n.tags = append([]string(nil), s.tags...)
	n.trail = append([]string(nil), s.trail...)
	return n
}

// bpath is one completed path.
type bpath struct {
	st      *bstate
	results []absVal // facts of the returned values
	ret     *ast.ReturnStmt
}

type balancer struct {
	c         *Ctx
	f         *prog.Func
	contracts map[string][]calleeOutcome
	events    func(f *prog.Func, call *ast.CallExpr) (class string, d int, ok bool)
	tagField  string // field key of the switch tag whose case labels are recorded (e.g. memcache.Request.Cmd)
	paths     []bpath
	limit     int
	overflow  bool
	loopDepth int
	retIndex  map[string]*ast.ReturnStmt
}

type ctl int

const (
	cNext ctl = iota
	cBreak
	cContinue
	cReturn
)

func pathKey(info *types.Info, e ast.Expr) string {
	if p, ok := prog.PathOf(info, e); ok {
		return p
	}
	return ""
}

func (b *balancer) propKey(e ast.Expr) string {
	info := b.f.Info()
	var sb strings.Builder
	var w func(e ast.Expr)
	w = func(e ast.Expr) {
		e = prog.Unparen(e)
		if p, ok := prog.PathOf(info, e); ok {
			sb.WriteString(p)
			return
		}
		switch x := e.(type) {
		case *ast.BinaryExpr:
			w(x.X)
			sb.WriteString(x.Op.String())
			w(x.Y)
		case *ast.UnaryExpr:
			sb.WriteString(x.Op.String())
			w(x.X)
		case *ast.CallExpr:
			sb.WriteString(prog.CalleeKey(info, x) + "(")
			for _, a := range x.Args {
				w(a)
				sb.WriteString(",")
			}
			sb.WriteString(")")
		case *ast.BasicLit:
			sb.WriteString(x.Value)
		case *ast.IndexExpr:
			w(x.X)
			sb.WriteString("[")
			w(x.Index)
			sb.WriteString("]")
		default:
			sb.WriteString(types.ExprString(e))
		}
	}
	w(e)
	return "prop:" + sb.String()
}

// kill facts about an assigned path and every proposition mentioning it.
func (b *balancer) kill(st *bstate, p string) {
	if p == "" {
		return
	}
	for k := range st.facts {
		if k == p || strings.HasPrefix(k, p+".") || (strings.HasPrefix(k, "prop:") && strings.Contains(k, p)) {
			delete(st.facts, k)
		}
	}
}

// valueOf abstracts an expression.
func (b *balancer) valueOf(st *bstate, e ast.Expr) absVal {
	info := b.f.Info()
	e = prog.Unparen(e)
	if prog.IsNil(info, e) {
		return vNil
	}
	if v, ok := prog.ConstBool(info, e); ok {
		if v {
			return vTrue
		}
		return vFalse
	}
	switch x := e.(type) {
	case *ast.UnaryExpr:
		if x.Op == token.AND {
			return vNonNil
		}
		if x.Op == token.NOT {
			switch b.valueOf(st, x.X) {
			case vTrue:
				return vFalse
			case vFalse:
				return vTrue
			}
		}
	case *ast.CompositeLit, *ast.FuncLit, *ast.BasicLit:
		return vNonNil
	case *ast.CallExpr:
		switch prog.CalleeKey(info, x) {
		case "builtin.new", "builtin.make", "fmt.Errorf", "errors.New":
			return vNonNil
		}
	}
	if p := pathKey(info, e); p != "" {
		if v, ok := st.facts[p]; ok {
			return v
		}
		if o, ok := prog.RootObj(info, e).(*types.Var); ok && o.Pkg() != nil && o.Parent() == o.Pkg().Scope() {
			if _, isId := e.(*ast.Ident); isId || true {
				if types.Identical(o.Type(), types.Universe.Lookup("error").Type()) {
					return vNonNil // package-level sentinel errors
				}
			}
		}
	}
	return vUnknown
}

// assume returns the states in which cond has truth value pol (possibly none).
func (b *balancer) assume(st *bstate, cond ast.Expr, pol bool) []*bstate {
	info := b.f.Info()
	cond = prog.Unparen(cond)
	switch x := cond.(type) {
	case *ast.UnaryExpr:
		if x.Op == token.NOT {
			return b.assume(st, x.X, !pol)
		}
	case *ast.BinaryExpr:
		switch x.Op {
		case token.LAND, token.LOR:
			and := x.Op == token.LAND
			if and == pol {
				// both (and,true) / neither (or,false)
				var out []*bstate
				for _, s1 := range b.assume(st, x.X, pol) {
					out = append(out, b.assume(s1, x.Y, pol)...)
				}
				return out
			}
			// (and,false): ¬X  or  X∧¬Y ;  (or,true): X  or  ¬X∧Y
			var out []*bstate
			out = append(out, b.assume(st.clone(), x.X, pol)...)
			for _, s1 := range b.assume(st.clone(), x.X, !pol) {
				out = append(out, b.assume(s1, x.Y, pol)...)
			}
			return out
		case token.EQL, token.NEQ:
			eq := (x.Op == token.EQL) == pol
			for _, pr := range [][2]ast.Expr{{x.X, x.Y}, {x.Y, x.X}} {
				if prog.IsNil(info, pr[1]) {
					p := pathKey(info, pr[0])
					cur := b.valueOf(st, pr[0])
					if (cur == vNil && !eq) || (cur == vNonNil && eq) {
						return nil
					}
					if p != "" {
						if eq {
							st.facts[p] = vNil
						} else {
							st.facts[p] = vNonNil
						}
					}
					return []*bstate{st}
				}
				if v, ok := prog.ConstBool(info, pr[1]); ok {
					return b.assume(st, pr[0], v == eq)
				}
			}
		}
	}
	// boolean variable / field
	if p := pathKey(info, cond); p != "" {
		if t := info.TypeOf(cond); t != nil {
			if bt, ok := t.Underlying().(*types.Basic); ok && bt.Kind() == types.Bool {
				cur := st.facts[p]
				if (cur == vTrue && !pol) || (cur == vFalse && pol) {
					return nil
				}
				if pol {
					st.facts[p] = vTrue
				} else {
					st.facts[p] = vFalse
				}
				return []*bstate{st}
			}
		}
	}
	// opaque proposition
	k := b.propKey(cond)
	cur := st.facts[k]
	if (cur == vTrue && !pol) || (cur == vFalse && pol) {
		return nil
	}
	if pol {
		st.facts[k] = vTrue
	} else {
		st.facts[k] = vFalse
	}
	return []*bstate{st}
}

// evalCalls processes the calls inside expression e (events and contracts).
// Contracted calls fork the state; lhs (may be nil) receives result facts.
func (b *balancer) evalCalls(st *bstate, e ast.Node, lhs []ast.Expr, top *ast.CallExpr) []*bstate {
	if e == nil {
		return []*bstate{st}
	}
	info := b.f.Info()
	var calls []*ast.CallExpr
	ast.Inspect(e, func(n ast.Node) bool {
		if _, ok := n.(*ast.FuncLit); ok {
			return false
		}
		if c, ok := n.(*ast.CallExpr); ok {
			calls = append(calls, c)
		}
		return true
	})
	sort.SliceStable(calls, func(i, j int) bool { return calls[i].End() < calls[j].End() })
	states := []*bstate{st}
	for _, call := range calls {
		if cls, d, ok := b.events(b.f, call); ok {
			for _, s := range states {
				s.cnt[cls] += d
			}
			continue
		}
		key := prog.CalleeKey(info, call)
		outs, ok := b.contracts[key]
		if !ok {
			continue
		}
		var next []*bstate
		for _, s := range states {
			for _, o := range outs {
				if o.when != nil && !o.when(s, call, b.f) {
					continue
				}
				n := s.clone()
				for cls, d := range o.delta {
					n.cnt[cls] += d
				}
				n.trail = append(n.trail, fmt.Sprintf("%s→%s@%s", short(key), o.name, b.c.pos(call)))
				if o.apply != nil {
					o.apply(n, call, b.f)
				}
				if call == top {
					for i, l := range lhs {
						p := pathKey(info, l)
						b.kill(n, p)
						if v, ok := o.res[i]; ok && p != "" {
							n.facts[p] = v
						}
					}
				} else if len(o.res) > 0 {
					// result used inline (e.g. in a condition or return): remember as proposition
					if v, ok := o.res[0]; ok {
						n.facts[b.propKey(call)] = v
						if v == vNil || v == vNonNil {
							n.facts["call:"+b.c.pos(call)] = v
						}
					}
				}
				next = append(next, n)
			}
		}
		if len(next) > 0 {
			states = next
		}
	}
	return states
}

func (b *balancer) execList(list []ast.Stmt, st *bstate, k func(*bstate, ctl)) {
	if len(list) == 0 {
		k(st, cNext)
		return
	}
	b.exec(list[0], st, func(s *bstate, c ctl) {
		if c != cNext {
			k(s, c)
			return
		}
		b.execList(list[1:], s, k)
	})
}

func (b *balancer) finish(st *bstate, rs *ast.ReturnStmt) {
	if b.overflow {
		return
	}
	if len(b.paths) >= b.limit {
		b.overflow = true
		return
	}
	// result facts
	var res []absVal
	sig := b.f.Obj.Type().(*types.Signature)
	if rs != nil && len(rs.Results) == sig.Results().Len() {
		for _, r := range rs.Results {
			v := b.valueOf(st, r)
			if v == vUnknown {
				if call, ok := prog.Unparen(r).(*ast.CallExpr); ok {
					if cv, ok := st.facts["call:"+b.c.pos(call)]; ok {
						v = cv
					}
				}
			}
			res = append(res, v)
		}
	} else {
		for i := 0; i < sig.Results().Len(); i++ {
			v := sig.Results().At(i)
			if v.Name() != "" {
				res = append(res, st.facts[v.Name()+"#"+itoaI(int(v.Pos()))])
			} else {
				res = append(res, vUnknown)
			}
		}
	}
	// run defers LIFO
	states := []*bstate{st}
	for i := len(st.defers) - 1; i >= 0; i-- {
		d := st.defers[i]
		var next []*bstate
		for _, s := range states {
			switch x := d.(type) {
			case *ast.FuncLit:
				b.execList(x.Body.List, s, func(s2 *bstate, c ctl) { next = append(next, s2) })
			case *ast.CallExpr:
				next = append(next, b.evalCalls(s, x, nil, nil)...)
			}
		}
		states = next
	}
	for _, s := range states {
		b.paths = append(b.paths, bpath{st: s, results: res, ret: rs})
	}
}

func itoaI(i int) string { return fmt.Sprint(i) }

func (b *balancer) exec(s ast.Stmt, st *bstate, k func(*bstate, ctl)) {
	if b.overflow {
		return
	}
	info := b.f.Info()
	switch x := s.(type) {
	case *ast.BlockStmt:
		b.execList(x.List, st, k)
	case *ast.LabeledStmt:
		b.exec(x.Stmt, st, k)
	case *ast.ExprStmt:
		if call, ok := x.X.(*ast.CallExpr); ok && !b.c.P.MayReturn(info, call) {
			return // fail-stop: path ends, not an exit of interest
		}
		for _, s2 := range b.evalCalls(st, x.X, nil, nil) {
			k(s2, cNext)
		}
	case *ast.DeferStmt:
		if fl, ok := x.Call.Fun.(*ast.FuncLit); ok {
			st.defers = append(st.defers, fl)
		} else {
			st.defers = append(st.defers, x.Call)
		}
		k(st, cNext)
	case *ast.GoStmt, *ast.EmptyStmt, *ast.SendStmt:
		k(st, cNext)
	case *ast.IncDecStmt:
		b.kill(st, pathKey(info, x.X))
		k(st, cNext)
	case *ast.DeclStmt:
		states := []*bstate{st}
		if gd, ok := x.Decl.(*ast.GenDecl); ok {
			for _, sp := range gd.Specs {
				vs, ok := sp.(*ast.ValueSpec)
				if !ok {
					continue
				}
				var lhs []ast.Expr
				for _, n := range vs.Names {
					lhs = append(lhs, n)
				}
				var next []*bstate
				for _, s1 := range states {
					next = append(next, b.assign(s1, lhs, vs.Values, token.DEFINE)...)
				}
				states = next
			}
		}
		for _, s2 := range states {
			k(s2, cNext)
		}
	case *ast.AssignStmt:
		for _, s2 := range b.assign(st, x.Lhs, x.Rhs, x.Tok) {
			k(s2, cNext)
		}
	case *ast.ReturnStmt:
		states := []*bstate{st}
		for _, r := range x.Results {
			var next []*bstate
			for _, s1 := range states {
				next = append(next, b.evalCalls(s1, r, nil, nil)...)
			}
			states = next
		}
		for _, s2 := range states {
			s2.trail = append(s2.trail, "ret:"+b.c.pos(x)+fmt.Sprint(x.Pos()))
			k(s2, cReturn)
		}
	case *ast.BranchStmt:
		switch x.Tok {
		case token.BREAK:
			k(st, cBreak)
		case token.CONTINUE:
			k(st, cContinue)
		default:
			k(st, cNext)
		}
	case *ast.IfStmt:
		states := []*bstate{st}
		if x.Init != nil {
			states = nil
			b.exec(x.Init, st, func(s2 *bstate, c ctl) { states = append(states, s2) })
		}
		for _, s1 := range states {
			for _, s2 := range b.evalCalls(s1, x.Cond, nil, nil) {
				for _, t := range b.assume(s2.clone(), x.Cond, true) {
					t.trail = append(t.trail, "T@"+b.c.pos(x.Cond))
					b.exec(x.Body, t, k)
				}
				for _, e := range b.assume(s2.clone(), x.Cond, false) {
					e.trail = append(e.trail, "F@"+b.c.pos(x.Cond))
					if x.Else != nil {
						b.exec(x.Else, e, k)
					} else {
						k(e, cNext)
					}
				}
			}
		}
	case *ast.SwitchStmt:
		states := []*bstate{st}
		if x.Init != nil {
			states = nil
			b.exec(x.Init, st, func(s2 *bstate, c ctl) { states = append(states, s2) })
		}
		isTag := x.Tag != nil && b.tagField != "" && prog.IsField(info, b.tagField)(prog.Unparen(x.Tag))
		for _, s1 := range states {
			hasDefault := false
			for _, cs := range x.Body.List {
				cc := cs.(*ast.CaseClause)
				if cc.List == nil {
					hasDefault = true
				}
				n := s1.clone()
				if isTag {
					var labels []string
					for _, e := range cc.List {
						if v, ok := prog.ConstString(info, e); ok {
							labels = append(labels, v)
						}
					}
					if cc.List == nil {
						labels = []string{"<default>"}
					}
					// respect the analysis world: skip clauses that cannot match the assumed verb
					if w, ok := s1.world["verb"]; ok {
						match := false
						for _, l := range labels {
							if l == w {
								match = true
							}
						}
						if cc.List == nil {
							// default matches iff no other clause lists the verb
							match = true
							for _, cs2 := range x.Body.List {
								for _, e := range cs2.(*ast.CaseClause).List {
									if v, ok := prog.ConstString(info, e); ok && v == w {
										match = false
									}
								}
							}
						}
						if !match {
							continue
						}
					}
					n.tags = append(n.tags, strings.Join(labels, "|"))
				} else if x.Tag == nil && len(cc.List) == 1 {
					// tagless: assume the condition
					var fed bool
					for _, t := range b.assume(n, cc.List[0], true) {
						fed = true
						b.execList(cc.Body, t, func(s2 *bstate, c ctl) {
							if c == cBreak {
								c = cNext
							}
							k(s2, c)
						})
					}
					_ = fed
					continue
				}
				n.trail = append(n.trail, "case@"+b.c.pos(cc))
				b.execList(cc.Body, n, func(s2 *bstate, c ctl) {
					if c == cBreak {
						c = cNext
					}
					k(s2, c)
				})
			}
			if !hasDefault {
				if _, ok := s1.world["verb"]; !(ok && isTag) {
					k(s1.clone(), cNext)
				} else {
					// assumed verb: falls through only if no clause lists it
					w := s1.world["verb"]
					listed := false
					for _, cs := range x.Body.List {
						for _, e := range cs.(*ast.CaseClause).List {
							if v, ok := prog.ConstString(info, e); ok && v == w {
								listed = true
							}
						}
					}
					if !listed {
						k(s1.clone(), cNext)
					}
				}
			}
		}
	case *ast.TypeSwitchStmt:
		for _, cs := range x.Body.List {
			cc := cs.(*ast.CaseClause)
			b.execList(cc.Body, st.clone(), func(s2 *bstate, c ctl) {
				if c == cBreak {
					c = cNext
				}
				k(s2, c)
			})
		}
		k(st.clone(), cNext)
	case *ast.SelectStmt:
		for _, cs := range x.Body.List {
			cc := cs.(*ast.CommClause)
			b.execList(cc.Body, st.clone(), func(s2 *bstate, c ctl) {
				if c == cBreak {
					c = cNext
				}
				k(s2, c)
			})
		}
	case *ast.ForStmt, *ast.RangeStmt:
		var body *ast.BlockStmt
		var cond ast.Expr
		infinite := false
		states := []*bstate{st}
		switch l := x.(type) {
		case *ast.ForStmt:
			body, cond = l.Body, l.Cond
			infinite = l.Cond == nil
			if l.Init != nil {
				states = nil
				b.exec(l.Init, st, func(s2 *bstate, c ctl) { states = append(states, s2) })
			}
		case *ast.RangeStmt:
			body = l.Body
			if l.Key != nil {
				b.kill(st, pathKey(info, l.Key))
			}
			if l.Value != nil {
				b.kill(st, pathKey(info, l.Value))
			}
		}
		_ = cond
		for _, s1 := range states {
			// zero iterations
			if !infinite {
				k(s1.clone(), cNext)
			}
			// one iteration, then leave
			n := s1.clone()
			n.trail = append(n.trail, "loop@"+b.c.pos(x))
			b.execList(body.List, n, func(s2 *bstate, c ctl) {
				switch c {
				case cReturn:
					k(s2, cReturn)
				case cBreak:
					k(s2, cNext)
				default:
					if !infinite {
						k(s2, cNext)
					}
					// an infinite loop is left only through break/return
				}
			})
		}
	default:
		k(st, cNext)
	}
}

// assign handles facts and contracted calls of an assignment.
func (b *balancer) assign(st *bstate, lhs []ast.Expr, rhs []ast.Expr, tok token.Token) []*bstate {
	info := b.f.Info()
	if len(rhs) == 1 && len(lhs) >= 1 {
		if call, ok := prog.Unparen(rhs[0]).(*ast.CallExpr); ok {
			key := prog.CalleeKey(info, call)
			if _, contracted := b.contracts[key]; contracted {
				return b.evalCalls(st, rhs[0], lhs, call)
			}
		}
	}
	states := []*bstate{st}
	for _, r := range rhs {
		var next []*bstate
		for _, s := range states {
			next = append(next, b.evalCalls(s, r, nil, nil)...)
		}
		states = next
	}
	for _, s := range states {
		if len(lhs) == len(rhs) {
			vals := make([]absVal, len(rhs))
			for i, r := range rhs {
				vals[i] = b.valueOf(s, r)
				// pointer aliasing: x = y copies y's fact
			}
			for i, l := range lhs {
				p := pathKey(info, l)
				b.kill(s, p)
				if p != "" && vals[i] != vUnknown && (tok == token.ASSIGN || tok == token.DEFINE) {
					s.facts[p] = vals[i]
				}
			}
		} else {
			for _, l := range lhs {
				b.kill(s, pathKey(info, l))
			}
		}
	}
	return states
}

// run enumerates the paths of f's body.
func (b *balancer) run(init func(*bstate)) {
	st := &bstate{cnt: map[string]int{}, facts: map[string]absVal{}, world: map[string]string{}}
	sig := b.f.Obj.Type().(*types.Signature)
	for i := 0; i < sig.Results().Len(); i++ {
		v := sig.Results().At(i)
		if v.Name() == "" {
			continue
		}
		switch v.Type().Underlying().(type) {
		case *types.Pointer, *types.Interface, *types.Slice, *types.Map:
			st.facts[v.Name()+"#"+itoaI(int(v.Pos()))] = vNil
		}
	}
	if init != nil {
		init(st)
	}
	if b.limit == 0 {
		b.limit = 20000
	}
	// wrap: we need the ReturnStmt at completion; intercept by walking with a shim
	b.execFunc(b.f.Decl.Body.List, st)
}

// execFunc is execList for the function top level, attaching the return statement.
func (b *balancer) execFunc(list []ast.Stmt, st *bstate) {
	rets := map[string]*ast.ReturnStmt{}
	ast.Inspect(b.f.Decl.Body, func(n ast.Node) bool {
		if _, ok := n.(*ast.FuncLit); ok {
			return false
		}
		if r, ok := n.(*ast.ReturnStmt); ok {
			rets[b.c.pos(r)+fmt.Sprint(r.Pos())] = r
		}
		return true
	})
	b.retIndex = rets
	b.execList(list, st, func(s *bstate, c ctl) {
		var rs *ast.ReturnStmt
		if c == cReturn {
			for i := len(s.trail) - 1; i >= 0; i-- {
				if strings.HasPrefix(s.trail[i], "ret:") {
					rs = rets[strings.TrimPrefix(s.trail[i], "ret:")]
					break
				}
			}
		}
		b.finish(s, rs)
	})
}
