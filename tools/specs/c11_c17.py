SPECS = [
 # ---------------- C11
 dict(name='C11.R1-flush_all-dropped', rule='C11.R1', why='flush_all dropped from Process',
      edits=[('memcache/protocol.go', '	case "verbosity", "flush_all":\n		resp.Status = "OK"', '	case "verbosity":\n		resp.Status = "OK"')]),
 dict(name='C11.R2-early-return-after-client-error', rule='C11.R2', why='early return after building a CLIENT_ERROR response',
      edits=[('memcache/server.go', '''			resp.Status = "CLIENT_ERROR"
			resp.Msg = err.Error()
			err = nil
		}''', '''			resp.Status = "CLIENT_ERROR"
			resp.Msg = err.Error()
			err = nil
			if len(resp.Msg) > 512 {
				return nil
			}
		}''')]),
 dict(name='C11.R3-recover-no-shutdown', rule='C11.R3', why='revert of the repair: recovered panic leaves the connection open',
      edits=[('memcache/server.go', '''			// no reply can be written for this command any more: close the
			// connection instead of leaving the client waiting for one
			c.Shutdown()
''', '')]),
 dict(name='C11.R4-index-before-length-test', rule='C11.R4', why='StorageClient.Get indexes key[1] before the length test',
      edits=[('gobeansdb/store.go', "		if len(key) > 1 && key[1] == '@' {", "		if key[1] == '@' && len(key) > 1 {")]),
 dict(name='C11.R4-path-buffer-unchecked', rule='C11.R4', why='revert of the repair in ParsePathString',
      edits=[('store/key.go', '''	if len(pathStr) > len(buf) {
		return nil, fmt.Errorf("path too long: %d > %d", len(pathStr), len(buf))
	}
''', '''	_ = fmt.Sprint
''')]),
 dict(name='C11.R4b-prepare-error-ignored', rule='C11.R4b', why='revert of the repair in GetRecordByKeyHash',
      edits=[('store/hstore.go', '''	if err := ki.Prepare(); err != nil || ki.BucketID < 0 {
		return nil, false, nil
	}
	bkt := store.buckets[ki.BucketID]
	if bkt.State != BUCKET_STAT_READY {
		return nil, false, nil
	}
	return bkt.GetRecordByKeyHash(ki)''', '''	ki.Prepare()
	bkt := store.buckets[ki.BucketID]
	if bkt.State != BUCKET_STAT_READY {
		return nil, false, nil
	}
	return bkt.GetRecordByKeyHash(ki)''')]),
 dict(name='C11.R5-negative-length', rule='C11.R5', why='seed C11/b: value size validated as a signed number',
      edits=[('memcache/protocol.go', '		if length < 0 || int64(length) > math.MaxUint32 || !config.IsValidValueSize(uint32(length)) {', '		if int64(length) > config.MCConf.BodyMax || int64(length) > math.MaxUint32 {')]),
 dict(name='C11.R5-one-terminator-byte', rule='C11.R5', why='only the LF of the terminator is checked',
      edits=[('memcache/protocol.go', "		if c1 != '\\r' || c2 != '\\n' {", "		if c2 != '\\n' {\n			_ = c1")]),
 dict(name='C11.R6-network-error-answered', rule='C11.R6', why='a network error is answered instead of closing',
      edits=[('memcache/server.go', '''			// process client connection related error
			c.Shutdown()
			return nil''', '''			// process client connection related error
			resp = new(Response)
			resp.Status = "SERVER_ERROR"
			err = nil''')]),
 dict(name='C11.R9-noreply-reset-conditional', rule='C11.R9', why='seed C11/a',
      edits=[('memcache/protocol.go', '''	req.NoReply = false
	if req.Item != nil {
		req.Item = nil
	}''', '''	if req.Item != nil {
		req.Item = nil
		req.NoReply = false
	}''')]),
 # ---------------- C12
 dict(name='C12.R1-defer-after-read', rule='C12.R1', why='token release registered after req.Read',
      edits=[('memcache/server.go', '''	err = req.Read(c.rbuf)
	t := time.Now()
	readTimeout := false
''', '''	err = req.Read(c.rbuf)
	t := time.Now()
	readTimeout := false
	defer func() {
		if req.Working {
			RL.Put(req)
		}
	}()
'''), ('memcache/server.go', '''		if req.Working {
			RL.Put(req)
		}
	}()

	// ''', '''	}()

	// ''')]),
 dict(name='C12.R1-clear-resets-token', rule='C12.R1', why='seed C12/b: Request.Clear resets Token',
      edits=[('memcache/protocol.go', '	req.NoReply = false\n	if req.Item != nil {', '	req.NoReply = false\n	req.Token = 0\n	if req.Item != nil {')]),
 dict(name='C12.R2-bad-chunk-keeps-unit', rule='C12.R2', why='SubSizeAndCount dropped from the bad-data-chunk path of Read',
      edits=[('memcache/protocol.go', '''		if c1 != '\\r' || c2 != '\\n' {
			cmem.DBRL.SetData.SubSizeAndCount(item.CArray.Cap)
			item.CArray.Free()''', '''		if c1 != '\\r' || c2 != '\\n' {
			item.CArray.Free()''')]),
 dict(name='C12.R2-hstore-set-not-ready', rule='C12.R2', why='not-ready branch of HStore.Set keeps the unit',
      edits=[('store/hstore.go', '''	if bkt.State != BUCKET_STAT_READY {
		cmem.DBRL.SetData.SubSizeAndCount(p.CArray.Cap)
		p.CArray.Free()
		return nil
	}''', '''	if bkt.State != BUCKET_STAT_READY {
		p.CArray.Free()
		return nil
	}''')]),
 dict(name='C12.R2-append-leaks-again', rule='C12.R2', why='revert of the append repair',
      edits=[('memcache/protocol.go', '''		// Append only looks at the bytes: the body buffer and its SetData
		// accounting stay with the request and are released here
		cmem.DBRL.SetData.SubSizeAndCount(req.Item.CArray.Cap)
		req.Item.CArray.Free()
''', '')]),
 dict(name='C12.R3-getmeta-leaks', rule='C12.R3', why='getMeta returns without releasing the payload',
      edits=[('gobeansdb/store.go', '''	cmem.DBRL.GetData.SubSizeAndCount(payload.CArray.Cap)
	payload.CArray.Free()

	item := new(mc.Item)
	item.Body = []byte(body)''', '''	item := new(mc.Item)
	item.Body = []byte(body)''')]),
 dict(name='C12.R3-incr-success-leaks', rule='C12.R3', why='revert of the Bucket.incr repair (success path)',
      edits=[('store/bucket.go', '''	if tofree != nil {
		// the old record was only needed for its number
		cmem.DBRL.GetData.SubSizeAndCount(tofree.CArray.Cap)
		tofree.CArray.Free()
	}
''', '')]),
 dict(name='C12.R5-double-free-alias', rule='C12.R5', why='tofree = nil removed in StorageClient.Set',
      edits=[('gobeansdb/store.go', '	tofree = nil\n	err := s.hstore.Set(ki, payload)', '	err := s.hstore.Set(ki, payload)')]),
 dict(name='C12.R7-getmulti-duplicates', rule='C12.R7', why='revert of the GetMulti repair',
      edits=[('gobeansdb/store.go', '''		if _, dup := ret[key]; dup {
			continue
		}
''', '')]),
 dict(name='C12.R8-rejected-version-negative', rule='C12.R8', why='seed C12/a',
      edits=[('store/bucket.go', '			return 1, false', '			return oldv, false')]),
 dict(name='C12.R4-flush-predicate-differs', rule='C12.R4', why='flusher releases FlushData under Ver >= 0',
      edits=[('store/datachunk.go', '		if !gc && wrec.rec.Payload.Ver > 0 {', '		if !gc && wrec.rec.Payload.Ver >= 0 {')]),
 # ---------------- C13
 dict(name='C13.R1-tree-before-table', rule='C13.R1', why='tree consulted regardless of the collision table',
      edits=[('store/bucket.go', '''	if hintit == nil {
		meta, pos, found = bkt.htree.get(ki)
		if !found {
			return
		}
		_ = meta
	} else {''', '''	meta, pos, found = bkt.htree.get(ki)
	if hintit == nil {
		if !found {
			return
		}
		_ = meta
	} else {''')]),
 dict(name='C13.R2-one-key-registered', rule='C13.R2', why='only the wanted key is registered on a mismatch',
      edits=[('store/bucket.go', '	bkt.hints.collisions.compareAndSet(hintit2, "get1") // the one in htree\n', '	_ = hintit2\n')]),
 dict(name='C13.R3-gc-ignores-collisions', rule='C13.R3', why='getCollisionGC call removed from gc',
      edits=[('store/gc.go', '					hintit, hintchunkid, isCoverdByCollision := bkt.hints.getCollisionGC(ki)', '					var hintit *HintItem\n					hintchunkid, isCoverdByCollision := 0, false')]),
 dict(name='C13.R4-table-entry-without-chunk', rule='C13.R4', why='collision entry refreshed without the chunk id',
      edits=[('store/hint.go', '		it2 := *it\n		it2.Pos.ChunkID = pos.ChunkID\n', '		it2 := *it\n')]),
 dict(name='C13.R5-merge-does-not-persist', rule='C13.R5', why='Merge no longer dumps the collision table',
      edits=[('store/hint.go', '	h.collisions.HintID = maxid\n	h.dumpCollisions()\n	return', '	h.collisions.HintID = maxid\n	return')]),
 dict(name='C13.R6-group-of-two-not-reported', rule='C13.R6', why='merge reports only groups of three or more',
      edits=[('store/hintmerge.go', '	if mw.num > 1 {\n		for i := 0; i < mw.num; i++ {\n			mw.ct.compareAndSet', '	if mw.num > 2 {\n		for i := 0; i < mw.num; i++ {\n			mw.ct.compareAndSet')]),
 dict(name='C13.R7-hash-replaced-in-init', rule='C13.R7', why='non-test init assigns getKeyHash',
      edits=[('store/config.go', 'func init() {\n	Conf = &HStoreConfig{}', 'func init() {\n	getKeyHash = func(key []byte) uint64 { return uint64(fnv1a(key)) }\n	Conf = &HStoreConfig{}')]),
 dict(name='C13.R8-collision-item-unchecked', rule='C13.R8', why='revert of the getCollisionGC repair',
      edits=[('store/hint.go', '	} else if it != nil {\n		ChunkID = it.Pos.ChunkID', '	} else {\n		ChunkID = it.Pos.ChunkID')]),
 # ---------------- C14
 dict(name='C14.R1-vhash-wrong-range', rule='C14.R1', why='reader takes vhash from h[18:20]',
      edits=[('store/hintfile.go', '	item.Vhash = binary.LittleEndian.Uint16(h[20:22])', '	item.Vhash = binary.LittleEndian.Uint16(h[18:20])')]),
 dict(name='C14.R3-seek-without-offset', rule='C14.R3', why='DataStreamReader.seek loses its offset assignment',
      edits=[('store/datafile.go', '	stream.fd.Seek(int64(offset), io.SeekStart)\n	stream.offset = offset\n}', '	stream.fd.Seek(int64(offset), io.SeekStart)\n}')]),
 dict(name='C14.R3-index-get-offset-lost', rule='C14.R3', why='revert of the hintFileIndex.get repair',
      edits=[('store/hintindex.go', '	reader.rbuf.Reset(reader.fd)\n	reader.offset = offset\n', '	reader.rbuf.Reset(reader.fd)\n')]),
 dict(name='C14.R4-heap-no-position-tiebreak', rule='C14.R4', why='mergeHeap.Less drops the position tie-break',
      edits=[('store/hintmerge.go', '	return a.Pos.CmpKey() < b.Pos.CmpKey()\n}', '	return false\n}')]),
 dict(name='C14.R4-search-first-larger', rule='C14.R4', why='seed C13/a, C14/a: search predicate > instead of >=',
      edits=[('store/hintindex.go', 'return arr[i].keyhash >= keyhash })', 'return arr[i].keyhash > keyhash })')]),
 dict(name='C14.R4-dump-order-no-key', rule='C14.R4', why='seed C14/b: byKeyHash.Less drops the key tie-break',
      edits=[('store/hint.go', '''	if a.Keyhash < b.Keyhash {
		return true
	} else if a.Keyhash > b.Keyhash {
		return false
	} else {
		return a.Key < b.Key
	}
	return false''', '''	return a.Keyhash < b.Keyhash''')]),
 dict(name='C14.R5-loop-item-not-stamped', rule='C14.R5', why='loop in merge no longer stamps ChunkID',
      edits=[('store/hintmerge.go', '		if mr.curr != nil {\n			mr.curr.Pos.ChunkID = mr.r.chunkID\n			heap.Push(&h, mr)', '		if mr.curr != nil {\n			heap.Push(&h, mr)')]),
 dict(name='C14.R8-merge-first-item-unchecked', rule='C14.R8', why='revert of the merge repair (nil test of the first item)',
      edits=[('store/hintmerge.go', '''		if curr == nil {
			// a hint file without items contributes nothing to the merge
			continue
		}
		curr.Pos.ChunkID = src[i].chunkID''', '''		curr.Pos.ChunkID = src[i].chunkID''')]),
 dict(name='C14.R2-max-key-len-300', rule='C14.R2', why='MAX_KEY_LEN beyond one byte',
      edits=[('store/key.go', '	MAX_KEY_LEN = 250', '	MAX_KEY_LEN = 300')]),
 # ---------------- C15
 dict(name='C15.R1-incr-no-ready-gate', rule='C15.R1', why='READY gate removed from HStore.Incr',
      edits=[('store/hstore.go', '''	if bkt.State != BUCKET_STAT_READY {
		cmem.DBRL.SetData.SubCount(1)
		return 0
	}
	return bkt.incr(ki, value)''', '''	return bkt.incr(ki, value)''')]),
 dict(name='C15.R2-prepare-before-hash', rule='C15.R2', why='Prepare() before the hash assignment in HStore.Get',
      edits=[('store/hstore.go', '''func (store *HStore) Get(ki *KeyInfo, memOnly bool) (payload *Payload, pos Position, err error) {
	ki.KeyHash = getKeyHash(ki.Key)
	ki.Prepare()''', '''func (store *HStore) Get(ki *KeyInfo, memOnly bool) (payload *Payload, pos Position, err error) {
	ki.Prepare()
	ki.KeyHash = getKeyHash(ki.Key)''')]),
 dict(name='C15.R3-digits-swapped', rule='C15.R3', why='seed C15/b',
      edits=[('store/key.go', '''	for _, v := range ki.KeyPath[:Conf.TreeDepth] {
		ki.BucketID <<= 4
		ki.BucketID += v
	}''', '''	for i, v := range ki.KeyPath[:Conf.TreeDepth] {
		ki.BucketID |= v << uint(4*i)
	}''')]),
 dict(name='C15.R4-open-with-wrong-home', rule='C15.R4', why='open(id, GetBucketPath(0))',
      edits=[('store/hstore.go', '				err = bkt.open(id, GetBucketPath(id))', '				err = bkt.open(id, GetBucketPath(0))')]),
 dict(name='C15.R6-dispatch-off-by-one', rule='C15.R6', why='listing dispatch on len(key) > TreeDepth',
      edits=[('store/hstore.go', '	if len(ki.Key) >= Conf.TreeDepth {\n		bkt := store.buckets[ki.BucketID]', '	if len(ki.Key) > Conf.TreeDepth {\n		bkt := store.buckets[ki.BucketID]')]),
 # ---------------- C16
 dict(name='C16.R1-unsigned-bytes', rule='C16.R1', why='uint32(b) instead of uint32(int8(b))',
      edits=[('store/key.go', '		h ^= uint32(int8(b))', '		h ^= uint32(b)')]),
 dict(name='C16.R1-prime-changed', rule='C16.R1', why='FNV prime changed in utils',
      edits=[('utils/hash.go', '	PRIME := uint32(0x01000193)', '	PRIME := uint32(0x01000191)')]),
 dict(name='C16.R2-halves-swapped', rule='C16.R2', why='key hash halves swapped',
      edits=[('store/key.go', '	return (uint64(fnv1a(key)) << 32) | uint64(murmur(key))', '	return (uint64(murmur(key)) << 32) | uint64(fnv1a(key))')]),
 dict(name='C16.R3-threshold-1000', rule='C16.R3', why='value hash threshold 1000',
      edits=[('store/item.go', '	if l <= 1024 {', '	if l <= 1000 {')]),
 dict(name='C16.R3-multiplier-31', rule='C16.R3', why='value hash multiplier 31',
      edits=[('store/item.go', '		hash *= 97\n', '		hash *= 31\n')]),
 dict(name='C16.R4-table-entry-altered', rule='C16.R4', why='one CRC table entry altered',
      edits=[('store/crc32.go', '0x77073096', '0x77073097')]),
 dict(name='C16.R4-initial-zero', rule='C16.R4', why='CRC register starts at 0',
      edits=[('store/crc32.go', '	return &crc32{^uint32(0)}', '	return &crc32{uint32(0)}')]),
 # ---------------- C17
 dict(name='C17.R1-registration-back-in-goroutine', rule='C17.R1', why='revert of the repair',
      edits=[('store/hstore.go', '''	store.gcMgr.mu.Lock()
	if _, exists := store.gcMgr.stat[bkt]; exists {
		store.gcMgr.mu.Unlock()
		err = fmt.Errorf("gc on bkt: %d already running", bucketID)
		return
	}
	store.gcMgr.stat[bkt] = &GCState{Begin: begin, End: end, Src: begin, Dst: begin}
	store.gcMgr.mu.Unlock()
''', '')]),
 dict(name='C17.R2-pretend-ignored', rule='C17.R2', why='pretend ignored',
      edits=[('store/hstore.go', '	if pretend {\n		return\n	}\n', '	_ = pretend\n')]),
 dict(name='C17.R3-range-check-persists', rule='C17.R3', why='gcCheckStart persists NextGCChunk',
      edits=[('store/gc.go', '''	for ; start < bkt.datas.newHead; start++ {
		if bkt.datas.chunks[start].size > 0 {
			break
		}
	}
	return''', '''	for ; start < bkt.datas.newHead; start++ {
		if bkt.datas.chunks[start].size > 0 {
			break
		}
	}
	bkt.NextGCChunk = start
	bkt.dumpGCHistroy()
	return''')]),
 dict(name='C17.R5-clamp-to-head', rule='C17.R5', why='clamp changed to newHead',
      edits=[('store/gc.go', '		end = bkt.datas.newHead - 1\n	}', '		end = bkt.datas.newHead\n	}')]),
 dict(name='C17.R6-cancel-rewrites-state', rule='C17.R6', why='CancelGC also rewinds the source',
      edits=[('store/hstore.go', '		stat.CancelFlag = true\n', '		stat.CancelFlag = true\n		stat.End = stat.Src\n')]),
 dict(name='C17.R4-dst-search-continues', rule='C17.R4', why='seed C17/a',
      edits=[('store/gc.go', '''				if i < startChunkID-1 { // not previous one
					gc.Dst = i + 1
				}
				break''', '''				if i < startChunkID-1 { // not previous one
					gc.Dst = i + 1
					break
				}''')]),
 dict(name='C17.R1-cancelled-pass-not-running', rule='C17.R1', why='seed C17/b',
      edits=[('store/hstore.go', '		if _, exists := store.gcMgr.stat[bkt]; exists {\n			err := fmt.Errorf', '		if st, exists := store.gcMgr.stat[bkt]; exists && !st.CancelFlag {\n			err := fmt.Errorf')]),
]
SPECS += [
 dict(name='C08.R8-get-item-offset', rule='C08.R8', why='SliceHeader.Get reads the item at a fixed offset 8',
      edits=[('store/leaf.go', '		bytesToItem(leaf[idx+Conf.TreeKeyHashLen:], &req.item)', '		bytesToItem(leaf[idx+8:], &req.item)')]),
 dict(name='C08.R8-remove-offset-only-rule', rule='C08.R8', why='Remove ignores the wildcard chunk',
      edits=[('store/leaf.go', '		if oldPos.ChunkID == -1 || oldm.Pos.Offset == oldPos.Offset {', '		if oldm.Pos.Offset == oldPos.Offset {')]),
 dict(name='C12.R10-sub-count-zero', rule='C12.R10', why='SubSizeAndCount forgets the count',
      edits=[('cmem/cmem.go', '	rl.SubSize(size)\n	rl.SubCount(1)', '	rl.SubSize(size)\n	rl.SubCount(0)')]),
 dict(name='C12.R10-free-not-idempotent', rule='C12.R10', why='CArray.Free does not reset Addr',
      edits=[('cmem/cmem.go', '		arr.Body = nil\n		arr.Addr = 0\n		arr.Cap = 0', '		arr.Body = nil\n		arr.Cap = 0')]),
 dict(name='C09.R7-vsz-from-cap', rule='C09.R7', why='header vsz taken from the buffer capacity',
      edits=[('store/datafile.go', '		vsz: uint32(len(rec.Payload.Body)),', '		vsz: uint32(rec.Payload.Cap),')]),
 dict(name='C09.R7-zero-key-valid', rule='C09.R7', why='IsValidKeySize accepts 0',
      edits=[('config/mc_config.go', '	return ksz != 0 && ksz <= uint32(MCConf.MaxKeyLen)', '	return ksz <= uint32(MCConf.MaxKeyLen)')]),
 dict(name='C01.R10-tree-item-zero-vhash', rule='C01.R10', why='HTree.get drops the value hash',
      edits=[('store/htree.go', '	meta = &Meta{0, 0, req.item.Ver, req.item.Vhash, 0}', '	meta = &Meta{0, 0, req.item.Ver, 0, 0}')]),
 dict(name='C01.R10-delete-not-found-error', rule='C01.R10', why='NOT_FOUND of a delete becomes an error',
      edits=[('gobeansdb/store.go', '		if err.Error() == "NOT_FOUND" {\n			return false, nil\n		} else {', '		if err.Error() == "NOT_FOUND" {\n			return false, err\n		} else {')]),
 dict(name='C11.R10-no-end', rule='C11.R10', why='END dropped after the VALUE items',
      edits=[('memcache/protocol.go', '			WriteFull(w, []byte("\\r\\n"))\n		}\n		io.WriteString(w, "END\\r\\n")\n', '			WriteFull(w, []byte("\\r\\n"))\n		}\n')]),
 dict(name='C11.R10-value-header-cap', rule='C11.R10', why='VALUE header announces the buffer capacity',
      edits=[('memcache/protocol.go', '				fmt.Fprintf(w, "VALUE %s %d %d\\r\\n", key, item.Flag,\n					len(item.Body))', '				fmt.Fprintf(w, "VALUE %s %d %d\\r\\n", key, item.Flag,\n					item.Cap)')]),
 dict(name='C02.R7-islarger-strict', rule='C02.R7', why='isLarger uses > on the split',
      edits=[('store/hint.go', '	return (ck > id.Chunk) || (ck == id.Chunk && sp >= id.Split)', '	return (ck > id.Chunk) || (ck == id.Chunk && sp > id.Split)')]),
 dict(name='C13.R9-buffer-collision-late', rule='C13.R9', why='round-2 seed C13/a',
      edits=[('store/hint.go', '''		if key != h.items[idx].Key {
			iscollision = true
			var keys map[string]int
			keys, found = h.collisions[keyhash]
			if found {
				idx, found = keys[key]
			}
		}
	}
	if found {
		it = h.items[idx]
	}
	return''', '''		if key != h.items[idx].Key {
			var keys map[string]int
			keys, found = h.collisions[keyhash]
			if found {
				iscollision = true
				idx, found = keys[key]
			}
		}
	}
	if found {
		it = h.items[idx]
	}
	return''')]),
 dict(name='C13.R10-ok-means-key-known', rule='C13.R10', why='round-2 seed C13/b',
      edits=[('store/collision.go', '''	items, ok := table.Items[keyhash]
	if ok {
		if it, ok2 := items[key]; ok2 {
			item = &it
		}
	}
	return''', '''	items, ok := table.Items[keyhash]
	if ok {
		var it HintItem
		if it, ok = items[key]; ok {
			item = &it
		}
	}
	return''')]),
 dict(name='C13.R6b-last-group-only-with-writer', rule='C13.R6b', why='round-2 seeds C13/c, C14/a',
      edits=[('store/hintmerge.go', '	mw.flush()\n	if mw.w != nil {\n		mw.w.close()', '	if mw.w != nil {\n		mw.flush()\n		mw.w.close()')]),
 dict(name='C14.R9-index-row-hole', rule='C14.R9', why='round-2 seed C14/c',
      edits=[('store/hintindex.go', '''	idx.index[idx.currRow][idx.currCol] = hintIndexItem{keyhash, offset}
	idx.lastoffset = offset
	if idx.currCol >= HINTINDEX_ROW_SIZE-1 {
		idx.currRow += 1
		idx.index[idx.currRow] = make([]hintIndexItem, HINTINDEX_ROW_SIZE)
		idx.currCol = 0
	} else {
		idx.currCol += 1
	}''', '''	if idx.currCol >= HINTINDEX_ROW_SIZE-1 {
		idx.currRow += 1
		idx.index[idx.currRow] = make([]hintIndexItem, HINTINDEX_ROW_SIZE)
		idx.currCol = 0
	}
	idx.index[idx.currRow][idx.currCol] = hintIndexItem{keyhash, offset}
	idx.lastoffset = offset
	idx.currCol += 1''')]),
 dict(name='C15.R7-route-signed-byte', rule='C15.R7', why='round-2 seed C15/a',
      edits=[('config/route.go', 'strconv.ParseInt(str, 16, 16)', 'strconv.ParseInt(str, 16, 8)')]),
 dict(name='C15.R8-scan-marks-served', rule='C15.R8', why='round-2 seed C15/c',
      edits=[('store/hstore.go', '			store.buckets[id].State = BUCKET_STAT_NOT_EMPTY\n', '			store.buckets[id].State = BUCKET_STAT_NOT_EMPTY\n			Conf.BucketsStat[id] = BUCKET_STAT_NOT_EMPTY\n')]),
 dict(name='C16.R4b-crc-skips-one-byte', rule='C16.R4b', why='round-2 seed C16/c',
      edits=[('store/crc32.go', 'func (h *crc32) write(data []byte) {\n', 'func (h *crc32) write(data []byte) {\n	if len(data) <= 1 {\n		return\n	}\n')]),
 dict(name='C17.R7-web-default-zero', rule='C17.R7', why='round-2 seed C17/c',
      edits=[('gobeansdb/web.go', 'getFormValueInt(r, "nogcdays", -1)', 'getFormValueInt(r, "nogcdays", 0)')]),
 dict(name='C18.R3b-gap-ends-pass', rule='C18.R3b', why='round-2 seed C18/c',
      edits=[('store/gc.go', '			logger.Infof("skip empty chunk %d", gc.Src)\n			continue', '			logger.Infof("no more data %d", gc.Src)\n			break')]),
 dict(name='C05.R5-forgc-overwrites-limit', rule='C05.R5', why='round-2 seed C05/a',
      edits=[('store/hint.go', '''	maxDumpableChunkID := h.maxDumpableChunkID
	if forGC {
		maxDumpableChunkID = MAX_NUM_CHUNK - 1
	}

	for i := 0; i <= maxDumpableChunkID; i++ {''', '''	if forGC {
		h.maxDumpableChunkID = MAX_NUM_CHUNK - 1
	}

	for i := 0; i <= h.maxDumpableChunkID; i++ {''')]),
 dict(name='C02.R4b-startsp-carried-over', rule='C02.R4b', why='round-2 seed C06/b',
      edits=[('store/bucket.go', '''	for i := bkt.TreeID.Chunk; i < MAX_NUM_CHUNK; i++ {
		startsp := 0
		if i == bkt.TreeID.Chunk {
			startsp = bkt.TreeID.Split + 1
		}''', '''	startsp := bkt.TreeID.Split + 1
	for i := bkt.TreeID.Chunk; i < MAX_NUM_CHUNK; i++ {'''),
             ('store/bucket.go', '			bkt.hints.maxDumpedHintID = HintID{i, startsp + j}\n		}\n	}', '			bkt.hints.maxDumpedHintID = HintID{i, startsp + j}\n		}\n		startsp = 0\n	}')]),
 dict(name='C10.R6-go-decoder-assumes-9', rule='C10.R6', why='round-2 seed C10/c',
      edits=[]),
 dict(name='C12.R9-diff-after-decompress', rule='C12.R9', why='round-2 seed C12/a',
      edits=[('store/datachunk.go', '		cmem.DBRL.GetData.AddSize(res.Payload.DiffSizeAfterDecompressed())\n		res.Payload.Decompress()', '		res.Payload.Decompress()\n		cmem.DBRL.GetData.AddSize(res.Payload.DiffSizeAfterDecompressed())')]),
 dict(name='C13.R3b-collision-chunk-dropped', rule='C13.R3b', why='round-2 seed C03/c',
      edits=[('store/hint.go', '	} else if it != nil {\n		ChunkID = it.Pos.ChunkID\n	}\n	return', '	}\n	return')]),
 dict(name='C10.R2-free-before-hash', rule='C10.R2', why='round-2 seed C10/b',
      edits=[('store/bucket.go', '		vhash := Getvhash(p.Body)\n		p.Free()', '		p.Free()\n		vhash := Getvhash(p.Body)')]),
 dict(name='C09.R4-discard-always', rule='C09.R4', why='round-2 seed C02/c',
      edits=[('store/datafile.go', '	tail := recsizereal & 0xff\n	if tail != 0 {\n		stream.rbuf.Discard(int(PADDING - tail))\n	}', '	stream.rbuf.Discard(int(PADDING - recsizereal&0xff))')]),
 dict(name='C02.R1b-close-flushes-only-previous', rule='C02.R1b', why='round-2 seed C02/a',
      edits=[('store/bucket.go', '''	for i := 0; i < bkt.datas.newHead; i++ {
		ck := &bkt.datas.chunks[i]
		ck.Lock()
		n := len(ck.wbuf)
		ck.Unlock()
		if n > 0 {
			bkt.datas.flush(i, true)
		}
	}''', '''	if i := bkt.datas.newHead - 1; i >= 0 {
		ck := &bkt.datas.chunks[i]
		ck.Lock()
		n := len(ck.wbuf)
		ck.Unlock()
		if n > 0 {
			bkt.datas.flush(i, true)
		}
	}''')]),
]
SPECS = [s for s in SPECS if s['edits']]
