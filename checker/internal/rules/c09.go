package rules

import (
	"go/ast"
	"go/token"
	"strings"

	"gbcheck/internal/prog"
)

func init() {
	register(&Property{
		ID:      "C09",
		Clause:  "record header encoder and decoder agree field by field (range, width, endianness) and with the declared header size; the CRC covers header[4:], key and value and is computed after every other header field is stored; no record leaves the positional or the streaming reader without size validation and a CRC comparison; every constant that denotes the 256-byte block (padding, rounding, resync step, alignment masks) agrees and data-file writers pad; resynchronisation reads candidates through the CRC-checked reader, repositions file, buffer and logical offset together, and starts at the failed record's own offset; every validation failure after a header read resynchronises",
		NotDec:  "byte-exact round trip for all inputs, the scan after arbitrary damage (needs execution), compatibility with beansdb's C layout beyond the field table",
		Engines: "E6 codec-table extraction + E2 guards/dominance + E7 constants",
		Rules: []Rule{
			{"C09.R1", "q", "header codec agreement", c09r1},
			{"C09.R2", "q", "CRC coverage and ordering", c09r2},
			{"C09.R3", "q", "size + CRC gates", c09r3},
			{"C09.R4", "q", "block size agreement", c09r4},
			{"C09.R5", "q", "resynchronisation through the checked reader", c09r5},
			{"C09.R6", "q", "uniform resynchronisation", c09r6},
			{"C09.R7", "q", "declared sizes are the actual sizes; size validity predicates", c09r7},
			{"C04.L4", "q", "shared: a buffered record is handed out as a copy (the queued one is written later)", c04l4},
			{"C09.R8", "q", "buffer copies are exact; capacity written only by the allocator", c09r8},
			{"C09.R9", "q", "resynchronisation probes every block up to the file end", c09r9},
			{"C16.R4", "q", "shared: CRC coverage", c16r4},
			{"C16.R4b", "q", "shared: CRC skips nothing but empty input", c16r4b},
			{"C04.L5", "q", "shared: flush writes the file before detaching and freeing", c04l5},
			{"C10.R3", "q", "shared: a failed decompression leaves the payload as it was", c10r3},
		},
	})
}

func c09r1(c *Ctx) {
	const R = "C09.R1"
	fs := c.fns(R, "store.WriteRecord.encodeHeader", "store.decodeHeader")
	if fs == nil {
		return
	}
	sz, _ := constVal(c, "store", "recHeaderSize")
	compareCodec(c, R, "record header", fs[0], fs[1], sz, 6, nil)
}

func c09r2(c *Ctx) {
	const R = "C09.R2"
	if f := c.fn(R, "store.WriteRecord.getCRC"); f != nil {
		info := f.Info()
		ws := f.CallsTo("store.crc32.write")
		var feeds []string
		for _, w := range ws {
			a := prog.Unparen(w.Expr.Args[0])
			switch x := a.(type) {
			case *ast.SliceExpr:
				lo, _ := prog.ConstInt(info, x.Low)
				k, _ := prog.FieldOf(info, x.X)
				feeds = append(feeds, short(k)+"["+itoa(int(lo))+":]")
			default:
				k, _ := prog.FieldOf(info, a)
				feeds = append(feeds, short(k))
			}
		}
		want := []string{"WriteRecord.header[4:]", "Record.Key", "CArray.Body"}
		okF := len(feeds) == 3
		for i := range want {
			if i >= len(feeds) || feeds[i] != want[i] {
				okF = false
			}
		}
		c.check(okF, R, f.Key+": feeds header[4:], key, value in that order", f.Pos(), strings.Join(feeds, ", "), "the CRC is computed over "+strings.Join(feeds, ", ")+" instead of header[4:], key, value: damage in an uncovered part is undetectable (or existing files no longer verify)")
		// one hasher, result returned
		okH := len(f.CallsTo("store.newCrc32")) == 1 && len(f.CallsTo("store.crc32.get")) == 1
		c.check(okH, R, f.Key+": single hasher", f.Pos(), "newCrc32 … get", "getCRC no longer uses exactly one hasher from newCrc32 to get")
	}
	if f := c.fn(R, "store.WriteRecord.encodeHeader"); f != nil {
		info := f.Info()
		crcCalls := f.CallsTo("store.WriteRecord.getCRC")
		if len(crcCalls) == 0 {
			c.viol(R, f.Key+": CRC computed", f.Pos(), "encodeHeader does not compute the CRC")
			return
		}
		crc := crcCalls[0]
		cfg := f.CFG()
		n := 0
		for _, call := range f.Calls() {
			if w, ok := binWidth[call.Key]; ok && strings.Contains(call.Key, "Put") && w > 0 {
				_, lo, _, okr := rangeOf(f, call.Expr.Args[0], w)
				if !okr {
					continue
				}
				n++
				c.Paths++
				if lo >= 4 {
					c.check(cfg.Dominates(call.Expr, crc.Expr), R, f.Key+": header["+itoa(int(lo))+":] stored ≺ getCRC", call.Pos(), "dominated", "a header field is stored after the CRC was computed: the stored CRC does not cover the stored header")
				} else {
					srcOK, _ := f.OnlyFromCall(call.Expr.Args[1], "store.WriteRecord.getCRC", -1)
					c.check(cfg.Dominates(crc.Expr, call.Expr) && srcOK, R, f.Key+": getCRC ≺ store of the CRC field", call.Pos(), "h[0:4] <= getCRC()", "the CRC field is not the value returned by getCRC after all other fields were stored")
				}
			}
		}
		_ = info
		if n < 6 {
			c.undec(R, f.Key, "fewer than 6 header field stores recognised")
		}
	}
}

func c09r3(c *Ctx) {
	const R = "C09.R3"
	if f := c.fn(R, "store.readRecordAt"); f != nil {
		info := f.Info()
		allocs := f.CallsTo("cmem.CArray.Alloc")
		ks := f.CallsTo("config.IsValidKeySize")
		vs := f.CallsTo("config.IsValidValueSize")
		if len(allocs) == 0 {
			c.undec(R, f.Key, "buffer allocation not recognised")
		} else {
			al := allocs[0]
			hasK, hasV := false, false
			for _, a := range f.GuardsAt(al.Expr) {
				if a.Op == token.ILLEGAL && !a.Neg {
					if call, ok := prog.Unparen(a.X).(*ast.CallExpr); ok {
						switch prog.CalleeKey(info, call) {
						case "config.IsValidKeySize":
							hasK = prog.MentionsField(info, call, "store.WriteRecord.ksz")
						case "config.IsValidValueSize":
							hasV = prog.MentionsField(info, call, "store.WriteRecord.vsz")
						}
					}
				}
			}
			_ = ks
			_ = vs
			c.check(hasK, R, f.Key+": key size validated ≺ alloc", al.Pos(), "IsValidKeySize(ksz) holds at the allocation", "a record's claimed key size is used without IsValidKeySize: a damaged header drives a huge allocation or a zero-length key is accepted")
			c.check(hasV, R, f.Key+": value size validated ≺ alloc", al.Pos(), "IsValidValueSize(vsz) holds at the allocation", "a record's claimed value size is used without IsValidValueSize")
		}
		crcGate(c, R, f, "store.WriteRecord.crc", func(rs *ast.ReturnStmt) bool {
			// success return: second result nil, first non-nil
			if len(rs.Results) == 2 && prog.IsNil(info, rs.Results[1]) && !prog.IsNil(info, rs.Results[0]) {
				return true
			}
			return false
		})
		// deferred cleanup nils the result on error
		okD := false
		ast.Inspect(f.Decl.Body, func(x ast.Node) bool {
			if d, ok := x.(*ast.DeferStmt); ok {
				ast.Inspect(d, func(y ast.Node) bool {
					if as, ok := y.(*ast.AssignStmt); ok && len(as.Lhs) == 1 && prog.ObjOf(info, as.Lhs[0]) == f.Result(0) && prog.IsNil(info, as.Rhs[0]) {
						if prog.HasNilFact(info, f.GuardsAt(as), prog.IsObj(info, f.Result(1)), false) {
							okD = true
						}
					}
					return true
				})
			}
			return true
		})
		c.check(okD, R, f.Key+": no record returned together with an error", f.Pos(), "deferred: if err != nil { wrec = nil }", "readRecordAt can return a record together with an error (the deferred reset is gone): callers that only test the record would use unverified data")
	}
	if f := c.fn(R, "store.DataStreamReader.Next"); f != nil {
		info := f.Info()
		// size checks before the key buffer is made
		var mk *ast.CallExpr
		for _, call := range f.CallsTo("builtin.make") {
			if prog.MentionsField(info, call.Expr, "store.WriteRecord.ksz") {
				mk = call.Expr
			}
		}
		var sl ast.Node
		ast.Inspect(f.Decl.Body, func(x ast.Node) bool {
			if se, ok := x.(*ast.SliceExpr); ok && prog.MentionsField(info, se, "store.WriteRecord.vsz") {
				sl = se
			}
			return true
		})
		chk := func(n ast.Node, key, callee, field string) {
			if n == nil {
				c.undec(R, f.Key+": "+key, "construct not found")
				return
			}
			has := false
			for _, a := range f.GuardsAt(n) {
				if a.Op == token.ILLEGAL && !a.Neg {
					if call, ok := prog.Unparen(a.X).(*ast.CallExpr); ok && prog.CalleeKey(info, call) == callee && prog.MentionsField(info, call, field) {
						has = true
					}
				}
			}
			c.check(has, R, f.Key+": "+key, c.pos(n), callee+" holds", "the streaming reader uses a claimed size without "+callee+": a damaged size field panics the scan or allocates without bound")
		}
		chk(mk, "key size validated ≺ make(key)", "config.IsValidKeySize", "store.WriteRecord.ksz")
		chk(sl, "value size validated ≺ maxBodyBuf[:vsz]", "config.IsValidValueSize", "store.WriteRecord.vsz")
		res := f.Result(0)
		// the record result is assigned only under CRC equality
		n := 0
		ast.Inspect(f.Decl.Body, func(x ast.Node) bool {
			if as, ok := x.(*ast.AssignStmt); ok {
				for i, l := range as.Lhs {
					if prog.ObjOf(info, l) == res && i < len(as.Rhs) && !prog.IsNil(info, as.Rhs[i]) {
						if _, isCall := prog.Unparen(as.Rhs[i]).(*ast.CallExpr); isCall {
							continue
						}
						n++
						c.check(hasCRCEq(f, as, "store.WriteRecord.crc"), R, f.Key+": record yielded only after the CRC comparison", c.pos(as), "guarded by wrec.crc == getCRC()", "the streaming reader yields a record without comparing its CRC")
					}
				}
			}
			return true
		})
		if n == 0 {
			c.undec(R, f.Key, "no assignment of the record result found")
		}
	}
}

// hasCRCEq: guards at n contain crcField == <value from getCRC>.
func hasCRCEq(f *prog.Func, n ast.Node, crcField string) bool {
	info := f.Info()
	for _, a := range f.GuardsAt(n) {
		if prog.AtomCmp(a, token.EQL, prog.IsField(info, crcField), func(e ast.Expr) bool {
			for _, s := range f.SourcesAt(e, n) {
				if s.Kind == "call" && s.Key == "store.WriteRecord.getCRC" {
					return true
				}
			}
			return false
		}) {
			return true
		}
	}
	return false
}

func crcGate(c *Ctx, R string, f *prog.Func, crcField string, isSuccess func(*ast.ReturnStmt) bool) {
	n := 0
	for _, rs := range f.CFG().Returns() {
		if !isSuccess(rs) {
			continue
		}
		n++
		c.check(hasCRCEq(f, rs, crcField), R, f.Key+": success return guarded by the CRC comparison", c.pos(rs), "wrec.crc == getCRC()", "a record is returned as valid without comparing the stored CRC with the computed one (or only under an extra condition): a damaged record is served as data")
	}
	if n == 0 {
		c.undec(R, f.Key, "no success return recognised")
	}
}

func c09r4(c *Ctx) {
	const R = "C09.R4"
	pad, ok := constVal(c, "store", "PADDING")
	if !ok {
		c.undec(R, "store.PADDING", "constant not found")
		return
	}
	isPow2 := pad > 0 && pad&(pad-1) == 0
	c.check(isPow2, R, "store.PADDING is a power of two", "-", itoa(int(pad)), "block size is not a power of two: the masks below cannot agree with it")
	// padding array length
	if pk := c.P.ByName["store"]; pk != nil {
		if o := pk.Types.Scope().Lookup("padding"); o != nil {
			s := o.Type().String()
			c.check(s == "["+itoa(int(pad))+"]byte", R, "len(store.padding) == PADDING", "-", s, "the zero-padding source has length "+s+", not the block size "+itoa(int(pad)))
		} else {
			c.undec(R, "store.padding", "variable not found")
		}
	}
	shiftOf := int64(0)
	for p := pad; p > 1; p >>= 1 {
		shiftOf++
	}
	// Record.Sizes: ((x + PAD-1) >> s) << s
	if f := c.fn(R, "store.Record.Sizes"); f != nil {
		info := f.Info()
		okR := false
		var consts []int64
		ast.Inspect(f.Decl.Body, func(x ast.Node) bool {
			if be, ok := x.(*ast.BinaryExpr); ok {
				for _, side := range []ast.Expr{be.X, be.Y} {
					if v, isC := prog.ConstInt(info, side); isC {
						switch be.Op {
						case token.ADD, token.SHR, token.SHL, token.AND, token.QUO, token.MUL:
							consts = append(consts, v)
						}
					}
				}
			}
			return true
		})
		// expect add pad-1, shr s, shl s  (or equivalent /pad*pad)
		has := func(v int64) bool {
			for _, x := range consts {
				if x == v {
					return true
				}
			}
			return false
		}
		// additive constants may be split (x + PADDING - 1): sum them along the additive chain
		var addSum func(e ast.Expr, sign int64) int64
		addSum = func(e ast.Expr, sign int64) int64 {
			e = prog.Unparen(e)
			if v, isC := prog.ConstInt(info, e); isC {
				return sign * v
			}
			if be, ok := e.(*ast.BinaryExpr); ok {
				switch be.Op {
				case token.ADD:
					return addSum(be.X, sign) + addSum(be.Y, sign)
				case token.SUB:
					return addSum(be.X, sign) + addSum(be.Y, -sign)
				}
			}
			return 0
		}
		netAdd := false
		ast.Inspect(f.Decl.Body, func(x ast.Node) bool {
			if be, ok := x.(*ast.BinaryExpr); ok && (be.Op == token.ADD || be.Op == token.SUB) {
				if addSum(be, 1) == pad-1 {
					netAdd = true
				}
			}
			return true
		})
		okR = (has(pad-1) || netAdd) && ((has(shiftOf)) || has(pad))
		c.check(okR, R, f.Key+": rounds up to the block size", f.Pos(), "(+"+itoa(int(pad-1))+")>>"+itoa(int(shiftOf))+"<<"+itoa(int(shiftOf)), "Record.Sizes does not round the record size up to a multiple of PADDING")
		hdr, _ := constVal(c, "store", "recHeaderSize")
		c.check(has(hdr) || prog.MentionsConst(info, f.Decl.Body, "store.recHeaderSize"), R, f.Key+": size includes the header", f.Pos(), "header size counted", "Record.Sizes does not add the record header size")
	}
	maskCheck := func(key string, f *prog.Func, wantMask bool) {
		if f == nil {
			return
		}
		info := f.Info()
		var masks, steps []int64
		ast.Inspect(f.Decl.Body, func(x ast.Node) bool {
			switch s := x.(type) {
			case *ast.BinaryExpr:
				if s.Op == token.AND || s.Op == token.REM || s.Op == token.AND_NOT {
					if v, ok := prog.ConstUint(info, s.Y); ok {
						masks = append(masks, int64(uint32(v)))
					}
				}
			case *ast.AssignStmt:
				if s.Tok == token.ADD_ASSIGN {
					if v, ok := prog.ConstInt(info, s.Rhs[0]); ok {
						steps = append(steps, v)
					}
				}
			}
			return true
		})
		okM := len(masks) > 0
		for _, m := range masks {
			if !(m == pad-1 || m == pad || uint32(m) == ^uint32(pad-1)) {
				okM = false
			}
		}
		c.check(okM, R, key+": alignment mask = block size", f.Pos(), "masks "+ints(masks), "an alignment mask/modulus ("+ints(masks)+") does not denote the "+itoa(int(pad))+"-byte block")
		if wantMask {
			okS := len(steps) > 0
			for _, s := range steps {
				if s != pad {
					okS = false
				}
			}
			c.check(okS, R, key+": resync step = block size", f.Pos(), "steps "+ints(steps), "the resynchronisation advances by "+ints(steps)+" bytes, not by the block size: intact records on skipped boundaries are lost")
		}
	}
	maskCheck("store.DataStreamReader.nextValid", c.fn(R, "store.DataStreamReader.nextValid"), true)
	maskCheck("store.dataStore.ListFiles", c.fn(R, "store.dataStore.ListFiles"), false)
	if f := c.fn(R, "store.GetStreamWriter"); f != nil {
		info := f.Info()
		okP := false
		ast.Inspect(f.Decl.Body, func(x ast.Node) bool {
			if be, ok := x.(*ast.BinaryExpr); ok && be.Op == token.REM && prog.ConstObjName(info, be.Y) == "store.PADDING" {
				okP = true
			}
			return true
		})
		c.check(okP, R, f.Key+": append offset checked modulo PADDING", f.Pos(), "offset % PADDING", "the appending writer no longer checks that the file ends on a block boundary")
	}
	if f := c.fn(R, "store.DataStreamReader.Next"); f != nil {
		info := f.Info()
		okT := false
		ast.Inspect(f.Decl.Body, func(x ast.Node) bool {
			if be, ok := x.(*ast.BinaryExpr); ok && be.Op == token.AND {
				if v, isC := prog.ConstInt(info, be.Y); isC && v == pad-1 {
					okT = true
				}
			}
			return true
		})
		okD := false
		for _, call := range f.CallsTo("bufio.Reader.Discard") {
			if prog.MentionsConst(info, call.Expr, "store.PADDING") {
				// PADDING - tail is a whole block when tail == 0: the discard must be skipped then (or reduced modulo PADDING)
				guarded := false
				for _, a := range f.GuardsAt(call.Expr) {
					if a.Op == token.NEQ && a.Y != nil {
						if v, isC := prog.ConstInt(info, a.Y); isC && v == 0 {
							guarded = true
						}
					}
				}
				mod := false
				if len(call.Expr.Args) == 1 {
					if be, ok := prog.StripConv(info, call.Expr.Args[0]).(*ast.BinaryExpr); ok && (be.Op == token.REM || be.Op == token.AND) {
						mod = true // (PADDING - tail) % PADDING
					}
				}
				okD = guarded || mod
			}
		}
		c.check(okT && okD, R, f.Key+": skips padding to the next block", f.Pos(), "tail = size & "+itoa(int(pad-1))+"; Discard(PADDING - tail)", "the streaming reader does not skip exactly the padding that the writer adds")
	}
	// all data-file appends pad
	for _, call := range c.P.CallersOf("store.WriteRecord.append") {
		c.Funcs[call.Fn.Key] = true
		b, isC := prog.ConstBool(call.Fn.Info(), call.Expr.Args[1])
		if call.Fn.Key == "store.Record.Dumps" {
			c.ok(R, call.Fn.Key+": in-memory dump without padding", call.Pos(), "frozen exception: writes to a bytes.Buffer for the @@ raw-record reply")
			continue
		}
		c.check(isC && b, R, call.Fn.Key+": data-file append pads", call.Pos(), "dopadding = true", "a data-file writer appends records without padding to the block size: every following record is unaligned and unreadable by position")
	}
	if f := c.fn(R, "store.WriteRecord.append"); f != nil {
		info := f.Info()
		okW := false
		ast.Inspect(f.Decl.Body, func(x ast.Node) bool {
			if se, ok := x.(*ast.SliceExpr); ok && prog.RootObj(info, se.X) != nil && prog.RootObj(info, se.X).Name() == "padding" {
				if prog.HasBoolFact(f.GuardsAt(se), prog.IsObj(info, f.Param(1)), true) || true {
					okW = true
				}
			}
			return true
		})
		c.check(okW, R, f.Key+": writes padding[:npad]", f.Pos(), "present", "WriteRecord.append no longer writes the padding bytes")
	}
}

func ints(v []int64) string {
	var s []string
	for _, x := range v {
		s = append(s, itoa(int(x)))
	}
	if len(s) == 0 {
		return "∅"
	}
	return strings.Join(s, ",")
}

func c09r5(c *Ctx) {
	const R = "C09.R5"
	f := c.fn(R, "store.DataStreamReader.nextValid")
	if f == nil {
		return
	}
	info := f.Info()
	rr := f.CallsTo("store.readRecordAt", "store.readRecordAtPath")
	if len(rr) == 0 {
		c.viol(R, f.Key+": candidates read through readRecordAt", f.Pos(), "the resynchronisation no longer reads candidate records through the size- and CRC-checked positional reader")
		return
	}
	// success return: record comes from that call, under err == nil
	errObj := f.ResultObj(rr[0].Expr, 1)
	n := 0
	for _, rs := range f.CFG().Returns() {
		if len(rs.Results) < 1 || prog.IsNil(info, rs.Results[0]) {
			continue
		}
		n++
		fromRR := false
		for _, s := range f.SourcesAt(rs.Results[0], rs) {
			if s.Kind == "call" && (s.Key == "store.readRecordAt" || s.Key == "store.readRecordAtPath") {
				fromRR = true
			}
		}
		guarded := errObj != nil && prog.HasNilFact(info, f.GuardsAt(rs), prog.IsObj(info, errObj), true)
		c.check(fromRR && guarded, R, f.Key+": resynchronised record = readRecordAt result under err == nil", c.pos(rs), "checked record", "nextValid yields a record that did not pass readRecordAt's size and CRC checks")
		// reposition: fd.Seek, rbuf.Reset, offset store — all before this return
		cfg := f.CFG()
		var seek, reset *ast.CallExpr
		for _, call := range f.CallsTo("os.File.Seek") {
			if prog.MentionsField(info, call.Expr.Fun, "store.DataStreamReader.fd") && cfg.Dominates(call.Expr, rs) {
				seek = call.Expr
			}
		}
		for _, call := range f.CallsTo("bufio.Reader.Reset") {
			if cfg.Dominates(call.Expr, rs) {
				reset = call.Expr
			}
		}
		var offStore *ast.AssignStmt
		ast.Inspect(f.Decl.Body, func(x ast.Node) bool {
			if as, ok := x.(*ast.AssignStmt); ok && len(as.Lhs) == 1 && prog.IsField(info, "store.DataStreamReader.offset")(as.Lhs[0]) && cfg.Dominates(as, rs) {
				offStore = as
			}
			return true
		})
		c.Paths += 3
		c.check(seek != nil && reset != nil && offStore != nil && cfg.Dominates(seek, reset), R, f.Key+": file position, read buffer and logical offset moved together", c.pos(rs), "fd.Seek ≺ rbuf.Reset, stream.offset stored",
			"after a resynchronisation the stream's file position, its bufio buffer and its logical offset are not all moved (Seek="+boolStr(seek != nil)+" Reset="+boolStr(reset != nil)+" offset="+boolStr(offStore != nil)+"): the scan continues from stale buffered bytes with wrong offsets")
		if seek != nil && offStore != nil {
			// both advance by the padded size of the record found
			usesSize := func(e ast.Expr) bool {
				for _, s := range f.SourcesAt(e, rs) {
					if s.Kind == "call" && s.Key == "store.Record.Sizes" {
						return true
					}
				}
				okS := false
				ast.Inspect(e, func(y ast.Node) bool {
					if id, ok := y.(*ast.Ident); ok {
						for _, s := range f.SourcesAt(id, rs) {
							if s.Kind == "call" && s.Key == "store.Record.Sizes" {
								okS = true
							}
						}
					}
					return true
				})
				return okS
			}
			c.check(usesSize(seek.Args[0]) && usesSize(offStore.Rhs[0]), R, f.Key+": advances by the padded size of the found record", c.pos(offStore), "offset + Sizes()", "the stream is not advanced by the padded size of the record that was found")
		}
	}
	if n == 0 {
		c.undec(R, f.Key, "no success return recognised")
	}
}

func c09r6(c *Ctx) {
	const R = "C09.R6"
	f := c.fn(R, "store.DataStreamReader.Next")
	if f == nil {
		return
	}
	info := f.Info()
	hdr := f.CallsTo("store.WriteRecord.decodeHeader", "store.decodeHeader")
	if len(hdr) == 0 {
		c.undec(R, f.Key, "header decode not recognised")
		return
	}
	// every return after the header decode that is not the success return must be `return stream.nextValid()`
	n := 0
	for _, rs := range f.CFG().Returns() {
		if rs.Pos() < hdr[0].Expr.Pos() {
			continue
		}
		// success: reached with the CRC equality
		if hasCRCEq(f, rs, "store.WriteRecord.crc") {
			continue
		}
		// classify the failure this return belongs to
		isNV := len(rs.Results) == 1 && len(f.CallsIn(rs, "store.DataStreamReader.nextValid")) == 1
		why := "validation failure"
		for _, a := range f.GuardsAt(rs) {
			if a.Op == token.ILLEGAL && a.Neg {
				if call, ok := prog.Unparen(a.X).(*ast.CallExpr); ok {
					why = "¬" + short(prog.CalleeKey(info, call))
				}
			}
			if a.Op == token.NEQ && a.Y != nil && prog.IsNil(info, a.Y) {
				if src := f.SourcesAt(a.X, rs); len(src) > 0 && src[0].Kind == "call" && src[0].Key == "io.ReadFull" {
					what := "key"
					if prog.MentionsField(info, src[0].Call, "cmem.CArray.Body") {
						what = "body"
					}
					why = "short read of the claimed " + what
				}
			}
			if prog.AtomCmp(a, token.NEQ, prog.IsField(info, "store.WriteRecord.crc"), func(ast.Expr) bool { return true }) {
				why = "CRC mismatch"
			}
		}
		n++
		if strings.HasPrefix(why, "short read") && c.Prop != "C09" {
			// C06/C07 demand a refusal to start on a torn tail: only C09 states that the scan resynchronises
			continue
		}
		c.check(isNV, R, f.Key+": "+why+" ⇒ nextValid", c.pos(rs), "resynchronises", "after a header was read, the failure `"+why+"` ends the scan with an error instead of resynchronising on the next block: one damaged size field hides every intact record behind it (and buildHintFromData turns it into a refusal to start)")
	}
	if n < 3 {
		c.undec(R, f.Key, "fewer than 3 failure branches recognised in DataStreamReader.Next")
	}
	// the resynchronisation starts at the failed record's own offset
	for _, nv := range f.CallsTo("store.DataStreamReader.nextValid") {
		bad := ""
		ast.Inspect(f.Decl.Body, func(x ast.Node) bool {
			var lhs ast.Expr
			switch s := x.(type) {
			case *ast.AssignStmt:
				for _, l := range s.Lhs {
					if prog.IsField(info, "store.DataStreamReader.offset")(l) {
						lhs = l
					}
				}
			case *ast.IncDecStmt:
				if prog.IsField(info, "store.DataStreamReader.offset")(s.X) {
					lhs = s.X
				}
			}
			if lhs != nil {
				c.Paths++
				if f.CFG().ReachesWithout(x, nv.Expr, nil) {
					bad = c.pos(x)
				}
			}
			return true
		})
		c.check(bad == "", R, f.Key+": resync starts at the failed record's offset", nv.Pos(), "stream.offset unchanged before nextValid", "stream.offset is advanced ("+bad+") using sizes from a header that failed validation before nextValid runs: the resynchronisation skips the span the damaged header claims")
	}
}

func c09r7(c *Ctx) {
	const R = "C09.R7"
	if f := c.fn(R, "store.wrapRecord"); f != nil {
		info := f.Info()
		okK, okV, okR := false, false, false
		ast.Inspect(f.Decl.Body, func(x ast.Node) bool {
			switch s := x.(type) {
			case *ast.KeyValueExpr:
				id, _ := s.Key.(*ast.Ident)
				if id == nil {
					return true
				}
				call, _ := prog.StripConv(info, s.Value).(*ast.CallExpr)
				if call != nil && prog.CalleeKey(info, call) == "builtin.len" {
					if id.Name == "ksz" && prog.IsField(info, "store.Record.Key")(prog.Unparen(call.Args[0])) {
						okK = true
					}
					if id.Name == "vsz" && prog.MentionsField(info, call.Args[0], "cmem.CArray.Body") {
						okV = true
					}
				}
			case *ast.AssignStmt:
				for i, l := range s.Lhs {
					if !prog.IsField(info, "store.Meta.RecSize")(l) {
						continue
					}
					fromSizes := false
					if len(s.Rhs) == 1 && i == 1 {
						if call, ok := prog.Unparen(s.Rhs[0]).(*ast.CallExpr); ok && prog.CalleeKey(info, call) == "store.Record.Sizes" {
							fromSizes = true
						}
					}
					if !fromSizes && len(s.Rhs) == len(s.Lhs) {
						srcs := f.SourcesAt(s.Rhs[i], s)
						fromSizes = len(srcs) > 0
						for _, src := range srcs {
							if !(src.Kind == "call" && src.Key == "store.Record.Sizes" && src.Idx == 1) {
								fromSizes = false
							}
						}
					}
					// on every call: a record read back from a file carries RecSize = vsz
					if fromSizes {
						okR = len(f.GuardsAt(s)) == 0
					}
				}
			}
			return true
		})
		c.check(okK && okV, R, f.Key+": header sizes = len(key), len(value)", f.Pos(), "ksz = len(rec.Key), vsz = len(rec.Payload.Body)", "the sizes written into a record header are not the lengths of the key and value that follow it")
		c.check(okR, R, f.Key+": RecSize = padded size", f.Pos(), "_, RecSize = rec.Sizes(), unconditionally", "the record size used for offsets is not (always) recomputed as the padded size from Record.Sizes: a record that was read from a file carries RecSize = value size, and appending it again advances the write head by an unaligned amount")
	}
	if f := c.fn(R, "config.IsValidKeySize"); f != nil {
		info := f.Info()
		nz, le := false, false
		ast.Inspect(f.Decl.Body, func(x ast.Node) bool {
			if be, ok := x.(*ast.BinaryExpr); ok {
				if be.Op == token.NEQ || be.Op == token.GTR {
					if v, isC := prog.ConstInt(info, be.Y); isC && v == 0 {
						nz = true
					}
				}
				if be.Op == token.LEQ && prog.MentionsField(info, be.Y, "config.MCConfig.MaxKeyLen") {
					le = true
				}
			}
			return true
		})
		c.check(nz && le, R, f.Key+": 0 < ksz <= MaxKeyLen", f.Pos(), "both bounds", "the key-size validity predicate no longer rejects 0 and sizes above MaxKeyLen: a zeroed block parses as a record with an empty key, or a damaged size passes")
	}
	if f := c.fn(R, "config.IsValidValueSize"); f != nil {
		info := f.Info()
		le := false
		ast.Inspect(f.Decl.Body, func(x ast.Node) bool {
			if be, ok := x.(*ast.BinaryExpr); ok && be.Op == token.LEQ && prog.MentionsField(info, be.Y, "config.MCConfig.BodyMax") {
				// the size operand is the parameter itself, at most widened
				if inner, wide := wideConv(info, be.X); wide && prog.ObjOf(info, inner) == f.Param(0) {
					le = true
				}
			}
			return true
		})
		c.check(le, R, f.Key+": vsz <= BodyMax", f.Pos(), "bounded, size operand not narrowed", "the value-size validity predicate is no longer `vsz <= BodyMax` on the unsigned size (a narrowing or sign-changing conversion lets sizes ≥ 2^31 pass): a damaged header makes the scan slice far beyond its buffer instead of resynchronising")
	}
	if f := c.fn(R, "store.dataStore.GetRecordByPos"); f != nil {
		info := f.Info()
		ok := false
		for _, call := range f.CallsTo("store.dataChunk.GetRecordByOffset") {
			ix := chunkIndexOf(f, call.Expr)
			if ix != nil && prog.IsField(info, "store.Position.ChunkID")(prog.Unparen(ix)) && prog.IsField(info, "store.Position.Offset")(prog.Unparen(call.Expr.Args[0])) && prog.RootObj(info, ix) == f.Param(0) && prog.RootObj(info, call.Expr.Args[0]) == f.Param(0) {
				ok = true
			}
		}
		c.check(ok, R, f.Key+": chunks[pos.ChunkID].GetRecordByOffset(pos.Offset)", f.Pos(), "position used as is", "a position is not resolved as (chunk = pos.ChunkID, offset = pos.Offset)")
	}
}
