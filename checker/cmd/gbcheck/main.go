// gbcheck decides the structural (static) clauses of the gobeansdb properties
// C01..C18 from the type-checked source of the repository. It never runs
// gobeansdb code.
package main

import (
	"encoding/json"
	"flag"
	"fmt"
	"os"
	"path/filepath"
	"sort"
	"strconv"
	"strings"
	"time"

	"gbcheck/internal/prog"
	"gbcheck/internal/rules"
)

type knownFile struct {
	Findings []struct {
		ID       string `json:"id"`
		Property string `json:"property"`
		Rule     string `json:"rule"`
		Key      string `json:"key"`
		What     string `json:"what"`
	} `json:"findings"`
	Fixed []string `json:"fixed"`
}

type evidence struct {
	PropertyID  string                 `json:"property_id"`
	Tier        string                 `json:"tier"`
	Seed        int                    `json:"seed"`
	Level       string                 `json:"level"`
	Coverage    map[string]interface{} `json:"coverage"`
	Assumptions []string               `json:"assumptions"`
	WallS       float64                `json:"wall_s"`
	Violations  int                    `json:"violations"`
}

func main() {
	prop := flag.String("property", "", "property id (C01..C18) or 'all'")
	tier := flag.String("tier", "quick", "quick|thorough")
	repo := flag.String("repo", "/repo", "repository to analyse")
	verif := flag.String("verif", "", "verif directory (default: parent of the binary's directory)")
	replay := flag.String("replay", "", "replay file: re-evaluate the obligation it names on the current tree")
	list := flag.Bool("list", false, "list obligations")
	noEvidence := flag.Bool("no-evidence", false, "do not write evidence files (used by self-validation)")
	jsonOut := flag.String("json", "", "write all obligations of the run as JSON to this file")
	selftest := flag.String("selftest", "", "file with the output of tools/selftest.sh to embed in the evidence")
	emit := flag.Bool("emit-manifest", false, "print MANIFEST.json for the registered properties")
	emitRules := flag.Bool("emit-rules", false, "print the rule registry as a markdown table (DESIGN.md appendix F)")
	flag.Parse()
	if *emitRules {
		for _, id := range []string{"C01", "C02", "C03", "C04", "C05", "C06", "C07", "C08", "C09", "C10", "C11", "C12", "C13", "C14", "C15", "C16", "C17", "C18"} {
			p := rules.Registry[id]
			if p == nil {
				continue
			}
			fmt.Printf("\n**%s** (%d rules)\n\n| rule | tier | what it decides |\n|------|------|-----------------|\n", id, len(p.Rules))
			for _, r := range p.Rules {
				fmt.Printf("| %s | %s | %s |\n", r.ID, r.Tier, strings.ReplaceAll(r.Doc, "|", "∣"))
			}
		}
		return
	}
	if *emit {
		emitManifest()
		return
	}

	if *verif == "" {
		exe, _ := os.Executable()
		*verif = filepath.Dir(filepath.Dir(exe))
	}
	if t := os.Getenv("VERIF_TIER"); t != "" && !flagSet("tier") {
		*tier = t
	}
	if *replay != "" {
		b, err := os.ReadFile(*replay)
		if err != nil {
			fmt.Println("UNDECIDED reason=cannot read replay file:", err)
			os.Exit(2)
		}
		var r struct{ Property, Rule, Key string }
		json.Unmarshal(b, &r)
		*prop = r.Property
		code := run(*repo, *verif, r.Property, *tier, true, true, r.Rule, r.Key, "")
		os.Exit(code)
	}
	if *prop == "" {
		fmt.Fprintln(os.Stderr, "usage: gbcheck -property Cxx [-tier quick|thorough]")
		os.Exit(2)
	}
	props := []string{*prop}
	if *prop == "all" {
		props = nil
		for id := range rules.Registry {
			props = append(props, id)
		}
		sort.Strings(props)
	}
	selftestFile = *selftest
	code := 0
	for _, id := range props {
		c := run(*repo, *verif, id, *tier, *list, *noEvidence, "", "", *jsonOut)
		if c > code {
			code = c
		}
	}
	os.Exit(code)
}

func flagSet(name string) bool {
	found := false
	flag.Visit(func(f *flag.Flag) {
		if f.Name == name {
			found = true
		}
	})
	return found
}

var loaded *prog.Program
var selftestFile string

func run(repo, verif, id, tier string, list, noEvidence bool, onlyRule, onlyKey, jsonOut string) int {
	start := time.Now()
	p := rules.Registry[id]
	if p == nil {
		fmt.Printf("UNDECIDED property=%s reason=no such property\n", id)
		return 2
	}
	if loaded == nil {
		pr, err := prog.Load(repo, false)
		if err != nil {
			fmt.Printf("UNDECIDED property=%s reason=%v\n", id, err)
			return 2
		}
		if len(pr.Pkgs) < 9 {
			fmt.Printf("UNDECIDED property=%s reason=only %d first-party packages loaded (expected >= 9)\n", id, len(pr.Pkgs))
			return 2
		}
		loaded = pr
	}
	c := rules.NewCtx(loaded, id, tier)
	c.LoadT = func() (*prog.Program, error) { return prog.Load(repo, true) }
	c.Verif = verif
	c.Repo = repo
	rules.RunProperty(c, p)

	var kf knownFile
	if b, err := os.ReadFile(filepath.Join(verif, "known_findings.json")); err == nil {
		if err := json.Unmarshal(b, &kf); err != nil {
			fmt.Printf("UNDECIDED property=%s reason=known_findings.json unreadable: %v\n", id, err)
			return 2
		}
	}
	known := map[string]string{}
	for _, k := range kf.Findings {
		if k.Property == id {
			known[k.Rule+"|"+k.Key] = k.ID + " " + k.What
		}
	}

	nviol, nundec, nknown := 0, 0, 0
	distinct := map[string]bool{}
	var samples []rules.Ob
	violDir := filepath.Join(verif, "evidence", "violations")
	seq := 0
	for _, o := range c.Obs {
		if onlyRule != "" && (o.Rule != onlyRule || o.Key != onlyKey) {
			continue
		}
		distinct[o.Rule+"|"+o.Key] = true
		switch o.Status {
		case "VIOLATION":
			if what, ok := known[o.Rule+"|"+o.Key]; ok {
				nknown++
				fmt.Printf("KNOWN-FINDING: property=%s %s %s [%s] %s\n", id, o.Rule, o.Key, o.Pos, what)
				continue
			}
			nviol++
			seq++
			os.MkdirAll(violDir, 0755)
			path := filepath.Join(violDir, fmt.Sprintf("%s-%s-%d.json", id, o.Rule, seq))
			b, _ := json.MarshalIndent(map[string]interface{}{"property": id, "rule": o.Rule, "key": o.Key, "pos": o.Pos, "msg": o.Msg, "witness": o.Witness}, "", " ")
			os.WriteFile(path, b, 0644)
			fmt.Printf("%s: %s %s: %s\n", o.Pos, o.Rule, o.Key, o.Msg)
			for _, w := range o.Witness {
				fmt.Printf("    via %s\n", w)
			}
			fmt.Printf("VIOLATION property=%s replay=%s\n", id, path)
		case "UNDECIDED":
			nundec++
			fmt.Printf("UNDECIDED property=%s rule=%s key=%s reason=%s\n", id, o.Rule, o.Key, o.Msg)
		default:
			if list {
				fmt.Printf("ok  %s %s [%s] %s\n", o.Rule, o.Key, o.Pos, o.Msg)
			}
		}
	}
	// samples: all non-ok first, then ok, up to 40
	for _, o := range c.Obs {
		if o.Status != "ok" && len(samples) < 40 {
			samples = append(samples, o)
		}
	}
	for _, o := range c.Obs {
		if o.Status == "ok" && len(samples) < 40 {
			samples = append(samples, o)
		}
	}
	var fnames []string
	for f := range c.Funcs {
		fnames = append(fnames, f)
	}
	sort.Strings(fnames)
	perRule := map[string]int{}
	for _, o := range c.Obs {
		perRule[o.Rule]++
	}
	seed, _ := strconv.Atoi(os.Getenv("VERIF_SEED"))
	ev := evidence{
		PropertyID: id, Tier: tier, Seed: seed, Level: "other",
		Coverage: map[string]interface{}{
			"explanation": "Static analysis of the type-checked source of " + repo + " (go/packages + go/types + go/cfg + go/ssa call graphs); no gobeansdb code is executed. Decided (necessary conditions of " + id + "): " + p.Clause + ". NOT decided: " + p.NotDec + ".",
			"evaluations":            len(c.Obs),
			"distinct_nontrivial":    len(distinct),
			"rule":                   "one evaluation = one obligation (rule instance at a recognised construct: call site, field access, path query, table row); distinct = distinct (rule, construct key) pairs matched in the repository on this run",
			"samples":                samples,
			"obligations":            len(c.Obs),
			"discharged":             len(c.Obs) - nviol - nundec - nknown,
			"known_findings_reported": nknown,
			"undecided":              nundec,
			"per_rule":               perRule,
			"functions_analysed":     fnames,
			"path_queries":           c.Paths,
			"packages_loaded":        len(loaded.Pkgs),
			"source_functions":       len(loaded.Funcs),
			"engines":                p.Engines,
			"notes":                  c.Notes,
		},
		Assumptions: append([]string{
			"go/types, go/cfg, go/ssa (x/tools v0.29.0) model the Go semantics of the analysed constructs correctly",
			"locks are abstracted per (type, field); fail-stop = panic/os.Exit/loghub.Logger.Fatalf",
			"each rule is a necessary condition of the property, not a sufficient one; the behavioural remainder listed under NOT decided is not claimed",
		}, p.Assume...),
		WallS:      time.Since(start).Seconds(),
		Violations: nviol,
	}
	if selftestFile != "" {
		if b, err := os.ReadFile(selftestFile); err == nil {
			var det, sil, skip, fail []string
			for _, ln := range strings.Split(string(b), "\n") {
				switch {
				case strings.HasPrefix(ln, "DETECTED "):
					det = append(det, strings.TrimPrefix(ln, "DETECTED "))
				case strings.HasPrefix(ln, "SILENT "):
					sil = append(sil, strings.TrimPrefix(ln, "SILENT "))
				case strings.HasPrefix(ln, "SKIP "):
					skip = append(skip, strings.TrimPrefix(ln, "SKIP "))
				case strings.HasPrefix(ln, "SELFTEST-FAILED"):
					fail = append(fail, ln)
				}
			}
			ev.Coverage["selftest_mutants_detected"] = det
			ev.Coverage["selftest_benign_silent"] = sil
			ev.Coverage["selftest_skipped"] = skip
			ev.Coverage["selftest_failed"] = fail
			ev.Coverage["programs"] = len(det) + len(sil) + len(fail)
		}
	}
	if !noEvidence && onlyRule == "" {
		os.MkdirAll(filepath.Join(verif, "evidence"), 0755)
		b, _ := json.MarshalIndent(ev, "", " ")
		os.WriteFile(filepath.Join(verif, "evidence", id+".json"), b, 0644)
	}
	if jsonOut != "" {
		b, _ := json.MarshalIndent(c.Obs, "", " ")
		os.WriteFile(jsonOut, b, 0644)
	}
	fmt.Printf("%s %s: %d obligations, %d distinct constructs, %d violations, %d known findings, %d undecided, %d functions, %.1fs\n",
		id, tier, len(c.Obs), len(distinct), nviol, nknown, nundec, len(fnames), time.Since(start).Seconds())
	if nviol > 0 {
		return 1
	}
	if nundec > 0 {
		fmt.Printf("UNDECIDED property=%s reason=%d obligations could not be evaluated (see above)\n", id, nundec)
		return 2
	}
	_ = strings.Join
	return 0
}

func emitManifest() {
	all := []string{"C01", "C02", "C03", "C04", "C05", "C06", "C07", "C08", "C09", "C10", "C11", "C12", "C13", "C14", "C15", "C16", "C17", "C18"}
	var checks []map[string]interface{}
	var na []map[string]string
	for _, id := range all {
		p := rules.Registry[id]
		if p == nil {
			na = append(na, map[string]string{"property_id": id, "reason": "no static rule for this property is implemented in this commit yet (design in DESIGN.md section 5); not claimed until its check exists and is silent on the unchanged tree"})
			continue
		}
		var rs []string
		for _, r := range p.Rules {
			rs = append(rs, r.ID)
		}
		checks = append(checks, map[string]interface{}{
			"property_id":         id,
			"quick_cmd":           "./check.sh " + id + " quick",
			"thorough_cmd":        "./check.sh " + id + " thorough",
			"evidence_file":       "evidence/" + id + ".json",
			"replay_cmd_template": "./bin/gbcheck -replay {path}",
			"engine":              "gbcheck",
			"technique":           "static analysis: " + p.Engines,
			"level_claimed": map[string]string{
				"category":   "other",
				"text":       "Static necessary-condition check, decided on every path/caller/access site of the current source without executing it. Decided: " + p.Clause + ". A pass means these mechanisms are intact on all paths; it does NOT mean the behaviour was verified. Not decided: " + p.NotDec + ".",
				"design_ref": "DESIGN.md section 5, " + id,
			},
			"level_note": "Trusted base: go/packages+go/types+go/cfg+go/ssa (x/tools v0.29.0), the frozen rule tables in checker/internal/rules (each instance confirmed by reading), the fail-stop oracle (panic, os.Exit, loghub.Logger.Fatalf). Rules: " + strings.Join(rs, ", ") + ". Findings on the unchanged tree that are genuine defects are listed in known_findings.json and printed as KNOWN-FINDING.",
		})
	}
	m := map[string]interface{}{
		"version":   1,
		"setup_cmd": "cd checker && GOFLAGS=-mod=mod GOPROXY=off GOSUMDB=off GOTOOLCHAIN=local go build -o ../bin/gbcheck ./cmd/gbcheck",
		"hooks": map[string]interface{}{
			"guard":            "verif",
			"enable":           "none needed: static analysis reads the untagged build of /repo; no instrumentation is compiled in",
			"baseline_off_cmd": "cd /repo && go test -mod=mod -json -vet=off -count=1 -timeout 25m ./...",
			"source_commits":   []string{},
			"add_only":         true,
		},
		"engines": []map[string]interface{}{{
			"name": "gbcheck", "path": "checker/", "serves_properties": all,
			"kind_free_text": "repository-specific static analyser (Go, x/tools v0.29.0): interprocedural must-lockset, structural guards + CFG dominance, reaching-definition value flow, resource-balance path enumeration, who-may-call/effects over CHA/VTA call graphs, codec table extraction, constant/table rules",
		}},
		"checks":         checks,
		"not_applicable": na,
		"notes":          "All claims are at level 'other': each check decides structural necessary conditions of its property on all paths of the current source (see DESIGN.md). Exit codes: 0 pass (KNOWN-FINDING lines allowed), 1 VIOLATION, 2 UNDECIDED (anchor missing / tree does not type-check; no VIOLATION line).",
	}
	if na == nil {
		m["not_applicable"] = []map[string]string{}
	}
	b, _ := json.MarshalIndent(m, "", " ")
	fmt.Println(string(b))
}
