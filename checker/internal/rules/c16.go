package rules

import (
	"go/ast"
	"go/parser"
	"go/token"
	"go/types"
	"os"
	"path/filepath"
	"regexp"
	"strconv"
	"strings"

	"gbcheck/internal/prog"
)

func init() {
	register(&Property{
		ID:      "C16",
		Clause:  "the defining parameters of the three hash functions are the historical ones: both FNV-1a copies start from 0x811c9dc5, xor each byte after sign-extending it through a signed 8-bit type, multiply by 0x01000193 (and do not use the unsigned stdlib variant); the key hash is (fnv<<32)|murmur3-32(seed 0) of the same key; the value hash is len·97 + fnv(whole value) up to and including 1024 bytes, else fnv(first 512)·97 + fnv(last 512), truncated to 16 bits; the CRC table equals the one generated from the reflected IEEE polynomial 0xEDB88320, the register starts at ^0, is updated table[(crc^b)&0xff]^(crc>>8) and is complemented at the end; production code never replaces the key hash function",
		NotDec:  "numeric equality with a reference for all inputs, MurmurHash3's own correctness (third-party module)",
		Engines: "E3 conversion-chain/value flow on the AST + E7 constants and tables (C preamble parsed from the cgo comment)",
		Rules: []Rule{
			{"C16.R1", "q", "FNV-1a parameters and sign extension", c16r1},
			{"C16.R2", "q", "key hash composition", c16r2},
			{"C16.R3", "q", "value hash parameters", c16r3},
			{"C16.R4", "q", "CRC table and register handling", c16r4},
			{"C16.R4b", "q", "every non-empty chunk enters the CRC", c16r4b},
			{"C13.R7", "q", "shared: hash function never replaced", c13r7},
			{"C16.R5", "q", "value hash computed after the body is in place", c16r5},
			{"C10.R8", "q", "shared: value hashes are taken over decompressed bytes", c10r8},
			{"C10.R2", "q", "shared: decompress before hashing in rebuild", c10r2},
			{"C10.R1", "q", "shared: value hash before compression", c10r1},
			{"C09.R2", "q", "shared: CRC coverage of key and value", c09r2},
		},
	})
}

// localConst resolves an expression to a constant, looking through a local
// variable with a single constant definition.
func localConst(f *prog.Func, e ast.Expr) (uint64, bool) {
	info := f.Info()
	if v, ok := prog.ConstUint(info, e); ok {
		return v, true
	}
	e = prog.StripConv(info, e)
	if v, ok := prog.ConstUint(info, e); ok {
		return v, true
	}
	if id, ok := e.(*ast.Ident); ok {
		defs := f.DefsOfPath(id)
		if len(defs) == 1 && defs[0].Rhs != nil {
			return localConst(f, defs[0].Rhs)
		}
	}
	return 0, false
}

func fnvFacts(c *Ctx, R string, f *prog.Func) (init, prime uint64, signed bool, ok bool) {
	info := f.Info()
	if len(f.CallsTo("fnv.New32a", "fnv.New32", "fnv.New64a")) > 0 {
		c.viol(R, f.Key+": historical signed-byte FNV-1a", f.Pos(), "the function uses the standard library's hash/fnv, which xors bytes unsigned: for every key/value containing a byte >= 0x80 the hash differs from the historical (sign-extending) definition, orphaning stored data and breaking replica comparison")
		return 0, 0, false, false
	}
	res := f.Result(0)
	var rng *ast.RangeStmt
	ast.Inspect(f.Decl.Body, func(x ast.Node) bool {
		if r, isR := x.(*ast.RangeStmt); isR && prog.ObjOf(info, r.X) == f.Param(0) {
			rng = r
		}
		return true
	})
	if res == nil || rng == nil {
		c.undec(R, f.Key, "loop over the input bytes with a named result not recognised")
		return
	}
	haveInit, havePrime, haveXor := false, false, false
	ast.Inspect(f.Decl.Body, func(x ast.Node) bool {
		as, isA := x.(*ast.AssignStmt)
		if !isA || len(as.Lhs) != 1 || prog.ObjOf(info, as.Lhs[0]) != res {
			return true
		}
		inLoop := as.Pos() > rng.Pos() && as.End() < rng.End()
		switch {
		case !inLoop && as.Tok == token.ASSIGN:
			if v, isC := localConst(f, as.Rhs[0]); isC {
				init, haveInit = v, true
			}
		case inLoop && as.Tok == token.XOR_ASSIGN:
			haveXor = true
			// conversion chain from the range value
			e := prog.Unparen(as.Rhs[0])
			var chain []string
			for {
				call, isC := e.(*ast.CallExpr)
				if !isC || len(call.Args) != 1 {
					break
				}
				tv, okT := info.Types[call.Fun]
				if !okT || !tv.IsType() {
					break
				}
				chain = append(chain, tv.Type.String())
				e = prog.Unparen(call.Args[0])
			}
			if prog.ObjOf(info, e) == prog.ObjOf(info, rng.Value) {
				for _, t := range chain {
					if t == "int8" {
						signed = true
					}
				}
			}
		case inLoop && (as.Tok == token.ASSIGN || as.Tok == token.MUL_ASSIGN):
			rhs := prog.Unparen(as.Rhs[0])
			if as.Tok == token.MUL_ASSIGN {
				if v, isC := localConst(f, rhs); isC {
					prime, havePrime = v, true
				}
			} else if be, isB := rhs.(*ast.BinaryExpr); isB && be.Op == token.MUL {
				for _, side := range []ast.Expr{be.X, be.Y} {
					if prog.ObjOf(info, side) == res {
						continue
					}
					if v, isC := localConst(f, side); isC {
						prime, havePrime = v, true
					}
				}
			}
		}
		return true
	})
	if !haveInit || !havePrime || !haveXor {
		c.undec(R, f.Key, "FNV-1a structure (init, xor, multiply) not recognised")
		return
	}
	return init, prime, signed, true
}

func c16r1(c *Ctx) {
	const R = "C16.R1"
	type facts struct {
		init, prime uint64
		signed      bool
	}
	got := map[string]facts{}
	for _, k := range []string{"store.fnv1a", "utils.Fnv1a"} {
		f := c.fn(R, k)
		if f == nil {
			continue
		}
		i, p, s, ok := fnvFacts(c, R, f)
		if !ok {
			continue
		}
		got[k] = facts{i, p, s}
		c.check(i == 0x811c9dc5, R, f.Key+": offset basis 0x811c9dc5", f.Pos(), "0x"+strconv.FormatUint(i, 16), "FNV offset basis is 0x"+strconv.FormatUint(i, 16)+", not 0x811c9dc5")
		c.check(p == 0x01000193, R, f.Key+": prime 0x01000193", f.Pos(), "0x"+strconv.FormatUint(p, 16), "FNV prime is 0x"+strconv.FormatUint(p, 16)+", not 0x01000193")
		c.check(s, R, f.Key+": bytes sign-extended (int8) before the xor", f.Pos(), "uint32(int8(b))", "bytes are xored without passing through a signed 8-bit type: hashes of inputs containing bytes >= 0x80 differ from the historical definition")
	}
	if a, ok1 := got["store.fnv1a"]; ok1 {
		if b, ok2 := got["utils.Fnv1a"]; ok2 {
			c.check(a == b, R, "store.fnv1a and utils.Fnv1a agree", "-", "same parameters", "the two FNV copies differ")
		}
	}
}

func c16r2(c *Ctx) {
	const R = "C16.R2"
	if f := c.fn(R, "store.getKeyHashDefalut"); f != nil {
		info := f.Info()
		ok := false
		why := "return expression is not (uint64(fnv1a(key)) << 32) | uint64(murmur(key))"
		for _, rs := range f.CFG().Returns() {
			if len(rs.Results) != 1 {
				continue
			}
			or, isB := prog.Unparen(rs.Results[0]).(*ast.BinaryExpr)
			if !isB || (or.Op != token.OR && or.Op != token.ADD && or.Op != token.XOR) {
				continue
			}
			half := func(e ast.Expr) (callee string, shift int64, wide bool) {
				e = prog.Unparen(e)
				if sh, isS := e.(*ast.BinaryExpr); isS && sh.Op == token.SHL {
					shift, _ = prog.ConstInt(info, sh.Y)
					e = prog.Unparen(sh.X)
				}
				if conv, isC := e.(*ast.CallExpr); isC && len(conv.Args) == 1 {
					if tv, okT := info.Types[conv.Fun]; okT && tv.IsType() && tv.Type.String() == "uint64" {
						wide = true
						if inner, isI := prog.Unparen(conv.Args[0]).(*ast.CallExpr); isI && len(inner.Args) == 1 && prog.ObjOf(info, inner.Args[0]) == f.Param(0) {
							callee = prog.CalleeKey(info, inner)
						}
					}
				}
				return
			}
			c1, s1, w1 := half(or.X)
			c2, s2, w2 := half(or.Y)
			switch {
			case c1 == "store.fnv1a" && s1 == 32 && w1 && c2 == "store.murmur" && s2 == 0 && w2,
				c2 == "store.fnv1a" && s2 == 32 && w2 && c1 == "store.murmur" && s1 == 0 && w1:
				ok = true
			default:
				why = "high half = " + c1 + "<<" + itoa(int(s1)) + ", low half = " + c2 + "<<" + itoa(int(s2)) + " (widened before the shift: " + boolStr(w1 && w2) + ")"
			}
		}
		c.check(ok, R, f.Key+": (uint64(fnv1a(key))<<32) | uint64(murmur(key))", f.Pos(), "FNV high, Murmur low, same key", "key hash composition changed: "+why)
	}
	if f := c.fn(R, "store.murmur"); f != nil {
		n := f.CallsTo("murmur3.New32")
		bad := f.CallsTo("murmur3.New32WithSeed", "murmur3.New64", "murmur3.New128", "murmur3.Sum64", "murmur3.Sum128")
		sum := f.CallsTo("murmur3.Sum32")
		c.check((len(n) == 1 || len(sum) == 1) && len(bad) == 0, R, f.Key+": MurmurHash3 32-bit, seed 0", f.Pos(), "murmur3.New32()", "the low half is no longer MurmurHash3-32 with seed 0")
	}
}

func c16r3(c *Ctx) {
	const R = "C16.R3"
	f := c.fn(R, "store.Getvhash")
	if f == nil {
		return
	}
	info := f.Info()
	val := f.Param(0)
	// threshold
	var thr *ast.IfStmt
	ast.Inspect(f.Decl.Body, func(x ast.Node) bool {
		if is, ok := x.(*ast.IfStmt); ok && thr == nil {
			thr = is
		}
		return true
	})
	if thr == nil {
		c.undec(R, f.Key, "length switch not recognised")
		return
	}
	okThr := false
	desc := types.ExprString(thr.Cond)
	for _, a := range prog.Decompose(thr.Cond, true, thr) {
		isLen := func(e ast.Expr) bool {
			for _, s := range f.SourcesAt(e, thr.Cond) {
				if s.Kind == "call" && s.Key == "builtin.len" {
					return true
				}
			}
			return false
		}
		if prog.AtomCmp(a, token.LEQ, isLen, prog.IsIntConst(info, 1024)) || prog.AtomCmp(a, token.LSS, isLen, prog.IsIntConst(info, 1025)) {
			okThr = true
		}
	}
	c.check(okThr, R, f.Key+": whole-value branch for len <= 1024", c.pos(thr), desc, "the value-hash length switch is `"+desc+"` instead of len <= 1024: values of exactly the boundary length hash differently from every historical copy")
	// short branch: Fnv1a(value)
	short1 := f.CallsIn(thr.Body, "utils.Fnv1a")
	c.check(len(short1) == 1 && prog.ObjOf(info, short1[0].Expr.Args[0]) == val, R, f.Key+": short values hash the whole value", c.pos(thr.Body), "Fnv1a(value)", "the short branch does not hash exactly the whole value with utils.Fnv1a")
	// long branch: value[:512], *97, value[l-512:l]
	if thr.Else != nil {
		long := f.CallsIn(thr.Else, "utils.Fnv1a")
		okLong := len(long) == 2
		if okLong {
			s0, ok0 := prog.Unparen(long[0].Expr.Args[0]).(*ast.SliceExpr)
			s1, ok1 := prog.Unparen(long[1].Expr.Args[0]).(*ast.SliceExpr)
			okLong = ok0 && ok1
			if okLong {
				h0, _ := prog.ConstInt(info, s0.High)
				okLong = s0.Low == nil && h0 == 512
				// l-512 : l (or open)
				lowOK := false
				if be, isB := prog.Unparen(s1.Low).(*ast.BinaryExpr); isB && be.Op == token.SUB {
					if v, isC := prog.ConstInt(info, be.Y); isC && v == 512 {
						lowOK = true
					}
				}
				okLong = okLong && lowOK
			}
		}
		mul97 := false
		ast.Inspect(thr.Else, func(x ast.Node) bool {
			if as, ok := x.(*ast.AssignStmt); ok && as.Tok == token.MUL_ASSIGN {
				if v, isC := prog.ConstInt(info, as.Rhs[0]); isC && v == 97 {
					mul97 = true
				}
			}
			return true
		})
		c.check(okLong && mul97, R, f.Key+": long values hash first 512, ·97, last 512", c.pos(thr.Else), "Fnv1a(value[:512]) … *= 97 … Fnv1a(value[l-512:l])", "the long branch no longer combines the first and last 512 bytes with the factor 97")
	} else {
		c.viol(R, f.Key+": long values hash first 512, ·97, last 512", c.pos(thr), "the long-value branch is gone")
	}
	// len*97 and uint16 truncation
	len97 := false
	ast.Inspect(f.Decl.Body, func(x ast.Node) bool {
		if be, ok := x.(*ast.BinaryExpr); ok && be.Op == token.MUL {
			if v, isC := prog.ConstInt(info, be.Y); isC && v == 97 {
				for _, s := range f.SourcesAt(be.X, be) {
					if s.Kind == "call" && s.Key == "builtin.len" {
						len97 = true
					}
				}
			}
		}
		return true
	})
	c.check(len97, R, f.Key+": starts from len·97", f.Pos(), "uint32(l) * 97", "the value hash no longer starts from length × 97")
	trunc := false
	for _, rs := range f.CFG().Returns() {
		if len(rs.Results) == 1 {
			if call, ok := prog.Unparen(rs.Results[0]).(*ast.CallExpr); ok {
				if tv, okT := info.Types[call.Fun]; okT && tv.IsType() && tv.Type.String() == "uint16" {
					trunc = true
				}
			}
		}
	}
	c.check(trunc, R, f.Key+": truncated to 16 bits", f.Pos(), "uint16(hash)", "the value hash is not truncated to 16 bits")
}

var reHex = regexp.MustCompile(`0x[0-9a-fA-F]+`)

func c16r4(c *Ctx) {
	const R = "C16.R4"
	// locate crc32.go of package store and its cgo preamble
	pk := c.P.ByName["store"]
	if pk == nil {
		c.undec(R, "store", "package not loaded")
		return
	}
	path := ""
	for _, g := range pk.GoFiles {
		if filepath.Base(g) == "crc32.go" {
			path = g
		}
	}
	if path == "" {
		// any file whose preamble defines crc32_table
		for _, g := range pk.GoFiles {
			if b, err := os.ReadFile(g); err == nil && strings.Contains(string(b), "crc32_table") {
				path = g
			}
		}
	}
	if path == "" {
		c.undec(R, "store/crc32.go", "file with the CRC table not found")
		return
	}
	fs := token.NewFileSet()
	af, err := parser.ParseFile(fs, path, nil, parser.ParseComments)
	if err != nil {
		c.undec(R, "store/crc32.go", "cannot parse: "+err.Error())
		return
	}
	pre := ""
	for _, d := range af.Decls {
		if gd, ok := d.(*ast.GenDecl); ok && gd.Tok == token.IMPORT && gd.Doc != nil {
			for _, sp := range gd.Specs {
				if is, ok := sp.(*ast.ImportSpec); ok && is.Path.Value == `"C"` {
					pre = gd.Doc.Text()
				}
			}
		}
	}
	if pre == "" {
		c.undec(R, "store/crc32.go", "cgo preamble not found")
		return
	}
	// table
	i0 := strings.Index(pre, "crc32_table[256]")
	i1 := -1
	if i0 >= 0 {
		i1 = strings.Index(pre[i0:], "};")
	}
	if i0 < 0 || i1 < 0 {
		c.undec(R, "crc32_table", "table literal not recognised in the preamble")
		return
	}
	nums := reHex.FindAllString(pre[i0:i0+i1], -1)
	var want [256]uint32
	for i := range want {
		v := uint32(i)
		for k := 0; k < 8; k++ {
			if v&1 == 1 {
				v = v>>1 ^ 0xEDB88320
			} else {
				v >>= 1
			}
		}
		want[i] = v
	}
	bad := -1
	if len(nums) != 256 {
		bad = len(nums)
	} else {
		for i, s := range nums {
			v, _ := strconv.ParseUint(s[2:], 16, 64)
			if uint32(v) != want[i] {
				bad = i
				break
			}
		}
	}
	c.check(bad < 0, R, "crc32_table == table of reflected polynomial 0xEDB88320", "store/crc32.go", "256 entries equal", "CRC table deviates from the IEEE table (entry/size "+itoa(bad)+"): every stored record CRC stops verifying and new files are unreadable by other implementations")
	// update expression: crc = crc32_table[(crc ^ *buf) & M] ^ (crc >> S)
	toks := regexp.MustCompile(`[A-Za-z_][A-Za-z_0-9]*|0x[0-9a-fA-F]+|[0-9]+|>>|<<|[\[\]\(\)\^&\*=;]`).FindAllString(pre[i0+i1:], -1)
	pat := []string{"crc", "=", "crc32_table", "[", "(", "crc", "^", "*", "buf", ")", "&", "M", "]", "^", "(", "crc", ">>", "S", ")", ";"}
	found, mask, shift := false, "", ""
	for s := 0; s+len(pat) <= len(toks); s++ {
		ok := true
		m, sh := "", ""
		for j, p := range pat {
			switch p {
			case "M":
				m = toks[s+j]
			case "S":
				sh = toks[s+j]
			default:
				if toks[s+j] != p {
					ok = false
				}
			}
			if !ok {
				break
			}
		}
		if ok {
			found, mask, shift = true, m, sh
			break
		}
	}
	if !found {
		c.undec(R, "crc32_write update expression", "C update statement not in the recognised form `crc = crc32_table[(crc ^ *buf) & M] ^ (crc >> S);`")
	} else {
		mv, _ := strconv.ParseUint(strings.TrimPrefix(mask, "0x"), map[bool]int{true: 16, false: 10}[strings.HasPrefix(mask, "0x")], 64)
		sv, _ := strconv.ParseUint(shift, 10, 64)
		c.check(mv == 0xff && sv == 8, R, "crc32_write: table[(crc ^ b) & 0xff] ^ (crc >> 8)", "store/crc32.go", "mask 0xff, shift 8", "the byte-wise CRC update uses mask "+mask+" / shift "+shift)
	}
	if f := c.fn(R, "store.newCrc32"); f != nil {
		info := f.Info()
		ok := false
		ast.Inspect(f.Decl.Body, func(x ast.Node) bool {
			if cl, isC := x.(*ast.CompositeLit); isC && len(cl.Elts) == 1 {
				e := cl.Elts[0]
				if kv, isKV := e.(*ast.KeyValueExpr); isKV {
					e = kv.Value
				}
				if v, isV := prog.ConstUint(info, e); isV && uint32(v) == 0xffffffff {
					ok = true
				}
			}
			return true
		})
		c.check(ok, R, f.Key+": register starts at ^0", f.Pos(), "0xffffffff", "the CRC register does not start from all ones")
	}
	if f := c.fn(R, "store.crc32.get"); f != nil {
		ok := false
		for _, rs := range f.CFG().Returns() {
			if len(rs.Results) == 1 {
				if u, isU := prog.Unparen(rs.Results[0]).(*ast.UnaryExpr); isU && u.Op == token.XOR && prog.IsField(f.Info(), "store.crc32.crc")(prog.Unparen(u.X)) {
					ok = true
				}
			}
		}
		c.check(ok, R, f.Key+": result complemented", f.Pos(), "^h.crc", "the final CRC is not the complement of the register")
	}
	if f := c.fn(R, "store.crc32.write"); f != nil {
		// passes the running register in and stores the result back
		info := f.Info()
		ok := false
		ast.Inspect(f.Decl.Body, func(x ast.Node) bool {
			if as, isA := x.(*ast.AssignStmt); isA && len(as.Lhs) == 1 && prog.IsField(info, "store.crc32.crc")(as.Lhs[0]) && prog.MentionsField(info, as.Rhs[0], "store.crc32.crc") {
				ok = true
			}
			return true
		})
		c.check(ok, R, f.Key+": register threaded through crc32_write", f.Pos(), "h.crc = crc32_write(h.crc, …)", "the running CRC register is not passed to and stored back from crc32_write")
	}
}

// c16r4b: crc32.write may skip only empty input; getCRC feeds every non-empty part.
func c16r4b(c *Ctx) {
	const R = "C16.R4b"
	emptyOnly := func(f *prog.Func, cond ast.Expr, arg func(ast.Expr) bool, skipWhenTrue bool) (bool, string) {
		info := f.Info()
		// cond must be equivalent to len(x) == 0 (skip) or len(x) > 0 (process)
		okc := true
		desc := types.ExprString(cond)
		for _, a := range prog.Decompose(cond, true, nil) {
			if a.Y == nil {
				okc = false
				continue
			}
			x, y, op := a.X, a.Y, a.Op
			if !arg(x) {
				x, y, op = a.Y, a.X, mirrorOp(a.Op)
			}
			if !arg(x) {
				okc = false
				continue
			}
			v, isC := prog.ConstInt(info, y)
			if !isC {
				okc = false
				continue
			}
			if skipWhenTrue {
				if !((op == token.EQL && v == 0) || (op == token.LSS && v == 1) || (op == token.LEQ && v == 0)) {
					okc = false
				}
			} else {
				if !((op == token.GTR && v == 0) || (op == token.GEQ && v == 1) || (op == token.NEQ && v == 0)) {
					okc = false
				}
			}
		}
		return okc, desc
	}
	if f := c.fn(R, "store.crc32.write"); f != nil {
		info := f.Info()
		isLen := func(e ast.Expr) bool { return isLenOf(info, e, ast.NewIdent(f.Param(0).Name())) || isLenParam(info, e, f.Param(0)) }
		bad := ""
		ast.Inspect(f.Decl.Body, func(x ast.Node) bool {
			if is, ok := x.(*ast.IfStmt); ok && f.Terminates(is.Body) {
				if okc, d := emptyOnly(f, is.Cond, isLen, true); !okc {
					bad = d
				}
			}
			return true
		})
		c.check(bad == "", R, f.Key+": only empty input is skipped", f.Pos(), "no early return for non-empty data", "crc32.write returns early under `"+bad+"`, which also holds for non-empty input: such chunks (e.g. a one-byte key or value) are left out of the record CRC, so records written before no longer verify and damage to those bytes is undetectable")
	}
	if f := c.fn(R, "store.WriteRecord.getCRC"); f != nil {
		info := f.Info()
		bad := ""
		for _, w := range f.CallsTo("store.crc32.write") {
			for _, a := range f.Enclosing(w.Expr) {
				if is, ok := a.(*ast.IfStmt); ok {
					arg := w.Expr.Args[0]
					isLen := func(e ast.Expr) bool { return isLenOf(info, e, arg) }
					if okc, d := emptyOnly(f, is.Cond, isLen, false); !okc {
						bad = d
					}
				}
			}
		}
		c.check(bad == "", R, f.Key+": key and value are fed whenever they are non-empty", f.Pos(), "guards are len(x) > 0", "getCRC skips a part of the record under `"+bad+"`")
	}
}

func isLenParam(info *types.Info, e ast.Expr, p *types.Var) bool {
	e = prog.StripConv(info, e)
	call, ok := e.(*ast.CallExpr)
	return ok && prog.CalleeKey(info, call) == "builtin.len" && len(call.Args) == 1 && prog.ObjOf(info, call.Args[0]) == p
}
