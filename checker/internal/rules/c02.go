package rules

import (
	"go/ast"
	"go/token"
	"go/types"
	"strings"

	"gbcheck/internal/prog"
)

func init() {
	register(&Property{
		ID:      "C02",
		Clause:  "a clean Close flushes buffered records with force, then dumps hints, collisions and the tree; no background data-file writer is left unjoined at shutdown; index files (hint, merged hint, tree) are only ever written as <name>.tmp and renamed after flush+close; every appended or relocated record also gets a hint carrying the appended position; a hint that covers less than its data file triggers a rebuild from exactly the covered offset and a rebuild error stops the start-up; hint replay sets live items and removes tombstones",
		NotDec:  "that the rebuilt mapping equals the original, which subsets of index files survive, the periodic flusher's timing, versions under check_vhash",
		Engines: "E2 guards/dominance + E3 value flow + E5 path-origin classification of file-creating calls",
		Rules: []Rule{
			{"C02.R1a", "q", "close chain", c02r1a},
			{"C02.R1b", "q", "no unjoined background data writer", c02r1b},
			{"C02.R2", "q", "index files: tmp + rename", c02r2},
			{"C02.R3", "q", "append ⇒ hint with the appended position", c02r3},
			{"C02.R4", "q", "hint shorter than data ⇒ rebuild from the covered offset, fail-stop", c02r4},
			{"C02.R5", "q", "hint replay: set live, remove tombstones", c02r5},
			{"C02.R4b", "q", "per-chunk replay start is fresh for every chunk", c02r4b},
			{"C09.R4", "q", "shared: block size agreement of writer and rebuild scanner", c09r4},
			{"C02.R6", "q", "hintMgr.close dumps every chunk's last split", c02r6},
			{"C02.R7", "q", "tree-dump id ordering and hint reader start", c02r7},
			{"C14.R7", "q", "shared: a split's recorded data size covers only accepted records", c14r7},
			{"C02.R8", "q", "rebuild from data and replay of hints carry every field of the record/item", c02r8},
			{"C02.R9", "q", "choice of the tree dump at start-up", c02r9},
			{"C14.R12", "q", "shared: index file naming codec", c14r12},
			{"C14.R13", "q", "shared: start-up acceptance of hint files", c14r13},
			{"C14.R14", "q", "shared: split dump discipline", c14r14},
			{"C14.R11", "q", "shared: an item is never dropped when a split is full", c14r11},
			{"C13.R11", "q", "shared: collision table persistence", c13r11},
			{"C14.R4", "q", "shared: hint file order and index search", c14r4},
			{"C14.R3", "q", "shared: seek/offset pairing of the stream and hint readers", c14r3},
			{"C06.R8", "q", "shared: a fatal log line stops the process", c06r8},
			{"C18.R6", "q", "shared: hint files of a chunk removed by glob", c18r6},
			{"C02.R10", "q", "identity-carrying constructors and the start-up index file list", c02r10},
			{"C02.R11", "q", "data file naming: one producer, own index, matching directory scans", c02r11},
			{"C04.L1", "q", "shared: version check, append and index update are one critical section", c04l1},
		},
	})
}

func c02r1a(c *Ctx) {
	const R = "C02.R1a"
	if f := c.fn(R, "store.HStore.Close"); f != nil {
		calls := f.CallsTo("store.Bucket.close")
		okRange := false
		for _, call := range calls {
			for _, a := range f.Enclosing(call.Expr) {
				if rs, ok := a.(*ast.RangeStmt); ok {
					if k, _ := prog.FieldOf(f.Info(), rs.X); k == "store.HStore.buckets" {
						okRange = true
					}
				}
				if fs, ok := a.(*ast.ForStmt); ok && fs.Cond != nil && prog.MentionsField(f.Info(), fs.Cond, "store.HStore.buckets") {
					okRange = true
				}
			}
		}
		c.check(okRange, R, f.Key+": every bucket closed", f.Pos(), "Bucket.close called in a loop over store.buckets", "HStore.Close does not call Bucket.close for every bucket")
	}
	f := c.fn(R, "store.Bucket.close")
	if f == nil {
		return
	}
	info := f.Info()
	flushes := f.CallsTo("store.dataStore.flush")
	hclose := f.CallsTo("store.hintMgr.close")
	dtree := f.CallsTo("store.Bucket.dumpHtree")
	dcoll := f.CallsTo("store.hintMgr.dumpCollisions")
	var forced *prog.Call
	for i, fl := range flushes {
		if len(fl.Expr.Args) == 2 {
			if b, ok := prog.ConstBool(info, fl.Expr.Args[1]); ok && b {
				// the forced flush of the head chunk (chunk argument negative) — or, failing that, the first forced flush
				if v, isC := prog.ConstInt(info, fl.Expr.Args[0]); isC && v < 0 {
					forced = &flushes[i]
					break
				}
				if forced == nil {
					forced = &flushes[i]
				}
			}
		}
	}
	if !c.check(forced != nil, R, f.Key+": forced flush", f.Pos(), "dataStore.flush(_, true)", "Bucket.close does not force-flush the write buffer (flush with force=false may skip records younger than the flush interval)") {
		return
	}
	if len(hclose) == 0 || len(dtree) == 0 || len(dcoll) == 0 {
		c.viol(R, f.Key+": close chain", f.Pos(), "Bucket.close no longer calls all of hintMgr.close, dumpHtree and dumpCollisions")
		return
	}
	cfg := f.CFG()
	c.Paths += 3
	c.check(cfg.Dominates(forced.Expr, hclose[0].Expr), R, f.Key+": flush ≺ hints.close", hclose[0].Pos(), "dominated", "hints are dumped before the data they describe is flushed")
	c.check(cfg.Dominates(hclose[0].Expr, dtree[0].Expr), R, f.Key+": hints.close ≺ dumpHtree", dtree[0].Pos(), "dominated", "the tree is dumped before the hint buffers: its id would claim splits that are not on disk")
	esc := cfg.EscapesWithout(hclose[0].Expr, f.ContainsCall("store.hintMgr.dumpCollisions"), nil)
	dom := cfg.Dominates(dcoll[0].Expr, hclose[0].Expr)
	c.check(dom || !esc.Found, R, f.Key+": dumpCollisions on every closing path", dcoll[0].Pos(), "reached", "a path closes the hints without persisting the collision table", c.trail(esc.Trail)...)
}

func c02r1b(c *Ctx) {
	const R = "C02.R1b"
	// background goroutines in package store that end up writing a data file
	writers := reachSet(c, []string{"store.dataChunk.flush"}) // writes buffered client records (wbuf) to a data file
	n := 0
	for _, f := range c.P.SortedFuncs() {
		if f.Pkg.Name != "store" {
			continue
		}
		ast.Inspect(f.Decl.Body, func(x ast.Node) bool {
			gs, ok := x.(*ast.GoStmt)
			if !ok {
				return true
			}
			k := prog.CalleeKey(f.Info(), gs.Call)
			if !writers[k] {
				return true
			}
			n++
			c.Funcs[f.Key] = true
			key := f.Key + ": go " + short(k) + " (data-file writer) joined at close"
			// joined? the shutdown path must wait or flush every chunk
			closeF := c.P.F("store.Bucket.close")
			joined := false
			if closeF != nil {
				for _, call := range closeF.Calls() {
					switch call.Key {
					case "sync.WaitGroup.Wait":
						joined = true
					}
				}
				// a loop over chunks calling flush also counts
				// several rotations can be pending at once: only a loop over every chunk below the head joins them all
				ast.Inspect(closeF.Decl.Body, func(y ast.Node) bool {
					switch l := y.(type) {
					case *ast.RangeStmt:
						if len(closeF.CallsIn(l, "store.dataStore.flush", "store.dataChunk.flush")) > 0 && prog.MentionsField(closeF.Info(), l.X, "store.dataStore.chunks") {
							joined = true
						}
					case *ast.ForStmt:
						if len(closeF.CallsIn(l, "store.dataStore.flush", "store.dataChunk.flush")) > 0 && l.Init != nil && l.Cond != nil {
							if as, ok := l.Init.(*ast.AssignStmt); ok && len(as.Rhs) == 1 {
								if v, isC := prog.ConstInt(closeF.Info(), as.Rhs[0]); isC && v == 0 {
									if be, ok := prog.Unparen(l.Cond).(*ast.BinaryExpr); ok && (be.Op == token.LSS || be.Op == token.LEQ) && (prog.MentionsField(closeF.Info(), be.Y, "store.dataStore.newHead") || prog.MentionsConst(closeF.Info(), be.Y, "store.MAX_NUM_CHUNK")) {
										joined = true
									}
								}
							}
						}
					}
					return true
				})
			}
			if len(gs.Call.Args) == 2 {
				b, isC := prog.ConstBool(f.Info(), gs.Call.Args[1])
				c.check(isC && b, R, f.Key+": go "+short(k)+" of the rotated file is forced", c.pos(gs), "force = true",
					"the only flush a rotated data file ever gets on its own is spawned with force=false, so the flusher's rate limit (flush_interval, <1MB buffered) can skip it: the acknowledged tail of the rotated file stays in memory until shutdown")
			}
			c.check(joined, R, key, c.pos(gs), "close waits for it or flushes every chunk below the head itself",
				"a goroutine that writes buffered records of the previous data file is spawned and never joined; Bucket.close flushes only the head chunk (flush(-1)), so Close can return — and the process exit — before acknowledged records of the rotated file reach disk")
			return true
		})
	}
	if n == 0 {
		c.ok(R, "store: no background data-file writer", "-", "no go statement in package store reaches a data-file append")
	}
}

// reachSet returns the set of function keys from which any of targets is
// reachable through static calls (targets included).
func reachSet(c *Ctx, targets []string) map[string]bool {
	set := map[string]bool{}
	for _, t := range targets {
		set[t] = true
	}
	funcs := c.P.SortedFuncs()
	for changed := true; changed; {
		changed = false
		for _, f := range funcs {
			if set[f.Key] {
				continue
			}
			for _, call := range f.Calls() {
				if set[call.Key] {
					set[f.Key] = true
					changed = true
					break
				}
			}
		}
	}
	return set
}

// tmpOf: e has the shape X + ".tmp" (possibly through a local); returns X.
func tmpOf(f *prog.Func, e ast.Expr, at ast.Node) (ast.Expr, bool) {
	info := f.Info()
	e = prog.Unparen(e)
	if be, ok := e.(*ast.BinaryExpr); ok && be.Op == token.ADD {
		if s, ok := prog.ConstString(info, be.Y); ok && s == ".tmp" {
			return be.X, true
		}
		return nil, false
	}
	if id, ok := e.(*ast.Ident); ok {
		defs := f.DefsOfPath(id)
		if len(defs) == 1 && defs[0].Rhs != nil && defs[0].Idx < 0 {
			return tmpOf(f, defs[0].Rhs, defs[0].Stmt)
		}
	}
	return nil, false
}

// fileCreates lists calls that create or open a file for writing.
func fileCreates(f *prog.Func) []prog.Call {
	var out []prog.Call
	info := f.Info()
	for _, call := range f.Calls() {
		switch call.Key {
		case "os.Create", "ioutil.WriteFile", "os.WriteFile":
			out = append(out, call)
		case "os.OpenFile":
			if len(call.Expr.Args) >= 2 {
				if v, ok := prog.ConstInt(info, call.Expr.Args[1]); ok && v&(0x1|0x2|0x40|0x200|0x400) != 0 { // O_WRONLY|O_RDWR|O_CREATE|O_TRUNC|O_APPEND
					out = append(out, call)
				} else if !ok {
					out = append(out, call)
				}
			}
		}
	}
	return out
}

// pathOrigins classifies where a path expression comes from, following
// parameters to the callers (depth-bounded).
func pathOrigins(c *Ctx, f *prog.Func, e ast.Expr, at ast.Node, depth int, out map[string]bool) {
	if _, ok := tmpOf(f, e, at); ok {
		out["tmp"] = true
		return
	}
	for _, s := range f.SourcesAt(e, at) {
		switch s.Kind {
		case "call":
			switch s.Key {
			case "store.getIndexPath", "store.hintMgr.getPath", "store.Bucket.getHtreePath":
				out["index"] = true
			case "store.genDataPath", "store.dataStore.genPath":
				out["data"] = true
			case "store.Bucket.getGCHistoryPath":
				out["gcstate"] = true
			case "store.hintMgr.getCollisionPath":
				out["collision"] = true
			case "fmt.Sprintf", "filepath.Join":
				out["formatted"] = true
			default:
				out["call:"+s.Key] = true
			}
		case "param":
			if s.Field != "" {
				out["field:"+s.Field] = true
				switch s.Field {
				case "path":
					// a struct's stored path: classify by the struct type
					if v := s.Obj; v != nil {
						t := v.Type().String()
						switch {
						case strings.Contains(t, "dataChunk"), strings.Contains(t, "DataStream"):
							out["data"] = true
						case strings.Contains(t, "hintFile"):
							out["index"] = true
						}
					}
				}
				continue
			}
			if depth >= 3 {
				out["param"] = true
				continue
			}
			// follow to callers
			idx := -1
			for i := 0; ; i++ {
				p := f.Param(i)
				if p == nil {
					break
				}
				if p == s.Obj {
					idx = i
				}
			}
			callers := c.P.CallersOf(f.Key)
			if idx < 0 || len(callers) == 0 {
				out["param"] = true
				continue
			}
			for _, call := range callers {
				if idx < len(call.Expr.Args) {
					pathOrigins(c, call.Fn, call.Expr.Args[idx], call.Expr, depth+1, out)
				}
			}
		case "const":
			out["const"] = true
		default:
			out[s.Kind] = true
		}
	}
}

func c02r2(c *Ctx) {
	const R = "C02.R2"
	c.Floor(R, 5)
	// (1) every file creation in package store whose path is an index path must be a tmp path
	for _, f := range c.P.SortedFuncs() {
		if f.Pkg.Name != "store" {
			continue
		}
		for _, call := range fileCreates(f) {
			c.Funcs[f.Key] = true
			or := map[string]bool{}
			pathOrigins(c, f, call.Expr.Args[0], call.Expr, 0, or)
			if or["index"] {
				c.viol(R, f.Key+": "+call.Key+" on an index path", call.Pos(), "an index file (hint / merged hint / tree dump) is created or truncated under its final name: a kill during the write leaves a half-written file that the loaders will pick up")
			} else if or["tmp"] {
				c.ok(R, f.Key+": "+call.Key+" on <path>.tmp", call.Pos(), "temporary name")
			}
		}
	}
	// (2) the writers of index files open tmp and finish with flush ≺ close ≺ rename(tmp, final)
	type pair struct{ open, finish string }
	for _, pr := range []pair{{"store.newHintFileWriter", "store.hintFileWriter.close"}, {"store.HTree.dump", "store.HTree.dump"}} {
		fo, ff := c.fn(R, pr.open), c.fn(R, pr.finish)
		if fo == nil || ff == nil {
			continue
		}
		creates := fileCreates(fo)
		if len(creates) == 0 {
			c.viol(R, fo.Key+": creates its file as tmp", fo.Pos(), "no file creation found in the index-file writer")
		}
		for _, cr := range creates {
			_, isTmp := tmpOf(fo, cr.Expr.Args[0], cr.Expr)
			c.check(isTmp, R, fo.Key+": creates its file as tmp", cr.Pos(), "os.Create/OpenFile(path + \".tmp\")", "the index-file writer opens a path that is not <final>.tmp")
		}
		ren := ff.CallsTo("os.Rename")
		if len(ren) == 0 {
			c.viol(R, ff.Key+": rename tmp -> final", ff.Pos(), "the index-file writer never renames its temporary file to the final name")
			continue
		}
		base, isTmp := tmpOf(ff, ren[0].Expr.Args[0], ren[0].Expr)
		same := isTmp && prog.SameExpr(ff.Info(), base, ren[0].Expr.Args[1])
		c.check(same, R, ff.Key+": rename tmp -> final", ren[0].Pos(), "os.Rename(X+\".tmp\", X)", "os.Rename does not move <X>.tmp onto <X>")
		// ordering: bufio flush ≺ fd.Close ≺ rename (calls outside closures)
		var fl, cl *ast.CallExpr
		for _, call := range ff.CallsTo("bufio.Writer.Flush") {
			if ff.EnclosingLit(call.Expr) == nil {
				fl = call.Expr
			}
		}
		for _, call := range ff.CallsTo("os.File.Close") {
			if ff.EnclosingLit(call.Expr) == nil && ff.CFG().Dominates(call.Expr, ren[0].Expr) {
				cl = call.Expr
			}
		}
		c.Paths += 2
		c.check(fl != nil && ff.CFG().Dominates(fl, ren[0].Expr), R, ff.Key+": bufio.Flush ≺ rename", ren[0].Pos(), "dominated", "the file is renamed into place before the buffered bytes are flushed")
		c.check(cl != nil, R, ff.Key+": fd.Close ≺ rename", ren[0].Pos(), "dominated", "the file is renamed into place before it is closed")
	}
	// (3) the loaders' glob cannot match *.tmp: getIndexPath's format ends with the suffix verb
	if f := c.fn(R, "store.getIndexPath"); f != nil {
		okFmt := false
		for _, call := range f.CallsTo("fmt.Sprintf") {
			if s, ok := prog.ConstString(f.Info(), call.Expr.Args[0]); ok && strings.HasSuffix(s, ".idx.%s") {
				okFmt = true
			}
		}
		c.check(okFmt, R, f.Key+": name pattern ends with the suffix", f.Pos(), "…idx.%s", "index path pattern changed: *.tmp files may now match the loaders' glob")
	}
}

func c02r3(c *Ctx) {
	const R = "C02.R3"
	c.Floor(R, 2)
	for _, f := range c.P.SortedFuncs() {
		apps := f.CallsTo(kAppendRecord, "store.dataChunk.AppendRecordGC")
		if len(apps) == 0 || f.Pkg.Name != "store" {
			continue
		}
		c.Funcs[f.Key] = true
		info := f.Info()
		for _, a := range apps {
			key := f.Key + ": " + short(a.Key) + " ⇒ hintMgr.set"
			errIdx := 1
			errObj := f.ResultObj(a.Expr, errIdx)
			cfg := f.CFGFor(a.Expr)
			stop := func(n ast.Node) bool {
				// abandon paths on which the append's error is known non-nil
				if errObj == nil {
					return false
				}
				if rs, ok := n.(*ast.ReturnStmt); ok {
					return prog.HasNilFact(info, f.GuardsAt(rs), prog.IsObj(info, errObj), false)
				}
				return false
			}
			c.Paths++
			esc := cfg.EscapesWithout(a.Expr, f.ContainsCall(kHintSet), stop)
			if esc.Found {
				c.viol(R, key, a.Pos(), "a record is appended but a path reaches the end of the function without a hint for it: after a restart without a tree dump the key is rebuilt from hints and this record is invisible", c.trail(esc.Trail)...)
				continue
			}
			// the hint carries the appended position
			good := true
			for _, h := range f.CallsTo(kHintSet) {
				if !cfg.Dominates(a.Expr, h.Expr) {
					continue
				}
				arg := h.Expr.Args[2]
				var srcs []prog.Source
				if a.Key == kAppendRecord {
					srcs = f.SourcesAt(arg, h.Expr)
				} else {
					srcs = f.SourcesOfField(arg, "Offset", h.Expr)
				}
				for _, s := range srcs {
					if !(s.Kind == "call" && s.Key == a.Key && (s.Idx <= 0)) {
						good = false
					}
				}
				if len(srcs) == 0 {
					good = false
				}
			}
			c.check(good, R, key, a.Pos(), "every non-error path passes hintMgr.set with the appended position", "the hint written after the append does not carry the appended position")
		}
	}
}

func c02r4(c *Ctx) {
	const R = "C02.R4"
	if f := c.fn(R, "store.Bucket.checkHintWithData"); f != nil {
		info := f.Info()
		bs := f.CallsTo("store.Bucket.buildHintFromData")
		ls := f.CallsTo("store.hintMgr.loadHintsByChunk")
		if len(bs) == 0 || len(ls) == 0 {
			c.viol(R, f.Key+": rebuild from the covered offset", f.Pos(), "checkHintWithData no longer loads the hints and rebuilds the uncovered part from the data file")
		} else {
			b := bs[0]
			okSrc, _ := f.OnlyFromCall(b.Expr.Args[1], "store.hintMgr.loadHintsByChunk", -1)
			c.check(okSrc, R, f.Key+": rebuild starts at the offset the hints cover", b.Pos(), "arg1(buildHintFromData) <= res(loadHintsByChunk)", "the rebuild does not start at the offset returned by loadHintsByChunk: records are skipped or replayed with wrong offsets")
			// guard: hintDataSize < size
			ldObj := f.ResultObj(ls[0].Expr, 0)
			g := f.GuardsAt(b.Expr)
			okG := false
			for _, a := range g {
				if prog.AtomCmp(a, token.LSS, prog.IsObj(info, ldObj), func(e ast.Expr) bool {
					for _, s := range f.SourcesAt(e, b.Expr) {
						if (s.Kind == "param" || s.Kind == "zero" || s.Kind == "other") && strings.HasSuffix(s.Field, "size") || prog.MentionsField(info, s.Expr, "store.dataChunk.size") {
							return true
						}
					}
					return prog.MentionsField(info, e, "store.dataChunk.size")
				}) {
					okG = true
				}
				if prog.AtomCmp(a, token.NEQ, prog.IsObj(info, ldObj), func(e ast.Expr) bool { return true }) {
					okG = true
				}
			}
			// the rebuild must not be skipped when hints cover less: no other guard may exclude it
			c.check(okG, R, f.Key+": rebuild whenever hints cover less than the file", b.Pos(), "guarded by hintDataSize < size", "the rebuild is not triggered exactly when the hints cover less than the data file")
			// error propagated
			res := f.Result(0)
			l := f.ResultLhs(b.Expr, 0)
			prop := res != nil && l != nil && prog.ObjOf(info, l) == res
			if !prop {
				if rs, ok := f.Parent(b.Expr).(*ast.ReturnStmt); ok && rs != nil {
					prop = true
				}
			}
			c.check(prop, R, f.Key+": rebuild error returned", b.Pos(), "err = buildHintFromData(…)", "the error of the rebuild is dropped: a damaged data file would be served with a partial index")
		}
	}
	if f := c.fn(R, "store.Bucket.open"); f != nil {
		info := f.Info()
		var chk *prog.Call
		for _, call := range f.CallsTo("store.Bucket.checkHintWithData") {
			if f.EnclosingLit(call.Expr) == nil {
				cc := call
				chk = &cc
			}
		}
		ups := f.CallsTo("store.Bucket.updateHtreeFromHint")
		if chk == nil || len(ups) == 0 {
			c.viol(R, f.Key+": check hints before replay", f.Pos(), "Bucket.open no longer checks hints against data before replaying them")
			return
		}
		c.Paths++
		c.check(f.CFG().Dominates(chk.Expr, ups[0].Expr), R, f.Key+": checkHintWithData ≺ replay", ups[0].Pos(), "dominated", "hint splits are replayed before they were checked against the data file")
		eObj := f.ResultObj(chk.Expr, 0)
		stops := false
		ast.Inspect(f.Decl.Body, func(x ast.Node) bool {
			if is, ok := x.(*ast.IfStmt); ok && eObj != nil {
				for _, a := range prog.Decompose(is.Cond, true, is) {
					if prog.AtomCmp(a, token.NEQ, prog.IsObj(info, eObj), func(e ast.Expr) bool { return prog.IsNil(info, e) }) && f.Terminates(is.Body) {
						stops = true
					}
				}
			}
			return true
		})
		c.check(stops, R, f.Key+": rebuild error fail-stops", chk.Pos(), "if e != nil { …Fatalf/return }", "a failed hint rebuild no longer stops the bucket from opening")
	}
}

func c02r5(c *Ctx) {
	const R = "C02.R5"
	f := c.fn(R, "store.Bucket.updateHtreeFromHint")
	if f == nil {
		return
	}
	info := f.Info()
	isVer := func(e ast.Expr) bool {
		k, _ := prog.FieldOf(info, e)
		return k == "store.HintItemMeta.Ver"
	}
	sets := f.CallsTo(kHTreeSet)
	rems := f.CallsTo("store.HTree.remove")
	if len(sets) == 0 || len(rems) == 0 {
		c.viol(R, f.Key+": set live / remove tombstone", f.Pos(), "hint replay no longer both sets live items and removes tombstones")
		return
	}
	for _, s := range sets {
		okG := false
		for _, a := range f.GuardsAt(s.Expr) {
			if prog.AtomCmp(a, token.GTR, isVer, prog.IsIntConst(info, 0)) || prog.AtomCmp(a, token.GEQ, isVer, prog.IsIntConst(info, 1)) {
				okG = true
			}
		}
		c.check(okG, R, f.Key+": tree.set guarded by item.Ver > 0", s.Pos(), "guarded", "hint replay sets a tree entry for a tombstone (or unconditionally): deleted keys come back as live entries")
	}
	for _, r := range rems {
		okG := false
		for _, a := range f.GuardsAt(r.Expr) {
			if prog.AtomCmp(a, token.LEQ, isVer, prog.IsIntConst(info, 0)) || prog.AtomCmp(a, token.LSS, isVer, prog.IsIntConst(info, 0)) || prog.AtomCmp(a, token.LSS, isVer, prog.IsIntConst(info, 1)) {
				okG = true
			}
		}
		c.check(okG, R, f.Key+": tree.remove guarded by item.Ver <= 0", r.Pos(), "guarded", "hint replay removes tree entries for live items")
	}
}

func c02r6(c *Ctx) {
	const R = "C02.R6"
	f := c.fn(R, "store.hintMgr.close")
	if f == nil {
		return
	}
	info := f.Info()
	okLoop := false
	for _, call := range f.CallsTo("store.hintMgr.trydump") {
		b, isB := prog.ConstBool(info, call.Expr.Args[1])
		for _, a := range f.Enclosing(call.Expr) {
			if fs, ok := a.(*ast.ForStmt); ok && fs.Cond != nil && prog.MentionsField(info, fs.Cond, "store.hintMgr.maxChunkID") {
				if be, ok := prog.Unparen(fs.Cond).(*ast.BinaryExpr); ok && be.Op == token.LEQ && isB && b {
					okLoop = true
				}
			}
		}
	}
	c.check(okLoop, R, f.Key+": trydump(i, true) for i <= maxChunkID", f.Pos(), "loop covers every chunk including the head", "hintMgr.close does not dump the last split of every chunk up to and including maxChunkID")
}

// c02r4b: in Bucket.open the first split to replay is TreeID.Split+1 only for
// the tree's own chunk and 0 for every later chunk.
func c02r4b(c *Ctx) {
	const R = "C02.R4b"
	f := c.fn(R, "store.Bucket.open")
	if f == nil {
		return
	}
	info := f.Info()
	ups := f.CallsTo("store.Bucket.updateHtreeFromHint")
	if len(ups) == 0 {
		c.undec(R, f.Key, "hint replay not recognised")
		return
	}
	var loop *ast.ForStmt
	for _, a := range f.Enclosing(ups[0].Expr) {
		if fs, ok := a.(*ast.ForStmt); ok {
			loop = fs
		}
	}
	if loop == nil {
		c.undec(R, f.Key, "chunk loop not recognised")
		return
	}
	// the variable compared with the number of hint files in the skip test
	var startObj types.Object
	var skip *ast.IfStmt
	ast.Inspect(loop.Body, func(x ast.Node) bool {
		is, ok := x.(*ast.IfStmt)
		if !ok || skip != nil {
			return true
		}
		if be, ok := prog.Unparen(is.Cond).(*ast.BinaryExpr); ok && (be.Op == token.GEQ || be.Op == token.GTR) && len(is.Body.List) == 1 {
			if br, ok := is.Body.List[0].(*ast.BranchStmt); ok && br.Tok == token.CONTINUE {
				if o := prog.ObjOf(info, be.X); o != nil {
					startObj, skip = o, is
				}
			}
		}
		return true
	})
	if startObj == nil {
		c.undec(R, f.Key, "`already covered by the tree dump` skip test not recognised")
		return
	}
	fresh := startObj.Pos() > loop.Body.Pos() && startObj.Pos() < loop.Body.End()
	// set to Split+1 only under i == TreeID.Chunk
	okCond := true
	ast.Inspect(loop.Body, func(x ast.Node) bool {
		if as, ok := x.(*ast.AssignStmt); ok && len(as.Lhs) == 1 && prog.ObjOf(info, as.Lhs[0]) == startObj && as.Tok == token.ASSIGN {
			if prog.MentionsField(info, as.Rhs[0], "store.HintID.Split") {
				g := false
				for _, a := range f.GuardsAt(as) {
					if a.Op == token.EQL && a.Y != nil && (prog.MentionsField(info, a.Y, "store.HintID.Chunk") || prog.MentionsField(info, a.X, "store.HintID.Chunk")) {
						g = true
					}
				}
				if !g {
					okCond = false
				}
			}
		}
		return true
	})
	c.check(fresh && okCond, R, f.Key+": replay start index fresh per chunk, Split+1 only for the tree's own chunk", c.pos(skip), "declared inside the chunk loop",
		"the index of the first hint split to replay is carried over from one chunk to the next (declared outside the loop / reset skipped by the `continue`): for chunks after the tree dump's own chunk some or all hint splits are not replayed into the loaded tree, so the restart serves the state of the older tree dump")
}

// c02r7: the (chunk, split) order that decides which tree dump is newest and
// which splits still have to be replayed; the hint reader starts after the header.
func c02r7(c *Ctx) {
	const R = "C02.R7"
	if f := c.fn(R, "store.HintID.isLarger"); f != nil {
		info := f.Info()
		ck, sp := f.Param(0), f.Param(1)
		gtC, eqC, geS := false, false, false
		ast.Inspect(f.Decl.Body, func(x ast.Node) bool {
			if be, ok := x.(*ast.BinaryExpr); ok {
				switch {
				case be.Op == token.GTR && prog.ObjOf(info, be.X) == ck && prog.IsField(info, "store.HintID.Chunk")(prog.Unparen(be.Y)):
					gtC = true
				case be.Op == token.EQL && prog.ObjOf(info, be.X) == ck && prog.IsField(info, "store.HintID.Chunk")(prog.Unparen(be.Y)):
					eqC = true
				case be.Op == token.GEQ && prog.ObjOf(info, be.X) == sp && prog.IsField(info, "store.HintID.Split")(prog.Unparen(be.Y)):
					geS = true
				}
			}
			return true
		})
		c.check(gtC && eqC && geS, R, f.Key+": (ck > Chunk) || (ck == Chunk && sp >= Split)", f.Pos(), "lexicographic on (chunk, split)", "the order on hint ids is no longer lexicographic on (chunk, split) with `>=` on the split: the newest tree dump is not recognised, or a dump is considered to cover splits it does not")
	}
	if f := c.fn(R, "store.Bucket.dumpHtree"); f != nil {
		info := f.Info()
		ok := false
		for _, d := range f.CallsTo("store.HTree.dump") {
			for _, a := range f.GuardsAt(d.Expr) {
				if a.Op == token.ILLEGAL && !a.Neg {
					if call, isC := prog.Unparen(a.X).(*ast.CallExpr); isC && prog.CalleeKey(info, call) == "store.HintID.isLarger" {
						ok = true
					}
				}
			}
		}
		idOK := false
		ast.Inspect(f.Decl.Body, func(x ast.Node) bool {
			if as, isA := x.(*ast.AssignStmt); isA && len(as.Lhs) == 1 && prog.IsField(info, "store.BucketStat.TreeID")(as.Lhs[0]) {
				for _, s := range f.SourcesAt(as.Rhs[0], as) {
					if strings.HasSuffix(s.Field, "maxDumpedHintID") || (s.Expr != nil && prog.MentionsField(info, s.Expr, "store.hintMgr.maxDumpedHintID")) {
						idOK = true
					}
				}
			}
			return true
		})
		c.check(ok && idOK, R, f.Key+": dump named after the last dumped hint split", f.Pos(), "TreeID = hints.maxDumpedHintID, only when larger", "the tree dump is not labelled with the id of the last hint split that was dumped: on restart splits are skipped (state lost) or the dump is taken for older than it is")
	}
	if f := c.fn(R, "store.hintFileReader.open"); f != nil {
		info := f.Info()
		okOff := false
		ast.Inspect(f.Decl.Body, func(x ast.Node) bool {
			if as, isA := x.(*ast.AssignStmt); isA && len(as.Lhs) == 1 && prog.IsField(info, "store.hintFileReader.offset")(as.Lhs[0]) && prog.ConstObjName(info, as.Rhs[0]) == "store.HINTFILE_HEAD_SIZE" {
				okOff = true
			}
			return true
		})
		c.check(okOff && len(f.CallsTo("store.hintFileMeta.Loads")) == 1, R, f.Key+": header loaded, logical offset starts after it", f.Pos(), "Loads(h); offset = HINTFILE_HEAD_SIZE", "the hint reader does not start its logical offset right after the header it loaded")
	}
}
