package rules

import (
	"go/ast"
	"go/token"
	"sort"
	"strings"

	"gbcheck/internal/prog"
)

func init() {
	register(&Property{
		ID:      "C06",
		Clause:  "outside the GC call tree data files are only ever appended to (no truncate, remove, rename or non-append open of a data path; the flusher opens with append=true); index files appear atomically (tmp+rename); an unaligned data file or a failed hint rebuild stops the start-up; a new process never appends to an existing data file (head = max+1); every positional or streamed read passes size validation and the CRC gate; hints are trusted only for the prefix they cover",
		NotDec:  "the crash-point enumeration itself, OS write-back order, collision.yaml / nextgc.txt being rewritten in place (not part of the key->value mapping)",
		Engines: "E5 who-may-call/effects with path-origin classes + E2 guards",
		Rules: []Rule{
			{"C06.R1", "q", "who may shrink/replace a data file", c06r1},
			{"C02.R2", "q", "shared: tmp + rename", c02r2},
			{"C06.R3", "q", "fail-stop on unaligned data / rebuild error", c06r3},
			{"C06.R4", "q", "new process starts a new data file", c06r4},
			{"C06.R7", "q", "recovery visits every chunk id", c06r7},
			{"C02.R1b", "q", "shared: rotated file flushed promptly and joined at close", c02r1b},
			{"C02.R4b", "q", "shared: per-chunk replay start is fresh", c02r4b},
			{"C14.R7", "q", "shared: a split's recorded data size covers only accepted records", c14r7},
			{"C09.R3", "q", "shared: size + CRC gates on every read", c09r3},
			{"C02.R4", "q", "shared: hints trusted only for the covered prefix", c02r4},
			{"C02.R8", "q", "shared: rebuild from data carries every field of the record", c02r8},
			{"C14.R13", "q", "shared: start-up acceptance of hint files", c14r13},
			{"C06.R8", "q", "a fatal log line stops the process", c06r8},
			{"C14.R3", "q", "shared: seek/offset pairing of the stream reader used by the rebuild", c14r3},
			{"C09.R9", "q", "shared: resynchronisation probes every block up to the file end", c09r9},
			{"C04.L3", "q", "shared: rotation decisions under the data store lock", c04l3},
		},
	})
}

// dataDestroyers lists, per function, the direct sites that can shrink, remove
// or overwrite a data file.
type destroySite struct {
	f    *prog.Func
	call prog.Call
	what string
}

func destroySites(c *Ctx) []destroySite {
	var out []destroySite
	for _, f := range c.P.SortedFuncs() {
		if f.Pkg.Name != "store" {
			continue
		}
		info := f.Info()
		for _, call := range f.Calls() {
			switch call.Key {
			case "os.Truncate", "os.File.Truncate":
				out = append(out, destroySite{f, call, "truncate"})
			case "os.Remove", "utils.Remove", "os.Rename":
				or := map[string]bool{}
				pathOrigins(c, f, call.Expr.Args[0], call.Expr, 0, or)
				if or["data"] {
					out = append(out, destroySite{f, call, "remove/rename of a data path"})
				}
			case "os.RemoveAll":
				out = append(out, destroySite{f, call, "RemoveAll"})
			case "store.GetStreamWriter", "store.dataStore.GetStreamWriter":
				if len(call.Expr.Args) == 2 {
					if b, ok := prog.ConstBool(info, call.Expr.Args[1]); ok && b {
						continue // append
					}
					// a wrapper forwarding its own parameter is judged at its callers
					if f.Key == "store.dataStore.GetStreamWriter" && prog.ObjOf(info, call.Expr.Args[1]) == f.Param(1) {
						continue
					}
					out = append(out, destroySite{f, call, "data file opened without append"})
				}
			case "os.Create", "os.OpenFile", "ioutil.WriteFile", "os.WriteFile":
				if f.Key == "store.GetStreamWriter" {
					continue // creates a missing file / opens O_WRONLY without O_TRUNC; offset handling is the isappend flag
				}
				or := map[string]bool{}
				pathOrigins(c, f, call.Expr.Args[0], call.Expr, 0, or)
				if or["data"] {
					out = append(out, destroySite{f, call, "create/truncate of a data path"})
				}
			}
		}
	}
	return out
}

var allowedDestroyers = map[string]string{
	"store.dataChunk.Truncate":       "GC: cut a rewritten file at its write head",
	"store.dataChunk.Clear":          "GC: remove a drained source",
	"store.dataChunk.beginGCWriting": "GC: open the destination (rewrite from 0 or append)",
}

func c06r1(c *Ctx) {
	const R = "C06.R1"
	c.Floor(R, 5)
	sites := destroySites(c)
	direct := map[string]bool{}
	for _, s := range sites {
		c.Funcs[s.f.Key] = true
		key := s.f.Key + ": " + s.what + " (" + s.call.Key + ")"
		if why, ok := allowedDestroyers[s.f.Key]; ok {
			direct[s.f.Key] = true
			c.ok(R, key, s.call.Pos(), "frozen GC primitive: "+why)
			continue
		}
		if s.f.Key == "store.HStore.scanBuckets" && s.call.Key == "os.RemoveAll" {
			// guarded exception: only when the *.data glob of that directory is empty
			info := s.f.Info()
			okG := false
			for _, a := range s.f.GuardsAt(s.call.Expr) {
				if prog.AtomCmp(a, token.EQL, func(e ast.Expr) bool {
					call, ok := prog.Unparen(e).(*ast.CallExpr)
					if !ok || prog.CalleeKey(info, call) != "builtin.len" {
						return false
					}
					for _, src := range s.f.SourcesAt(call.Args[0], s.call.Expr) {
						if src.Kind == "call" && src.Key == "filepath.Glob" {
							pat := ""
							ast.Inspect(src.Call, func(n ast.Node) bool {
								if v, ok := n.(*ast.BasicLit); ok && strings.Contains(v.Value, "*.data") {
									pat = v.Value
								}
								return true
							})
							return pat != ""
						}
					}
					return false
				}, prog.IsIntConst(info, 0)) {
					okG = true
				}
			}
			c.check(okG, R, key, s.call.Pos(), "guarded exception: bucket directory removed only when it holds no *.data file", "a bucket directory is removed without the `no *.data file in it` guard")
			continue
		}
		c.viol(R, key, s.call.Pos(), "a function outside the frozen GC primitives can shrink, remove or overwrite a data file: normal operation is no longer append-only, so a kill can leave acknowledged, flushed records missing or torn")
	}
	// callers of the GC primitives must all lie inside the GC call tree
	prims := []string{"store.dataChunk.Truncate", "store.dataChunk.Clear", "store.dataChunk.beginGCWriting", "store.dataChunk.endGCWriting"}
	allowedCallers := map[string]bool{"store.GCMgr.gc": true, "store.dataChunk.endGCWriting": true}
	for _, p := range prims {
		callers := c.P.CallersOf(p)
		for _, call := range callers {
			c.check(allowedCallers[call.Fn.Key], R, call.Fn.Key+": calls "+short(p), call.Pos(), "inside the GC call tree", call.Fn.Key+" calls the GC primitive "+p+" outside the GC pass")
		}
	}
	if c.Thorough() {
		// CHA graph: nobody reaches the primitives except through GCMgr.gc
		g := c.P.CHA()
		reach := map[string]bool{}
		for _, p := range prims {
			reach[p] = true
		}
		for changed := true; changed; {
			changed = false
			for fn, node := range g.Nodes {
				if fn == nil || fn.Pkg == nil || fn.Object() == nil {
					continue
				}
				k := keyOfSSA(fn.Object())
				if reach[k] || k == "store.GCMgr.gc" {
					continue
				}
				for _, e := range node.Out {
					if e.Callee.Func.Object() != nil && reach[keyOfSSA(e.Callee.Func.Object())] {
						reach[k] = true
						changed = true
						break
					}
				}
			}
		}
		var extra []string
		for k := range reach {
			if !allowedCallers[k] && !direct[k] && k != "store.dataChunk.endGCWriting" && k != "store.dataChunk.Truncate" && k != "store.dataChunk.Clear" && k != "store.dataChunk.beginGCWriting" {
				extra = append(extra, k)
			}
		}
		sort.Strings(extra)
		c.check(len(extra) == 0, R, "CHA: GC primitives reachable only through GCMgr.gc", "-", "no other function reaches them", "functions reaching a GC primitive without passing GCMgr.gc: "+strings.Join(extra, ","))
	}
	// the flusher appends
	if f := c.fn(R, "store.dataStore.flush"); f != nil {
		ok := false
		for _, call := range f.CallsTo("store.dataStore.GetStreamWriter", "store.GetStreamWriter") {
			if b, isC := prog.ConstBool(f.Info(), call.Expr.Args[1]); isC && b {
				ok = true
			}
		}
		c.check(ok, R, f.Key+": opens the data file with append=true", f.Pos(), "constant true", "the flusher does not open the data file in append mode")
	}
	// GetStreamWriter: append mode positions at the end and never truncates
	if f := c.fn(R, "store.GetStreamWriter"); f != nil {
		info := f.Info()
		trunc := false
		for _, call := range f.CallsTo("os.OpenFile") {
			if v, ok := prog.ConstInt(info, call.Expr.Args[1]); ok && v&0x200 != 0 {
				trunc = true
			}
		}
		seekEnd := false
		for _, call := range f.CallsTo("os.File.Seek") {
			if v, ok := prog.ConstInt(info, call.Expr.Args[1]); ok && v == 2 {
				if prog.HasBoolFact(f.GuardsAt(call.Expr), prog.IsObj(info, f.Param(1)), true) {
					seekEnd = true
				}
			}
		}
		c.check(!trunc && seekEnd, R, f.Key+": existing file opened without O_TRUNC, append seeks to the end", f.Pos(), "O_WRONLY; Seek(0, SeekEnd) under isappend", "GetStreamWriter truncates an existing data file or does not position an appending writer at the end")
	}
}

func keyOfSSA(o interface{ Name() string }) string {
	if fo, ok := o.(interface {
		Name() string
		FullName() string
	}); ok {
		_ = fo
	}
	if tf, ok := o.(interface{ Name() string }); ok {
		_ = tf
	}
	return funcKeyAny(o)
}

func c06r3(c *Ctx) {
	const R = "C06.R3"
	if f := c.fn(R, "store.dataStore.ListFiles"); f != nil {
		info := f.Info()
		found := false
		ast.Inspect(f.Decl.Body, func(x ast.Node) bool {
			is, ok := x.(*ast.IfStmt)
			if !ok {
				return true
			}
			for _, a := range prog.Decompose(is.Cond, true, is) {
				if prog.AtomCmp(a, token.NEQ, func(e ast.Expr) bool {
					be, ok := prog.Unparen(e).(*ast.BinaryExpr)
					if !ok || be.Op != token.AND {
						return false
					}
					v, ok := prog.ConstInt(info, be.Y)
					return ok && v == 0xff
				}, prog.IsIntConst(info, 0)) {
					// body must set the error result and return
					if f.Terminates(is.Body) {
						setsErr := false
						ast.Inspect(is.Body, func(y ast.Node) bool {
							if as, ok := y.(*ast.AssignStmt); ok {
								for _, l := range as.Lhs {
									if prog.ObjOf(info, l) == f.Result(1) {
										setsErr = true
									}
								}
							}
							if rs, ok := y.(*ast.ReturnStmt); ok && len(rs.Results) == 2 && !prog.IsNil(info, rs.Results[1]) {
								setsErr = true
							}
							return true
						})
						found = setsErr
					}
				}
			}
			return true
		})
		c.check(found, R, f.Key+": unaligned size is an error", f.Pos(), "if sz&0xff != 0 { err = …; return }", "a data file whose size is not a multiple of 256 no longer makes ListFiles fail: a torn tail would be served")
	}
	if f := c.fn(R, "store.Bucket.open"); f != nil {
		info := f.Info()
		lf := f.CallsTo("store.dataStore.ListFiles")
		ok := false
		if len(lf) > 0 {
			if e := f.ResultObj(lf[0].Expr, 1); e != nil {
				ast.Inspect(f.Decl.Body, func(x ast.Node) bool {
					if is, isIf := x.(*ast.IfStmt); isIf {
						for _, a := range prog.Decompose(is.Cond, true, is) {
							if prog.AtomCmp(a, token.NEQ, prog.IsObj(info, e), func(y ast.Expr) bool { return prog.IsNil(info, y) }) && f.Terminates(is.Body) {
								// returns the error
								ast.Inspect(is.Body, func(y ast.Node) bool {
									if rs, isR := y.(*ast.ReturnStmt); isR && (len(rs.Results) == 0 || prog.ObjOf(info, rs.Results[0]) == e) {
										ok = true
									}
									return true
								})
							}
						}
					}
					return true
				})
				// the check must dominate the hint replay
				if ups := f.CallsTo("store.Bucket.checkHintWithData"); len(ups) > 0 {
					c.Paths++
					ok = ok && f.CFG().Dominates(lf[0].Expr, ups[0].Expr)
				}
			}
		}
		c.check(ok, R, f.Key+": ListFiles error returned before anything is replayed", f.Pos(), "if err != nil { return err }", "Bucket.open continues after ListFiles reported an unaligned or unreadable data file")
	}
	if f := c.fn(R, "store.NewHStore"); f != nil {
		// the error of bkt.open reaches the caller: sent to errs and returned
		info := f.Info()
		opens := f.CallsTo("store.Bucket.open")
		ok := false
		for _, o := range opens {
			if l := f.ResultLhs(o.Expr, 0); l != nil {
				eo := prog.ObjOf(info, l)
				ast.Inspect(f.Decl.Body, func(x ast.Node) bool {
					if ss, isS := x.(*ast.SendStmt); isS && prog.ObjOf(info, ss.Value) == eo {
						ok = true
					}
					return true
				})
			}
		}
		c.check(ok, R, f.Key+": bucket open error propagated", f.Pos(), "errs <- err … return", "NewHStore drops the error of Bucket.open: a bucket with bad data is served")
	}
	// the fail-stop property of logger.Fatalf itself is rule C06.R8
}

func c06r4(c *Ctx) {
	const R = "C06.R4"
	f := c.fn(R, "store.dataStore.ListFiles")
	if f == nil {
		return
	}
	info := f.Info()
	max := f.Result(0)
	ok := false
	var pos ast.Node
	ast.Inspect(f.Decl.Body, func(x ast.Node) bool {
		if as, isA := x.(*ast.AssignStmt); isA && len(as.Lhs) == 1 && len(as.Rhs) == 1 && prog.IsField(info, "store.dataStore.newHead")(as.Lhs[0]) {
			pos = as
			if be, isB := prog.Unparen(as.Rhs[0]).(*ast.BinaryExpr); isB && be.Op == token.ADD && prog.ObjOf(info, be.X) == max {
				if v, isC := prog.ConstInt(info, be.Y); isC && v >= 1 {
					ok = true
				}
			}
		}
		return true
	})
	if pos == nil {
		c.viol(R, f.Key+": newHead = max + 1", f.Pos(), "ListFiles no longer sets the head chunk")
		return
	}
	// max is the largest existing chunk id: assigned the loop index for every existing file
	c.check(ok, R, f.Key+": newHead = max + 1", c.pos(pos), "a restarted process appends to a fresh file", "after a restart the head is an existing data file: a torn tail left by the previous process would be appended to (and flush's size check compares against a stale size)")
}

func c06r7(c *Ctx) {
	const R = "C06.R7"
	f := c.fn(R, "store.Bucket.open")
	if f == nil {
		return
	}
	info := f.Info()
	var loop *ast.ForStmt
	for _, call := range f.CallsTo("store.Bucket.checkHintWithData") {
		if f.EnclosingLit(call.Expr) != nil {
			continue
		}
		for _, a := range f.Enclosing(call.Expr) {
			if fs, ok := a.(*ast.ForStmt); ok && loop == nil {
				loop = fs
			}
		}
	}
	if loop == nil || loop.Cond == nil {
		c.undec(R, f.Key, "recovery loop not recognised")
		return
	}
	be, ok := prog.Unparen(loop.Cond).(*ast.BinaryExpr)
	okB := ok && be.Op == token.LSS && prog.ConstObjName(info, be.Y) == "store.MAX_NUM_CHUNK"
	c.check(okB, R, f.Key+": hint/data reconciliation for every chunk id up to MAX_NUM_CHUNK", c.pos(loop), "i < MAX_NUM_CHUNK",
		"the start-up loop that reconciles hints with data (and purges hint files of chunks without a data file) no longer runs up to MAX_NUM_CHUNK: stale hint splits of a chunk id that a later process reuses (head = max+1) are trusted for data written by that later process")
	if g := c.fn(R, "store.Bucket.checkHintWithData"); g != nil {
		ginfo := g.Info()
		okP := false
		for _, call := range g.CallsTo("store.hintMgr.RemoveHintfilesByChunk") {
			for _, a := range g.GuardsAt(call.Expr) {
				if prog.AtomCmp(a, token.EQL, func(e ast.Expr) bool {
					for _, s := range g.SourcesAt(e, call.Expr) {
						if prog.MentionsField(ginfo, s.Expr, "store.dataChunk.size") || strings.HasSuffix(s.Field, "size") {
							return true
						}
					}
					return false
				}, prog.IsIntConst(ginfo, 0)) {
					okP = true
				}
			}
		}
		c.check(okP, R, g.Key+": hints of an empty/missing data file are removed", g.Pos(), "size == 0 ⇒ RemoveHintfilesByChunk", "hint files of a chunk without data are no longer purged at start-up")
	}
}
