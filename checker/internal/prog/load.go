// Package prog loads the type-checked program under analysis (douban/gobeansdb)
// and offers the resolved-program queries the rule engines are written against:
// function index, callee resolution, go/cfg graphs with fail-stop awareness,
// guards, dominance, def-use on objects, SSA and call graphs.
package prog

import (
	"fmt"
	"go/ast"
	"go/parser"
	"go/token"
	"go/types"
	"os"
	"sort"
	"strings"

	"golang.org/x/tools/go/ast/astutil"
	"golang.org/x/tools/go/callgraph"
	"golang.org/x/tools/go/callgraph/cha"
	"golang.org/x/tools/go/callgraph/vta"
	"golang.org/x/tools/go/cfg"
	"golang.org/x/tools/go/packages"
	"golang.org/x/tools/go/ssa"
	"golang.org/x/tools/go/ssa/ssautil"
	"golang.org/x/tools/go/types/typeutil"
)

const ModPath = "github.com/douban/gobeansdb"

// Func is one source function or method of the program under analysis.
type Func struct {
	Key  string // "store.Bucket.set", "store.merge", "memcache.Request.Read"
	Pkg  *packages.Package
	Decl *ast.FuncDecl
	Obj  *types.Func
	File *ast.File
	cfg  *cfg.CFG
	defs map[string][]Def
	p    *Program
}

type Program struct {
	Dir    string
	Fset   *token.FileSet
	Pkgs   []*packages.Package
	ByName map[string]*packages.Package // by package *name* (unique in this repo)
	Funcs  map[string]*Func
	ByObj  map[*types.Func]*Func
	Tests  bool
	OrigDir string // the tree as given, when Dir is a normalised copy of it

	ssaProg  *ssa.Program
	ssaPkgs  []*ssa.Package
	cgCHA    *callgraph.Graph
	cgVTA    *callgraph.Graph
	litCFG   map[*ast.FuncLit]*cfg.CFG
	parents  map[*ast.File]map[ast.Node]ast.Node
	LoadNote []string
	locks    *Locks
}

// Load type-checks ./... under dir (cgo enabled). It fails (error) on any
// package error: a tree that does not type-check is not judged.
func Load(dir string, tests bool) (*Program, error) {
	ndir, notes, dead, cleanup := Normalize(dir)
	cleanups = append(cleanups, cleanup)
	if ndir != dir {
		p, err := loadDir(ndir, tests, dead)
		if err == nil {
			p.LoadNote = append(p.LoadNote, notes...)
			p.LoadNote = append(p.LoadNote, "analysed a normalised copy of the tree (positions refer to it)")
			p.OrigDir = dir
			return p, nil
		}
		p, err2 := loadDir(dir, tests, nil)
		if p != nil {
			p.LoadNote = append(p.LoadNote, "normalised copy did not type-check ("+err.Error()+"): analysed the tree as it is")
		}
		return p, err2
	}
	return loadDir(dir, tests, nil)
}

var cleanups []func()

// CleanupAll removes the scratch copies made by Normalize.
func CleanupAll() {
	if os.Getenv("GBNORM_KEEP") != "" {
		return
	}
	for _, c := range cleanups {
		c()
	}
	cleanups = nil
}

// incDecToAssign rewrites `x++` / `x--` into `x += 1` / `x -= 1` in place
// (positions unchanged), so that rules see one form of a counter update.
func incDecToAssign(f *ast.File) {
	astutil.Apply(f, func(c *astutil.Cursor) bool {
		if id, ok := c.Node().(*ast.IncDecStmt); ok {
			tok := token.ADD_ASSIGN
			if id.Tok == token.DEC {
				tok = token.SUB_ASSIGN
			}
			c.Replace(&ast.AssignStmt{Lhs: []ast.Expr{id.X}, TokPos: id.TokPos, Tok: tok,
				Rhs: []ast.Expr{&ast.BasicLit{ValuePos: id.TokPos + 1, Kind: token.INT, Value: "1"}}})
		}
		return true
	}, nil)
}

func loadDir(dir string, tests bool, dead map[string]bool) (*Program, error) {
	os.Unsetenv("GOWORK")
	fset := token.NewFileSet()
	cfgp := &packages.Config{
		Mode: packages.NeedName | packages.NeedFiles | packages.NeedCompiledGoFiles |
			packages.NeedImports | packages.NeedTypes | packages.NeedTypesSizes |
			packages.NeedSyntax | packages.NeedTypesInfo | packages.NeedModule,
		Dir:   dir,
		Fset:  fset,
		Tests: tests,
		ParseFile: func(fset *token.FileSet, filename string, src []byte) (*ast.File, error) {
			f, err := parser.ParseFile(fset, filename, src, parser.AllErrors|parser.ParseComments)
			if f != nil {
				incDecToAssign(f)
			}
			return f, err
		},
		Env: append(os.Environ(), "GOFLAGS=-mod=mod", "GOPROXY=off", "GOSUMDB=off",
			"GOTOOLCHAIN=local", "GOWORK=off", "CGO_ENABLED=1"),
	}
	pkgs, err := packages.Load(cfgp, "./...")
	if err != nil {
		return nil, fmt.Errorf("packages.Load: %v", err)
	}
	p := &Program{Dir: dir, Fset: fset, ByName: map[string]*packages.Package{},
		Funcs: map[string]*Func{}, ByObj: map[*types.Func]*Func{}, Tests: tests,
		litCFG: map[*ast.FuncLit]*cfg.CFG{}, parents: map[*ast.File]map[ast.Node]ast.Node{}}
	var errs []string
	for _, pk := range pkgs {
		if !strings.HasPrefix(pk.PkgPath, ModPath) {
			continue
		}
		for _, e := range pk.Errors {
			errs = append(errs, e.Error())
		}
		if tests {
			// keep only the test variants (they contain the non-test files too)
			// and plain packages that have no test variant.
			if strings.HasSuffix(pk.ID, ".test") {
				continue
			}
		}
		p.Pkgs = append(p.Pkgs, pk)
	}
	if len(errs) > 0 {
		return nil, fmt.Errorf("type errors: %s", strings.Join(errs, "; "))
	}
	if tests {
		// prefer "pkg [pkg.test]" variants over the plain one
		best := map[string]*packages.Package{}
		for _, pk := range p.Pkgs {
			if strings.HasSuffix(pk.PkgPath, "_test") {
				continue
			}
			cur := best[pk.PkgPath]
			if cur == nil || len(pk.Syntax) > len(cur.Syntax) {
				best[pk.PkgPath] = pk
			}
		}
		p.Pkgs = p.Pkgs[:0]
		for _, pk := range best {
			p.Pkgs = append(p.Pkgs, pk)
		}
	}
	sort.Slice(p.Pkgs, func(i, j int) bool { return p.Pkgs[i].PkgPath < p.Pkgs[j].PkgPath })
	for _, pk := range p.Pkgs {
		if pk.Types == nil || pk.TypesInfo == nil {
			return nil, fmt.Errorf("package %s has no type information", pk.PkgPath)
		}
		p.ByName[pk.Name] = pk
		for _, f := range pk.Syntax {
			for _, d := range f.Decls {
				fd, ok := d.(*ast.FuncDecl)
				if !ok || fd.Body == nil {
					continue
				}
				obj, _ := pk.TypesInfo.Defs[fd.Name].(*types.Func)
				if obj == nil {
					continue
				}
				fn := &Func{Key: FuncKey(obj), Pkg: pk, Decl: fd, Obj: obj, File: f, p: p}
				if fd.Name.Name == "init" || fd.Name.Name == "_" {
					fn.Key = fmt.Sprintf("%s#%s", fn.Key, p.Pos(fd.Pos()))
				}
				if dead[fn.Key] {
					// a new helper whose every call was inlined by Normalize: dead code
					continue
				}
				p.Funcs[fn.Key] = fn
				p.ByObj[obj] = fn
			}
		}
	}
	p.aliasRenamed()
	p.aliasRenamedFields()
	return p, nil
}

// renamedField maps "pkg.Struct.newName" to "pkg.Struct.oldName".
var renamedField = map[string]string{}

func (p *Program) aliasRenamedFields() {
	q := func(pk *types.Package) string { return pk.Name() }
	for _, pk := range p.Pkgs {
		sc := pk.Types.Scope()
		for _, nm := range sc.Names() {
			tn, ok := sc.Lookup(nm).(*types.TypeName)
			if !ok {
				continue
			}
			st, ok := tn.Type().Underlying().(*types.Struct)
			if !ok {
				continue
			}
			key := pk.Name + "." + nm
			known, ok := KnownFields[key]
			if !ok {
				continue
			}
			cur := map[string]string{}
			for i := 0; i < st.NumFields(); i++ {
				cur[st.Field(i).Name()] = types.TypeString(st.Field(i).Type(), q)
			}
			old := map[string]string{}
			for _, f := range known {
				i := strings.Index(f, " ")
				old[f[:i]] = f[i+1:]
			}
			var missing, added []string
			for n := range old {
				if _, ok := cur[n]; !ok {
					missing = append(missing, n)
				}
			}
			for n := range cur {
				if _, ok := old[n]; !ok {
					added = append(added, n)
				}
			}
			sort.Strings(missing)
			sort.Strings(added)
			for _, m := range missing {
				var cands []string
				for _, a := range added {
					if cur[a] == old[m] {
						cands = append(cands, a)
					}
				}
				// unambiguous only: one candidate, and no other missing field of that type
				others := 0
				for _, m2 := range missing {
					if m2 != m && old[m2] == old[m] {
						others++
					}
				}
				if len(cands) == 1 && others == 0 {
					renamedField[key+"."+cands[0]] = key + "." + m
					p.LoadNote = append(p.LoadNote, "field "+key+"."+cands[0]+" taken as the renamed "+key+"."+m+" (same struct, same type, the only candidate)")
				}
			}
		}
	}
}

// renamed maps the key of a function that is new relative to KnownFuncs to the
// key of the (now missing) known function it evidently is: same package, same
// receiver type, identical signature, and the only such candidate.
var renamed = map[string]string{}

func (p *Program) aliasRenamed() {
	loadedPkg := map[string]bool{}
	for _, pk := range p.Pkgs {
		loadedPkg[pk.Name] = true
	}
	prefix := func(k string) string { return k[:strings.LastIndex(k, ".")+1] }
	var missing []string
	for k := range KnownFuncs {
		if p.Funcs[k] == nil && loadedPkg[k[:strings.Index(k, ".")]] {
			missing = append(missing, k)
		}
	}
	if len(missing) == 0 {
		return
	}
	sort.Strings(missing)
	claimed := map[string]string{}
	for _, m := range missing {
		var cands []string
		for k, f := range p.Funcs {
			if KnownFuncs[k] != "" || f.IsTestFile() || strings.Contains(k, "#") || prefix(k) != prefix(m) {
				continue
			}
			if sigString(f.Obj) == KnownFuncs[m] {
				cands = append(cands, k)
			}
		}
		if len(cands) == 1 {
			if _, dup := claimed[cands[0]]; dup {
				claimed[cands[0]] = "" // ambiguous
			} else {
				claimed[cands[0]] = m
			}
		}
	}
	for nk, ok := range claimed {
		if ok == "" {
			continue
		}
		renamed[nk] = ok
		f := p.Funcs[nk]
		delete(p.Funcs, nk)
		f.Key = ok
		p.Funcs[ok] = f
		p.LoadNote = append(p.LoadNote, "function "+nk+" taken as the renamed "+ok+" (same receiver and signature, the only candidate)")
	}
}

func sigString(obj *types.Func) string {
	sig, _ := obj.Type().(*types.Signature)
	if sig == nil {
		return "?"
	}
	return types.TypeString(sig, func(p *types.Package) string { return p.Name() })
}

// SigString is exported for the generator of KnownFuncs.
func SigString(obj *types.Func) string { return sigString(obj) }

// FuncKey names a function object: pkgname.Recv.Name or pkgname.Name.
func FuncKey(obj *types.Func) string {
	k := funcKey0(obj)
	if o, ok := renamed[k]; ok {
		return o
	}
	return k
}

func funcKey0(obj *types.Func) string {
	if obj == nil {
		return ""
	}
	pkg := ""
	if obj.Pkg() != nil {
		pkg = obj.Pkg().Name()
	}
	sig, _ := obj.Type().(*types.Signature)
	if sig != nil && sig.Recv() != nil {
		t := sig.Recv().Type()
		if pt, ok := t.(*types.Pointer); ok {
			t = pt.Elem()
		}
		switch tt := t.(type) {
		case *types.Named:
			return pkg + "." + tt.Obj().Name() + "." + obj.Name()
		case *types.Interface:
			return pkg + ".<iface>." + obj.Name()
		}
		return pkg + ".?." + obj.Name()
	}
	return pkg + "." + obj.Name()
}

// F returns the function with that key or nil.
func (p *Program) F(key string) *Func { return p.Funcs[key] }

// Pos renders a position relative to the repository root.
func (p *Program) Pos(pos token.Pos) string {
	if !pos.IsValid() {
		return "-"
	}
	ps := p.Fset.Position(pos)
	name := ps.Filename
	if strings.HasPrefix(name, p.Dir+"/") {
		name = name[len(p.Dir)+1:]
	} else if i := strings.Index(name, "/go-build/"); i >= 0 {
		// cgo-generated file: use base name
		name = "cgo:" + name[strings.LastIndex(name, "/")+1:]
	}
	return fmt.Sprintf("%s:%d", name, ps.Line)
}

func (f *Func) Info() *types.Info { return f.Pkg.TypesInfo }
func (f *Func) Prog() *Program    { return f.p }
func (f *Func) Pos() string       { return f.p.Pos(f.Decl.Pos()) }

// IsTestFile reports whether a function lives in a _test.go file.
func (f *Func) IsTestFile() bool {
	return strings.HasSuffix(f.p.Fset.Position(f.Decl.Pos()).Filename, "_test.go")
}

// SortedFuncs returns all non-test functions in key order.
func (p *Program) SortedFuncs() []*Func {
	var out []*Func
	for _, f := range p.Funcs {
		if f.IsTestFile() {
			continue
		}
		out = append(out, f)
	}
	sort.Slice(out, func(i, j int) bool { return out[i].Key < out[j].Key })
	return out
}

// Callee resolves the callee of a call expression to an object (func, var for
// function-typed variables, builtin) or nil for dynamic calls through values.
func Callee(info *types.Info, call *ast.CallExpr) types.Object {
	return typeutil.Callee(info, call)
}

// CalleeKey returns FuncKey of the static callee, "builtin.X" for builtins,
// "var:pkg.Name" for function variables, "" otherwise.
func CalleeKey(info *types.Info, call *ast.CallExpr) string {
	switch o := Callee(info, call).(type) {
	case *types.Func:
		return FuncKey(o)
	case *types.Builtin:
		return "builtin." + o.Name()
	case *types.Var:
		if o.Pkg() != nil && o.Parent() == o.Pkg().Scope() {
			return "var:" + o.Pkg().Name() + "." + o.Name()
		}
		return "localvar:" + o.Name()
	}
	// conversion?
	if tv, ok := info.Types[call.Fun]; ok && tv.IsType() {
		return "conv"
	}
	return ""
}

// ---------------------------------------------------------------- SSA / CG

func (p *Program) SSA() *ssa.Program {
	if p.ssaProg == nil {
		prog, pkgs := ssautil.AllPackages(p.Pkgs, ssa.InstantiateGenerics)
		prog.Build()
		p.ssaProg, p.ssaPkgs = prog, pkgs
	}
	return p.ssaProg
}

func (p *Program) SSAFunc(f *Func) *ssa.Function {
	return p.SSA().FuncValue(f.Obj)
}

func (p *Program) CHA() *callgraph.Graph {
	if p.cgCHA == nil {
		p.cgCHA = cha.CallGraph(p.SSA())
	}
	return p.cgCHA
}

func (p *Program) VTA() *callgraph.Graph {
	if p.cgVTA == nil {
		p.cgVTA = vta.CallGraph(ssautil.AllFunctions(p.SSA()), p.CHA())
	}
	return p.cgVTA
}
