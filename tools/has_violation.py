import json, sys
obs = json.load(open(sys.argv[1])); want = sys.argv[2]
sys.exit(0 if any(o['verdict'] == 'VIOLATION' and o['rule'] == want for o in obs) else 1)
