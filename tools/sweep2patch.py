#!/usr/bin/env python3
"""Turn surviving mutants of a gbmut sweep (JSON lines) into patch files and re-run the checks on them.
usage: tools/sweep2patch.py <sweep.jsonl> <func-substring> [outdir]   -> prints which are detected now"""
import json, sys, os, subprocess, tempfile
V = os.path.dirname(os.path.dirname(os.path.abspath(__file__)))
src, sub = sys.argv[1], sys.argv[2]
outdir = sys.argv[3] if len(sys.argv) > 3 else tempfile.mkdtemp(prefix='swp.')
os.makedirs(outdir, exist_ok=True)
for l in open(src):
    m = json.loads(l)
    if m['status'] != 'silent' or sub not in m['func']:
        continue
    p = os.path.join('/repo', m['file'])
    b = open(p, 'rb').read()
    nb = b[:m['start']] + m['repl'].encode() + b[m['end']:]
    name = m['id'].replace('/', '_').replace('#', '-')
    tmp = os.path.join(outdir, name + '.new')
    open(tmp, 'wb').write(nb)
    d = subprocess.run(['diff', '-u', '--label', './' + m['file'], '--label', './' + m['file'], p, tmp], capture_output=True, text=True).stdout
    os.remove(tmp)
    pf = os.path.join(outdir, name + '.patch')
    open(pf, 'w').write('# %s %s:%d %s: %s\n' % (m['op'], m['file'], m['line'], m['func'], m['desc']) + d)
    r = subprocess.run([os.path.join(V, 'tools', 'detect.sh'), pf, name], capture_output=True, text=True, env=dict(os.environ, OUTDIR=outdir)).stdout.strip()
    print(r, '|', m['op'], m['line'], m['desc'][:80])
