package rules

import (
	"fmt"
	"go/ast"
	"go/token"
	"go/types"
	"sort"
	"strings"

	"gbcheck/internal/prog"
)

func init() {
	register(&Property{
		ID:      "C12",
		Clause:  "unit balance on every enumerated path (error exits included) of the memcache request path: the request token is returned whenever it was taken (deferred, registered before the read); the SetData unit a parsed storage/incr command carries is consumed exactly once by every verb's handler and by every function it is handed to (parser → ServeOnce → Process → StorageClient → HStore → Bucket → write buffer, converted to a FlushData unit that the flusher releases under the same predicate); a GetData unit taken by a record fetch is released or handed to the returned item on every path; counter decrements are paired with the free of the same buffer; owned items are not overwritten in request-keyed maps; every counter/alloc event of the program lies in a function that has a contract",
		NotDec:  "the Size halves of the counters (Cap changes across compression), malloc failure paths, HTTP handlers, schedules (counters are atomics; only per-path balance is decided), panics between acquire and release",
		Engines: "E4 bounded path enumeration with nil/bool/proposition facts, deferred closures at every exit and frozen callee contracts + E5 event discovery",
		Assume:  []string{"loops are unrolled 0/1 times; a leak that needs two iterations of one loop is out of reach", "callee contracts (finite outcome lists) are the frozen table in c12.go, each callee being checked against its own contract"},
		Rules: []Rule{
			{"C12.R1", "q", "request token", c12r1},
			{"C12.R2", "q", "SetData unit balance", c12r2},
			{"C12.R3", "q", "GetData unit balance", c12r3},
			{"C12.R4", "q", "FlushData pairing", c12r4},
			{"C12.R5", "q", "decrement paired with free of the same buffer", c12r5},
			{"C12.R7", "q", "owned units in request-keyed maps", c12r7},
			{"C12.R8", "q", "release keyed on the version sign: rejected revisions stay non-negative", c12r8},
			{"C12.R9", "q", "size correction taken while the record is still compressed", c12r9},
			{"C12.R10", "q", "counter and allocation primitives are symmetric", c12r10},
			{"C12.R6", "q", "event discovery: every event inside a contracted function", c12r6},
			{"C09.R8", "q", "shared: capacity written only by the allocator; copies exact", c09r8},
		},
	})
}

// ------------------------------------------------------------------ events

func c12events(f *prog.Func, call *ast.CallExpr) (string, int, bool) {
	info := f.Info()
	key := prog.CalleeKey(info, call)
	d := 0
	switch key {
	case "cmem.ResourceLimiter.AddSizeAndCount", "cmem.ResourceLimiter.AddCount":
		d = 1
	case "cmem.ResourceLimiter.SubSizeAndCount", "cmem.ResourceLimiter.SubCount":
		d = -1
	case "memcache.ReqLimiter.Get":
		return "T", 1, true
	case "memcache.ReqLimiter.Put":
		return "T", -1, true
	default:
		return "", 0, false
	}
	se, ok := prog.Unparen(call.Fun).(*ast.SelectorExpr)
	if !ok {
		return "", 0, false
	}
	k, _ := prog.FieldOf(info, se.X)
	switch k {
	case "cmem.BeansdbRL.SetData":
		return "S", d, true
	case "cmem.BeansdbRL.GetData":
		return "G", d, true
	case "cmem.BeansdbRL.FlushData":
		return "F", d, true
	}
	return "", 0, false
}

func newBal(c *Ctx, f *prog.Func, contracts map[string][]calleeOutcome) *balancer {
	c.Funcs[f.Key] = true
	return &balancer{c: c, f: f, contracts: contracts, events: c12events, tagField: "memcache.Request.Cmd"}
}

func fmtDelta(m map[string]int, cls string) string { return fmt.Sprintf("%+d", m[cls]) }

func trailOf(p bpath) []string {
	t := p.st.trail
	if len(t) > 14 {
		t = append(append([]string{}, t[:7]...), append([]string{"…"}, t[len(t)-6:]...)...)
	}
	return t
}

// report groups violating paths of one function by a construct key.
type balReport struct {
	bad  map[string]bpath
	msg  map[string]string
	good int
}

func newBalReport() *balReport { return &balReport{bad: map[string]bpath{}, msg: map[string]string{}} }

func (r *balReport) fail(key string, p bpath, msg string) {
	if old, ok := r.bad[key]; !ok || len(p.st.trail) < len(old.st.trail) {
		r.bad[key] = p
		r.msg[key] = msg
	}
}

func (r *balReport) emit(c *Ctx, rule string, f *prog.Func, okKey, okMsg string) {
	var ks []string
	for k := range r.bad {
		ks = append(ks, k)
	}
	sort.Strings(ks)
	for _, k := range ks {
		p := r.bad[k]
		pos := f.Pos()
		if p.ret != nil {
			pos = c.pos(p.ret)
		}
		c.viol(rule, f.Key+": "+k, pos, r.msg[k], trailOf(p)...)
	}
	if len(ks) == 0 {
		c.ok(rule, f.Key+": "+okKey, f.Pos(), okMsg)
	}
}

// ------------------------------------------------------------ verb tables

type verbTables struct {
	read    map[string]bool // verbs Request.Read accepts (returns nil for)
	unit    map[string]bool // verbs whose successful parse carries a SetData unit
	token   map[string]bool // verbs taking a request token
	item    map[string]bool // verbs for which a successful parse leaves req.Item non-nil
	proc    map[string]bool // verbs with a clause in Process producing a response
	procAll map[string]bool
	write   map[string]bool
}

func switchVerbs(f *prog.Func) map[string]*ast.CaseClause {
	info := f.Info()
	out := map[string]*ast.CaseClause{}
	ast.Inspect(f.Decl.Body, func(n ast.Node) bool {
		sw, ok := n.(*ast.SwitchStmt)
		if !ok || sw.Tag == nil || !prog.IsField(info, "memcache.Request.Cmd")(prog.Unparen(sw.Tag)) {
			return true
		}
		for _, cs := range sw.Body.List {
			cc := cs.(*ast.CaseClause)
			for _, e := range cc.List {
				if v, ok := prog.ConstString(info, e); ok {
					out[v] = cc
				}
			}
			if cc.List == nil {
				out["<default>"] = cc
			}
		}
		return false
	})
	return out
}

func buildVerbTables(c *Ctx, rule string) *verbTables {
	if c.verbs != nil {
		return c.verbs
	}
	rd := c.fn(rule, "memcache.Request.Read")
	pr := c.fn(rule, "memcache.Request.Process")
	wr := c.fn(rule, "memcache.Request.Write")
	if rd == nil || pr == nil || wr == nil {
		return nil
	}
	vt := &verbTables{item: map[string]bool{}, read: map[string]bool{}, unit: map[string]bool{}, token: map[string]bool{}, proc: map[string]bool{}, procAll: map[string]bool{}, write: map[string]bool{}}
	// Read: enumerate paths per clause
	b := newBal(c, rd, nil)
	b.run(nil)
	for _, p := range b.paths {
		if len(p.st.tags) == 0 || len(p.results) == 0 || p.results[0] != vNil {
			continue
		}
		for _, v := range strings.Split(p.st.tags[0], "|") {
			if v == "<default>" {
				continue
			}
			vt.read[v] = true
			if p.st.cnt["S"] > 0 {
				vt.unit[v] = true
			}
			if p.st.cnt["T"] > 0 {
				vt.token[v] = true
			}
			if r := rd.Recv(); r != nil && p.st.facts[r.Name()+"#"+itoaI(int(r.Pos()))+".Item"] == vNonNil {
				vt.item[v] = true
			}
		}
	}
	info := pr.Info()
	for v, cc := range switchVerbs(pr) {
		if v == "<default>" {
			continue
		}
		vt.procAll[v] = true
		// produces a response unless the clause sets resp = nil
		nilResp := false
		ast.Inspect(cc, func(n ast.Node) bool {
			if as, ok := n.(*ast.AssignStmt); ok && len(as.Lhs) == 1 && prog.ObjOf(info, as.Lhs[0]) == pr.Result(0) && prog.IsNil(info, as.Rhs[0]) {
				nilResp = true
			}
			return true
		})
		if !nilResp {
			vt.proc[v] = true
		}
	}
	for v := range switchVerbs(wr) {
		if v != "<default>" {
			vt.write[v] = true
		}
	}
	c.verbs = vt
	return vt
}

func keysOf(m map[string]bool) string {
	var ks []string
	for k := range m {
		ks = append(ks, k)
	}
	sort.Strings(ks)
	return strings.Join(ks, ",")
}

// ------------------------------------------------------------------- R1

func c12r1(c *Ctx) {
	const R = "C12.R1"
	f := c.fn(R, "memcache.ServerConn.ServeOnce")
	if f == nil {
		return
	}
	info := f.Info()
	reads := f.CallsTo("memcache.Request.Read")
	var dfr *ast.DeferStmt
	ast.Inspect(f.Decl.Body, func(x ast.Node) bool {
		if d, ok := x.(*ast.DeferStmt); ok && len(f.CallsIn(d, "memcache.ReqLimiter.Put")) > 0 {
			dfr = d
		}
		return true
	})
	if len(reads) == 0 {
		c.undec(R, f.Key, "req.Read call not found")
		return
	}
	if !c.check(dfr != nil, R, f.Key+": token returned by a deferred function", f.Pos(), "defer … RL.Put", "ServeOnce no longer returns the request token in a deferred function: any early return or panic keeps the token and after max_req such requests the server stops answering storage and get commands") {
		return
	}
	c.Paths++
	c.check(f.CFG().Dominates(dfr, reads[0].Expr), R, f.Key+": defer registered before Read", c.pos(dfr), "dominates req.Read", "the deferred token release is registered after req.Read (which takes the token): a panic or return in between keeps the token")
	// Put under req.Working (and only that)
	for _, put := range f.CallsIn(dfr, "memcache.ReqLimiter.Put") {
		g := f.GuardsAt(put.Expr)
		okW := prog.HasBoolFact(g, prog.IsField(info, "memcache.Request.Working"), true)
		extra := 0
		for _, a := range g {
			if !(a.Op == token.ILLEGAL && prog.IsField(info, "memcache.Request.Working")(prog.Unparen(a.X))) {
				extra++
			}
		}
		c.check(okW && extra == 0, R, f.Key+": Put whenever req.Working", put.Pos(), "guarded by req.Working only", "the token is returned under a condition other than `req.Working` (extra conjuncts: "+itoa(extra)+"): some paths keep it, or it is returned twice")
	}
	// who takes tokens
	for _, call := range c.P.CallersOf("memcache.ReqLimiter.Get") {
		c.check(call.Fn.Key == "memcache.Request.Read", R, call.Fn.Key+": takes a request token", call.Pos(), "only the parser takes tokens", "a token is taken outside Request.Read, where ServeOnce's deferred release does not cover it")
	}
	if g := c.fn(R, "memcache.ReqLimiter.Get"); g != nil {
		ginfo := g.Info()
		sets := false
		ast.Inspect(g.Decl.Body, func(x ast.Node) bool {
			if as, ok := x.(*ast.AssignStmt); ok && len(as.Lhs) == 1 && prog.IsField(ginfo, "memcache.Request.Working")(as.Lhs[0]) {
				if b, isC := prog.ConstBool(ginfo, as.Rhs[0]); isC && b && prog.RootObj(ginfo, as.Lhs[0]) == g.Param(0) {
					sets = true
				}
			}
			return true
		})
		c.check(sets, R, g.Key+": marks the request as Working", g.Pos(), "req.Working = true", "taking a token no longer marks the request, so the deferred release never fires")
	}
	if p := c.fn(R, "memcache.ReqLimiter.Put"); p != nil {
		pinfo := p.Info()
		// the token id read from the request, Working cleared, id sent back
		clears, sends, fromReq := false, false, false
		ast.Inspect(p.Decl.Body, func(x ast.Node) bool {
			switch s := x.(type) {
			case *ast.AssignStmt:
				if len(s.Lhs) == 1 && prog.IsField(pinfo, "memcache.Request.Working")(s.Lhs[0]) {
					if b, isC := prog.ConstBool(pinfo, s.Rhs[0]); isC && !b {
						clears = true
					}
				}
			case *ast.SendStmt:
				if prog.MentionsField(pinfo, s.Chan, "memcache.ReqLimiter.Chan") {
					sends = true
					for _, src := range p.SourcesAt(s.Value, s) {
						if src.Kind == "param" && strings.HasSuffix(src.Field, "Token") {
							fromReq = true
						}
					}
				}
			}
			return true
		})
		c.check(clears && sends && fromReq, R, p.Key+": returns the request's own token and clears Working", p.Pos(), "rl.Chan <- req.Token; Working = false", "Put does not send back the token held by this request (or does not clear Working)")
	}
	// nothing between Get and the deferred Put may reset the token id
	if clr := c.fn(R, "memcache.Request.Clear"); clr != nil {
		cinfo := clr.Info()
		bad := ""
		ast.Inspect(clr.Decl.Body, func(x ast.Node) bool {
			if as, ok := x.(*ast.AssignStmt); ok {
				for _, l := range as.Lhs {
					if k, _ := prog.FieldOf(cinfo, l); k == "memcache.Request.Token" || k == "memcache.Request.Working" {
						bad = k
					}
				}
			}
			return true
		})
		c.check(bad == "", R, clr.Key+": leaves Token/Working alone", clr.Pos(), "not written", "Request.Clear (called by the deferred cleanup before RL.Put) overwrites "+bad+": Put then returns the wrong permit id / skips the release")
	}
	c12r1b(c)
}

// ------------------------------------------------------------------- R2

func sConsumes(name string) []calleeOutcome {
	return []calleeOutcome{{name: name, delta: map[string]int{"S": -1}}}
}

func c12r2(c *Ctx) {
	const R = "C12.R2"
	vt := buildVerbTables(c, R)
	if vt == nil {
		return
	}
	// (1) parser: error ⇒ 0, success ⇒ +1 for storage/incr verbs
	if f := c.fn(R, "memcache.Request.Read"); f != nil {
		b := newBal(c, f, nil)
		b.run(nil)
		c.Paths += len(b.paths)
		rep := newBalReport()
		for _, p := range b.paths {
			if len(p.results) == 0 {
				continue
			}
			s := p.st.cnt["S"]
			if p.results[0] == vNil {
				if s != 0 && s != 1 {
					rep.fail("success path carries exactly one SetData unit", p, "a successful parse leaves "+fmtDelta(p.st.cnt, "S")+" SetData units")
				}
			} else if s != 0 {
				rep.fail("error return releases the SetData unit it took", p, "Request.Read returns an error while still holding the SetData unit (and buffer) it accounted for the body: nobody downstream knows about it, the counter never returns to zero (ΔS="+fmtDelta(p.st.cnt, "S")+")")
			}
		}
		if b.overflow {
			c.undec(R, f.Key, "path bound exceeded")
		}
		rep.emit(c, R, f, "error ⇒ 0, success ⇒ one unit for "+keysOf(vt.unit), itoa(len(b.paths))+" paths")
	}
	// (2) Process consumes the unit of every verb that carries one
	if f := c.fn(R, "memcache.Request.Process"); f != nil {
		contracts := map[string][]calleeOutcome{
			"memcache.StorageClient.Set":  sConsumes("consumes"),
			"memcache.StorageClient.Incr": sConsumes("consumes"),
		}
		var verbs []string
		for v := range vt.read {
			verbs = append(verbs, v)
		}
		sort.Strings(verbs)
		for _, v := range verbs {
			want := 0
			if vt.unit[v] {
				want = -1
			}
			b := newBal(c, f, contracts)
			b.run(func(st *bstate) {
				st.world["verb"] = v
				if r := f.Recv(); r != nil {
					k := r.Name() + "#" + itoaI(int(r.Pos())) + ".Item"
					if vt.item[v] {
						st.facts[k] = vNonNil
					} else {
						st.facts[k] = vNil
					}
				}
			})
			c.Paths += len(b.paths)
			var badp *bpath
			for i, p := range b.paths {
				if p.st.cnt["S"] != want {
					if badp == nil || len(p.st.trail) < len(badp.st.trail) {
						badp = &b.paths[i]
					}
				}
			}
			key := f.Key + ": verb " + v + " consumes the parser's SetData unit"
			if want == 0 {
				key = f.Key + ": verb " + v + " (no unit) leaves SetData alone"
			}
			if badp != nil {
				pos := f.Pos()
				if badp.ret != nil {
					pos = c.pos(badp.ret)
				}
				c.viol(R, key, pos, "the parser hands `"+v+"` to Process with "+itoa(-want)+" SetData unit(s) (and the body buffer) but a path through Process consumes "+itoa(-badp.st.cnt["S"])+": the SetData counter never returns to zero", trailOf(*badp)...)
			} else if len(b.paths) == 0 {
				c.undec(R, key, "no path for this verb")
			} else {
				c.ok(R, key, f.Pos(), itoa(len(b.paths))+" paths, ΔS = "+itoa(want))
			}
		}
	}
	// (3) ServeOnce: parser unit consumed on every exit
	if f := c.fn(R, "memcache.ServerConn.ServeOnce"); f != nil {
		for _, unit := range []int{1, 0} {
			contracts := map[string][]calleeOutcome{
				"memcache.Request.Read": {
					{name: "error", res: map[int]absVal{0: vNonNil}, delta: map[string]int{}},
					{name: "ok", res: map[int]absVal{0: vNil}, delta: map[string]int{"S": unit}, apply: func(st *bstate, call *ast.CallExpr, f *prog.Func) {
						if se, ok := prog.Unparen(call.Fun).(*ast.SelectorExpr); ok {
							if p := pathKey(f.Info(), se.X); p != "" {
								if unit == 1 {
									st.facts[p+".Item"] = vNonNil
								} else {
									st.facts[p+".Item"] = vNil
								}
							}
						}
					}},
				},
				"memcache.Request.Process": {
					{name: "reply", res: map[int]absVal{0: vNonNil}, delta: map[string]int{"S": -unit}},
					{name: "quit", res: map[int]absVal{0: vNil}, delta: map[string]int{"S": -unit}},
				},
			}
			b := newBal(c, f, contracts)
			b.run(nil)
			c.Paths += len(b.paths)
			rep := newBalReport()
			for _, p := range b.paths {
				if p.st.cnt["S"] != 0 {
					hasProc := false
					for _, t := range p.st.trail {
						if strings.HasPrefix(t, "Request.Process") {
							hasProc = true
						}
					}
					k := "parsed command's SetData unit reaches Process or is released"
					if hasProc {
						k = "SetData balanced after Process"
					}
					rep.fail(k, p, "a command was parsed successfully (its body buffer and SetData unit are owned by req.Item) but this path answers without calling Process and without releasing them (ΔS="+fmtDelta(p.st.cnt, "S")+"); the deferred req.Clear() only drops the pointer")
				}
			}
			if unit == 1 {
				rep.emit(c, R, f, "every exit balanced for unit-carrying verbs", itoa(len(b.paths))+" paths")
			}
		}
	}
	// (4) the hand-over chain: each consumes exactly one unit on every path
	chain := []struct {
		key       string
		contracts map[string][]calleeOutcome
		why       string
	}{
		{"gobeansdb.StorageClient.Set", map[string][]calleeOutcome{"store.HStore.Set": sConsumes("consumes")}, "StorageClient.Set owns the parser's unit"},
		{"gobeansdb.StorageClient.Incr", map[string][]calleeOutcome{"store.HStore.Incr": sConsumes("consumes")}, "StorageClient.Incr owns the unit the parser added for incr"},
		{"store.HStore.Set", map[string][]calleeOutcome{"store.Bucket.checkAndSet": sConsumes("consumes")}, "HStore.Set owns the unit of an accounted payload"},
		{"store.HStore.Incr", map[string][]calleeOutcome{"store.Bucket.incr": sConsumes("consumes")}, "HStore.Incr owns the incr unit"},
		{"store.Bucket.checkAndSet", map[string][]calleeOutcome{"store.Bucket.set": sConsumes("consumes"), kBucketGet: {{name: "any", delta: map[string]int{}}}}, "checkAndSet owns the unit of an accounted payload"},
		{"store.Bucket.set", map[string][]calleeOutcome{kAppendRecord: sConsumes("consumes")}, "Bucket.set owns the unit"},
		{kAppendRecord, nil, "AppendRecord converts the SetData unit into a FlushData unit"},
		{"store.Bucket.incr", map[string][]calleeOutcome{"store.Bucket.set": sConsumes("consumes"), kBucketGet: bucketGetOutcomes()}, "Bucket.incr owns the incr unit"},
	}
	for _, ch := range chain {
		f := c.fn(R, ch.key)
		if f == nil {
			continue
		}
		b := newBal(c, f, ch.contracts)
		b.run(nil)
		c.Paths += len(b.paths)
		rep := newBalReport()
		var failing, passing []bpath
		for _, p := range b.paths {
			if p.st.cnt["S"] != -1 {
				failing = append(failing, p)
			} else {
				passing = append(passing, p)
			}
		}
		common := distinguish(failing, passing)
		for _, p := range failing {
			k := "consumes the SetData unit on every path"
			fl := pathFlavor(f, p)
			if common != "" {
				fl = " [when " + common + "]"
			}
			rep.fail(k+fl, p, ch.why+", but this path returns having released "+itoa(-p.st.cnt["S"])+" unit(s): an accounted payload (client set / incr) leaks its SetData unit here")
		}
		if b.overflow {
			c.undec(R, f.Key, "path bound exceeded")
		}
		if len(b.paths) == 0 {
			c.undec(R, f.Key, "no path enumerated")
			continue
		}
		rep.emit(c, R, f, "consumes the SetData unit on every path", itoa(len(b.paths))+" paths, ΔS = -1")
	}
}

// pathFlavor derives a stable construct label for a leaking path from the
// last decided proposition (e.g. the Ver-sign test, the bucket state test).
func pathFlavor(f *prog.Func, p bpath) string {
	info := f.Info()
	if p.ret != nil {
		// label by the guard atoms of the return statement, rendered through field keys
		var parts []string
		for _, a := range f.GuardsAt(p.ret) {
			if a.X == nil {
				continue
			}
			s := ""
			ast.Inspect(a.X, func(n ast.Node) bool {
				if se, ok := n.(*ast.SelectorExpr); ok && s == "" {
					if k, _ := prog.FieldOf(info, se); k != "" {
						s = short(k)
					}
				}
				if call, ok := n.(*ast.CallExpr); ok && s == "" {
					if k := prog.CalleeKey(info, call); k != "" && k != "conv" {
						s = short(k) + "()"
					}
				}
				return true
			})
			if s == "" {
				if id, ok := prog.Unparen(a.X).(*ast.Ident); ok {
					s = id.Name
				}
			}
			if s != "" {
				parts = append(parts, s)
			}
		}
		parts = dedupSorted(parts)
		if len(parts) > 0 {
			return " [return under " + strings.Join(parts, ",") + "]"
		}
		return " [unconditional return]"
	}
	return " [fall-through exit]"
}

func bucketGetOutcomes() []calleeOutcome {
	memOnly := func(want bool) func(*bstate, *ast.CallExpr, *prog.Func) bool {
		return func(st *bstate, call *ast.CallExpr, f *prog.Func) bool {
			if len(call.Args) < 2 {
				return !want
			}
			b, isC := prog.ConstBool(f.Info(), call.Args[1])
			if !isC {
				return true
			}
			return b == want
		}
	}
	return []calleeOutcome{
		{name: "hit", res: map[int]absVal{0: vNonNil, 2: vNil}, delta: map[string]int{"G": 1}, when: memOnly(false)},
		{name: "meta", res: map[int]absVal{0: vNonNil, 2: vNil}, delta: map[string]int{}, when: memOnly(true)},
		{name: "miss", res: map[int]absVal{0: vNil, 2: vNil}, delta: map[string]int{}},
		{name: "error", res: map[int]absVal{0: vNil, 2: vNonNil}, delta: map[string]int{}},
	}
}

func fetchOutcomes(errIdx int) []calleeOutcome {
	return []calleeOutcome{
		{name: "hit", res: map[int]absVal{0: vNonNil, errIdx: vNil}, delta: map[string]int{"G": 1}},
		{name: "miss", res: map[int]absVal{0: vNil, errIdx: vNil}, delta: map[string]int{}},
		{name: "error", res: map[int]absVal{0: vNil, errIdx: vNonNil}, delta: map[string]int{}},
	}
}

// ------------------------------------------------------------------- R3

func c12r3(c *Ctx) {
	const R = "C12.R3"
	type spec struct {
		key       string
		contracts map[string][]calleeOutcome
		// expect returns "" if the path is balanced
		expect func(p bpath) string
	}
	ownedIffResult := func(idx int) func(p bpath) string {
		return func(p bpath) string {
			g := p.st.cnt["G"]
			r := vUnknown
			if idx < len(p.results) {
				r = p.results[idx]
			}
			switch {
			case g < 0:
				return "releases more GetData units than it took (double release)"
			case g > 1:
				return "holds " + itoa(g) + " GetData units at exit but can hand out at most one record"
			case g == 1 && r == vNil:
				return "returns no record while still holding the GetData unit (and buffer) of a fetched one"
			}
			return ""
		}
	}
	zero := func(p bpath) string {
		if g := p.st.cnt["G"]; g != 0 {
			return "exits with ΔG=" + fmt.Sprintf("%+d", g) + ": the GetData unit (and buffer) of the fetched record is not released"
		}
		return ""
	}
	specs := []spec{
		{"store.readRecordAt", nil, func(p bpath) string {
			g := p.st.cnt["G"]
			if len(p.results) < 2 {
				return ""
			}
			if p.results[1] == vNil && g != 1 {
				return "success return with ΔG=" + itoa(g) + " (expected one unit for the allocated buffer)"
			}
			if p.results[1] != vNil && g != 0 {
				return "error return keeps the GetData unit of the buffer it frees (ΔG=" + itoa(g) + ")"
			}
			return ""
		}},
		{"store.dataChunk.GetRecordByOffsetInBuffer", nil, ownedIffResult(0)},
		{"store.dataChunk.GetRecordByOffset", map[string][]calleeOutcome{
			"store.dataChunk.GetRecordByOffsetInBuffer": fetchOutcomes(1),
			"store.readRecordAtPath": {
				{name: "hit", res: map[int]absVal{0: vNonNil, 1: vNil}, delta: map[string]int{"G": 1}},
				{name: "error", res: map[int]absVal{0: vNil, 1: vNonNil}, delta: map[string]int{}},
			}}, ownedIffResult(0)},
		{kBucketGet, map[string][]calleeOutcome{"store.dataStore.GetRecordByPos": fetchOutcomes(2)}, ownedIffResult(0)},
		{"store.Bucket.incr", map[string][]calleeOutcome{kBucketGet: bucketGetOutcomes(), "store.Bucket.set": sConsumes("consumes")}, zero},
		{"gobeansdb.StorageClient.getMeta", map[string][]calleeOutcome{"store.HStore.Get": bucketGetOutcomes()}, zero},
		{"gobeansdb.StorageClient.Get", map[string][]calleeOutcome{
			"store.HStore.Get":                bucketGetOutcomes(),
			"store.HStore.GetRecordByKeyHash": fetchOutcomes(2),
		}, ownedIffResult(0)},
		{"store.Bucket.checkAndSet", map[string][]calleeOutcome{kBucketGet: bucketGetOutcomes(), "store.Bucket.set": sConsumes("consumes")}, zero},
	}
	for _, sp := range specs {
		f := c.fn(R, sp.key)
		if f == nil {
			continue
		}
		b := newBal(c, f, sp.contracts)
		b.run(nil)
		c.Paths += len(b.paths)
		rep := newBalReport()
		for _, p := range b.paths {
			if m := sp.expect(p); m != "" {
				rep.fail("GetData unit released or handed out on every path"+pathFlavor(f, p), p, f.Key+" "+m)
			}
		}
		if b.overflow {
			c.undec(R, f.Key, "path bound exceeded")
		}
		if len(b.paths) == 0 {
			c.undec(R, f.Key, "no path enumerated")
			continue
		}
		rep.emit(c, R, f, "GetData unit released or handed out on every path", itoa(len(b.paths))+" paths")
	}
	// the response's items are cleaned on every exit of ServeOnce
	if f := c.fn(R, "memcache.ServerConn.ServeOnce"); f != nil {
		info := f.Info()
		okDefer := false
		ast.Inspect(f.Decl.Body, func(x ast.Node) bool {
			if d, ok := x.(*ast.DeferStmt); ok {
				for _, call := range f.CallsIn(d, "memcache.Response.CleanBuffer") {
					g := f.GuardsAt(call.Expr)
					se, _ := prog.Unparen(call.Expr.Fun).(*ast.SelectorExpr)
					if se != nil && prog.HasNilFact(info, g, func(e ast.Expr) bool { return prog.SameExpr(info, e, se.X) }, false) {
						okDefer = true
					}
				}
			}
			return true
		})
		c.check(okDefer, R, f.Key+": deferred CleanBuffer of the live response", f.Pos(), "if resp != nil { resp.CleanBuffer() }", "the fetched items of a response are no longer cleaned in the deferred function: every get leaks its GetData units and buffers on some exit")
		// a response that is replaced must be cleaned first
		resp := (types.Object)(nil)
		for _, call := range f.CallsTo("memcache.Request.Process") {
			resp = f.ResultObj(call.Expr, 0)
		}
		bad := ""
		if resp != nil {
			proc := f.CallsTo("memcache.Request.Process")[0]
			ast.Inspect(f.Decl.Body, func(x ast.Node) bool {
				as, ok := x.(*ast.AssignStmt)
				if !ok || f.EnclosingLit(as) != nil || as.Pos() <= proc.Expr.End() {
					return true
				}
				for _, l := range as.Lhs {
					if prog.ObjOf(info, l) == resp {
						// reachable from Process without CleanBuffer?
						c.Paths++
						if f.CFG().ReachesWithout(proc.Expr, as, f.ContainsCall("memcache.Response.CleanBuffer")) {
							bad = c.pos(as)
						}
					}
				}
				return true
			})
		}
		c.check(bad == "", R, f.Key+": response replaced only after CleanBuffer", f.Pos(), "CleanBuffer ≺ resp = new(Response)", "the response returned by Process is overwritten at "+bad+" without CleanBuffer: its items' GetData units and buffers are dropped")
	}
	if f := c.fn(R, "memcache.Response.CleanBuffer"); f != nil {
		info := f.Info()
		var rng *ast.RangeStmt
		ast.Inspect(f.Decl.Body, func(x ast.Node) bool {
			if r, ok := x.(*ast.RangeStmt); ok && prog.MentionsField(info, r.X, "memcache.Response.Items") {
				rng = r
			}
			return true
		})
		okLoop := false
		if rng != nil {
			subs := f.CallsIn(rng.Body, "cmem.ResourceLimiter.SubSizeAndCount")
			frees := f.CallsIn(rng.Body, "cmem.CArray.Free")
			okLoop = len(subs) == 1 && len(frees) == 1 && len(f.GuardsAt(frees[0].Expr)) == 0
		}
		c.check(okLoop, R, f.Key+": releases every item", f.Pos(), "range Items { GetData−1 (normal keys); Free }", "CleanBuffer no longer frees every item / releases the GetData unit of normal-key items")
	}
}

// ------------------------------------------------------------------- R4

func guardText(f *prog.Func, n ast.Node, field string) string {
	info := f.Info()
	var parts []string
	for _, a := range f.GuardsAt(n) {
		if a.X != nil && a.Y != nil && prog.MentionsField(info, a.X, field) {
			if v, ok := prog.ConstInt(info, a.Y); ok {
				parts = append(parts, "Ver"+a.Op.String()+itoa(int(v)))
			}
		}
		if a.Op == token.ILLEGAL && a.X != nil {
			if id, ok := prog.Unparen(a.X).(*ast.Ident); ok {
				if a.Neg {
					parts = append(parts, "!"+id.Name)
				} else {
					parts = append(parts, id.Name)
				}
			}
		}
	}
	sort.Strings(parts)
	return strings.Join(parts, "∧")
}

func c12r4(c *Ctx) {
	const R = "C12.R4"
	ap := c.fn(R, kAppendRecord)
	fl := c.fn(R, "store.dataChunk.flush")
	if ap == nil || fl == nil {
		return
	}
	var addG, subG string
	var addPos, subPos string
	nAdd, nSub := 0, 0
	for _, call := range ap.Calls() {
		if cls, d, ok := c12events(ap, call.Expr); ok && cls == "F" && d > 0 {
			nAdd++
			addG, addPos = guardText(ap, call.Expr, "store.Meta.Ver"), call.Pos()
		}
	}
	for _, call := range fl.Calls() {
		if cls, d, ok := c12events(fl, call.Expr); ok && cls == "F" && d < 0 {
			nSub++
			subG, subPos = guardText(fl, call.Expr, "store.Meta.Ver"), call.Pos()
		}
	}
	if nAdd != 1 || nSub != 1 {
		c.viol(R, "FlushData: one add in AppendRecord, one sub in flush", ap.Pos(), "FlushData is added "+itoa(nAdd)+" time(s) in AppendRecord and subtracted "+itoa(nSub)+" time(s) in dataChunk.flush")
		return
	}
	// flush's predicate is AppendRecord's plus `!gc`
	want := addG
	got := strings.ReplaceAll(subG, "!gc∧", "")
	got = strings.TrimSuffix(strings.TrimPrefix(got, "!gc"), "∧")
	c.check(want == got && want != "", R, "FlushData added and released under the same predicate", subPos, "add under ["+addG+"] at "+addPos+", release under ["+subG+"]", "AppendRecord converts to a FlushData unit under ["+addG+"] but the flusher releases it under ["+subG+"]: records for which only one holds leave FlushData unbalanced")
	// every FlushData event of the program is one of these two
	for _, f := range c.P.SortedFuncs() {
		for _, call := range f.Calls() {
			if cls, _, ok := c12events(f, call.Expr); ok && cls == "F" {
				c.check(f.Key == kAppendRecord || f.Key == "store.dataChunk.flush", R, f.Key+": touches FlushData", call.Pos(), "AppendRecord / flush", "FlushData is modified outside AppendRecord/flush")
			}
		}
	}
	// who removes elements from wbuf
	ws := fieldWritersOf(c, "store.dataChunk.wbuf")
	allowed := map[string]bool{"store.dataChunk.AppendRecord": true, "store.dataChunk.flush": true, "store.dataChunk.Clear": true}
	for _, w := range ws {
		c.check(allowed[w], R, w+": writes dataChunk.wbuf", "-", "append / flush / Clear", "the write buffer (which parks FlushData-accounted records) is modified by "+w)
	}
}

func fieldWritersOf(c *Ctx, key string) []string {
	return fieldWriters(c, key)[key]
}

// ------------------------------------------------------------------- R5

func c12r5(c *Ctx) {
	const R = "C12.R5"
	// every S/G decrement whose size argument is X.Cap is paired, in the same
	// statement list, with X.Free() (or is a documented hand-over)
	handover := map[string]string{
		kAppendRecord:                      "SetData→FlushData conversion: the buffer stays alive in the write buffer",
		"store.dataChunk.flush":            "FlushData release; buffers are freed after the detach (C04.L5)",
		"store.readRecordAt":               "error paths: the deferred cleanup frees wrec.rec.Payload",
		"memcache.Response.CleanBuffer":    "Free is unconditional, the decrement only for normal keys",
		"store.Bucket.incr":                "incr unit carries no buffer (AddCount/SubCount)",
		"gobeansdb.StorageClient.Incr":     "incr unit carries no buffer",
		"store.HStore.Incr":                "incr unit carries no buffer",
		"memcache.Request.Process":         "incr unit carries no buffer",
		"memcache.ServerConn.ServeOnce":    "request-level release",
	}
	n := 0
	for _, f := range c.P.SortedFuncs() {
		info := f.Info()
		for _, call := range f.Calls() {
			cls, d, ok := c12events(f, call.Expr)
			if !ok || d >= 0 || (cls != "S" && cls != "G") || len(call.Expr.Args) == 0 {
				continue
			}
			if prog.CalleeKey(info, call.Expr) != "cmem.ResourceLimiter.SubSizeAndCount" {
				continue
			}
			n++
			c.Funcs[f.Key] = true
			// owner of the Cap argument
			var owner ast.Expr
			ast.Inspect(call.Expr.Args[0], func(x ast.Node) bool {
				if se, ok := x.(*ast.SelectorExpr); ok && se.Sel.Name == "Cap" && owner == nil {
					owner = se.X
				}
				return true
			})
			key := f.Key + ": " + cls + "−1(" + types.ExprString(call.Expr.Args[0]) + ") paired with Free"
			if owner == nil {
				c.viol(R, key, call.Pos(), "the size released is not the .Cap of a buffer")
				continue
			}
			if f.Key == "store.readRecordAt" {
				// the deferred cleanup frees wrec.rec.Payload: that covers the buffer only once
				// it was attached to the payload; before that the branch has to free it itself
				ro := prog.RootObj(info, owner)
				attached := false
				ast.Inspect(f.Decl.Body, func(x ast.Node) bool {
					if as, ok := x.(*ast.AssignStmt); ok && len(as.Lhs) == 1 && len(as.Rhs) == 1 {
						if k, _ := prog.FieldOf(info, as.Lhs[0]); k == "store.Payload.CArray" && prog.ObjOf(info, prog.Unparen(as.Rhs[0])) == ro {
							c.Paths++
							if f.CFG().Dominates(as, call.Expr) {
								attached = true
							}
						}
					}
					return true
				})
				freed := false
				for _, s := range enclosingList(f, call.Expr) {
					for _, fr := range f.CallsIn(s, "cmem.CArray.Free") {
						if se, ok := prog.Unparen(fr.Expr.Fun).(*ast.SelectorExpr); ok && prog.RootObj(info, se.X) == ro {
							freed = true
						}
					}
				}
				c.check(attached || freed, R, key, call.Pos(), "buffer attached to the payload the deferred cleanup frees, or freed in the branch",
					"the record buffer is un-accounted on this error path but neither freed here nor yet attached to the payload that the deferred cleanup frees: the C allocation leaks (a short read of the key/value block, e.g. a position made stale by GC)")
				continue
			}
			if why, ok := handover[f.Key]; ok {
				c.ok(R, key, call.Pos(), "frozen hand-over: "+why)
				continue
			}
			// a Free on the same owner root in the same statement list, after the decrement
			list := enclosingList(f, call.Expr)
			paired := false
			ro := prog.RootObj(info, owner)
			for _, s := range list {
				if s.Pos() < call.Expr.Pos() {
					continue
				}
				for _, fr := range f.CallsIn(s, "cmem.CArray.Free") {
					if se, ok := prog.Unparen(fr.Expr.Fun).(*ast.SelectorExpr); ok && prog.RootObj(info, se.X) == ro {
						paired = true
					}
				}
			}
			c.check(paired, R, key, call.Pos(), "followed by Free of the same owner", "the counter is decremented for a buffer that is not freed next to it (or the other way round): either the C allocation leaks or a buffer still in use is unaccounted")
		}
	}
	if n < 8 {
		c.undec(R, "cmem.ResourceLimiter.SubSizeAndCount", "fewer than 8 sized decrements found")
	}
	// tofree hand-off idiom in StorageClient.Set: alias nil-ed before the consuming call
	if f := c.fn(R, "gobeansdb.StorageClient.Set"); f != nil {
		info := f.Info()
		sets := f.CallsTo("store.HStore.Set")
		if len(sets) == 1 {
			// find the local that the deferred closure frees
			var alias types.Object
			ast.Inspect(f.Decl.Body, func(x ast.Node) bool {
				if d, ok := x.(*ast.DeferStmt); ok {
					for _, fr := range f.CallsIn(d, "cmem.CArray.Free") {
						if se, ok := prog.Unparen(fr.Expr.Fun).(*ast.SelectorExpr); ok {
							alias = prog.RootObj(info, se.X)
						}
					}
				}
				return true
			})
			okNil := false
			if alias != nil {
				ast.Inspect(f.Decl.Body, func(x ast.Node) bool {
					if as, ok := x.(*ast.AssignStmt); ok && len(as.Lhs) == 1 && prog.ObjOf(info, as.Lhs[0]) == alias && prog.IsNil(info, as.Rhs[0]) {
						c.Paths++
						if f.CFG().Dominates(as, sets[0].Expr) {
							okNil = true
						}
					}
					return true
				})
			}
			c.check(okNil, R, f.Key+": release alias cleared before the hand-over", sets[0].Pos(), "tofree = nil ≺ hstore.Set", "the buffer is handed to HStore.Set (which releases or parks it) while the deferred release still holds its alias: double free / double decrement")
		}
	}
}

func enclosingList(f *prog.Func, n ast.Node) []ast.Stmt {
	for _, a := range f.Enclosing(n) {
		switch x := a.(type) {
		case *ast.BlockStmt:
			return x.List
		case *ast.CaseClause:
			return x.Body
		}
	}
	return nil
}

// ------------------------------------------------------------------- R7

func c12r7(c *Ctx) {
	const R = "C12.R7"
	n := 0
	for _, k := range []string{"gobeansdb.StorageClient.GetMulti", "memcache.Request.Process"} {
		f := c.fn(R, k)
		if f == nil {
			continue
		}
		info := f.Info()
		ast.Inspect(f.Decl.Body, func(x ast.Node) bool {
			as, ok := x.(*ast.AssignStmt)
			if !ok || len(as.Lhs) != 1 {
				return true
			}
			ix, ok := prog.Unparen(as.Lhs[0]).(*ast.IndexExpr)
			if !ok {
				return true
			}
			mt, ok := info.TypeOf(ix.X).Underlying().(*types.Map)
			if !ok || !strings.HasSuffix(mt.Elem().String(), "memcache.Item") {
				return true
			}
			n++
			// inside a loop whose map outlives the iteration?
			inLoop := false
			for _, a := range f.Enclosing(as) {
				switch l := a.(type) {
				case *ast.RangeStmt, *ast.ForStmt:
					// map defined outside the loop
					mo := prog.RootObj(info, ix.X)
					if mo != nil && !(mo.Pos() > l.Pos() && mo.Pos() < l.End()) {
						inLoop = true
					}
				}
			}
			key := f.Key + ": owned item stored under a request key"
			if !inLoop {
				c.ok(R, key, c.pos(as), "fresh map, single insert")
				return true
			}
			// presence test dominating the insert: `_, dup := m[key]` with !dup, or m[key] == nil
			guarded := false
			for _, a := range f.GuardsAt(as) {
				if a.X == nil {
					continue
				}
				for _, s := range f.SourcesAt(a.X, as) {
					if ie, ok := prog.Unparen(s.Expr).(*ast.IndexExpr); ok && prog.SameExpr(info, ie.X, ix.X) && prog.SameExpr(info, ie.Index, ix.Index) {
						guarded = true
					}
				}
				ast.Inspect(a.X, func(y ast.Node) bool {
					if ie, ok := y.(*ast.IndexExpr); ok && prog.SameExpr(info, ie.X, ix.X) && prog.SameExpr(info, ie.Index, ix.Index) {
						guarded = true
					}
					return true
				})
			}
			c.check(guarded, R, key, c.pos(as), "insert guarded by a presence test", "items that own a GetData unit and a buffer are inserted into a map keyed by request keys inside a loop with no presence test: a repeated key (`get k k`) overwrites — and thereby leaks — the first item's unit and buffer")
			return true
		})
	}
	if n == 0 {
		c.undec(R, "map[string]*Item inserts", "no insert of an item into a request-keyed map found")
	}
	c12r7b(c)
}

// ------------------------------------------------------------------- R6

var contracted = map[string]bool{
	"memcache.Request.Read": true, "memcache.Request.Process": true, "memcache.ServerConn.ServeOnce": true, "memcache.Response.CleanBuffer": true,
	"memcache.Response.Read": true, // client side of the protocol (proxy use); outside the server path
	"gobeansdb.StorageClient.Set": true, "gobeansdb.StorageClient.Get": true, "gobeansdb.StorageClient.getMeta": true,
	"gobeansdb.StorageClient.Incr": true, "store.HStore.Incr": true,
	"store.HStore.Set": true, "store.Bucket.checkAndSet": true, kAppendRecord: true, "store.dataChunk.flush": true,
	"store.Bucket.get": true, "store.Bucket.incr": true, "store.readRecordAt": true, "store.dataChunk.GetRecordByOffsetInBuffer": true,
	"store.dataChunk.GetRecordByOffset": true,
}

var outsideQuantifier = map[string]string{
	"gobeansdb.handleKeyhash":    "HTTP handler, not a memcache command (frees a record without GetData−1: observation, outside C12's quantifier)",
	"store.Bucket.buildHintFromData": "start-up rebuild, frees scan buffers that were never accounted",
	"store.Payload.Getvhash":     "GC helper on scan buffers",
	"memcache.mapStore.Set":      "test double of the storage (map-backed)",
	"memcache.mapStore.Get":      "test double of the storage",
	"memcache.mapStore.GetMulti": "test double of the storage",
}

func c12r6(c *Ctx) {
	const R = "C12.R6"
	n := 0
	for _, f := range c.P.SortedFuncs() {
		ev := 0
		var first prog.Call
		for _, call := range f.Calls() {
			if cls, _, ok := c12events(f, call.Expr); ok && cls != "T" {
				if ev == 0 {
					first = call
				}
				ev++
			}
		}
		if ev == 0 {
			continue
		}
		n++
		c.Funcs[f.Key] = true
		key := f.Key + ": counter events inside a contracted function"
		switch {
		case contracted[f.Key]:
			c.ok(R, key, first.Pos(), itoa(ev)+" events, function has a contract")
		case outsideQuantifier[f.Key] != "":
			c.ok(R, key, first.Pos(), "frozen: "+outsideQuantifier[f.Key])
		default:
			c.viol(R, key, first.Pos(), f.Key+" modifies the GetData/SetData/FlushData counters but has no balance contract: its paths are not checked, so a leak there is invisible to C12.R2/R3")
		}
	}
	if n < 10 {
		c.undec(R, "counter events", "fewer than 10 functions with counter events found")
	}
}

// distinguish returns a rendering of a proposition/boolean fact that holds on
// every failing path and on no passing path ("" if there is none).
func distinguish(failing, passing []bpath) string {
	if len(failing) == 0 {
		return ""
	}
	cands := map[string]absVal{}
	for k, v := range failing[0].st.facts {
		if v == vTrue || v == vFalse {
			cands[k] = v
		}
	}
	for _, p := range failing[1:] {
		for k, v := range cands {
			if p.st.facts[k] != v {
				delete(cands, k)
			}
		}
	}
	for _, p := range passing {
		for k, v := range cands {
			if p.st.facts[k] == v {
				delete(cands, k)
			}
		}
	}
	var ks []string
	for k := range cands {
		ks = append(ks, k)
	}
	sort.Strings(ks)
	for _, k := range ks {
		if !strings.HasPrefix(k, "prop:") {
			continue
		}
		r := strings.TrimPrefix(k, "prop:")
		// strip object ids
		var sb strings.Builder
		skip := false
		for _, ch := range r {
			if ch == '#' {
				skip = true
				continue
			}
			if skip && ch >= '0' && ch <= '9' {
				continue
			}
			skip = false
			sb.WriteRune(ch)
		}
		if cands[k] == vFalse {
			return "¬(" + sb.String() + ")"
		}
		return sb.String()
	}
	return ""
}

func c12r8(c *Ctx) {
	// evaluated together with C01.R9 (same construct); only the C12.R8 obligations are kept here
	sub := NewCtx(c.P, c.Prop, c.Tier)
	c01r9(sub)
	n := 0
	for _, o := range sub.Obs {
		if o.Rule == "C12.R8" {
			c.Obs = append(c.Obs, o)
			c.count["C12.R8"]++
			n++
		}
	}
	for k := range sub.Funcs {
		c.Funcs[k] = true
	}
	if n == 0 {
		c.undec("C12.R8", "store.Bucket.checkAndUpdateVerison", "no rejecting return found")
	}
}

// c12r9: GetData.AddSize(DiffSizeAfterDecompressed()) must be evaluated before
// Decompress() clears the compress flag (afterwards the difference is always 0).
func c12r9(c *Ctx) {
	const R = "C12.R9"
	f := c.fn(R, "store.dataChunk.GetRecordByOffset")
	if f == nil {
		return
	}
	info := f.Info()
	diffs := f.CallsTo("store.Payload.DiffSizeAfterDecompressed")
	decs := f.CallsTo("store.Payload.Decompress")
	if len(diffs) == 0 || len(decs) == 0 {
		c.undec(R, f.Key, "size correction / decompress calls not found")
		return
	}
	for i, d := range diffs {
		// the Decompress on the same record
		var dec *prog.Call
		for j := range decs {
			if prog.RootObj(info, decs[j].Expr.Fun) == prog.RootObj(info, d.Expr.Fun) {
				dec = &decs[j]
			}
		}
		key := f.Key + ": size correction #" + itoa(i+1) + " before Decompress"
		if dec == nil {
			c.viol(R, key, d.Pos(), "no Decompress of the same record follows the size correction")
			continue
		}
		c.Paths++
		c.check(f.CFG().Dominates(d.Expr, dec.Expr) && !f.CFG().ReachesWithout(dec.Expr, d.Expr, nil), R, key, d.Pos(), "DiffSizeAfterDecompressed ≺ Decompress",
			"the GetData size correction is computed after Decompress() cleared the compress flag, so it is always 0: the record is accounted at its compressed capacity and released at its decompressed capacity, GetData.Size drifts negative for good")
	}
}

// c12r10: the primitives E4 treats as ±1 events really are symmetric.
func c12r10(c *Ctx) {
	const R = "C12.R10"
	pair := func(comb, a, b string, cnt int64) {
		f := c.fn(R, "cmem.ResourceLimiter."+comb)
		if f == nil {
			return
		}
		info := f.Info()
		ca, cb := f.CallsTo("cmem.ResourceLimiter."+a), f.CallsTo("cmem.ResourceLimiter."+b)
		ok := len(ca) == 1 && len(cb) == 1 && len(f.Calls()) == 2
		if ok {
			ok = prog.ObjOf(info, ca[0].Expr.Args[0]) == f.Param(0)
			v, isC := prog.ConstInt(info, cb[0].Expr.Args[0])
			ok = ok && isC && v == cnt && len(f.GuardsAt(ca[0].Expr)) == 0 && len(f.GuardsAt(cb[0].Expr)) == 0
		}
		c.check(ok, R, f.Key+" = "+a+"(size) + "+b+"(1)", f.Pos(), "both, unconditionally", f.Key+" no longer moves the size by its argument and the count by exactly one: every balance the path engine proves is about a different counter than the one published")
	}
	pair("AddSizeAndCount", "AddSize", "AddCount", 1)
	pair("SubSizeAndCount", "SubSize", "SubCount", 1)
	sign := func(name, field string, neg bool) {
		f := c.fn(R, "cmem.ResourceLimiter."+name)
		if f == nil {
			return
		}
		info := f.Info()
		ok := false
		for _, call := range f.CallsTo("sync/atomic.AddInt64", "atomic.AddInt64") {
			if len(call.Expr.Args) == 2 && prog.MentionsField(info, call.Expr.Args[0], "cmem.ResourceLimiter."+field) {
				d := prog.Unparen(call.Expr.Args[1])
				isNeg := false
				if u, isU := d.(*ast.UnaryExpr); isU && u.Op == token.SUB {
					isNeg, d = true, u.X
				}
				if isNeg == neg && prog.Mentions(info, d, f.Param(0)) && len(f.GuardsAt(call.Expr)) == 0 {
					ok = true
				}
			}
		}
		c.check(ok, R, f.Key+": "+map[bool]string{false: "+", true: "−"}[neg]+"argument on "+field, f.Pos(), "atomic add of ±arg", f.Key+" does not atomically add "+map[bool]string{false: "+", true: "−"}[neg]+"its argument to "+field)
	}
	sign("AddSize", "Size", false)
	sign("SubSize", "Size", true)
	sign("AddCount", "Count", false)
	sign("SubCount", "Count", true)
	if f := c.fn(R, "cmem.CArray.Alloc"); f != nil {
		info := f.Info()
		add := f.CallsTo("cmem.ResourceLimiter.AddSizeAndCount")
		ok := len(add) == 1 && prog.ObjOf(info, add[0].Expr.Args[0]) == f.Param(0)
		// cap recorded = size
		capOK := true
		ast.Inspect(f.Decl.Body, func(x ast.Node) bool {
			if as, isA := x.(*ast.AssignStmt); isA && len(as.Lhs) == 1 && prog.IsField(info, "cmem.CArray.Cap")(as.Lhs[0]) && prog.ObjOf(info, as.Rhs[0]) != f.Param(0) {
				capOK = false
			}
			return true
		})
		c.check(ok && capOK, R, f.Key+": C allocation accounted with its size, Cap = size", f.Pos(), "AllocRL +size, Cap = size", "CArray.Alloc does not account the allocation with the size it records in Cap: Free (which releases Cap) cannot balance it")
	}
	if f := c.fn(R, "cmem.CArray.Free"); f != nil {
		info := f.Info()
		sub := f.CallsTo("cmem.ResourceLimiter.SubSizeAndCount")
		ok := len(sub) == 1 && prog.IsField(info, "cmem.CArray.Cap")(prog.Unparen(sub[0].Expr.Args[0]))
		// guarded by Addr != 0 and Addr reset afterwards (idempotent)
		g := false
		if len(sub) == 1 {
			for _, a := range f.GuardsAt(sub[0].Expr) {
				if prog.AtomCmp(a, token.NEQ, prog.IsField(info, "cmem.CArray.Addr"), prog.IsIntConst(info, 0)) {
					g = true
				}
			}
		}
		reset := false
		ast.Inspect(f.Decl.Body, func(x ast.Node) bool {
			if as, isA := x.(*ast.AssignStmt); isA && len(as.Lhs) == 1 && prog.IsField(info, "cmem.CArray.Addr")(as.Lhs[0]) {
				if v, isC := prog.ConstInt(info, as.Rhs[0]); isC && v == 0 {
					reset = true
				}
			}
			return true
		})
		c.check(ok && g && reset, R, f.Key+": releases Cap once (Addr != 0 ⇒ −Cap, Addr = 0)", f.Pos(), "idempotent", "CArray.Free no longer releases exactly the recorded capacity exactly once (guard on Addr / reset of Addr missing): double Free double-counts, or the allocation counter never returns to zero")
	}
}
