package rules

import (
	"go/ast"
	"go/constant"
	"go/parser"
	"go/token"
	"go/types"
	"os"
	"regexp"
	"strings"

	"gbcheck/internal/prog"
)

// Rules added after round 5 of independently seeded changes (DESIGN.md 10.5).

func addRule(prop string, r Rule) {
	p := Registry[prop]
	if p == nil {
		return
	}
	for _, x := range p.Rules {
		if x.ID == r.ID {
			return
		}
	}
	p.Rules = append(p.Rules, r)
}

func init() {
	for _, p := range []string{"C04", "C01", "C09", "C12"} {
		d := "flush advances the write buffer past the flushed prefix (no compaction over records being freed)"
		if p != "C04" {
			d = "shared: " + d
		}
		addRule(p, Rule{"C04.L10", "q", d, c04l10})
	}
	addRule("C12", Rule{"C04.L5", "q", "shared: a buffered record is freed only after it left the write buffer", c04l5})
	addRule("C01", Rule{"C01.R14", "q", "get hands out the version kept in the index", c01r14})
	addRule("C10", Rule{"C10.R11", "q", "the safe decompressors reject no well-formed stream (stored blocks included)", c10r11})
	addRule("C11", Rule{"C11.R12", "q", "numeric fields are decimal; the byte count is validated before it is narrowed", c11r12})
	addRule("C16", Rule{"C16.R6", "q", "the C CRC routine returns the running register on every path", c16r6})
	addRule("C09", Rule{"C16.R6", "q", "shared: the C CRC routine returns the running register on every path", c16r6})
	addRule("C17", Rule{"C17.R9", "q", "a file is dated by the first record of its successor; only an empty successor is skipped", c17r9})
	addRule("C18", Rule{"C18.R7", "q", "a rewritten chunk's size follows its write head", c18r7})
	addRule("C03", Rule{"C18.R7", "q", "shared: a rewritten chunk's size follows its write head", c18r7})
	addRule("C13", Rule{"C13.R14", "q", "hint lookups cover every chunk that holds hints (loaded or written)", c13r14})
	addRule("C02", Rule{"C13.R14", "q", "shared: hint lookups cover every chunk that holds hints (loaded or written)", c13r14})
	clause := map[string]string{
		"C01": "Bucket.get hands out the version kept in the index; the flusher only advances the write buffer past the flushed prefix",
		"C04": "the flusher only advances the write buffer past the flushed prefix; (known finding) read-time collision registration is not serialised with writers",
		"C10": "no early exit of the safe decompressors rejects the header of a well-formed stream, stored blocks included",
		"C11": "numeric fields are parsed as decimal numbers and the byte count is known to fit 32 bits before the 32-bit size check; (known finding) the data block of a refused storage command stays in the stream",
		"C16": "the C CRC routine returns the running register on every exit",
		"C17": "a file is dated by the first record of its successor and the admin handler passes the parsed age limit on unchanged",
		"C18": "a rewritten chunk's size follows its write head",
		"C13": "hint lookups start at a chunk id that every installer of hints (writer and start-up loader) raises; (known findings) GC registers collisions only with merge=true, tombstone replay evicts by hash, the write-time version check ignores collisions, the collision table's positions are neither persisted on change nor revalidated",
		"C06": "(known findings) a hint file covering more than its data file holds is trusted at start-up; stale collision-table positions survive a kill",
		"C12": "an error exit of readRecordAt frees the record buffer unless the deferred cleanup already owns it",
	}
	for p, t := range clause {
		if pr := Registry[p]; pr != nil && !strings.Contains(pr.Clause, t) {
			pr.Clause += "; " + t
		}
	}
	// sharing, so that the property a change breaks raises the alarm itself
	addRule("C05", Rule{"C17.R2", "q", "shared: a pass runs only on the range the range check returned", c17r2})
	addRule("C05", Rule{"C17.R5", "q", "shared: the range ends below the file receiving client writes", c17r5})
	addRule("C06", Rule{"C02.R3", "q", "shared: append ⇒ hint with the appended position, inside the write critical section", c02r3})
	addRule("C06", Rule{"C01.R1", "q", "shared: index updates follow the append on its success edge", c01r1})
	addRule("C11", Rule{"C15.R6", "q", "shared: listing dispatch (a bad path is answered, not dereferenced)", c15r6})
}

// ---------------------------------------------------------------- C04.L10

// c04l10: dataChunk.flush detaches the flushed prefix by re-slicing
// `wbuf = wbuf[n:]`. The prefix `wbuf[:n]` is freed afterwards, outside the
// lock; any write into the shared backing array (a compaction by copy/append
// onto wbuf[:0]) would put records appended meanwhile among the ones being freed.
func c04l10(c *Ctx) {
	const R = "C04.L10"
	f := c.fn(R, "store.dataChunk.flush")
	if f == nil {
		return
	}
	info := f.Info()
	isWbuf := func(e ast.Expr) bool { k, _ := prog.FieldOf(info, prog.Unparen(e)); return k == "store.dataChunk.wbuf" }
	n := 0
	ast.Inspect(f.Decl.Body, func(x ast.Node) bool {
		switch s := x.(type) {
		case *ast.AssignStmt:
			for i, l := range s.Lhs {
				if isWbuf(l) && i < len(s.Rhs) {
					n++
					se, ok := prog.Unparen(s.Rhs[i]).(*ast.SliceExpr)
					c.check(ok && isWbuf(se.X) && se.Low != nil && se.High == nil && se.Max == nil, R, f.Key+": detach = wbuf[n:]", c.pos(s), "re-slice past the flushed prefix",
						"the write buffer is not simply advanced past the flushed prefix: whatever else is stored here shares (or overwrites) the backing array of the records that are freed next, so a record appended during the flush can be freed while it is still buffered")
				}
				if ie, ok := prog.Unparen(l).(*ast.IndexExpr); ok && isWbuf(ie.X) {
					n++
					c.viol(R, f.Key+": element of wbuf overwritten", c.pos(s), "the flusher overwrites an element of the write buffer")
				}
			}
		case *ast.CallExpr:
			if k := prog.CalleeKey(info, s); (k == "builtin.copy" || k == "builtin.append") && len(s.Args) > 0 {
				root := prog.Unparen(s.Args[0])
				if se, ok := root.(*ast.SliceExpr); ok {
					root = prog.Unparen(se.X)
				}
				if isWbuf(root) {
					n++
					c.viol(R, f.Key+": "+strings.TrimPrefix(k, "builtin.")+" into wbuf", c.pos(s), "the flusher moves records inside the write buffer's backing array while the flushed prefix, which aliases it, is about to be freed")
				}
			}
		}
		return true
	})
	if n == 0 {
		c.undec(R, f.Key, "no store to dataChunk.wbuf found in flush")
	}
}

// ---------------------------------------------------------------- C01.R14

// c01r14: on the branch of Bucket.get that hands out the fetched record, the
// payload's version is set from the index entry (tree slot or collision item):
// with check_vhash a revision-only update changes the index alone.
func c01r14(c *Ctx) {
	const R = "C01.R14"
	f := c.fn(R, "store.Bucket.get")
	if f == nil {
		return
	}
	info := f.Info()
	// the meta variable: result 0 of HTree.get
	var metaObj types.Object
	for _, call := range f.CallsTo("store.HTree.get") {
		metaObj = f.ResultObj(call.Expr, 0)
		if metaObj == nil {
			if l := f.ResultLhs(call.Expr, 0); l != nil {
				metaObj = prog.ObjOf(info, l)
			}
		}
	}
	if metaObj == nil {
		c.undec(R, f.Key, "result of HTree.get not bound to a variable")
		return
	}
	found := false
	var at ast.Node
	ast.Inspect(f.Decl.Body, func(x ast.Node) bool {
		as, ok := x.(*ast.AssignStmt)
		if !ok || len(as.Lhs) != 1 || len(as.Rhs) != 1 || as.Tok != token.ASSIGN {
			return true
		}
		lk, _ := prog.FieldOf(info, as.Lhs[0])
		rk, _ := prog.FieldOf(info, as.Rhs[0])
		if lk == "store.Meta.Ver" && rk == "store.Meta.Ver" && prog.RootObj(info, as.Rhs[0]) == metaObj && prog.RootObj(info, as.Lhs[0]) != metaObj {
			// guarded by the key comparison
			for _, a := range f.GuardsAt(as) {
				ok := false
				ast.Inspect(a.X, func(y ast.Node) bool {
					if call, isC := y.(*ast.CallExpr); isC {
						if k := prog.CalleeKey(info, call); k == "bytes.Compare" || k == "bytes.Equal" {
							ok = true
						}
					}
					return true
				})
				if ok {
					found, at = true, as
				}
			}
		}
		return true
	})
	pos := f.Pos()
	if at != nil {
		pos = c.pos(at)
	}
	c.check(found, R, f.Key+": payload.Ver = index version on the key-match branch", pos, "payload.Ver = meta.Ver",
		"the record handed out by Bucket.get keeps the version stored in the data file instead of the one in the index: after a revision-only update (check_vhash) meta-get reports, and incr continues from, a stale version")
}

// ---------------------------------------------------------------- C10.R11

// c10r11: a guard that makes a safe decompressor give up before it calls the
// decompressor is evaluated on the header values of well-formed streams; if it
// rejects one of them, values that were compressed by the server come back as
// compressed bytes. Witnesses (sizeDecompressed, sizeCompressed = len(src)):
// a compressible value, and incompressible values QuickLZ stores verbatim
// behind its 9-byte (3-byte for small inputs) header.
func c10r11(c *Ctx) {
	const R = "C10.R11"
	type wit struct{ d, cz int64 }
	wits := []wit{{1000, 300}, {100000, 20000}, {100000, 100009}, {5000, 5009}, {100, 103}, {300, 309}}
	for _, k := range []string{"quicklz.CDecompressSafe", "quicklz.DecompressSafe"} {
		f := c.fn(R, k)
		if f == nil {
			continue
		}
		info := f.Info()
		dcall := f.CallsTo("quicklz.CDecompress", "quicklz.Decompress")
		if len(dcall) == 0 {
			c.undec(R, f.Key, "decompress call not found")
			continue
		}
		classify := func(e ast.Expr) string {
			e = prog.Unparen(prog.StripConv(info, e))
			if call, ok := e.(*ast.CallExpr); ok {
				switch prog.CalleeKey(info, call) {
				case "builtin.len":
					if len(call.Args) == 1 && prog.ObjOf(info, call.Args[0]) == f.Param(0) {
						return "C"
					}
				case "quicklz.SizeCompressed":
					return "C"
				case "quicklz.SizeDecompressed":
					return "D"
				}
				return ""
			}
			if prog.ObjOf(info, e) == nil {
				return ""
			}
			kind := ""
			for _, s := range f.SourcesAt(e, e) {
				k := ""
				if s.Kind == "call" {
					switch s.Key {
					case "quicklz.SizeCompressed":
						k = "C"
					case "quicklz.SizeDecompressed":
						k = "D"
					}
				}
				if k == "" || (kind != "" && kind != k) {
					return ""
				}
				kind = k
			}
			return kind
		}
		var eval func(e ast.Expr, w wit) (constant.Value, bool)
		eval = func(e ast.Expr, w wit) (constant.Value, bool) {
			e = prog.Unparen(e)
			if tv, ok := info.Types[e]; ok && tv.Value != nil {
				return tv.Value, true
			}
			switch cl := classify(e); cl {
			case "C":
				return constant.MakeInt64(w.cz), true
			case "D":
				return constant.MakeInt64(w.d), true
			}
			switch x := e.(type) {
			case *ast.BinaryExpr:
				a, ok1 := eval(x.X, w)
				b, ok2 := eval(x.Y, w)
				if !ok1 || !ok2 {
					// short-circuit forms stay decidable when one side decides
					if x.Op == token.LOR || x.Op == token.LAND {
						for _, v := range []struct {
							v  constant.Value
							ok bool
						}{{a, ok1}, {b, ok2}} {
							if v.ok && v.v.Kind() == constant.Bool {
								if x.Op == token.LOR && constant.BoolVal(v.v) {
									return constant.MakeBool(true), true
								}
								if x.Op == token.LAND && !constant.BoolVal(v.v) {
									return constant.MakeBool(false), true
								}
							}
						}
					}
					return nil, false
				}
				switch x.Op {
				case token.LAND:
					return constant.MakeBool(constant.BoolVal(a) && constant.BoolVal(b)), true
				case token.LOR:
					return constant.MakeBool(constant.BoolVal(a) || constant.BoolVal(b)), true
				case token.EQL, token.NEQ, token.LSS, token.LEQ, token.GTR, token.GEQ:
					if a.Kind() == constant.Bool || b.Kind() == constant.Bool {
						return nil, false
					}
					return constant.MakeBool(constant.Compare(a, x.Op, b)), true
				case token.ADD, token.SUB, token.MUL:
					return constant.BinaryOp(a, x.Op, b), true
				}
			case *ast.UnaryExpr:
				if x.Op == token.NOT {
					if a, ok := eval(x.X, w); ok && a.Kind() == constant.Bool {
						return constant.MakeBool(!constant.BoolVal(a)), true
					}
				}
			case *ast.CallExpr:
				if tv, ok := info.Types[x.Fun]; ok && tv.IsType() && len(x.Args) == 1 {
					return eval(x.Args[0], w)
				}
			}
			return nil, false
		}
		n := 0
		ast.Inspect(f.Decl.Body, func(x ast.Node) bool {
			if _, isLit := x.(*ast.FuncLit); isLit {
				return false
			}
			is, ok := x.(*ast.IfStmt)
			if !ok || is.Pos() > dcall[0].Expr.Pos() || !f.Terminates(is.Body) {
				return true
			}
			n++
			bad := ""
			for _, w := range wits {
				if v, ok := eval(is.Cond, w); ok && v.Kind() == constant.Bool && constant.BoolVal(v) {
					bad = "sizeDecompressed=" + itoa(int(w.d)) + ", sizeCompressed=len(src)=" + itoa(int(w.cz))
					break
				}
			}
			c.check(bad == "", R, f.Key+": early exit `"+types.ExprString(is.Cond)+"` passes well-formed streams", c.pos(is), "false for every witness header",
				"the safe decompressor gives up on a well-formed stream ("+bad+"; incompressible input is stored behind a 9- or 3-byte header, so its compressed size exceeds its decompressed size): such values are returned to clients still compressed, with the internal flag bit set")
			return true
		})
		if n == 0 {
			c.undec(R, f.Key, "no early exit before the decompress call")
		}
	}
}

// ---------------------------------------------------------------- C11.R12

// c11r12: (a) every strconv.ParseInt/ParseUint in the request parser uses base
// 10 (the memcached protocol is decimal; base 0 reads `010` as 8 and frames
// the body wrongly); (b) the byte count reaches the size predicate, which works
// on 32 bits, only after it is known to fit: a wider parse result narrowed
// first lets 2^32+1 pass for 1.
func c11r12(c *Ctx) {
	const R = "C11.R12"
	f := c.fn(R, "memcache.Request.Read")
	if f == nil {
		return
	}
	info := f.Info()
	for _, call := range f.CallsTo("strconv.ParseInt", "strconv.ParseUint") {
		if len(call.Expr.Args) == 3 {
			v, isC := prog.ConstInt(info, call.Expr.Args[1])
			c.check(isC && v == 10, R, f.Key+": "+short(call.Key)+" base 10", call.Pos(), "decimal", "a numeric field of the command line is not parsed as a decimal number (base "+types.ExprString(call.Expr.Args[1])+"): zero-padded counts are read in another base and the body is framed wrongly")
		}
	}
	allocs := f.CallsTo("cmem.CArray.Alloc")
	if len(allocs) == 0 {
		c.undec(R, f.Key, "body allocation not found")
		return
	}
	al := allocs[0]
	length := prog.ObjOf(info, prog.Unparen(prog.StripConv(info, al.Expr.Args[0])))
	if length == nil {
		c.undec(R, f.Key, "allocation size is not a variable")
		return
	}
	// how wide is the parsed value?
	wide := false
	for _, s := range f.SourcesAt(al.Expr.Args[0], al.Expr) {
		if s.Kind != "call" {
			continue
		}
		switch s.Key {
		case "strconv.Atoi":
			wide = true
		case "strconv.ParseInt", "strconv.ParseUint":
			if len(s.Call.Args) == 3 {
				if b, isC := prog.ConstInt(info, s.Call.Args[2]); !isC || b == 0 || b > 32 {
					wide = true
				}
			}
		}
	}
	okFit := !wide
	if wide {
		// an upper bound on the un-narrowed value must hold at the allocation
		for _, a := range f.GuardsAt(al.Expr) {
			mentions := func(e ast.Expr) bool {
				e = prog.Unparen(prog.StripConv(info, e))
				return prog.ObjOf(info, e) == length
			}
			isBound := func(e ast.Expr) bool {
				if tv, ok := info.Types[e]; ok && tv.Value != nil {
					if v, exact := constant.Uint64Val(constant.ToInt(tv.Value)); exact && v <= 1<<32-1 {
						return true
					}
					return false
				}
				return prog.MentionsField(info, e, "config.MCConfig.BodyMax")
			}
			if prog.AtomCmp(a, token.LEQ, mentions, isBound) || prog.AtomCmp(a, token.LSS, mentions, isBound) {
				okFit = true
			}
		}
	}
	c.check(okFit, R, f.Key+": byte count known to fit 32 bits before it is narrowed for the size check", al.Pos(), "parsed narrow, or bounded on the wide value",
		"the byte count is parsed into a machine-word integer and validated only after a conversion to uint32: `set k 0 0 4294967297` passes as 1, the server allocates 4 GiB and waits for that many bytes (no reply, a request token held)")
}

// ---------------------------------------------------------------- C16.R6

var reCReturn = regexp.MustCompile(`return\s+([^;]*);`)

func c16r6(c *Ctx) {
	const R = "C16.R6"
	pre, path := crcPreamble(c)
	if pre == "" {
		c.undec(R, "store/crc32.go", "cgo preamble with crc32_write not found")
		return
	}
	i := strings.Index(pre, "crc32_write")
	if i < 0 {
		c.undec(R, "crc32_write", "C function not found in the preamble")
		return
	}
	j := strings.Index(pre[i:], "{")
	if j < 0 {
		c.undec(R, "crc32_write", "C function body not found")
		return
	}
	body := pre[i+j:]
	depth, end := 0, -1
	for k, ch := range body {
		if ch == '{' {
			depth++
		} else if ch == '}' {
			depth--
			if depth == 0 {
				end = k
				break
			}
		}
	}
	if end < 0 {
		c.undec(R, "crc32_write", "unbalanced braces in the C function")
		return
	}
	body = body[:end]
	rets := reCReturn.FindAllStringSubmatch(body, -1)
	if len(rets) == 0 {
		c.undec(R, "crc32_write", "no return statement recognised")
		return
	}
	bad := ""
	for _, r := range rets {
		if strings.TrimSpace(r[1]) != "crc" {
			bad = strings.TrimSpace(r[1])
		}
	}
	c.check(bad == "", R, "crc32_write: every return hands back the running register", path, "return crc", "crc32_write has an exit that returns `"+bad+"` instead of the running register: a chunk taking it (e.g. an empty value) resets the checksum of everything hashed before it")
}

// crcPreamble returns the cgo preamble of the file defining crc32_write (the
// original source file: the type-checked syntax is cgo's output).
func crcPreamble(c *Ctx) (string, string) {
	pk := c.P.ByName["store"]
	if pk == nil {
		return "", ""
	}
	for _, g := range pk.GoFiles {
		b, err := os.ReadFile(g)
		if err != nil || !strings.Contains(string(b), "crc32_write") {
			continue
		}
		fs := token.NewFileSet()
		af, err := parser.ParseFile(fs, g, b, parser.ParseComments)
		if err != nil {
			continue
		}
		for _, d := range af.Decls {
			gd, ok := d.(*ast.GenDecl)
			if !ok || gd.Tok != token.IMPORT || gd.Doc == nil {
				continue
			}
			for _, sp := range gd.Specs {
				if is, ok := sp.(*ast.ImportSpec); ok && is.Path.Value == `"C"` {
					if t := gd.Doc.Text(); strings.Contains(t, "crc32_write") {
						rel := g
						if strings.HasPrefix(g, c.P.Dir+"/") {
							rel = g[len(c.P.Dir)+1:]
						}
						return t, rel
					}
				}
			}
		}
	}
	return "", ""
}

// ---------------------------------------------------------------- C17.R9

// c17r9: gcCheckEnd decides whether file `next-1` is old enough by the time
// stamp of the first record of its successor `next` (everything in a file is
// older than the first record of the next one). The chunk whose time stamp is
// read must be the one whose on-disk size was just found positive, and a
// successor with nothing on disk is skipped unconditionally.
func c17r9(c *Ctx) {
	const R = "C17.R9"
	f := c.fn(R, "store.Bucket.gcCheckEnd")
	if f == nil {
		return
	}
	info := f.Info()
	ts := f.CallsTo("store.dataChunk.getFirstRecTs")
	sz := f.CallsTo("store.dataChunk.getDiskFileSize")
	if len(ts) != 1 || len(sz) == 0 {
		c.undec(R, f.Key, "calls of getFirstRecTs / getDiskFileSize not recognised")
		return
	}
	idx := func(call prog.Call) ast.Expr {
		se, ok := prog.Unparen(call.Expr.Fun).(*ast.SelectorExpr)
		if !ok {
			return nil
		}
		ie, ok := prog.Unparen(se.X).(*ast.IndexExpr)
		if !ok {
			return nil
		}
		return prog.Unparen(ie.Index)
	}
	ti, si := idx(ts[0]), idx(sz[0])
	var loopVar types.Object
	for _, a := range f.Enclosing(ts[0].Expr) {
		if fs, ok := a.(*ast.ForStmt); ok && fs.Init != nil {
			if as, ok := fs.Init.(*ast.AssignStmt); ok && len(as.Lhs) == 1 {
				loopVar = prog.ObjOf(info, as.Lhs[0])
			}
		}
	}
	same := ti != nil && si != nil && loopVar != nil && prog.ObjOf(info, ti) == loopVar && prog.ObjOf(info, si) == loopVar
	c.check(same, R, f.Key+": time stamp read from the successor whose disk size was tested", ts[0].Pos(), "chunks[next] in both",
		"the age of a file is no longer taken from the first record of its successor (the chunk passed to getFirstRecTs is not the loop's `next` whose on-disk size was tested): dating a file by one of its own records makes a file that still receives young records collectable")
	// the skip of an empty successor is unconditional
	okSkip := false
	ast.Inspect(f.Decl.Body, func(x ast.Node) bool {
		is, ok := x.(*ast.IfStmt)
		if !ok || len(f.CallsIn(is.Cond, "store.dataChunk.getDiskFileSize")) == 0 {
			return true
		}
		if len(is.Body.List) == 1 {
			if br, ok := is.Body.List[0].(*ast.BranchStmt); ok && br.Tok == token.CONTINUE {
				okSkip = true
			}
		}
		return true
	})
	c.check(okSkip, R, f.Key+": a successor with nothing on disk is skipped", f.Pos(), "if size <= 0 { continue }", "a successor without data on disk is not simply skipped: the age test then runs against a file that cannot date its predecessor")
}

// ---------------------------------------------------------------- C18.R7

// c18r7: AppendRecordGC keeps dataChunk.size >= dataChunk.writingHead: after
// the head advanced, size is raised to it whenever the head passed it. The
// final truncate (endGCWriting) and the in-place rewrite rely on it.
func c18r7(c *Ctx) {
	const R = "C18.R7"
	f := c.fn(R, "store.dataChunk.AppendRecordGC")
	if f == nil {
		return
	}
	info := f.Info()
	isHead := prog.IsField(info, "store.dataChunk.writingHead")
	isSize := prog.IsField(info, "store.dataChunk.size")
	var adv, set *ast.AssignStmt
	ast.Inspect(f.Decl.Body, func(x ast.Node) bool {
		as, ok := x.(*ast.AssignStmt)
		if !ok || len(as.Lhs) != 1 {
			return true
		}
		if isHead(prog.Unparen(as.Lhs[0])) && (as.Tok == token.ADD_ASSIGN || (as.Tok == token.ASSIGN && prog.MentionsField(info, as.Rhs[0], "store.dataChunk.writingHead"))) {
			adv = as
		}
		if isSize(prog.Unparen(as.Lhs[0])) && as.Tok == token.ASSIGN && isHead(prog.Unparen(as.Rhs[0])) {
			set = as
		}
		return true
	})
	if adv == nil || set == nil {
		c.viol(R, f.Key+": size follows the write head", f.Pos(), "AppendRecordGC no longer advances writingHead and raises size to it")
		return
	}
	gs := f.GuardsAt(set)
	ok := len(gs) == 0
	for _, a := range gs {
		h := func(e ast.Expr) bool { return isHead(prog.Unparen(e)) }
		s := func(e ast.Expr) bool { return isSize(prog.Unparen(e)) }
		if prog.AtomCmp(a, token.GEQ, h, s) || prog.AtomCmp(a, token.GTR, h, s) {
			ok = true
		}
	}
	after := f.CFG().Dominates(adv, set) || adv.Pos() < set.Pos()
	c.check(ok && after, R, f.Key+": size = writingHead whenever the advanced head passed it", c.pos(set), "if writingHead >= size { size = writingHead }",
		"the chunk size is not raised whenever the advanced write head passes it (the guard compares something other than the new head with the size): a multi-block record straddling the old end leaves size < writingHead, a later pass truncates too little or too much")
}

// ---------------------------------------------------------------- C13.R14

// c13r14: hintMgr.getItem / getItemCollision walk the chunks from maxChunkID
// downwards. Every function that installs hint items under a chunk id — the
// writer (setItem) and the start-up loader (loadHintsByChunk) — raises
// maxChunkID to that id, otherwise the chunks above it are invisible to the
// lookups that resolve colliding keys.
func c13r14(c *Ctx) {
	const R = "C13.R14"
	for _, k := range []string{"store.hintMgr.setItem", "store.hintMgr.loadHintsByChunk"} {
		f := c.fn(R, k)
		if f == nil {
			continue
		}
		info := f.Info()
		isMax := prog.IsField(info, "store.hintMgr.maxChunkID")
		var chunkParam types.Object
		sig := f.Obj.Type().(*types.Signature)
		for i := 0; i < sig.Params().Len(); i++ {
			if sig.Params().At(i).Name() == "chunkID" {
				chunkParam = sig.Params().At(i)
			}
		}
		ok := false
		var at ast.Node
		ast.Inspect(f.Decl.Body, func(x ast.Node) bool {
			as, isA := x.(*ast.AssignStmt)
			if !isA || len(as.Lhs) != 1 || as.Tok != token.ASSIGN || !isMax(prog.Unparen(as.Lhs[0])) {
				return true
			}
			if chunkParam != nil && prog.ObjOf(info, prog.Unparen(as.Rhs[0])) == chunkParam {
				for _, a := range f.GuardsAt(as) {
					if prog.AtomCmp(a, token.GTR, prog.IsObj(info, chunkParam), func(e ast.Expr) bool { return isMax(prog.Unparen(e)) }) {
						ok, at = true, as
					}
				}
			}
			return true
		})
		pos := f.Pos()
		if at != nil {
			pos = c.pos(at)
		}
		c.check(ok, R, f.Key+": maxChunkID raised to the chunk that received hints", pos, "if chunkID > maxChunkID { maxChunkID = chunkID }",
			"hints are installed under a chunk id without raising hintMgr.maxChunkID to it: getItem/getItemCollision start at maxChunkID, so until the next write the hints of the higher chunks are not searched and a key that shares its hash with a later key reads as a miss after a restart")
	}
	for _, k := range []string{"store.hintMgr.getItem", "store.hintMgr.getItemCollision"} {
		f := c.fn(R, k)
		if f == nil {
			continue
		}
		info := f.Info()
		ok := false
		ast.Inspect(f.Decl.Body, func(x ast.Node) bool {
			if fs, isF := x.(*ast.ForStmt); isF && fs.Init != nil {
				if as, isA := fs.Init.(*ast.AssignStmt); isA && len(as.Rhs) == 1 && prog.IsField(info, "store.hintMgr.maxChunkID")(prog.Unparen(as.Rhs[0])) {
					ok = true
				}
			}
			return true
		})
		c.check(ok, R, f.Key+": walk starts at maxChunkID", f.Pos(), "for i := maxChunkID; …", "the lookup no longer starts at the newest chunk that holds hints")
	}
}

// ================================================================ genuine defects found in round 5
// The rules below state necessary conditions that the UNCHANGED tree violates;
// each was confirmed by executing the failing history against the real code
// (probes kept under seeded/.incoming/_extras and repro/). They are listed in
// known_findings.json and printed as KNOWN-FINDING (DESIGN.md section 9.2).

func init() {
	addRule("C13", Rule{"C13.R15", "q", "every GC pass registers the collisions of its range before it drops records", c13r15})
	addRule("C03", Rule{"C13.R15", "q", "shared: every GC pass registers the collisions of its range before it drops records", c13r15})
	addRule("C13", Rule{"C13.R16", "q", "replay of a tombstone removes only its own key's slot", c13r16})
	addRule("C13", Rule{"C13.R17", "q", "the version arbitration of a write reads its own key's entry", c13r17})
	addRule("C13", Rule{"C13.R18", "q", "collision-table positions are persisted when they change or revalidated when loaded", c13r18})
	addRule("C06", Rule{"C13.R18", "q", "shared: collision-table positions are persisted when they change or revalidated when loaded", c13r18})
	addRule("C04", Rule{"C04.L11", "q", "read-time collision registration is serialised with writers", c04l11})
	addRule("C13", Rule{"C04.L11", "q", "shared: read-time collision registration is serialised with writers", c04l11})
	addRule("C06", Rule{"C06.R9", "q", "hints that claim more data than the file holds are not trusted", c06r9})
	addRule("C11", Rule{"C11.R13", "q", "the data block of a refused storage command is consumed or the connection closed", c11r13})
}

// c13r15: GC decides "not the newest ⇒ drop" for a record whose hash slot in
// the tree belongs to another position. That is only sound if every pair of
// keys sharing a hash inside the range is in the collision table (or in the
// hint buffers written since the pass began); the table is completed by the
// hint merge, so the merge must run before every pass.
func c13r15(c *Ctx) {
	const R = "C13.R15"
	f := c.fn(R, "store.GCMgr.BeforeBucket")
	if f == nil {
		return
	}
	calls := f.CallsTo("store.hintMgr.Merge")
	if len(calls) == 0 {
		c.viol(R, f.Key+": hint merge (collision registration) on every pass", f.Pos(), "BeforeBucket never merges the hints: no GC pass registers unregistered collisions")
		return
	}
	uncond := false
	for _, call := range calls {
		if len(f.GuardsAt(call.Expr)) == 0 {
			uncond = true
		}
	}
	c.check(uncond, R, f.Key+": hint merge (collision registration) on every pass", calls[0].Pos(), "unconditional",
		"the hint merge that registers same-hash key groups in the collision table runs only when the request asks for it (`merge`): a pass with merge=false treats the older of two never-read colliding keys as superseded and drops its only record")
}

// c13r16: the tree has one slot per key hash. Replaying the tombstone of key B
// must not evict the slot when it belongs to a live key A with the same hash.
func c13r16(c *Ctx) {
	const R = "C13.R16"
	f := c.fn(R, "store.Bucket.updateHtreeFromHint")
	if f == nil {
		return
	}
	info := f.Info()
	rem := f.CallsTo("store.HTree.remove")
	if len(rem) == 0 {
		c.undec(R, f.Key, "tombstone branch (HTree.remove) not found")
		return
	}
	for _, call := range rem {
		// unconditional removal: the position handed over has ChunkID == -1
		uncond := false
		if len(call.Expr.Args) == 2 {
			for _, s := range f.SourcesOfField(call.Expr.Args[1], "ChunkID", call.Expr) {
				if s.Kind == "const" && s.Expr != nil {
					if v, ok := prog.ConstInt(info, s.Expr); ok && v == -1 {
						uncond = true
					}
				}
			}
		}
		keyed := false
		for _, a := range f.GuardsAt(call.Expr) {
			ast.Inspect(a.X, func(x ast.Node) bool {
				if ce, ok := x.(*ast.CallExpr); ok {
					k := prog.CalleeKey(info, ce)
					if strings.Contains(k, "CollisionTable") || strings.Contains(k, "bytes.") || strings.Contains(k, "hintMgr.get") {
						keyed = true
					}
				}
				return true
			})
		}
		c.check(!uncond || keyed, R, f.Key+": tombstone replay removes the slot of its own key only", call.Pos(), "removal keyed on the owner",
			"the replay of a delete record removes whatever entry sits in the key hash's slot (position with ChunkID -1 = unconditional, no look at the collision table or the owner's key): after a rebuild from hints a live key that shares its hash with a deleted one is unreadable")
	}
}

// c13r17: checkAndSet/incr read the old version with Bucket.get(ki, memOnly =
// true). That path must not hand out the tree slot of another key.
func c13r17(c *Ctx) {
	const R = "C13.R17"
	f := c.fn(R, "store.Bucket.get")
	if f == nil {
		return
	}
	info := f.Info()
	memOnly := f.Param(1)
	var ret *ast.ReturnStmt
	for _, r := range f.CFG().Returns() {
		if prog.HasBoolFact(f.GuardsAt(r), prog.IsObj(info, memOnly), true) {
			ret = r
		}
	}
	if ret == nil {
		c.undec(R, f.Key, "memOnly return not found")
		return
	}
	cmp := f.CallsTo("bytes.Compare", "bytes.Equal")
	dominated := false
	for _, k := range cmp {
		if f.CFG().Dominates(k.Expr, ret) {
			dominated = true
		}
	}
	// or: the meta comes from a collision-aware source for this key only
	c.check(dominated, R, f.Key+": memOnly result belongs to the requested key", c.pos(ret), "key compared before the meta is handed out",
		"with memOnly the tree slot's version is returned without comparing the slot's key with the requested key (`omit collision`): the version arbitration of a write to key B runs against colliding key A's entry — e.g. after `delete A`, `delete B` is answered NOT_FOUND and B stays readable")
}

// c13r18: Bucket.get takes a colliding key's position from the collision table
// before it looks at the tree. The table is written to disk only by the hint
// merge and by close; positions changed afterwards (client writes, GC moves)
// are lost by a kill, and the loaded positions are used without a check.
func c13r18(c *Ctx) {
	const R = "C13.R18"
	callers := map[string]bool{}
	for _, call := range c.P.CallersOf("store.hintMgr.dumpCollisions") {
		callers[call.Fn.Key] = true
	}
	// writers of table positions
	persisted := true
	var missing []string
	for _, w := range []string{"store.hintMgr.set", "store.GCMgr.UpdateCollision", "store.Bucket.get"} {
		f := c.P.F(w)
		if f == nil {
			continue
		}
		c.Funcs[w] = true
		if len(f.CallsTo("store.CollisionTable.compareAndSet")) == 0 && w != "store.GCMgr.UpdateCollision" {
			continue
		}
		if !callers[w] {
			persisted = false
			missing = append(missing, short(w))
		}
	}
	revalidated := false
	if f := c.P.F("store.Bucket.open"); f != nil {
		c.Funcs[f.Key] = true
		for _, call := range f.CallsTo("store.hintMgr.loadCollisions") {
			_ = call
			// a revalidation would read the records or hints of the loaded entries
			if lf := c.P.F("store.CollisionTable.load"); lf != nil {
				if len(lf.CallsTo("store.dataStore.GetRecordByPos", "store.hintMgr.getItem")) > 0 {
					revalidated = true
				}
			}
		}
	}
	c.check(persisted || revalidated, R, "collision table: positions durable or revalidated", "store/collision.go", "dump after change, or check at load",
		"positions in the collision table change in "+strings.Join(missing, ", ")+" without the table being written out (only Merge and close dump it), and Bucket.open loads collision.yaml without checking the entries against hints or data: after a kill (or a GC followed by a kill) a colliding key is served from its stale table position — an older value, or another record")
}

// c04l11: when Bucket.get finds that the slot belongs to another key it looks
// the wanted key up in the hints and inserts what it found into the collision
// table. A writer of that key skips the table while the hash is not in it; if
// it runs between the lookup and the insert, the insert publishes the older
// position over the acknowledged write.
func c04l11(c *Ctx) {
	const R = "C04.L11"
	f := c.fn(R, "store.Bucket.get")
	if f == nil {
		return
	}
	cas := f.CallsTo("store.CollisionTable.compareAndSet")
	if len(cas) == 0 {
		c.undec(R, f.Key, "read-time registration (compareAndSet) not found")
		return
	}
	all := true
	ls := ""
	for _, call := range cas {
		h, s := holds(c, f, call.Expr, lkWrite)
		ls = s
		if !h {
			all = false
		}
	}
	c.check(all, R, f.Key+": read-time collision registration under Bucket.writeLock", cas[0].Pos(), "lockset "+ls,
		"Bucket.get inserts the hint item it looked up into the collision table without the bucket write lock (lockset "+ls+"): a set of the same key acknowledged between the lookup and the insert is shadowed by the older position — stale read, and the next write continues from the old version")
}

// c06r9: a hint split is dumped when it is full, independently of the data
// flusher, so after a kill a hint file can claim more data than the data file
// holds. Start-up must not trust such a file.
func c06r9(c *Ctx) {
	const R = "C06.R9"
	f := c.fn(R, "store.Bucket.checkHintWithData")
	if f == nil {
		return
	}
	info := f.Info()
	ld := f.CallsTo("store.hintMgr.loadHintsByChunk")
	if len(ld) == 0 {
		c.undec(R, f.Key, "loadHintsByChunk not called")
		return
	}
	hsz := f.ResultObj(ld[0].Expr, 0)
	handled := false
	ast.Inspect(f.Decl.Body, func(x ast.Node) bool {
		if be, ok := x.(*ast.BinaryExpr); ok && hsz != nil {
			l, r := prog.ObjOf(info, prog.Unparen(be.X)), prog.ObjOf(info, prog.Unparen(be.Y))
			isSize := func(e ast.Expr) bool {
				for _, s := range f.SourcesAt(e, be) {
					if prog.MentionsField(info, s.Expr, "store.dataChunk.size") || strings.HasSuffix(s.Field, "size") {
						return true
					}
				}
				return false
			}
			if (l == hsz && isSize(be.Y) && (be.Op == token.GTR || be.Op == token.NEQ)) || (r == hsz && isSize(be.X) && (be.Op == token.LSS || be.Op == token.NEQ)) {
				handled = true
			}
		}
		return true
	})
	c.check(handled, R, f.Key+": hint coverage beyond the end of the data file is handled", ld[0].Pos(), "hintDataSize > size ⇒ distrust",
		"start-up compares the hints' data coverage with the data file only for `<`: a hint split dumped before the records it describes were flushed (a split is dumped when full, the data flusher runs on its own clock) survives a kill and is trusted, so its keys point past the end of the file — gets fail although an older, durable value exists")
}

// c11r13: after the command line of a storage command was accepted far enough
// to know the byte count, refusing the command (value too large, flush buffer
// full) leaves the data block in the stream; it is then parsed as commands.
func c11r13(c *Ctx) {
	const R = "C11.R13"
	rd := c.fn(R, "memcache.Request.Read")
	so := c.fn(R, "memcache.ServerConn.ServeOnce")
	if rd == nil || so == nil {
		return
	}
	info := rd.Info()
	n := 0
	for _, r := range rd.CFG().Returns() {
		if len(r.Results) != 1 {
			continue
		}
		o := prog.ObjOf(info, r.Results[0])
		if o == nil || (o.Name() != "ErrValueTooLarge" && o.Name() != "ErrOOM") {
			continue
		}
		n++
		// consumed in Read?
		consumed := false
		for _, s := range enclosingList(rd, r) {
			if s.Pos() < r.Pos() && len(rd.CallsIn(s, "bufio.Reader.Discard", "io.CopyN", "io.ReadFull")) > 0 {
				consumed = true
			}
		}
		// or closed by the server loop for that error
		closed := false
		sinfo := so.Info()
		for _, call := range so.CallsTo("memcache.ServerConn.Shutdown") {
			for _, a := range so.GuardsAt(call.Expr) {
				if a.Op == token.EQL && (prog.ObjOf(sinfo, a.Y) != nil && prog.ObjOf(sinfo, a.Y).Name() == o.Name()) {
					closed = true
				}
			}
		}
		c.check(consumed || closed, R, rd.Key+": "+o.Name()+" ⇒ data block consumed or connection closed", c.pos(r), "discard / shutdown",
			"a storage command refused with "+o.Name()+" after its byte count was read leaves its data block in the stream: the block is parsed as further commands, the client receives extra error replies and every later reply is shifted")
	}
	if n == 0 {
		c.undec(R, rd.Key, "no refusal (ErrValueTooLarge / ErrOOM) found in Read")
	}
}
