#!/bin/sh
# usage: ./check.sh <property-id> <quick|thorough>
# Rebuilds the checker (incremental, offline) and analyses /repo's current working tree.
set -e
cd "$(dirname "$0")"
export GOFLAGS=-mod=mod GOPROXY=off GOSUMDB=off GOTOOLCHAIN=local
unset GOWORK
( cd checker && go build -o ../bin/gbcheck ./cmd/gbcheck ) >&2
exec ./bin/gbcheck -verif "$(pwd)" -repo "${VERIF_REPO:-/repo}" -property "$1" -tier "${2:-quick}"
