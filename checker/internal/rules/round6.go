package rules

import (
	"go/ast"
	"go/token"
	"go/types"
	"strings"

	"gbcheck/internal/prog"
)

// Rules added after round 6 of independently seeded changes (DESIGN.md 10.6).

func init() {
	addRule("C12", Rule{"C12.R11", "q", "no read of a buffer's bytes after its Free on the same path", c12r11})
	addRule("C01", Rule{"C12.R11", "q", "shared: no read of a buffer's bytes after its Free on the same path", c12r11})
	addRule("C13", Rule{"C13.R19", "q", "the buffer walk of getItemCollision reports a collision it has seen when it stops", c13r19})
	addRule("C05", Rule{"C13.R19", "q", "shared: the buffer walk of getItemCollision reports a collision it has seen when it stops", c13r19})
	addRule("C09", Rule{"C09.R10", "q", "a record's key is copied out of the read buffer", c09r10})
	addRule("C11", Rule{"C11.R14", "q", "noreply is an optional field behind the mandatory ones", c11r14})
	addRule("C12", Rule{"C12.R12", "q", "CleanBuffer releases GetData for exactly the keys whose fetch acquired it", c12r12})
	addRule("C14", Rule{"C14.R19", "q", "every item handed out by the hint file reader is a fresh object", c14r19})
	addRule("C13", Rule{"C14.R19", "q", "shared: every item handed out by the hint file reader is a fresh object", c14r19})
	addRule("C03", Rule{"C17.R4", "q", "shared: destination is the range start or the nearest earlier file", c17r4})
	addRule("C06", Rule{"C09.R4", "q", "shared: block size agreement of writer and rebuild scanner", c09r4})
	clause := map[string]string{
		"C12": "nothing reads a buffer's bytes on a path that already freed it; CleanBuffer releases GetData under the key predicate under which the fetch acquired it",
		"C01": "nothing reads a buffer's bytes on a path that already freed it",
		"C13": "the newest-first buffer walk reports a collision it has seen when it stops; hint file readers hand out fresh items",
		"C09": "a record's key is a copy, not a slice of the payload buffer",
		"C11": "noreply is recognised only behind the mandatory fields (constant bound)",
		"C14": "hint file readers hand out fresh items",
		"C02": "the start-up scan loops return reader errors, stop at the end of input and prepare / position each entry before applying it; close forces its flushes",
		"C06": "the start-up scan loops return reader errors and stop at the end of input",
		"C10": "the compressor is never reached with an empty body",
	}
	for p, t := range clause {
		if pr := Registry[p]; pr != nil && !strings.Contains(pr.Clause, t) {
			pr.Clause += "; " + t
		}
	}
}

// c12r11: after `x.Free()` (cmem.CArray.Free, also through the embedding
// Payload / Item) nothing on a path from that call reads `x.Body` again:
// Free releases and nils a C-allocated body, so the read sees an empty value
// (or, for a copied slice header, freed memory).
func c12r11(c *Ctx) {
	const R = "C12.R11"
	n := 0
	for _, f := range c.P.SortedFuncs() {
		if f.Pkg.Name == "cmem" {
			continue
		}
		info := f.Info()
		frees := f.CallsTo("cmem.CArray.Free")
		if len(frees) == 0 {
			continue
		}
		for _, fr := range frees {
			se, ok := prog.Unparen(fr.Expr.Fun).(*ast.SelectorExpr)
			if !ok {
				continue
			}
			root := prog.RootObj(info, se.X)
			if root == nil {
				continue
			}
			// deferred frees run at exit
			deferred := false
			for _, a := range f.Enclosing(fr.Expr) {
				if _, isD := a.(*ast.DeferStmt); isD {
					deferred = true
				}
				if _, isL := a.(*ast.FuncLit); isL {
					deferred = true // a closure: runs elsewhere
				}
			}
			if deferred {
				continue
			}
			ownerPath := prog.FieldPath(info, se.X)
			n++
			c.Funcs[f.Key] = true
			bad := ""
			cfg := f.CFGFor(fr.Expr)
			ast.Inspect(f.Decl.Body, func(x ast.Node) bool {
				use, ok := x.(*ast.SelectorExpr)
				if !ok || use.Sel.Name != "Body" || bad != "" {
					return true
				}
				k, _ := prog.FieldOf(info, use)
				if k != "cmem.CArray.Body" || prog.RootObj(info, use.X) != root {
					return true
				}
				// same owner path (x.CArray.Free() vs x.Body through embedding: compare the
				// path up to the embedded CArray)
				up := prog.FieldPath(info, use.X)
				if !(up == ownerPath || strings.HasPrefix(ownerPath, up) || strings.HasPrefix(up, ownerPath)) {
					return true
				}
				if use.Pos() < fr.Expr.End() && !inLoopWith(f, use, fr.Expr) {
					return true
				}
				// a store to Body is not a read
				if as, isA := f.Parent(use).(*ast.AssignStmt); isA {
					for _, l := range as.Lhs {
						if l == ast.Expr(use) {
							return true
						}
					}
				}
				c.Paths++
				if cfg != nil && cfg.ReachesWithout(fr.Expr, use, func(y ast.Node) bool {
					// re-assignment of the owner revives it
					if as, isA := y.(*ast.AssignStmt); isA {
						for _, l := range as.Lhs {
							if prog.RootObj(info, l) == root && !strings.Contains(prog.FieldPath(info, l), "Body") {
								if p := prog.FieldPath(info, l); p == "" || strings.HasPrefix(ownerPath, p) {
									return true
								}
							}
						}
					}
					return false
				}) {
					bad = c.pos(use)
				}
				return true
			})
			c.check(bad == "", R, f.Key+": no read of "+types.ExprString(se.X)+".Body after its Free", fr.Pos(), "none reachable",
				"the bytes of a buffer are read at "+bad+" on a path that has already called Free on it: for a value kept in C memory the body is gone (length 0 / freed memory), so the reply reports a wrong length or content")
		}
	}
	if n < 5 {
		c.undec(R, "cmem.CArray.Free", "fewer than 5 direct Free calls found")
	}
}

func inLoopWith(f *prog.Func, a, b ast.Node) bool {
	for _, x := range f.Enclosing(a) {
		switch x.(type) {
		case *ast.ForStmt, *ast.RangeStmt:
			if x.Pos() <= b.Pos() && b.End() <= x.End() {
				return true
			}
		}
	}
	return false
}

// c13r19: hintChunk.getItemCollision walks the splits newest-first and stops at
// the first split that was already dumped. A collision seen in a newer,
// still-buffered split must be part of what it returns at that point: GC
// relies on it to keep the other key's record.
func c13r19(c *Ctx) {
	const R = "C13.R19"
	f := c.fn(R, "store.hintChunk.getItemCollision")
	if f == nil {
		return
	}
	info := f.Info()
	sig := f.Obj.Type().(*types.Signature)
	ci := -1
	for i := 0; i < sig.Results().Len(); i++ {
		if sig.Results().At(i).Name() == "collision" || (sig.Results().At(i).Type().String() == "bool" && ci < 0 && i >= 2) {
			ci = i
			if sig.Results().At(i).Name() == "collision" {
				break
			}
		}
	}
	if ci < 0 {
		c.undec(R, f.Key, "collision result not identified")
		return
	}
	n := 0
	for _, r := range f.CFG().Returns() {
		if len(r.Results) == 0 {
			n++
			// named results: whatever was accumulated is returned
			c.ok(R, f.Key+": exit returns the named results", c.pos(r), "bare return")
			continue
		}
		if ci >= len(r.Results) {
			continue
		}
		n++
		// inside the loop (or after it), a literal `false` forgets what an earlier iteration saw
		inLoop := false
		for _, a := range f.Enclosing(r) {
			if _, ok := a.(*ast.ForStmt); ok {
				inLoop = true
			}
		}
		v, isC := prog.ConstBool(info, r.Results[ci])
		c.check(!(isC && !v && inLoop), R, f.Key+": exits inside the walk report the collision seen so far", c.pos(r), "the accumulated flag",
			"an exit inside the newest-first walk returns collision=false as a constant: a collision found in a newer, still-buffered split is forgotten when the walk stops at an already dumped split, GC takes the other key's record for garbage and drops it")
	}
	if n == 0 {
		c.undec(R, f.Key, "no return found")
	}
}

// c09r10: readRecordAt reads key and value into one buffer that becomes the
// payload's buffer (freed by Decompress / Free). The record's key must be a
// copy of its own.
func c09r10(c *Ctx) {
	const R = "C09.R10"
	f := c.fn(R, "store.readRecordAt")
	if f == nil {
		return
	}
	info := f.Info()
	var last *ast.AssignStmt
	ast.Inspect(f.Decl.Body, func(x ast.Node) bool {
		if as, ok := x.(*ast.AssignStmt); ok && len(as.Lhs) == 1 {
			if k, _ := prog.FieldOf(info, as.Lhs[0]); k == "store.Record.Key" {
				if last == nil || as.Pos() > last.Pos() {
					last = as
				}
			}
		}
		return true
	})
	if last == nil {
		c.undec(R, f.Key, "no assignment of the record key")
		return
	}
	fresh := false
	if call, ok := prog.Unparen(last.Rhs[0]).(*ast.CallExpr); ok {
		k := prog.CalleeKey(info, call)
		fresh = k == "builtin.make" || k == "builtin.append" || k == "bytes.Clone" || k == "conv"
		if k == "builtin.append" && len(call.Args) > 0 {
			// append([]byte(nil), …) / append([]byte{}, …)
			_, isLit := prog.Unparen(call.Args[0]).(*ast.CompositeLit)
			fresh = isLit || prog.IsNil(info, prog.StripConv(info, call.Args[0]))
		}
	}
	c.check(fresh, R, f.Key+": the key handed out is a copy", c.pos(last), "make + copy",
		"the key of the record returned by readRecordAt is a slice of the read buffer, which is the payload's buffer: Decompress or Free of the payload releases it, and the key (used for the key gate, hints and GC) dangles for records kept in C memory")
}

// c11r14: `noreply` is an optional trailing field. The flag may only be set when
// the line has more fields than the mandatory ones — a constant bound — so that
// a key that happens to be "noreply" is not taken for the option.
func c11r14(c *Ctx) {
	const R = "C11.R14"
	f := c.fn(R, "memcache.Request.Read")
	if f == nil {
		return
	}
	info := f.Info()
	n := 0
	ast.Inspect(f.Decl.Body, func(x ast.Node) bool {
		as, ok := x.(*ast.AssignStmt)
		if !ok || len(as.Lhs) != 1 || len(as.Rhs) != 1 {
			return true
		}
		if k, _ := prog.FieldOf(info, as.Lhs[0]); k != "memcache.Request.NoReply" {
			return true
		}
		if v, isC := prog.ConstBool(info, as.Rhs[0]); isC && !v {
			return true
		}
		n++
		rhs := as.Rhs[0]
		// a boolean local: read through its definition
		if o := prog.ObjOf(info, prog.Unparen(rhs)); o != nil {
			for _, d := range f.DefsOfPath(prog.Unparen(rhs)) {
				if d.Rhs != nil {
					rhs = d.Rhs
				}
			}
		}
		okBound := false
		for _, a := range append(prog.Decompose(rhs, true, as), f.GuardsAt(as)...) {
			isLen := func(e ast.Expr) bool {
				call, ok := prog.Unparen(e).(*ast.CallExpr)
				return ok && prog.CalleeKey(info, call) == "builtin.len"
			}
			bound := func(min int64) func(ast.Expr) bool {
				return func(e ast.Expr) bool {
					v, isC := prog.ConstInt(info, e)
					return isC && v >= min
				}
			}
			if prog.AtomCmp(a, token.GTR, isLen, bound(2)) || prog.AtomCmp(a, token.GEQ, isLen, bound(3)) || prog.AtomCmp(a, token.EQL, isLen, bound(3)) {
				okBound = true
			}
		}
		c.check(okBound, R, f.Key+": NoReply set only with more than the mandatory fields", c.pos(as), "len(parts) > k, k constant",
			"the noreply flag is set without a constant lower bound on the number of fields: a command whose last mandatory field (e.g. the key of `delete noreply`) is the word noreply is executed but never answered")
		return true
	})
	if n < 3 {
		c.undec(R, f.Key, "fewer than 3 noreply assignments found")
	}
}

// c12r12: StorageClient.Get/GetMulti account one GetData unit for every item of
// an ordinary key and none for '@' / '?' keys; Response.CleanBuffer has to use
// the same predicate (the key), not a property of the buffer.
func c12r12(c *Ctx) {
	const R = "C12.R12"
	f := c.fn(R, "memcache.Response.CleanBuffer")
	if f == nil {
		return
	}
	info := f.Info()
	var keyObj types.Object
	ast.Inspect(f.Decl.Body, func(x ast.Node) bool {
		if r, ok := x.(*ast.RangeStmt); ok && r.Key != nil {
			if k, _ := prog.FieldOf(info, r.X); k == "memcache.Response.Items" {
				keyObj = prog.ObjOf(info, r.Key)
			}
		}
		return true
	})
	n := 0
	for _, call := range f.Calls() {
		if cls, d, ok := c12events(f, call.Expr); ok && cls == "G" && d < 0 {
			n++
			gs := f.GuardsAt(call.Expr)
			okKey := keyObj != nil && len(gs) > 0
			for _, a := range gs {
				m := false
				for _, e := range []ast.Expr{a.X, a.Y} {
					if e != nil && keyObj != nil && prog.Mentions(info, e, keyObj) {
						m = true
					}
				}
				if !m {
					okKey = false
				}
			}
			c.check(okKey, R, f.Key+": GetData released under the key predicate", call.Pos(), "key[0] != '@' && key[0] != '?'",
				"the GetData unit of a fetched item is released under a condition that is not the key's class (e.g. the buffer's capacity): items whose body lives on the Go heap were counted with size 0 and are never taken back, GetData.Count grows with every buffered small get")
		}
	}
	if n == 0 {
		c.undec(R, f.Key, "no GetData release found")
	}
}

// c14r19: hintFileReader.next returns a new HintItem each time. The merge keeps
// whole same-hash groups (and the heap keeps one item per source) alive across
// calls, so an item must never be overwritten by a later call.
func c14r19(c *Ctx) {
	const R = "C14.R19"
	f := c.fn(R, "store.hintFileReader.next")
	if f == nil {
		return
	}
	info := f.Info()
	item := f.Result(0)
	n := 0
	check := func(rhs ast.Expr, at ast.Node) {
		n++
		rhs = prog.Unparen(rhs)
		ok := prog.IsNil(info, rhs)
		if call, isC := rhs.(*ast.CallExpr); isC && prog.CalleeKey(info, call) == "builtin.new" {
			ok = true
		}
		if u, isU := rhs.(*ast.UnaryExpr); isU && u.Op == token.AND {
			if _, isLit := prog.Unparen(u.X).(*ast.CompositeLit); isLit {
				ok = true
			}
		}
		c.check(ok, R, f.Key+": item = new(HintItem)", c.pos(at), "fresh allocation", "the item returned by the hint file reader is not a fresh object ("+types.ExprString(rhs)+"): a later call overwrites an item the merge still holds in its same-hash group buffer or heap, keys vanish from the merged file and stale entries are written twice")
	}
	ast.Inspect(f.Decl.Body, func(x ast.Node) bool {
		switch s := x.(type) {
		case *ast.AssignStmt:
			for i, l := range s.Lhs {
				if item != nil && prog.ObjOf(info, l) == item && i < len(s.Rhs) && len(s.Rhs) == len(s.Lhs) {
					check(s.Rhs[i], s)
				}
			}
		case *ast.ReturnStmt:
			if len(s.Results) > 0 {
				if o := prog.ObjOf(info, prog.Unparen(s.Results[0])); o != nil && o != item {
					for _, d := range f.DefsOfPath(prog.Unparen(s.Results[0])) {
						if d.Rhs != nil {
							check(d.Rhs, s)
						}
					}
				} else if o == nil {
					check(s.Results[0], s)
				}
			}
		}
		return true
	})
	if n == 0 {
		c.undec(R, f.Key, "no definition of the returned item found")
	}
}

func init() {
	addRule("C10", Rule{"C10.R12", "q", "the compressor is never handed an empty body", c10r12})
	addRule("C11", Rule{"C10.R12", "q", "shared: the compressor is never handed an empty body (a contained panic, no reply)", c10r12})
}

// c10r12: quicklz.CCompress takes &src[0]. Whether a record is compressed is
// decided on the size of the whole record (key included), so a long key with an
// empty value reaches the compressor unless the body's length is tested.
func c10r12(c *Ctx) {
	const R = "C10.R12"
	n := 0
	for _, f := range c.P.SortedFuncs() {
		if f.Pkg.Name == "quicklz" {
			continue
		}
		info := f.Info()
		for _, call := range f.CallsTo("quicklz.CCompress") {
			n++
			c.Funcs[f.Key] = true
			arg := prog.Unparen(call.Expr.Args[0])
			roots := map[types.Object]bool{}
			if o := prog.ObjOf(info, arg); o != nil {
				roots[o] = true
				for _, d := range f.DefsOfPath(arg) {
					if d.Rhs != nil {
						r := prog.Unparen(d.Rhs)
						if se, ok := r.(*ast.SliceExpr); ok {
							r = prog.Unparen(se.X)
						}
						if o2 := prog.ObjOf(info, r); o2 != nil {
							roots[o2] = true
						}
					}
				}
			}
			ok := false
			for _, a := range f.GuardsAt(call.Expr) {
				isLen := func(e ast.Expr) bool {
					ce, isC := prog.Unparen(e).(*ast.CallExpr)
					if !isC || prog.CalleeKey(info, ce) != "builtin.len" || len(ce.Args) != 1 {
						return false
					}
					x := prog.Unparen(ce.Args[0])
					if o := prog.ObjOf(info, x); o != nil && roots[o] {
						return true
					}
					k, _ := prog.FieldOf(info, x)
					return k == "cmem.CArray.Body"
				}
				if prog.AtomCmp(a, token.GTR, isLen, prog.IsIntConst(info, 0)) || prog.AtomCmp(a, token.NEQ, isLen, prog.IsIntConst(info, 0)) || prog.AtomCmp(a, token.GEQ, isLen, prog.IsIntConst(info, 1)) {
					ok = true
				}
				// len(body) > N with N >= 0 on the path (second call under len(body) > len(try))
				if a.Op == token.GTR && isLen(a.X) {
					ok = true
				}
			}
			c.check(ok, R, f.Key+": CCompress("+types.ExprString(arg)+") only with a non-empty body", call.Pos(), "len(body) > 0 on every path",
				"the compressor, which takes the address of the first byte, is reachable with an empty body: `set <240-byte key> 0 0 0` makes the record larger than a block, TryCompress calls CCompress on zero bytes and panics — the panic is contained, the client gets no STORED and the connection is closed")
		}
	}
	if n == 0 {
		c.undec(R, "quicklz.CCompress", "no call site found")
	}
}

// ---------------------------------------------------------------- start-up scan loops (from the mutation sweep)

func init() {
	for _, p := range []string{"C02", "C06", "C07"} {
		d := "start-up scan loops: errors are returned, end of input ends the loop, each entry is prepared and positioned before it is applied"
		if p != "C02" {
			d = "shared: " + d
		}
		addRule(p, Rule{"C02.R12", "q", d, c02r12})
	}
}

// c02r12: the two loops that rebuild the indexes at start-up —
// Bucket.updateHtreeFromHint (replay of a hint file into the tree) and
// Bucket.buildHintFromData (scan of a data file into hints) — must
//   (a) return the reader's error (the caller fail-stops on it),
//   (b) leave the loop when the reader reports the end (nil item / record),
//   (c) replay: prepare the key path before touching the tree, give the entry the
//       chunk being replayed before tree.set and the "remove whatever is there"
//       position (-1) before tree.remove, in the same iteration,
//   (d) replay: report the data coverage recorded in the hint file.
// These were found as surviving mutants of a syntactic mutation sweep (gbmut).
func c02r12(c *Ctx) {
	const R = "C02.R12"
	type loopSpec struct {
		fn, next string
		errIdx   int
	}
	for _, sp := range []loopSpec{{"store.Bucket.updateHtreeFromHint", "store.hintFileReader.next", 1}, {"store.Bucket.buildHintFromData", "store.DataStreamReader.Next", 3}} {
		f := c.fn(R, sp.fn)
		if f == nil {
			continue
		}
		info := f.Info()
		nx := f.CallsTo(sp.next)
		if len(nx) != 1 {
			c.undec(R, f.Key, "reader call not found exactly once")
			continue
		}
		errRes := f.Result(len(resultsOf(f)) - 1)
		eObj := f.ResultObj(nx[0].Expr, sp.errIdx)
		itObj := f.ResultObj(nx[0].Expr, 0)
		// (a) error branch: assigns the named error result (or returns it explicitly) and returns
		okErr := false
		ast.Inspect(f.Decl.Body, func(x ast.Node) bool {
			is, ok := x.(*ast.IfStmt)
			if !ok || eObj == nil {
				return true
			}
			as := prog.Decompose(is.Cond, true, is)
			if len(as) != 1 || !(as[0].Op == token.NEQ && prog.ObjOf(info, as[0].X) == eObj && prog.IsNil(info, as[0].Y)) {
				return true
			}
			assigned, returned := false, false
			ast.Inspect(is.Body, func(y ast.Node) bool {
				switch s := y.(type) {
				case *ast.AssignStmt:
					for i, l := range s.Lhs {
						if errRes != nil && prog.ObjOf(info, l) == errRes && i < len(s.Rhs) && prog.ObjOf(info, s.Rhs[i]) == eObj {
							assigned = true
						}
					}
				case *ast.ReturnStmt:
					returned = true
					for _, r := range s.Results {
						if prog.ObjOf(info, r) == eObj {
							assigned = true
						}
					}
				}
				return true
			})
			if assigned && returned && f.Terminates(is.Body) {
				okErr = true
			}
			return true
		})
		c.check(okErr, R, f.Key+": a reader error is returned", nx[0].Pos(), "if e != nil { err = e; return }",
			"an error of the reader does not end the function with that error: the caller (Bucket.open) fail-stops only on a returned error, so a damaged hint or data file would be indexed up to the damage and served")
		// (b) nil item ends the loop
		okEnd := false
		ast.Inspect(f.Decl.Body, func(x ast.Node) bool {
			is, ok := x.(*ast.IfStmt)
			if !ok || itObj == nil {
				return true
			}
			as := prog.Decompose(is.Cond, true, is)
			if len(as) == 1 && as[0].Op == token.EQL && prog.ObjOf(info, as[0].X) == itObj && prog.IsNil(info, as[0].Y) && len(is.Body.List) > 0 {
				switch s := is.Body.List[len(is.Body.List)-1].(type) {
				case *ast.ReturnStmt:
					okEnd = true
				case *ast.BranchStmt:
					okEnd = s.Tok == token.BREAK
				}
			}
			return true
		})
		c.check(okEnd, R, f.Key+": end of input leaves the loop", nx[0].Pos(), "if item == nil { return / break }",
			"a nil item from the reader (end of input) does not leave the loop: the loop spins, or dereferences nil")
		if sp.fn != "store.Bucket.updateHtreeFromHint" {
			continue
		}
		// (c) replay ordering inside one iteration
		cfg := f.CFG()
		prep := f.CallsTo("store.KeyInfo.Prepare")
		sets := f.CallsTo(kHTreeSet)
		rems := f.CallsTo("store.HTree.remove")
		for _, t := range append(append([]prog.Call{}, sets...), rems...) {
			okP := false
			for _, p := range prep {
				c.Paths++
				if cfg.Dominates(p.Expr, t.Expr) && p.Expr.Pos() > nx[0].Expr.Pos() {
					okP = true
				}
			}
			c.check(okP, R, f.Key+": key path prepared before "+short(t.Key), t.Pos(), "ki.Prepare() ≺ tree op",
				"the replayed key's path is not prepared (KeyInfo.Prepare) before the tree is touched: the entry lands in, or is removed from, the wrong leaf")
		}
		chunkParam := f.Param(0)
		posChunk := func(want func(ast.Expr) bool, t prog.Call, what, bad string) {
			if len(t.Expr.Args) < 2 {
				return
			}
			posArg := t.Expr.Args[len(t.Expr.Args)-1]
			root := prog.RootObj(info, posArg)
			ok := false
			ast.Inspect(f.Decl.Body, func(x ast.Node) bool {
				as, isA := x.(*ast.AssignStmt)
				if !isA || len(as.Lhs) != 1 || len(as.Rhs) != 1 {
					return true
				}
				if k, _ := prog.FieldOf(info, as.Lhs[0]); k == "store.Position.ChunkID" && prog.RootObj(info, as.Lhs[0]) == root && want(as.Rhs[0]) {
					c.Paths++
					if cfg.Dominates(as, t.Expr) && as.Pos() > nx[0].Expr.Pos() && as.Pos() < t.Expr.Pos() {
						// same branch: nothing else assigns ChunkID in between
						ok = true
					}
				}
				return true
			})
			c.check(ok, R, f.Key+": "+what, t.Pos(), "assigned in the same iteration, before the call", bad)
		}
		for _, s := range sets {
			posChunk(func(e ast.Expr) bool { return chunkParam != nil && prog.ObjOf(info, prog.Unparen(e)) == chunkParam }, s,
				"pos.ChunkID = the replayed chunk before tree.set",
				"the position given to tree.set does not get the chunk being replayed in the same iteration (it keeps what an earlier entry left there, e.g. -1 from a tombstone): the entry points into the wrong data file")
		}
		for _, r := range rems {
			posChunk(func(e ast.Expr) bool { v, isC := prog.ConstInt(info, e); return isC && v == -1 }, r,
				"pos.ChunkID = -1 before tree.remove",
				"the tombstone's removal is no longer unconditional (ChunkID -1): with a stale chunk id the entry is removed only if the offsets happen to match, so a deleted key stays in the tree after a rebuild")
		}
		// (d) coverage reported
		okCov := false
		if mo := f.Result(0); mo != nil {
			ast.Inspect(f.Decl.Body, func(x ast.Node) bool {
				if as, isA := x.(*ast.AssignStmt); isA && len(as.Lhs) == 1 && prog.ObjOf(info, as.Lhs[0]) == mo {
					if k, _ := prog.FieldOf(info, as.Rhs[0]); strings.HasSuffix(k, ".datasize") {
						okCov = true
					}
				}
				if r, isR := x.(*ast.ReturnStmt); isR && len(r.Results) > 0 {
					if k, _ := prog.FieldOf(info, r.Results[0]); strings.HasSuffix(k, ".datasize") {
						okCov = true
					}
				}
				return true
			})
		}
		c.check(okCov, R, f.Key+": returns the data coverage recorded in the hint file", f.Pos(), "maxoffset = reader.datasize",
			"the replay no longer reports the hint file's data coverage: the caller cannot tell which part of the data file still has to be scanned")
	}
}

func resultsOf(f *prog.Func) []*types.Var {
	sig := f.Obj.Type().(*types.Signature)
	var out []*types.Var
	for i := 0; i < sig.Results().Len(); i++ {
		out = append(out, sig.Results().At(i))
	}
	return out
}

// ---------------------------------------------------------------- write/read path (from the mutation sweep)

func init() {
	addRule("C01", Rule{"C01.R15", "q", "checkAndSet: old version from the fetched entry; same-value shortcut only under check_vhash; NOT_FOUND for a delete of an absent or deleted key", c01r15})
	addRule("C04", Rule{"C01.R15", "q", "shared: the version arbitration runs on the fetched entry's version", c01r15})
	addRule("C02", Rule{"C02.R13", "q", "close forces the flush of every chunk it writes out", c02r13})
	addRule("C13", Rule{"C13.R20", "q", "read-time registration carries the full position; a table hit supplies position and meta", c13r20})
}

func c01r15(c *Ctx) {
	const R = "C01.R15"
	f := c.fn(R, "store.Bucket.checkAndSet")
	if f == nil {
		return
	}
	info := f.Info()
	gets := f.CallsTo("store.Bucket.get")
	chk := f.CallsTo("store.Bucket.checkAndUpdateVerison")
	if len(gets) != 1 || len(chk) != 1 {
		c.undec(R, f.Key, "bkt.get / checkAndUpdateVerison not found exactly once")
		return
	}
	payload := f.ResultObj(gets[0].Expr, 0)
	// (1) the old version handed to the arbitration is payload.Ver (when a payload was found), else 0
	oldArg := chk[0].Expr.Args[0]
	fromPayload, other := false, ""
	for _, s := range f.SourcesAt(oldArg, chk[0].Expr) {
		switch {
		case s.Kind == "const" || s.Kind == "zero":
			if s.Expr != nil {
				if v, isC := prog.ConstInt(info, prog.StripConv(info, s.Expr)); isC && v != 0 {
					other = types.ExprString(s.Expr)
				}
			}
		case s.Kind == "call" && s.Key == "store.Bucket.get" && strings.HasSuffix(s.Field, "Ver"):
			fromPayload = true
		case s.Expr != nil && payload != nil && prog.RootObj(info, s.Expr) == payload:
			if k, _ := prog.FieldOf(info, s.Expr); k == "store.Meta.Ver" {
				fromPayload = true
			} else {
				other = types.ExprString(s.Expr)
			}
		default:
			if s.Expr != nil {
				if v, isC := prog.ConstInt(info, prog.StripConv(info, s.Expr)); isC && v == 0 {
					continue
				}
				other = types.ExprString(s.Expr)
			} else {
				other = s.Kind
			}
		}
	}
	c.check(fromPayload && other == "", R, f.Key+": old version = version of the fetched entry (0 when absent)", chk[0].Pos(), "oldv = payload.Ver",
		"the version arbitration does not run on the version of the entry fetched under the write lock (other source: "+other+", payload.Ver reaches it: "+boolStr(fromPayload)+"): versions restart or explicit revisions are compared with the wrong value")
	// (2) the same-value shortcut (return without writing) only with Conf.CheckVHash
	for _, r := range f.CFG().Returns() {
		if r.Pos() > chk[0].Expr.Pos() || r.Pos() < gets[0].Expr.End() || len(r.Results) != 1 || !prog.IsNil(info, r.Results[0]) {
			continue
		}
		okG := false
		for _, a := range f.GuardsAt(r) {
			if a.Op == token.ILLEGAL && !a.Neg {
				if k, _ := prog.FieldOf(info, prog.Unparen(a.X)); strings.HasSuffix(k, ".CheckVHash") {
					okG = true
				}
			}
		}
		c.check(okG, R, f.Key+": a set is dropped as `same value` only under Conf.CheckVHash", c.pos(r), "guarded by the option",
			"checkAndSet returns success without writing although check_vhash is not the (positively tested) reason: with the default configuration a set of an equal-hash value is acknowledged but neither stored nor given a new version")
	}
	// (3) NOT_FOUND: delete of an absent or already deleted key
	okNF := false
	ast.Inspect(f.Decl.Body, func(x ast.Node) bool {
		is, ok := x.(*ast.IfStmt)
		if !ok || len(is.Body.List) != 1 {
			return true
		}
		rs, ok := is.Body.List[0].(*ast.ReturnStmt)
		if !ok || len(rs.Results) != 1 {
			return true
		}
		isNF := false
		ast.Inspect(rs.Results[0], func(y ast.Node) bool {
			if bl, ok := y.(*ast.BasicLit); ok && strings.Contains(bl.Value, "NOT_FOUND") {
				isNF = true
			}
			return true
		})
		if !isNF {
			return true
		}
		be, ok := prog.Unparen(is.Cond).(*ast.BinaryExpr)
		if !ok || be.Op != token.LAND {
			return true
		}
		isVerNeg := func(e ast.Expr) bool {
			b, ok := prog.Unparen(e).(*ast.BinaryExpr)
			if !ok || b.Op != token.LSS {
				return false
			}
			k, _ := prog.FieldOf(info, b.X)
			v, isC := prog.ConstInt(info, b.Y)
			return k == "store.Meta.Ver" && isC && v == 0 && prog.RootObj(info, b.X) == f.Param(1)
		}
		isAbsent := func(e ast.Expr) bool {
			b, ok := prog.Unparen(e).(*ast.BinaryExpr)
			if !ok || b.Op != token.LOR {
				return false
			}
			nilT, negT := false, false
			for _, s := range []ast.Expr{b.X, b.Y} {
				sb, ok := prog.Unparen(s).(*ast.BinaryExpr)
				if !ok {
					continue
				}
				if sb.Op == token.EQL && payload != nil && prog.ObjOf(info, sb.X) == payload && prog.IsNil(info, sb.Y) {
					nilT = true
				}
				if sb.Op == token.LSS {
					if v, isC := prog.ConstInt(info, sb.Y); isC && v == 0 {
						for _, src := range f.SourcesAt(sb.X, is) {
							if src.Expr != nil && payload != nil && prog.RootObj(info, src.Expr) == payload {
								negT = true
							}
							if src.Kind == "call" && src.Key == "store.Bucket.get" {
								negT = true
							}
						}
					}
				}
			}
			return nilT && negT
		}
		if (isVerNeg(be.X) && isAbsent(be.Y)) || (isVerNeg(be.Y) && isAbsent(be.X)) {
			c.Paths++
			if f.CFG().Dominates(chk[0].Expr, is) {
				okNF = true
			}
		}
		return true
	})
	c.check(okNF, R, f.Key+": delete of an absent or deleted key ⇒ NOT_FOUND, nothing written", f.Pos(), "v.Ver < 0 && (payload == nil || oldv < 0)",
		"the NOT_FOUND answer for a delete is no longer given exactly when the key is absent or already deleted (after the version arbitration): a tombstone is written for a key that never existed, or a live key's delete is refused")
}

func c02r13(c *Ctx) {
	const R = "C02.R13"
	f := c.fn(R, "store.Bucket.close")
	if f == nil {
		return
	}
	info := f.Info()
	fl := f.CallsTo("store.dataStore.flush")
	if len(fl) == 0 {
		c.undec(R, f.Key, "no flush in close")
		return
	}
	for _, call := range fl {
		if len(call.Expr.Args) != 2 {
			continue
		}
		v, isC := prog.ConstBool(info, call.Expr.Args[1])
		c.check(isC && v, R, f.Key+": flush("+types.ExprString(call.Expr.Args[0])+", force=true)", call.Pos(), "forced",
			"close asks for a flush that the flush policy may skip (force is not the constant true): with flush_interval > 0 records buffered within the interval are still unwritten when close returns")
	}
}

func c13r20(c *Ctx) {
	const R = "C13.R20"
	f := c.fn(R, "store.Bucket.get")
	if f == nil {
		return
	}
	info := f.Info()
	cfg := f.CFG()
	gi := f.CallsTo("store.hintMgr.getItem")
	cas := f.CallsTo("store.CollisionTable.compareAndSet")
	if len(gi) != 1 || len(cas) < 2 {
		c.undec(R, f.Key, "getItem / the two compareAndSet calls not found")
		return
	}
	hintit := f.ResultObj(gi[0].Expr, 0)
	chunk := f.ResultObj(gi[0].Expr, 1)
	// the registration of the looked-up item: its Pos gets the chunk id of the lookup first
	for _, call := range cas {
		if len(call.Expr.Args) < 1 || hintit == nil || prog.ObjOf(info, prog.Unparen(call.Expr.Args[0])) != hintit {
			continue
		}
		ok := false
		ast.Inspect(f.Decl.Body, func(x ast.Node) bool {
			as, isA := x.(*ast.AssignStmt)
			if !isA || len(as.Lhs) != 1 || len(as.Rhs) != 1 {
				return true
			}
			if k, _ := prog.FieldOf(info, as.Lhs[0]); k != "store.HintItemMeta.Pos" || prog.RootObj(info, as.Lhs[0]) != hintit {
				return true
			}
			// the value: Position{chunkID, hintit.Pos.Offset} directly or through a local
			carries := false
			exprs := []ast.Expr{as.Rhs[0]}
			for _, d := range f.DefsOfPath(prog.Unparen(as.Rhs[0])) {
				if d.Rhs != nil {
					exprs = append(exprs, d.Rhs)
				}
			}
			for _, e := range exprs {
				if chunk != nil && prog.Mentions(info, e, chunk) {
					carries = true
				}
			}
			c.Paths++
			if carries && cfg.Dominates(as, call.Expr) {
				ok = true
			}
			return true
		})
		c.check(ok, R, f.Key+": the looked-up item is registered with the chunk id of the lookup", call.Pos(), "hintit.Pos = Position{chunkID, …} ≺ compareAndSet",
			"the hint item found for the requested key is put into the collision table without the chunk id the lookup returned (hint items carry chunk 0): every later get of that key reads the wrong data file")
	}
	// the table-hit path: position and meta come from the table item
	tbl := f.CallsTo("store.CollisionTable.get")
	if len(tbl) == 0 {
		c.undec(R, f.Key, "collision table lookup not found")
		return
	}
	tit := f.ResultObj(tbl[0].Expr, 0)
	posRes := f.Result(1)
	okPos, okMeta := false, false
	ast.Inspect(f.Decl.Body, func(x ast.Node) bool {
		as, isA := x.(*ast.AssignStmt)
		if !isA || len(as.Lhs) != 1 || len(as.Rhs) != 1 || tit == nil {
			return true
		}
		if posRes != nil && prog.ObjOf(info, as.Lhs[0]) == posRes {
			if k, _ := prog.FieldOf(info, as.Rhs[0]); k == "store.HintItemMeta.Pos" && prog.RootObj(info, as.Rhs[0]) == tit {
				okPos = true
			}
		}
		if prog.Mentions(info, as.Rhs[0], tit) {
			ver, vh := false, false
			ast.Inspect(as.Rhs[0], func(y ast.Node) bool {
				if kv, isKV := y.(*ast.KeyValueExpr); isKV {
					if id, isId := kv.Key.(*ast.Ident); isId {
						k, _ := prog.FieldOf(info, kv.Value)
						if id.Name == "Ver" && strings.HasSuffix(k, ".Ver") {
							ver = true
						}
						if id.Name == "ValueHash" && strings.HasSuffix(k, ".Vhash") {
							vh = true
						}
					}
				}
				return true
			})
			if ver && vh {
				okMeta = true
			}
		}
		return true
	})
	c.check(okPos && okMeta, R, f.Key+": a collision-table hit supplies the position and the meta", tbl[0].Pos(), "pos = item.Pos; meta = {Ver, Vhash}",
		"for a key found in the collision table the position (or version / value hash) is not taken from the table item: the key is read at the zero position or served with another entry's version")
}
