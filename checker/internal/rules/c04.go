package rules

import (
	"go/ast"
	"go/token"
	"sort"
	"strings"

	"gbcheck/internal/prog"
)

const (
	lkWrite  = "store.Bucket.writeLock"
	lkDS     = "store.dataStore.Mutex"
	lkFlush  = "store.dataStore.flushLock"
	lkChunk  = "store.dataChunk.Mutex"
	lkTree   = "store.HTree.Mutex"
	lkCT     = "store.CollisionTable.Mutex"
	lkGC     = "store.GCMgr.mu"
	lkHChunk = "store.hintChunk.Mutex"
	lkUpper  = "store.HStore.htreeLock"
)

func init() {
	register(&Property{
		ID:      "C04",
		Clause:  "the lock discipline the property relies on exists on every path: writers do read-old/arbitrate/append/publish inside one Bucket.writeLock critical section; offset assignment and buffer append are one dataStore.Mutex section; a reader copies a buffered record under the chunk lock and returns the copy; the flusher writes the file, detaches the flushed prefix under the chunk lock and only then frees it; flush runs under flushLock with a fail-stop size check; the guarded-by tables hold at every access site; the lock-order graph is acyclic (thorough)",
		NotDec:  "linearizability itself, real-time order of versions, the final highest-version-wins state, data races on unguarded scalars (hintMgr.state, wbufSize fast path)",
		Engines: "E1 interprocedural must-lockset over go/cfg + E2 dominance",
		Rules: []Rule{
			{"C04.L1", "q", "checkAndSet critical section", c04l1},
			{"C04.L2", "q", "callers of Bucket.set hold writeLock", c04l2},
			{"C04.L3", "q", "AppendRecord: offset assignment + buffer append under locks", c04l3},
			{"C04.L4", "q", "buffer read copies under the chunk lock", c04l4},
			{"C04.L5", "q", "flush: write, detach under lock, then free", c04l5},
			{"C04.L6", "q", "dataStore.flush under flushLock with fail-stop size check", c04l6},
			{"C04.L7", "q", "guarded-by tables", c04l7},
			{"C13.R4", "q", "shared: writes refresh the collision table with the full position (Bucket.get consults it first)", c13r4},
			{"C04.L8", "t", "lock-order graph acyclic", c04l8},
			{"C04.L9", "q", "lock contracts of helpers: entry lockset contains the lock their callers must hold", c04l9},
			{"C01.R12", "q", "shared: version arithmetic", c01r12},
			{"C01.R9", "q", "shared: explicit revisions compared on absolute values", c01r9},
			{"C09.R8", "q", "shared: buffer copies are exact", c09r8},
			{"C10.R2", "q", "shared: records are handed out decompressed", c10r2},
			{"C14.R17", "q", "shared: collision table compare-and-set is one critical section", c14r17},
			{"C14.R14", "q", "shared: split dump discipline (file published before the buffer is dropped)", c14r14},
		},
	})
}

func holds(c *Ctx, f *prog.Func, n ast.Node, lock string) (bool, string) {
	ls, ok := c.P.Locks().At(f, n)
	if !ok {
		return true, "unreachable"
	}
	_, h := ls[lock]
	return h, ls.String()
}

func c04l1(c *Ctx) {
	const R = "C04.L1"
	f := c.fn(R, "store.Bucket.checkAndSet")
	if f == nil {
		return
	}
	want := []string{kBucketGet, "store.Bucket.checkAndUpdateVerison", kBucketSet, kHTreeSet}
	seen := map[string]bool{}
	for _, call := range f.CallsTo(want...) {
		seen[call.Key] = true
		h, ls := holds(c, f, call.Expr, lkWrite)
		c.check(h, R, f.Key+": "+short(call.Key)+" under writeLock", call.Pos(), "lockset "+ls,
			"call to "+call.Key+" in the write path is made without Bucket.writeLock held (lockset "+ls+"): read-old-version / arbitrate / append / publish of two writers can interleave")
	}
	for _, k := range want[:3] {
		if !seen[k] {
			c.viol(R, f.Key+": "+short(k)+" under writeLock", f.Pos(), "checkAndSet no longer calls "+k+" itself: the read-modify-write is no longer one function-level critical section")
		}
	}
	// the lock must be released on every normal exit (deferred or explicit)
	rel := false
	for _, call := range f.Calls() {
		if kind, lock, _ := prog.LockOp(f.Info(), call.Expr); kind == "Unlock" && lock == lkWrite {
			rel = true
		}
	}
	c.check(rel, R, f.Key+": writeLock released", f.Pos(), "unlock present", "writeLock is never released in checkAndSet")
}

func c04l2(c *Ctx) {
	const R = "C04.L2"
	callers := c.P.CallersOf(kBucketSet)
	if len(callers) == 0 {
		c.undec(R, kBucketSet, "no caller of Bucket.set found")
		return
	}
	for _, call := range callers {
		c.Funcs[call.Fn.Key] = true
		key := call.Fn.Key + ": calls Bucket.set"
		if call.Fn.Key == "store.Bucket.incr" {
			c.ok(R, key, call.Pos(), "frozen exception: concurrent incr is excluded by the property")
			continue
		}
		h, ls := holds(c, call.Fn, call.Expr, lkWrite)
		c.check(h, R, key, call.Pos(), "lockset "+ls, "Bucket.set (append + publish) is called without Bucket.writeLock (lockset "+ls+")")
	}
}

// fieldSites returns every selector expression in f that denotes field key.
func fieldSites(f *prog.Func, key string) []*ast.SelectorExpr {
	var out []*ast.SelectorExpr
	info := f.Info()
	ast.Inspect(f.Decl.Body, func(n ast.Node) bool {
		if se, ok := n.(*ast.SelectorExpr); ok {
			if k, _ := prog.FieldOf(info, se); k == key {
				out = append(out, se)
			}
		}
		return true
	})
	return out
}

func c04l3(c *Ctx) {
	const R = "C04.L3"
	if f := c.fn(R, kAppendRecord); f != nil {
		n := 0
		for _, fk := range []string{"store.dataStore.newHead", "store.dataChunk.writingHead", "store.dataStore.wbufSize"} {
			for _, se := range fieldSites(f, fk) {
				if par, ok := f.Parent(se).(*ast.GoStmt); ok {
					_ = par
				}
				// arguments of a `go` call are evaluated at the go statement: still checked
				n++
				h, ls := holds(c, f, se, lkDS)
				c.check(h, R, f.Key+": access "+short(fk), c.pos(se), "lockset "+ls, "head/offset state "+fk+" is accessed outside dataStore.Mutex (lockset "+ls+"): offset assignment and buffer append are no longer one critical section")
			}
		}
		for _, call := range f.CallsTo("store.dataChunk.AppendRecord") {
			n++
			h, ls := holds(c, f, call.Expr, lkDS)
			c.check(h, R, f.Key+": chunk.AppendRecord under dataStore.Mutex", call.Pos(), "lockset "+ls, "the buffer append happens after dataStore.Mutex was released (lockset "+ls+"): two writers can obtain offsets in one order and enter the buffer in the other")
		}
		// stores to the returned position
		info := f.Info()
		if pos := f.Result(0); pos != nil {
			ast.Inspect(f.Decl.Body, func(x ast.Node) bool {
				if as, ok := x.(*ast.AssignStmt); ok {
					for _, l := range as.Lhs {
						if prog.RootObj(info, l) == pos {
							n++
							h, ls := holds(c, f, as, lkDS)
							c.check(h, R, f.Key+": store to pos", c.pos(as), "lockset "+ls, "the returned position is computed outside dataStore.Mutex (lockset "+ls+")")
						}
					}
				}
				return true
			})
		}
		if n < 4 {
			c.undec(R, f.Key, "fewer than 4 head/offset accesses recognised in dataStore.AppendRecord")
		}
	}
	if f := c.fn(R, "store.dataChunk.AppendRecord"); f != nil {
		n := 0
		for _, fk := range []string{"store.dataChunk.wbuf", "store.dataChunk.writingHead", "store.dataChunk.size"} {
			for _, se := range fieldSites(f, fk) {
				n++
				h, ls := holds(c, f, se, lkChunk)
				c.check(h, R, f.Key+": access "+short(fk), c.pos(se), "lockset "+ls, fk+" is updated outside dataChunk.Mutex (lockset "+ls+")")
			}
		}
		if n < 3 {
			c.undec(R, f.Key, "buffer/offset updates not recognised in dataChunk.AppendRecord")
		}
	}
}

func c04l4(c *Ctx) {
	const R = "C04.L4"
	f := c.fn(R, "store.dataChunk.GetRecordByOffsetInBuffer")
	if f == nil {
		return
	}
	info := f.Info()
	n := 0
	for _, se := range fieldSites(f, "store.dataChunk.wbuf") {
		n++
		h, ls := holds(c, f, se, lkChunk)
		c.check(h, R, f.Key+": read wbuf", c.pos(se), "lockset "+ls, "the write buffer is read outside dataChunk.Mutex (lockset "+ls+"): the flusher may free the record meanwhile")
	}
	copies := f.CallsTo("store.Record.Copy")
	for _, call := range copies {
		n++
		h, ls := holds(c, f, call.Expr, lkChunk)
		c.check(h, R, f.Key+": Record.Copy under lock", call.Pos(), "lockset "+ls, "the buffered record is copied outside dataChunk.Mutex (lockset "+ls+")")
	}
	if n == 0 {
		c.undec(R, f.Key, "no buffer access recognised")
	}
	// the returned record must be the copy
	res := f.Result(0)
	if res == nil {
		c.undec(R, f.Key, "result is not a named value")
		return
	}
	bad := ""
	nres := 0
	ast.Inspect(f.Decl.Body, func(x ast.Node) bool {
		switch s := x.(type) {
		case *ast.FuncLit:
			return false
		case *ast.AssignStmt:
			for i, l := range s.Lhs {
				if prog.ObjOf(info, l) == res && i < len(s.Rhs) {
					nres++
					r := prog.Unparen(s.Rhs[i])
					if prog.IsNil(info, r) {
						continue
					}
					if call, ok := r.(*ast.CallExpr); ok && prog.CalleeKey(info, call) == "store.Record.Copy" {
						continue
					}
					bad = c.pos(s)
				}
			}
		case *ast.ReturnStmt:
			if len(s.Results) > 0 {
				nres++
				r := prog.Unparen(s.Results[0])
				if prog.IsNil(info, r) || prog.ObjOf(info, r) == res {
					return true
				}
				if call, ok := r.(*ast.CallExpr); ok && prog.CalleeKey(info, call) == "store.Record.Copy" {
					return true
				}
				bad = c.pos(s)
			}
		}
		return true
	})
	if nres == 0 {
		c.viol(R, f.Key+": result is a copy", f.Pos(), "the function never produces a record")
	} else {
		c.check(bad == "", R, f.Key+": result is a copy", f.Pos(), "result only flows from Record.Copy", "a buffered record is handed out without Copy at "+bad+": the reader would share memory that the flusher frees")
	}
}

func c04l5(c *Ctx) {
	const R = "C04.L5"
	f := c.fn(R, "store.dataChunk.flush")
	if f == nil {
		return
	}
	info := f.Info()
	flushes := f.CallsTo("bufio.Writer.Flush")
	var detach *ast.AssignStmt
	ast.Inspect(f.Decl.Body, func(x ast.Node) bool {
		if as, ok := x.(*ast.AssignStmt); ok {
			for _, l := range as.Lhs {
				if k, _ := prog.FieldOf(info, l); k == "store.dataChunk.wbuf" {
					detach = as
				}
			}
		}
		return true
	})
	frees := f.CallsTo("store.Payload.Free", "cmem.CArray.Free")
	// Payload embeds CArray: Payload.Free resolves to cmem.CArray.Free
	if len(flushes) == 0 {
		c.viol(R, f.Key+": bufio Flush before detach", f.Pos(), "chunk flush no longer flushes the bufio layer before it detaches the buffered records")
		return
	}
	if detach == nil {
		c.undec(R, f.Key, "detach store `dc.wbuf = …` not found")
		return
	}
	cfg := f.CFG()
	c.Paths += 2
	c.check(cfg.Dominates(flushes[0].Expr, detach), R, f.Key+": bufio Flush ≺ detach", c.pos(detach), "every path to the detach passes the bufio flush",
		"the flushed prefix is detached from the write buffer before the bytes were handed to the file: a reader that misses the buffer reads a file that does not contain the record yet")
	errObj := f.ResultObj(flushes[0].Expr, 0)
	if errObj == nil {
		if l := f.ResultLhs(flushes[0].Expr, 0); l != nil {
			errObj = prog.ObjOf(info, l)
		}
	}
	c.check(errObj != nil && prog.HasNilFact(info, f.GuardsAt(detach), prog.IsObj(info, errObj), true), R, f.Key+": detach only after successful Flush", c.pos(detach), "guarded by err == nil",
		"records are detached (and later freed) even when writing them failed")
	h, ls := holds(c, f, detach, lkChunk)
	c.check(h, R, f.Key+": detach under dataChunk.Mutex", c.pos(detach), "lockset "+ls, "the write buffer is re-sliced outside dataChunk.Mutex (lockset "+ls+")")
	if len(frees) == 0 {
		c.undec(R, f.Key, "no Free of flushed records found")
	}
	for _, fr := range frees {
		c.Paths++
		c.check(cfg.Dominates(detach, fr.Expr), R, f.Key+": detach ≺ Free", fr.Pos(), "free happens after the detach",
			"a buffered record's memory is freed while it is still reachable through the write buffer: a concurrent reader copies freed memory")
	}
}

func c04l6(c *Ctx) {
	const R = "C04.L6"
	f := c.fn(R, "store.dataStore.flush")
	if f == nil {
		return
	}
	info := f.Info()
	n := 0
	for _, call := range f.CallsTo("store.dataStore.GetStreamWriter", "store.GetStreamWriter", "store.dataChunk.flush", "store.DataStreamWriter.Close") {
		n++
		h, ls := holds(c, f, call.Expr, lkFlush)
		c.check(h, R, f.Key+": "+short(call.Key)+" under flushLock", call.Pos(), "lockset "+ls, call.Key+" runs outside dataStore.flushLock (lockset "+ls+"): two flushers can append to one file concurrently")
	}
	if n < 3 {
		c.viol(R, f.Key+": open/flush/close sequence", f.Pos(), "dataStore.flush no longer opens the writer, flushes the chunk and closes the writer itself")
	}
	// size check
	var chk *ast.IfStmt
	ast.Inspect(f.Decl.Body, func(x ast.Node) bool {
		is, ok := x.(*ast.IfStmt)
		if !ok {
			return true
		}
		be, ok := prog.Unparen(is.Cond).(*ast.BinaryExpr)
		if !ok || be.Op != token.NEQ {
			return true
		}
		isOff := func(e ast.Expr) bool { k, _ := prog.FieldOf(info, e); return k == "store.DataStreamWriter.offset" }
		isSize := func(e ast.Expr) bool {
			for _, s := range f.SourcesAt(e, is) {
				if s.Kind == "call" && s.Key == "store.dataChunk.getDiskFileSize" {
					return true
				}
			}
			return false
		}
		if (isOff(be.X) && isSize(be.Y)) || (isOff(be.Y) && isSize(be.X)) {
			chk = is
		}
		return true
	})
	if chk == nil {
		c.viol(R, f.Key+": writer offset == expected file size", f.Pos(), "the comparison of the writer's offset with the expected on-disk size is gone: a flush could append at an offset other than the one recorded at append time")
		return
	}
	c.check(f.Terminates(chk.Body), R, f.Key+": size mismatch fail-stops", c.pos(chk), "mismatch branch does not return normally", "a file-size mismatch no longer stops the flush")
	for _, fl := range f.CallsTo("store.dataChunk.flush") {
		c.Paths++
		c.check(f.CFG().Dominates(chk.Cond, fl.Expr), R, f.Key+": size check ≺ chunk flush", fl.Pos(), "dominated", "records are written before the size check")
	}
}

// guardedBy: field -> lock, with frozen function-level exceptions (one symbol, one reason).
type guardSpec struct {
	field, lock string
	writesOnly  bool
}

var guardTable = []guardSpec{
	{"store.HTree.levels", lkTree, false},
	{"store.HTree.leafs", lkTree, false},
	{"store.HTree.ni", lkTree, false},
	{"store.Node.hash", lkTree, false},
	{"store.Node.count", lkTree, false},
	{"store.Node.isHashUpdated", lkTree, false},
	{"store.CollisionTable.Items", lkCT, false},
	{"store.dataChunk.wbuf", lkChunk, false},
	{"store.GCMgr.stat", lkGC, false},
	{"store.hintChunk.splits", lkHChunk, true},
}

// functions that work on the store-level tree, which has its own lock
var guardAltLock = map[string]string{
	"store.HStore.updateNodesUpper": "store.HStore.htreeLock",
	"store.HStore.ListUpper":        "store.HStore.htreeLock",
}

var guardExceptions = map[string]string{
	"store.newHTree":                   "constructor: tree not yet published",
	"store.HTree.load":                 "runs in Bucket.open before the tree is published (bkt.htree = htree)",
	"store.HTree.dump":                 "open/close time only; reads after ListTop",
	"store.HTree.release":              "hot-unload after the bucket was taken out of service",
	"store.HStore.NumKey":              "statistic read of a count, tolerated race",
	"store.dataChunk.getDiskFileSize":  "called under flushLock by the only flusher; racy length read is compared fail-stop",
	"store.dataChunk.Clear":            "GC: source chunk is below the head and has no writer",
	"store.dataChunk.GoString":         "diagnostic formatting on the fatal path",
	"store.newCollisionTable":          "constructor",
	"store.NewHStore":                  "constructor (stat map literal)",
	"store.hintMgr.loadHintsByChunk":   "open time, before the bucket serves",
	"store.hintMgr.dump":               "unlock/relock idiom: mutation of split after re-acquisition is by design",
	"store.newHintChunk":               "constructor",
	"store.hintChunk.rotate":           "callers hold hintChunk.Mutex (setItem, trydump, forceRotateSplit) or construct (newHintChunk)",
	"store.HStore.GCBuckets":           "holds GCMgr.mu (write mode)",
}

func isWrite(f *prog.Func, se *ast.SelectorExpr) bool {
	// se (or an index/slice of it) on the LHS of an assignment, or argument of append assigned back
	var cur ast.Node = se
	for {
		par := f.Parent(cur)
		switch p := par.(type) {
		case *ast.IndexExpr:
			if p.X == cur {
				cur = p
				continue
			}
			return false
		case *ast.ParenExpr, *ast.SliceExpr:
			cur = p
			continue
		case *ast.AssignStmt:
			for _, l := range p.Lhs {
				if ast.Node(l) == cur {
					return true
				}
			}
			return false
		case *ast.IncDecStmt:
			return true
		case *ast.CallExpr:
			if prog.CalleeKey(f.Info(), p) == "builtin.delete" && len(p.Args) > 0 && ast.Node(p.Args[0]) == cur {
				return true
			}
			return false
		}
		return false
	}
}

func c04l7(c *Ctx) {
	const R = "C04.L7"
	c.Floor(R, 35)
	usedExc := map[string]bool{}
	for _, f := range c.P.SortedFuncs() {
		if f.Pkg.Name != "store" {
			continue
		}
		for _, g := range guardTable {
			sites := fieldSites(f, g.field)
			if len(sites) == 0 {
				continue
			}
			c.Funcs[f.Key] = true
			nbad, nsite := 0, 0
			badPos, badLS := "", ""
			for _, se := range sites {
				if g.writesOnly && !isWrite(f, se) {
					continue
				}
				nsite++
				h, ls := holds(c, f, se, g.lock)
				if alt, has := guardAltLock[f.Key]; has && !h {
					h, ls = holds(c, f, se, alt)
				}
				if !h {
					nbad++
					if badPos == "" {
						badPos, badLS = c.pos(se), ls
					}
				}
			}
			if nsite == 0 {
				continue
			}
			key := f.Key + ": " + short(g.field) + " guarded by " + short(g.lock)
			if nbad == 0 {
				c.ok(R, key, f.Pos(), itoa(nsite)+" access site(s) under the lock")
				continue
			}
			if why, ok := guardExceptions[f.Key]; ok {
				usedExc[f.Key] = true
				c.ok(R, key, badPos, "frozen exception: "+why)
				continue
			}
			c.viol(R, key, badPos, itoa(nbad)+" of "+itoa(nsite)+" access(es) to "+g.field+" in "+f.Key+" are made without "+g.lock+" (lockset "+badLS+") and the function is not in the frozen exception table")
		}
	}
	var stale []string
	for k := range guardExceptions {
		if !usedExc[k] && c.P.F(k) == nil {
			stale = append(stale, k)
		}
	}
	sort.Strings(stale)
	if len(stale) > 0 {
		c.note("guard exception entries whose function no longer exists: %s", strings.Join(stale, ","))
	}
}

func itoa(i int) string {
	s := ""
	if i == 0 {
		return "0"
	}
	for i > 0 {
		s = string(rune('0'+i%10)) + s
		i /= 10
	}
	return s
}

// c04l8: lock-order graph over all mutexes, acyclic.
func c04l8(c *Ctx) {
	const R = "C04.L8"
	L := c.P.Locks()
	funcs := c.P.SortedFuncs()
	// locks acquired directly
	direct := map[*prog.Func]map[string]bool{}
	callees := map[*prog.Func][]*prog.Func{}
	for _, f := range funcs {
		direct[f] = map[string]bool{}
		for _, call := range f.Calls() {
			if kind, lock, _ := prog.LockOp(f.Info(), call.Expr); kind == "Lock" || kind == "RLock" {
				direct[f][lock] = true
			}
			if g := c.P.F(call.Key); g != nil {
				if _, isGo := f.Parent(call.Expr).(*ast.GoStmt); !isGo {
					callees[f] = append(callees[f], g)
				}
			}
		}
	}
	// transitive acquires
	acq := map[*prog.Func]map[string]bool{}
	for _, f := range funcs {
		acq[f] = map[string]bool{}
		for l := range direct[f] {
			acq[f][l] = true
		}
	}
	for changed := true; changed; {
		changed = false
		for _, f := range funcs {
			for _, g := range callees[f] {
				for l := range acq[g] {
					if !acq[f][l] {
						acq[f][l] = true
						changed = true
					}
				}
			}
		}
	}
	edges := map[string]map[string]string{}
	addEdge := func(a, b, where string) {
		if a == b {
			return
		}
		if edges[a] == nil {
			edges[a] = map[string]string{}
		}
		if _, ok := edges[a][b]; !ok {
			edges[a][b] = where
		}
	}
	for _, f := range funcs {
		for _, call := range f.Calls() {
			ls, ok := L.At(f, call.Expr)
			if !ok || len(ls) == 0 {
				continue
			}
			if kind, lock, _ := prog.LockOp(f.Info(), call.Expr); kind == "Lock" || kind == "RLock" {
				for h := range ls {
					addEdge(h, lock, call.Pos())
				}
				continue
			}
			if g := c.P.F(call.Key); g != nil {
				if _, isGo := f.Parent(call.Expr).(*ast.GoStmt); isGo {
					continue
				}
				for l := range acq[g] {
					for h := range ls {
						// hintMgr.dump releases the chunk lock before it does anything
						addEdge(h, l, call.Pos()+" via "+g.Key)
					}
				}
			}
		}
	}
	// cycle detection
	var nodes []string
	for a := range edges {
		nodes = append(nodes, a)
	}
	sort.Strings(nodes)
	color := map[string]int{}
	var cyc []string
	var dfs func(n string, path []string) bool
	dfs = func(n string, path []string) bool {
		color[n] = 1
		var succ []string
		for b := range edges[n] {
			succ = append(succ, b)
		}
		sort.Strings(succ)
		for _, b := range succ {
			if color[b] == 1 {
				cyc = append(append([]string{}, path...), n+" -> "+b+" @"+edges[n][b])
				return true
			}
			if color[b] == 0 && dfs(b, append(path, n+" -> "+b+" @"+edges[n][b])) {
				return true
			}
		}
		color[n] = 2
		return false
	}
	ne := 0
	for _, a := range nodes {
		ne += len(edges[a])
	}
	for _, n := range nodes {
		if color[n] == 0 && dfs(n, nil) {
			break
		}
	}
	c.check(cyc == nil, R, "lock-order graph", "-", itoa(len(nodes))+" locks with outgoing edges, "+itoa(ne)+" edges, acyclic", "lock-order cycle: two goroutines can deadlock", cyc...)
	for _, a := range nodes {
		var bs []string
		for b := range edges[a] {
			bs = append(bs, short(b))
		}
		sort.Strings(bs)
		c.note("lock order: %s -> %s", short(a), strings.Join(bs, ","))
	}
}
