#!/bin/sh
# usage: ./check.sh <property-id> <quick|thorough>
# Rebuilds the checker (incremental, offline) and analyses /repo's current working tree.
# thorough = quick rules + (t) rules (VTA/CHA call graphs, discovery modes, lock order)
#            + self-validation of this property's rules on scratch copies of /repo
#            (mutant patches must be detected, benign patches must stay silent).
set -e
cd "$(dirname "$0")"
export GOFLAGS=-mod=mod GOPROXY=off GOSUMDB=off GOTOOLCHAIN=local
unset GOWORK
( cd checker && go build -o ../bin/gbcheck ./cmd/gbcheck ) >&2
P=$1; T=${2:-${VERIF_TIER:-quick}}
if [ "$T" = thorough ]; then
  mkdir -p evidence/selftest
  S=evidence/selftest/$P.txt
  set +e
  tools/selftest.sh "$P" both > "$S" 2>&1; sc=$?
  set -e
  grep -E '^(SELFTEST-FAILED|selftest:)' "$S" || true
  ./bin/gbcheck -verif "$(pwd)" -repo "${VERIF_REPO:-/repo}" -property "$P" -tier thorough -selftest "$S"; gc=$?
  if [ $gc -ne 0 ]; then exit $gc; fi
  if [ $sc -ne 0 ]; then echo "UNDECIDED property=$P reason=checker self-validation failed (see $S)"; exit 2; fi
  exit 0
fi
exec ./bin/gbcheck -verif "$(pwd)" -repo "${VERIF_REPO:-/repo}" -property "$P" -tier "$T"
