package store

// NOT one of the three seeded changes: a probe that FAILS ON THE UNMODIFIED TREE.
// readRecordAt (store/datafile.go) leaks the C buffer `kv` when the second
// ReadAt (key+value) fails: kv is attached to wrec.rec.Payload only after that
// read, so the deferred wrec.rec.Payload.Free() releases nothing. GetData is
// taken back, AllocRL (count and size) is not. Needs a record larger than
// body_c_str whose data file is shorter than the record (truncated file), so
// it is outside C12's quantifier (no disk faults there).
// Place in store/ and run:
//   go test -vet=off -count=1 -run '^TestSeed5C12XTruncated' ./store/ -args -base <dir>

import (
	"math/rand"
	"os"
	"testing"

	"github.com/douban/gobeansdb/cmem"
)

func TestSeed5C12XTruncated(t *testing.T) {
	setupTest("seed5C12x")
	defer clearTest()
	Conf.NumBucket = 1
	Conf.BucketsStat = []int{1}
	Conf.TreeHeight = 3
	Conf.Init()
	store, err := NewHStore()
	if err != nil {
		t.Fatal(err)
	}
	body := make([]byte, 8192)
	rand.New(rand.NewSource(1)).Read(body)
	p := &Payload{}
	p.CArray.Alloc(len(body))
	copy(p.Body, body)
	cmem.DBRL.SetData.AddSizeAndCount(p.CArray.Cap)
	ki := &KeyInfo{StringKey: "k", Key: []byte("k")}
	store.Set(ki, p)
	store.flushdatas(true)
	if !cmem.DBRL.IsZero() {
		t.Fatalf("%#v", cmem.DBRL)
	}
	os.Truncate(store.buckets[0].datas.chunks[0].path, 4096)
	pl, _, err := store.Get(ki, false)
	t.Logf("payload %v err %v", pl, err)
	if !cmem.DBRL.IsZero() {
		t.Fatalf("get %+v alloc %+v", cmem.DBRL.GetData, *cmem.DBRL.AllocRL)
	}
}
