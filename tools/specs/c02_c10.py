SPECS = [
 # ---------------- C02
 dict(name='C02.R1a-close-unforced', rule='C02.R1a', why='Bucket.close flushes the head with force=false',
      edits=[('store/bucket.go', '	bkt.datas.flush(-1, true)\n	datas, _ := filepath.Glob', '	bkt.datas.flush(-1, false)\n	datas, _ := filepath.Glob')]),
 dict(name='C02.R1b-spawned-flush-unforced', rule='C02.R1b', why='seed C02/b: rotation flush with force=false',
      edits=[('store/data.go', 'go ds.flush(ds.newHead-1, true)', 'go ds.flush(ds.newHead-1, false)')]),
 dict(name='C02.R2-tree-dump-final-path', rule='C02.R2', why='HTree.dump writes straight to the final path',
      edits=[('store/htree.go', '	tmp := path + ".tmp"\n	f, err := os.OpenFile(tmp,', '	tmp := path\n	f, err := os.OpenFile(tmp,')]),
 dict(name='C02.R3-gc-no-hint-when-not-found', rule='C02.R3', why='gc skips hints.set for relocated records when found is false',
      edits=[('store/gc.go', '''			rotated := bkt.hints.set(ki, &meta, newPos, recsize, "gc")
			if rotated {
				bkt.hints.trydump(gc.Dst, false)
			}''', '''			if found {
				rotated := bkt.hints.set(ki, &meta, newPos, recsize, "gc")
				if rotated {
					bkt.hints.trydump(gc.Dst, false)
				}
			}''')]),
 dict(name='C02.R4-rebuild-from-zero', rule='C02.R4', why='buildHintFromData restarts from offset 0 after a partial hint',
      edits=[('store/bucket.go', 'err = bkt.buildHintFromData(chunkID, hintDataSize)', 'err = bkt.buildHintFromData(chunkID, 0)')]),
 dict(name='C02.R5-replay-sets-tombstones', rule='C02.R5', why='hint replay sets a tree entry for tombstones',
      edits=[('store/bucket.go', '		if item.Ver > 0 {\n			pos.ChunkID = chunkID', '		if item.Ver != 0 {\n			pos.ChunkID = chunkID')]),
 dict(name='C02.R6-close-skips-head-chunk', rule='C02.R6', why='hintMgr.close stops before maxChunkID',
      edits=[('store/hint.go', '	for i := 0; i <= h.maxChunkID; i++ {\n		h.trydump(i, true)', '	for i := 0; i < h.maxChunkID; i++ {\n		h.trydump(i, true)')]),
 dict(name='C14.R7-split-datasize-covers-rejected', rule='C14.R7', why='seed C02/a + C06/a: maxoffset hoisted over the reject path',
      edits=[('store/hint.go', '''	if !found {
		idx = h.num
		if idx >= len(h.items) {
			if it.Pos.Offset > h.maxoffset {
				h.maxoffset = it.Pos.Offset
			}
			return false
		}
		h.num += 1
	}''', '''	end0 := it.Pos.Offset + recSize
	if end0 > h.maxoffset {
		h.maxoffset = end0
	}
	if !found {
		idx = h.num
		if idx >= len(h.items) {
			return false
		}
		h.num += 1
	}''')]),
 # ---------------- C03 / C18 / C07
 dict(name='C03.R1-offset-only-newest', rule='C03.R1', why='newest test compares Offset only',
      edits=[('store/gc.go', 'if oldPos == treePos { // easy', 'if oldPos.Offset == treePos.Offset { // easy')]),
 dict(name='C03.R2-chunkid-not-refreshed', rule='C03.R2', why='newPos.ChunkID not refreshed after gc.Dst++',
      edits=[('store/gc.go', '				gc.Dst++\n				newPos.ChunkID = gc.Dst\n', '				gc.Dst++\n')]),
 dict(name='C03.R3-repoint-with-scanned-meta', rule='C03.R3', why='UpdateHtreePos writes a meta other than the tree\'s',
      edits=[('store/gc.go', '	bkt.htree.set(ki, meta, newPos)\n}', '	m2 := *meta\n	m2.Ver = 1\n	bkt.htree.set(ki, &m2, newPos)\n}')]),
 dict(name='C03.R4-removeHtree-only-on-merge', rule='C03.R4', why='seed C07/a: removeHtree slipped into the merge branch',
      edits=[('store/gc.go', '''		bkt.hints.Merge(true)
	} else {
		bkt.hints.RemoveMerged()
	}

	// remove hints
	bkt.removeHtree()''', '''		bkt.hints.Merge(true)
		// remove hints
		bkt.removeHtree()
	} else {
		bkt.hints.RemoveMerged()
	}
''')]),
 dict(name='C03.R5-clear-unguarded', rule='C03.R5', why='Clear(src) without the Src != Dst guard',
      edits=[('store/gc.go', '		if gc.Src != gc.Dst {\n			bkt.datas.chunks[gc.Src].Clear()\n		}', '		if gc.Src >= gc.Dst {\n			bkt.datas.chunks[gc.Src].Clear()\n		}')]),
 dict(name='C18.R2-tombstone-reservation-dst', rule='C18.R2', why='seed C03/b, C07/b: gc.Begin > 0 -> gc.Dst > 0',
      edits=[('store/gc.go', 'if gc.Begin > 0 && rec.Payload.Ver < 0 {', 'if gc.Dst > 0 && rec.Payload.Ver < 0 {')]),
 dict(name='C18.R2-extra-keep', rule='C18.R2', why='extra keep when found and not deleted',
      edits=[('store/gc.go', '''					isDeleted = treeMeta.Ver < 0
					hintit, hintchunkid, isCoverdByCollision := bkt.hints.getCollisionGC(ki)''', '''					isDeleted = treeMeta.Ver < 0
					if !isDeleted && rec.Payload.Ver == treeMeta.Ver {
						isNewest = true
					}
					hintit, hintchunkid, isCoverdByCollision := bkt.hints.getCollisionGC(ki)''')]),
 dict(name='C18.R2-collision-skipped-when-deleted', rule='C18.R2', why='seed C13/b: collision consult skipped when the slot holds a tombstone',
      edits=[('store/gc.go', '					if isCoverdByCollision {\n						if hintit != nil {', '					if isCoverdByCollision && !isDeleted {\n						if hintit != nil {')]),
 dict(name='C18.R1-keep-flag-outside-loop', rule='C18.R1', why='keep flag declared once per file',
      edits=[('store/gc.go', '''		for {
			var sizeBroken uint32''', '''		var isNewest bool
		for {
			var sizeBroken uint32'''),
             ('store/gc.go', '			var isNewest, isCoverdByCollision, isDeleted bool', '			var isCoverdByCollision, isDeleted bool')]),
 dict(name='C18.R4-endgc-keeps-rewriting', rule='C18.R4', why='seed C03/a, C18/b: rewriting cleared only when truncating',
      edits=[('store/datachunk.go', '''		dc.Truncate(dc.writingHead)
		dc.size = dc.writingHead
	}
	dc.rewriting = false
	return''', '''		dc.Truncate(dc.writingHead)
		dc.size = dc.writingHead
		dc.rewriting = false
	}
	return''')]),
 dict(name='C18.R4-defer-binds-first-dst', rule='C18.R4', why='seed C18/a: defer dstchunk.endGCWriting() binds the first destination',
      edits=[('store/gc.go', '''	defer func() {
		dstchunk.endGCWriting()
		bkt.hints.trydump(gc.Dst, true)
	}()''', '''	defer func() {
		bkt.hints.trydump(gc.Dst, true)
	}()
	defer dstchunk.endGCWriting()''')]),
 dict(name='C18.R5-always-overwrite', rule='C18.R5', why='beginGCWriting always opens with isappend=false',
      edits=[('store/datachunk.go', 'dc.gcWriter, err = GetStreamWriter(dc.path, !dc.rewriting)', 'dc.gcWriter, err = GetStreamWriter(dc.path, false)')]),
 dict(name='C07.R1-no-per-record-flush', rule='C07.R1', why='per-record Flush removed from AppendRecordGC',
      edits=[('store/datachunk.go', '''	if err = dc.gcWriter.wbuf.Flush(); err != nil {
		logger.Fatalf("write data fail, stop! err: %v", err)
		return 0, err
	}
	return
}''', '''	return
}''')]),
 dict(name='C05.R2-cancel-inside-record-loop', rule='C05.R2', why='seed C05/b: cancel honoured in the middle of a file',
      edits=[('store/gc.go', '''		for {
			var sizeBroken uint32''', '''		for {
			if gc.CancelFlag {
				logger.Infof("GC canceled: src %d dst %d", gc.Src, gc.Dst)
				return
			}
			var sizeBroken uint32''')]),
 dict(name='C05.R4-hint-before-repoint', rule='C05.R4', why='seed C05/a: hints.set moved between copy and repoint',
      edits=[('store/gc.go', '''			if found {
				if isCoverdByCollision {
					mgr.UpdateCollision(bkt, ki, oldPos, newPos, rec)
				}
				mgr.UpdateHtreePos(bkt, ki, oldPos, newPos)
			}

			rotated := bkt.hints.set(ki, &meta, newPos, recsize, "gc")
			if rotated {
				bkt.hints.trydump(gc.Dst, false)
			}''', '''			rotated := bkt.hints.set(ki, &meta, newPos, recsize, "gc")
			if rotated {
				bkt.hints.trydump(gc.Dst, false)
			}
			if found {
				if isCoverdByCollision {
					mgr.UpdateCollision(bkt, ki, oldPos, newPos, rec)
				}
				mgr.UpdateHtreePos(bkt, ki, oldPos, newPos)
			}''')]),
 # ---------------- C06
 dict(name='C06.R1-flush-truncates', rule='C06.R1', why='flush truncates the file on size mismatch instead of fail-stop',
      edits=[('store/data.go', '''		logger.Fatalf("wrong data file size, exp %d, got %d, %s, dataChunk %#v",
			filessize, w.offset, ds.genPath(chunk), &ds.chunks[chunk])''', '''		logger.Errorf("wrong data file size, exp %d, got %d, %s", filessize, w.offset, ds.genPath(chunk))
		ds.chunks[chunk].Truncate(filessize)''')]),
 dict(name='C06.R3-open-continues', rule='C06.R3', why='open logs and continues when ListFiles fails',
      edits=[('store/bucket.go', '''	maxdata, err := bkt.datas.ListFiles()
	if err != nil {
		return err
	}
	htrees, ids := bkt.getAllIndex(HTREE_SUFFIX)
	for i := len(htrees) - 1; i >= 0; i-- {
		treepath := htrees[i]''', '''	maxdata, err := bkt.datas.ListFiles()
	if err != nil {
		logger.Errorf("%v", err)
	}
	htrees, ids := bkt.getAllIndex(HTREE_SUFFIX)
	for i := len(htrees) - 1; i >= 0; i-- {
		treepath := htrees[i]''')]),
 dict(name='C06.R4-head-is-last-file', rule='C06.R4', why='newHead = max (keeps appending to the last existing file)',
      edits=[('store/data.go', '	ds.newHead = max + 1\n', '	ds.newHead = max\n	if max < 0 {\n		ds.newHead = 0\n	}\n')]),
 # ---------------- C08
 dict(name='C08.R1-remove-without-invalidate', rule='C08.R1', why='HTree.remove uses getLeaf',
      edits=[('store/htree.go', '	tree.getLeafAndInvalidNodes(ki, &tree.ni)\n	tree.remvoeFromLeaf(&tree.ni, ki, oldPos)', '	tree.getLeaf(ki, &tree.ni)\n	tree.remvoeFromLeaf(&tree.ni, ki, oldPos)')]),
 dict(name='C08.R1-invalidate-stops-early', rule='C08.R1', why='seed C08/a: invalidation stops at the first already-invalid ancestor',
      edits=[('store/htree.go', '''	for level := 1; level < len(tree.levels)-1; level += 1 {
		ni.offset = ni.offset*16 + path[level-1]
		tree.levels[level][ni.offset].isHashUpdated = false
	}
	ni.offset = ni.offset*16 + path[ni.level-1]
	ni.node = &tree.levels[ni.level][ni.offset]
	ni.path = ki.KeyPath[:tree.depth+ni.level]
	return
}

func (tree *HTree) getNode''', '''	for level := 1; level < len(tree.levels)-1; level += 1 {
		ni.offset = ni.offset*16 + path[level-1]
		if tree.levels[level][ni.offset].isHashUpdated {
			tree.levels[level][ni.offset].isHashUpdated = false
		}
	}
	ni.offset = ni.offset*16 + path[ni.level-1]
	ni.node = &tree.levels[ni.level][ni.offset]
	ni.path = ki.KeyPath[:tree.depth+ni.level]
	return
}

func (tree *HTree) getNode''')]),
 dict(name='C08.R2-remove-guard-dropped', rule='C08.R2', why='seed C08/b: remove-side guard oldm.Ver > 0 dropped',
      edits=[('store/htree.go', '	if removed && oldm.Ver > 0 {', '	if removed {')]),
 dict(name='C08.R2-low-bits-factor', rule='C08.R2', why='remove multiplies by the low 32 bits',
      edits=[('store/htree.go', '		node.hash -= oldm.Vhash * uint16(ki.KeyHash>>32)', '		node.hash -= oldm.Vhash * uint16(ki.KeyHash)')]),
 dict(name='C08.R3-chunkid-one-byte', rule='C08.R3', why='bytesToItem reads one byte of ChunkID',
      edits=[('store/leaf.go', '	item.Pos.ChunkID = int(uint32(b[9]) | uint32(b[10])<<8)', '	item.Pos.ChunkID = int(uint32(b[9]))')]),
 dict(name='C08.R3-load-hash-before-count', rule='C08.R3', why='load reads hash before count',
      edits=[('store/htree.go', '''		leafnodes[i].count = binary.LittleEndian.Uint32(buf[0:4])
		leafnodes[i].hash = binary.LittleEndian.Uint16(buf[4:6])''', '''		leafnodes[i].hash = binary.LittleEndian.Uint16(buf[0:2])
		leafnodes[i].count = binary.LittleEndian.Uint32(buf[2:6])''')]),
 dict(name='C08.R7-khash-len-short', rule='C08.R7', why='KHASH_LENS last entry 5 -> 4',
      edits=[('store/config.go', 'KHASH_LENS = [8]int{8, 8, 7, 7, 6, 6, 5, 5}', 'KHASH_LENS = [8]int{8, 8, 7, 7, 6, 6, 5, 4}')]),
 dict(name='C08.R4-upper-reset-conditional', rule='C08.R4', why='seed C15/a: upper node reset only for inner nodes',
      edits=[('store/hstore.go', '''	node.hash = 0
	node.count = 0
	if level < len(tree.levels)-1 {
		for i := 0; i < 16; i++ {''', '''	if level < len(tree.levels)-1 {
		node.hash = 0
		node.count = 0
		for i := 0; i < 16; i++ {''')]),
 # ---------------- C09
 dict(name='C09.R1-decode-swaps-sizes', rule='C09.R1', why='decodeHeader swaps ksz/vsz ranges',
      edits=[('store/datafile.go', '''	wrec.ksz = binary.LittleEndian.Uint32(h[16:20])
	wrec.vsz = binary.LittleEndian.Uint32(h[20:24])''', '''	wrec.vsz = binary.LittleEndian.Uint32(h[16:20])
	wrec.ksz = binary.LittleEndian.Uint32(h[20:24])''')]),
 dict(name='C09.R2-crc-skips-key', rule='C09.R2', why='getCRC skips the key',
      edits=[('store/datafile.go', '''	if len(wrec.rec.Key) > 0 {
		hasher.write(wrec.rec.Key)
	}
''', '')]),
 dict(name='C09.R3-crc-skipped-for-empty-value', rule='C09.R3', why='CRC comparison skipped when vsz == 0',
      edits=[('store/datafile.go', '	crc := wrec.getCRC()\n	if wrec.crc != crc {\n		err = fmt.Errorf("crc check fail %s:%d', '	crc := wrec.getCRC()\n	if wrec.vsz != 0 && wrec.crc != crc {\n		err = fmt.Errorf("crc check fail %s:%d')]),
 dict(name='C09.R4-resync-step-128', rule='C09.R4', why='nextValid steps 128',
      edits=[('store/datafile.go', '		sizeBroken += 256\n		offset2 += 256', '		sizeBroken += 128\n		offset2 += 128')]),
 dict(name='C09.R5-resync-without-buffer-reset', rule='C09.R5', why='seed C09/a: nextValid repositions through seek() only',
      edits=[('store/datafile.go', '''			offset3 := offset2 + rsize
			stream.fd.Seek(int64(offset3), io.SeekStart)
			stream.rbuf.Reset(stream.fd)
			stream.offset = offset2 + rsize''', '''			stream.seek(offset2 + rsize)''')]),
 dict(name='C09.R6-offset-advanced-before-resync', rule='C09.R6', why='seed C09/b: offset advanced by the failed header\'s size before nextValid',
      edits=[('store/datafile.go', '		sizeBroken += 1\n		return stream.nextValid()', '		sizeBroken += recsize\n		stream.offset += recsize\n		return stream.nextValid()')]),
 dict(name='C09.R6-crc-mismatch-ends-scan', rule='C09.R6', why='CRC-mismatch branch of Next returns the error instead of resynchronising',
      edits=[('store/datafile.go', '		err := fmt.Errorf("crc fail begin offset %x", stream.offset)\n		logger.Errorf(err.Error())\n		sizeBroken += 1\n		return stream.nextValid()', '		err = fmt.Errorf("crc fail begin offset %x", stream.offset)\n		logger.Errorf(err.Error())\n		sizeBroken += 1\n		return')]),
 # ---------------- C10
 dict(name='C10.R1-compress-before-hash', rule='C10.R1', why='TryCompress before CalcValueHash in checkAndSet',
      edits=[('store/bucket.go', '''		rec := &Record{ki.Key, v}
		v.CalcValueHash()

		oldCap := rec.Payload.CArray.Cap
		rec.TryCompress()''', '''		rec := &Record{ki.Key, v}

		oldCap := rec.Payload.CArray.Cap
		rec.TryCompress()
		v.CalcValueHash()''')]),
 dict(name='C10.R1-rehash-in-append', rule='C10.R1', why='seed C10/b: CalcValueHash again in AppendRecord (after compression)',
      edits=[('store/data.go', '	// must  CalcValueHash before compress\n	oldCap := rec.Payload.CArray.Cap', '	// must  CalcValueHash before compress\n	if rec.Payload.Ver >= 0 {\n		rec.Payload.CalcValueHash()\n	}\n	oldCap := rec.Payload.CArray.Cap')]),
 dict(name='C10.R2-buffer-branch-no-decompress', rule='C10.R2', why='in-buffer branch returns without Decompress',
      edits=[('store/datachunk.go', '		cmem.DBRL.GetData.AddSize(res.Payload.DiffSizeAfterDecompressed())\n		res.Payload.Decompress()\n		return', '		return')]),
 dict(name='C10.R3-double-compress', rule='C10.R3', why='seed C10/a: already-compressed guard dropped',
      edits=[('store/item.go', '	if p.Flag&FLAG_CLIENT_COMPRESS != 0 || p.Flag&FLAG_COMPRESS != 0 {', '	if p.Flag&FLAG_CLIENT_COMPRESS != 0 {')]),
 dict(name='C10.R3-flag-cleared-before-err', rule='C10.R3', why='Decompress clears the flag before checking err',
      edits=[('store/item.go', '''	arr, err := quicklz.CDecompressSafe(p.Body)
	if err != nil {
		logger.Errorf("decompress fail %s", err.Error())
		return
	}
	p.CArray.Free()
	p.CArray = arr
	p.Flag -= FLAG_COMPRESS''', '''	arr, err := quicklz.CDecompressSafe(p.Body)
	p.Flag -= FLAG_COMPRESS
	if err != nil {
		logger.Errorf("decompress fail %s", err.Error())
		return
	}
	p.CArray.Free()
	p.CArray = arr''')]),
 dict(name='C10.R4-no-size-check', rule='C10.R4', why='size check removed from CDecompressSafe',
      edits=[('quicklz/cquicklz.go', '''	sizeC := SizeCompressed(src)
	if len(src) != sizeC {
		err = fmt.Errorf("bad sizeCompressed, expect %d, got %d", sizeC, len(src))
		return
	}
	sizeD := SizeDecompressed(src)
	dst, err = CDecompress(src, sizeD)''', '''	sizeD := SizeDecompressed(src)
	dst, err = CDecompress(src, sizeD)''')]),
]
SPECS += [
 dict(name='C05.R2-cancel-truncates-unscanned', rule='C05.R2', why='revert of the repair: cancel at the head of the first iteration truncates the unscanned in-place destination',
      edits=[('store/gc.go', '''			if dstchunk.rewriting && gc.Src == gc.Dst {
				// the file to be rewritten in place has not been scanned yet:
				// keep it whole instead of truncating it at the (zero) write head
				dstchunk.writingHead = dstchunk.size
			}
''', '')]),
]
