package memcache

import (
	"bufio"
	"strings"
	"testing"
)

// `set k 0 0 4294967297` declares a 4 GiB+1 body. The size check works on
// uint32(length), where it wraps to 1, so the command is accepted and the
// server allocates 4 GiB and waits for that many bytes.
func TestReproByteCountWraps(t *testing.T) {
	InitTokens()
	req := new(Request)
	err := req.Read(bufio.NewReader(strings.NewReader("set k 0 0 4294967297\r\nx\r\n")))
	if err != ErrValueTooLarge {
		t.Fatalf("got %v, want %v", err, ErrValueTooLarge)
	}
}
