package rules

import (
	"go/ast"
	"go/token"
	"go/types"
	"strings"

	"gbcheck/internal/prog"
)

func init() {
	register(&Property{
		ID:      "C17",
		Clause:  "the already-running test and the registration of a pass are one write-locked critical section that dominates the start of the pass; the pass is started only when the range check succeeded and pretend is false, with the range it returned; everything executed before the pretend return is free of file and store-state mutation; only the GC call tree can truncate, remove or rewrite data files, and inside it only gc.Src (ranging over [Begin,End]) and gc.Dst (start or an earlier file, only incremented) are touched; the end of the range is clamped below the head file and only ever decreases; CancelGC only sets the cancel flag under the manager lock",
		NotDec:  "the age-limit arithmetic, gaps, behaviour for every argument tuple",
		Engines: "E1 lockset + E2 guards + E3 value flow + E5 effects/who-may-call",
		Rules: []Rule{
			{"C17.R1", "q", "check-then-register atomic", c17r1},
			{"C17.R2", "q", "pass gated by range check and pretend", c17r2},
			{"C17.R3", "q", "pretend is effect-free", c17r3},
			{"C06.R1", "q", "shared: who may shrink/replace a data file", c06r1},
			{"C17.R4", "q", "gc touches only Src/Dst; ranges", c17r4},
			{"C17.R5", "q", "end clamped below the head and only decreasing", c17r5},
			{"C17.R6", "q", "CancelGC only flags", c17r6},
			{"C17.R7", "q", "the web entry point defaults to the configured age limit", c17r7},
			{"C18.R4", "q", "shared: rewritten file cut and released on every exit", c18r4},
			{"C18.R5", "q", "shared: earlier file appended to, never overwritten", c18r5},
			{"C17.R8", "q", "admin GC handler forwards its parameters faithfully; pretend unless run=true", c17r8},
		},
	})
}

// statSites finds reads (comma-ok / plain index) and writes of GCMgr.stat[...].
func statSites(f *prog.Func) (reads, writes []ast.Node) {
	info := f.Info()
	ast.Inspect(f.Decl.Body, func(n ast.Node) bool {
		if call, isCall := n.(*ast.CallExpr); isCall && prog.CalleeKey(info, call) == "builtin.delete" && len(call.Args) == 2 {
			if k, _ := prog.FieldOf(info, call.Args[0]); k == "store.GCMgr.stat" {
				writes = append(writes, call)
			}
			return true
		}
		ix, ok := n.(*ast.IndexExpr)
		if !ok {
			return true
		}
		if k, _ := prog.FieldOf(info, ix.X); k != "store.GCMgr.stat" {
			return true
		}
		_ = ix
		if as, ok := f.Parent(ix).(*ast.AssignStmt); ok {
			for _, l := range as.Lhs {
				if ast.Node(l) == ast.Node(ix) {
					writes = append(writes, ix)
					return true
				}
			}
		}
		reads = append(reads, ix)
		return true
	})
	return
}

func c17r1(c *Ctx) {
	const R = "C17.R1"
	hgc := c.fn(R, "store.HStore.GC")
	if hgc == nil {
		return
	}
	key := hgc.Key + ": already-running check and registration atomic"
	reads, writes := statSites(hgc)
	var spawn ast.Node
	for _, call := range hgc.CallsTo("store.GCMgr.gc") {
		spawn = call.Expr
	}
	if spawn == nil {
		c.undec(R, key, "HStore.GC no longer starts GCMgr.gc")
		return
	}
	if len(reads) == 0 {
		c.viol(R, key, hgc.Pos(), "HStore.GC does not test GCMgr.stat for a pass in progress before starting one")
		return
	}
	// every refusal test is exactly `an entry exists`
	ast.Inspect(hgc.Decl.Body, func(x ast.Node) bool {
		is, ok := x.(*ast.IfStmt)
		if !ok {
			return true
		}
		var okVar types.Object
		if as, isA := is.Init.(*ast.AssignStmt); isA && len(as.Lhs) == 2 && len(as.Rhs) == 1 {
			if ix, isI := prog.Unparen(as.Rhs[0]).(*ast.IndexExpr); isI && prog.IsField(hgc.Info(), "store.GCMgr.stat")(prog.Unparen(ix.X)) {
				okVar = prog.ObjOf(hgc.Info(), as.Lhs[1])
			}
		}
		if okVar == nil {
			return true
		}
		exact := prog.ObjOf(hgc.Info(), is.Cond) == okVar
		c.check(exact && hgc.Terminates(is.Body), R, hgc.Key+": a registered pass always counts as running", c.pos(is), "if exists { refuse }",
			"the already-running test is `"+types.ExprString(is.Cond)+"`, narrower than `an entry exists`: a pass that is still registered (e.g. cancel requested but not yet honoured) is treated as absent and a second pass is started beside it")
		return true
	})
	if len(writes) == 0 {
		c.viol(R, key, c.pos(reads[0]), "the already-running test (GCMgr.stat read under "+lockAt(c, hgc, reads[0])+") and the registration of the new pass are not in one critical section: the registration happens later, inside the spawned GCMgr.gc goroutine, so two requests for the same bucket can both pass the test and both start a pass")
		return
	}
	// some test of the map and the registration lie in one write-locked section that precedes the start of the pass
	good := false
	for _, rd := range reads {
		for _, wr := range writes {
			rl, _ := c.P.Locks().At(hgc, rd)
			wl, _ := c.P.Locks().At(hgc, wr)
			if rl[lkGC] != "W" || wl[lkGC] != "W" || hgc.EnclosingLit(rd) != hgc.EnclosingLit(wr) {
				continue
			}
			cfg := hgc.CFGFor(rd)
			passUnlock := func(n ast.Node) bool {
				found := false
				ast.Inspect(n, func(x ast.Node) bool {
					if call, ok := x.(*ast.CallExpr); ok {
						if k, l, _ := prog.LockOp(hgc.Info(), call); (k == "Unlock" || k == "RUnlock") && l == lkGC {
							if _, isDefer := hgc.Parent(call).(*ast.DeferStmt); !isDefer {
								found = true
							}
						}
					}
					return true
				})
				return found
			}
			c.Paths += 2
			if !cfg.ReachesWithout(rd, wr, passUnlock) {
				continue // every path from the test to the registration drops the lock in between
			}
			// the registration happens only when the test found no running pass
			info := hgc.Info()
			guarded := false
			for _, a := range hgc.GuardsAt(wr) {
				if a.Op == token.ILLEGAL && a.Neg {
					for _, s := range hgc.SourcesAt(a.X, wr) {
						if s.Expr != nil && prog.MentionsField(info, s.Expr, "store.GCMgr.stat") {
							guarded = true
						}
					}
				}
			}
			if !guarded {
				continue
			}
			if hgc.EnclosingLit(wr) != nil || hgc.CFG().Dominates(wr, spawn) {
				good = true
			}
		}
	}
	c.check(good, R, key, c.pos(writes[0]), "test and registration under one write-locked GCMgr.mu section before the pass starts",
		"no test of GCMgr.stat shares a write-locked section of GCMgr.mu with the registration that precedes the start of the pass: two requests can both pass the test")
}

// pathPasses: is there a path from a to b that passes a node satisfying p?
func pathPasses(cfg *prog.CFG, a, b ast.Node, p func(ast.Node) bool) bool {
	// a path a -> x -> b with p(x): approximate by: exists reachable x with p(x) such that a reaches x and x reaches b
	found := false
	for _, blk := range cfg.G.Blocks {
		for _, n := range blk.Nodes {
			if p(n) && cfg.ReachesWithout(a, n, nil) && cfg.ReachesWithout(n, b, nil) {
				found = true
			}
		}
	}
	return found
}

func lockAt(c *Ctx, f *prog.Func, n ast.Node) string {
	ls, _ := c.P.Locks().At(f, n)
	return "lockset " + ls.String()
}

func c17r2(c *Ctx) {
	const R = "C17.R2"
	f := c.fn(R, "store.HStore.GC")
	if f == nil {
		return
	}
	info := f.Info()
	spawns := f.CallsTo("store.GCMgr.gc")
	ranges := f.CallsTo("store.Bucket.gcCheckRange")
	if len(spawns) == 0 || len(ranges) == 0 {
		c.viol(R, f.Key+": pass gated by the range check", f.Pos(), "HStore.GC no longer resolves the range with gcCheckRange before starting GCMgr.gc")
		return
	}
	sp, rg := spawns[0], ranges[0]
	errObj := f.ResultObj(rg.Expr, 2)
	g := f.GuardsAt(sp.Expr)
	c.Paths++
	dom := f.CFG().Dominates(rg.Expr, sp.Expr)
	c.check(dom && errObj != nil && prog.HasNilFact(info, g, prog.IsObj(info, errObj), true), R, f.Key+": pass only when gcCheckRange succeeded", sp.Pos(), "dominated, err == nil", "GCMgr.gc can be started although the range check failed (or without it)")
	pretend := f.Param(5)
	c.check(pretend != nil && prog.HasBoolFact(g, prog.IsObj(info, pretend), false), R, f.Key+": pass only when !pretend", sp.Pos(), "guarded by pretend == false", "a pretend request starts a real GC pass")
	for i, want := range []int{0, 1} {
		ok, _ := f.OnlyFromCall(sp.Expr.Args[1+i], "store.Bucket.gcCheckRange", want)
		c.check(ok, R, f.Key+": gc arg "+itoa(1+i)+" = gcCheckRange result "+itoa(want), sp.Pos(), "flows from the resolved range", "GCMgr.gc is started with a begin/end that is not the resolved range (e.g. the raw request arguments)")
	}
	for i, pi := range []int{1, 2, 3} {
		c.check(prog.ObjOf(info, rg.Expr.Args[i]) == f.Param(pi), R, f.Key+": gcCheckRange arg "+itoa(i)+" = request parameter", rg.Pos(), "unchanged", "the range check does not receive the request's begin/end/noGCDays unchanged")
	}
	c.check(prog.ObjOf(info, sp.Expr.Args[3]) == f.Param(4), R, f.Key+": merge flag passed unchanged", sp.Pos(), "unchanged", "the merge flag handed to gc is not the request's")
}

var fileMutators = []string{"os.Create", "os.OpenFile", "os.Remove", "os.RemoveAll", "os.Rename", "os.Truncate", "os.WriteFile", "ioutil.WriteFile", "utils.Remove", "os.MkdirAll", "os.Mkdir", "os.File.Write", "os.File.WriteString", "os.File.Truncate"}

func c17r3(c *Ctx) {
	const R = "C17.R3"
	root := c.fn(R, "store.Bucket.gcCheckRange")
	if root == nil {
		return
	}
	// functions executed before the pretend return: static callees of gcCheckRange
	set := map[*prog.Func]bool{root: true}
	work := []*prog.Func{root}
	for len(work) > 0 {
		f := work[0]
		work = work[1:]
		for _, call := range f.Calls() {
			if g := c.P.F(call.Key); g != nil && !set[g] && g.Pkg.Name == "store" {
				set[g] = true
				work = append(work, g)
			}
		}
	}
	n := 0
	for f := range set {
		c.Funcs[f.Key] = true
		info := f.Info()
		bad := ""
		for _, call := range f.Calls() {
			for _, m := range fileMutators {
				if call.Key == m {
					if m == "os.OpenFile" && len(call.Expr.Args) > 1 {
						if v, ok := prog.ConstInt(info, call.Expr.Args[1]); ok && v == 0 {
							continue
						}
					}
					bad = "calls " + m + " at " + call.Pos()
				}
			}
		}
		// stores to fields reachable from the receiver / parameters / globals
		ast.Inspect(f.Decl.Body, func(x ast.Node) bool {
			var lhs []ast.Expr
			switch s := x.(type) {
			case *ast.AssignStmt:
				lhs = s.Lhs
			case *ast.IncDecStmt:
				lhs = []ast.Expr{s.X}
			}
			for _, l := range lhs {
				if _, isSel := prog.Unparen(l).(*ast.SelectorExpr); !isSel {
					if _, isIdx := prog.Unparen(l).(*ast.IndexExpr); !isIdx {
						continue
					}
				}
				root := prog.RootObj(info, l)
				v, ok := root.(*types.Var)
				if !ok {
					continue
				}
				isParamOrRecv := false
				sig := f.Obj.Type().(*types.Signature)
				if sig.Recv() == v {
					isParamOrRecv = true
				}
				for i := 0; i < sig.Params().Len(); i++ {
					if sig.Params().At(i) == v {
						isParamOrRecv = true
					}
				}
				global := v.Pkg() != nil && v.Parent() == v.Pkg().Scope()
				if (isParamOrRecv || global) && isPointerish(v.Type()) {
					if k, _ := prog.FieldOf(info, l); k != "" && isStoreState(k) {
						bad = "stores to " + k + " at " + c.pos(l)
					}
				}
			}
			return true
		})
		n++
		c.check(bad == "", R, f.Key+": no write effect before the pretend return", f.Pos(), "no file mutation, no store through receiver/parameters/globals",
			"a function executed before HStore.GC's pretend return has a write effect ("+bad+"): pretend mode changes state")
	}
	// the pretend return itself precedes the spawn (C17.R2) and HStore.GC's own pre-return code is effect-free
	if f := c.fn(R, "store.HStore.GC"); f != nil {
		bad := ""
		sp := f.CallsTo("store.GCMgr.gc")
		for _, call := range f.Calls() {
			for _, m := range fileMutators {
				if call.Key == m {
					bad = "calls " + m
				}
			}
			if g := c.P.F(call.Key); g != nil && !set[g] && g.Pkg.Name == "store" && call.Key != "store.GCMgr.gc" {
				// any other store function called before the spawn must be effect-free as well
				if len(sp) > 0 && call.Expr.Pos() < sp[0].Expr.Pos() && f.EnclosingLit(call.Expr) == nil {
					if hasFileEffect(c, g) {
						bad = "calls " + call.Key + " which mutates files"
					}
				}
			}
		}
		c.check(bad == "", R, f.Key+": no write effect before the pretend return", f.Pos(), "only the range check runs before `if pretend { return }`", "HStore.GC itself has a write effect before the pretend return: "+bad)
	}
	if n < 3 {
		c.undec(R, "store.Bucket.gcCheckRange", "range-check call tree smaller than expected")
	}
}

func isPointerish(t types.Type) bool {
	switch t.Underlying().(type) {
	case *types.Pointer, *types.Slice, *types.Map:
		return true
	}
	return false
}

func hasFileEffect(c *Ctx, g *prog.Func) bool {
	r := reachSet(c, fileMutators)
	return r[g.Key]
}

func c17r4(c *Ctx) {
	const R = "C17.R4"
	f := c.fn(R, "store.GCMgr.gc")
	if f == nil {
		return
	}
	info := f.Info()
	isSrc := prog.IsField(info, "store.GCState.Src")
	isDst := prog.IsField(info, "store.GCState.Dst")
	// chunk expressions handed to the mutating / reading operations
	n := 0
	for _, call := range f.Calls() {
		switch call.Key {
		case "store.dataChunk.Clear":
			n++
			ix := chunkIndexOf(f, call.Expr)
			c.check(ix != nil && isSrc(prog.Unparen(ix)), R, f.Key+": Clear on chunks[gc.Src]", call.Pos(), "index is gc.Src", "dataChunk.Clear is applied to a chunk that is not the current source")
		case "store.dataStore.GetStreamReader", "store.hintMgr.ClearChunk":
			n++
			c.check(len(call.Expr.Args) == 1 && isSrc(prog.Unparen(call.Expr.Args[0])), R, f.Key+": "+short(call.Key)+"(gc.Src)", call.Pos(), "argument is gc.Src", call.Key+" is applied to a chunk that is not the current source")
		case "store.dataChunk.beginGCWriting", "store.dataChunk.AppendRecordGC", "store.dataChunk.endGCWriting":
			if f.EnclosingLit(call.Expr) != nil {
				continue
			}
			n++
			// receiver is the destination chunk variable: every definition of it is &chunks[gc.Dst]
			se, _ := prog.Unparen(call.Expr.Fun).(*ast.SelectorExpr)
			okDst := false
			if se != nil {
				okDst = true
				defs := f.DefsOfPath(se.X)
				if len(defs) == 0 {
					okDst = false
				}
				for _, d := range defs {
					ix := indexOfChunks(info, d.Rhs)
					if ix == nil || !isDst(prog.Unparen(ix)) {
						okDst = false
					}
				}
			}
			c.check(okDst, R, f.Key+": "+short(call.Key)+" on chunks[gc.Dst]", call.Pos(), "receiver is &chunks[gc.Dst]", call.Key+" is applied to a chunk that is not the destination gc.Dst")
		}
	}
	if n < 5 {
		c.undec(R, f.Key, "fewer than 5 chunk operations recognised in gc")
	}
	// source loop bounds
	okLoop := false
	ast.Inspect(f.Decl.Body, func(x ast.Node) bool {
		fs, ok := x.(*ast.ForStmt)
		if !ok || fs.Init == nil || fs.Cond == nil || fs.Post == nil {
			return true
		}
		as, ok1 := fs.Init.(*ast.AssignStmt)
		be, ok2 := prog.Unparen(fs.Cond).(*ast.BinaryExpr)
		incX, incTok, ok3 := prog.IncDecOf(info, fs.Post)
		if ok1 && ok2 && ok3 && len(as.Lhs) == 1 && isSrc(as.Lhs[0]) && prog.IsField(info, "store.GCState.Begin")(as.Rhs[0]) &&
			be.Op == token.LEQ && isSrc(be.X) && prog.IsField(info, "store.GCState.End")(be.Y) && incTok == token.INC && isSrc(incX) {
			okLoop = true
		}
		return true
	})
	c.check(okLoop, R, f.Key+": for gc.Src = gc.Begin; gc.Src <= gc.End; gc.Src++", f.Pos(), "source ranges over [Begin, End]", "the source loop no longer ranges exactly over [gc.Begin, gc.End]")
	// Begin/End come from the arguments
	for _, pr := range [][2]string{{"store.GCState.Begin", "1"}, {"store.GCState.End", "2"}} {
		okA := false
		ast.Inspect(f.Decl.Body, func(x ast.Node) bool {
			if as, ok := x.(*ast.AssignStmt); ok && len(as.Lhs) == 1 && len(as.Rhs) == 1 && prog.IsField(info, pr[0])(as.Lhs[0]) {
				idx := 1
				if pr[1] == "2" {
					idx = 2
				}
				okA = prog.ObjOf(info, as.Rhs[0]) == f.Param(idx)
			}
			return true
		})
		c.check(okA, R, f.Key+": "+short(pr[0])+" = argument", f.Pos(), "set from the resolved range", pr[0]+" is not set from the range argument")
	}
	// the destination search stops at the first non-empty earlier file
	ast.Inspect(f.Decl.Body, func(x ast.Node) bool {
		fs, ok := x.(*ast.ForStmt)
		if !ok || fs.Post == nil {
			return true
		}
		_, decTok, isDec := prog.IncDecOf(info, fs.Post)
		as, isA := fs.Init.(*ast.AssignStmt)
		if !isDec || decTok != token.DEC || !isA || len(as.Rhs) != 1 {
			return true
		}
		if be, isB := prog.Unparen(as.Rhs[0]).(*ast.BinaryExpr); !isB || be.Op != token.SUB || prog.ObjOf(info, be.X) != f.Param(1) {
			return true
		}
		// the `size > 0` test inside
		found := false
		ast.Inspect(fs.Body, func(y ast.Node) bool {
			is, isIf := y.(*ast.IfStmt)
			if !isIf || found {
				return true
			}
			for _, a := range prog.Decompose(is.Cond, true, is) {
				if prog.AtomCmp(a, token.GTR, func(e ast.Expr) bool {
					for _, s := range f.SourcesAt(e, is.Cond) {
						if prog.MentionsField(info, s.Expr, "store.dataChunk.size") || strings.HasSuffix(s.Field, "size") {
							return true
						}
					}
					return false
				}, prog.IsIntConst(info, 0)) {
					found = true
					c.check(f.Terminates(is.Body), R, f.Key+": destination search stops at the nearest non-empty earlier file", c.pos(is), "every branch under size > 0 ends the search",
						"the backwards search for the destination continues past the nearest non-empty earlier file on some branch: GC then appends into (and, on overflow, walks gc.Dst++ through) older live files below the range")
				}
			}
			return true
		})
		if !found {
			// the other spelling: `if size == 0 { continue }` and everything behind it ends the search
			isSize := func(e ast.Expr) bool {
				for _, s := range f.SourcesAt(e, e) {
					if prog.MentionsField(info, s.Expr, "store.dataChunk.size") || strings.HasSuffix(s.Field, "size") {
						return true
					}
				}
				return false
			}
			for i, st := range fs.Body.List {
				is, isIf := st.(*ast.IfStmt)
				if !isIf || is.Else != nil || len(is.Body.List) != 1 {
					continue
				}
				br, isBr := is.Body.List[0].(*ast.BranchStmt)
				if !isBr || br.Tok != token.CONTINUE || br.Label != nil {
					continue
				}
				as := prog.Decompose(is.Cond, true, is)
				if len(as) != 1 || !(prog.AtomCmp(as[0], token.EQL, isSize, prog.IsIntConst(info, 0)) || prog.AtomCmp(as[0], token.LEQ, isSize, prog.IsIntConst(info, 0))) {
					continue
				}
				found = true
				rest := fs.Body.List[i+1:]
				okRest := len(rest) > 0 && f.Terminates(rest[len(rest)-1])
				for _, r := range rest {
					ast.Inspect(r, func(y ast.Node) bool {
						switch z := y.(type) {
						case *ast.ForStmt, *ast.RangeStmt, *ast.FuncLit:
							return false
						case *ast.BranchStmt:
							if z.Tok == token.CONTINUE {
								okRest = false
							}
						}
						return true
					})
				}
				c.check(okRest, R, f.Key+": destination search stops at the nearest non-empty earlier file", c.pos(is), "only an empty file continues the search",
					"the backwards search for the destination continues past the nearest non-empty earlier file on some branch: GC then appends into (and, on overflow, walks gc.Dst++ through) older live files below the range")
			}
		}
		if !found {
			c.undec(R, f.Key+": destination search", "size test not recognised in the destination search loop")
		}
		return true
	})
	// stores to gc.Dst: start argument, an earlier index, or increment
	start := f.Param(1)
	ast.Inspect(f.Decl.Body, func(x ast.Node) bool {
		if ix, itok, isID := incDecNode(info, x); isID {
			if isDst(ix) {
				c.check(itok == token.INC, R, f.Key+": gc.Dst++", c.pos(x), "increment", "gc.Dst is decremented")
			}
			return true
		}
		switch s := x.(type) {
		case *ast.AssignStmt:
			for i, l := range s.Lhs {
				if !isDst(l) || i >= len(s.Rhs) {
					continue
				}
				rhs := prog.Unparen(s.Rhs[i])
				ok := prog.ObjOf(info, rhs) == start
				if !ok {
					// loop variable of `for i := start-1; i >= 0; i--`, possibly +1
					base := rhs
					if be, isB := rhs.(*ast.BinaryExpr); isB && be.Op == token.ADD {
						if v, isC := prog.ConstInt(info, be.Y); isC && v == 1 {
							base = prog.Unparen(be.X)
						}
					}
					if o := prog.ObjOf(info, base); o != nil {
						for _, a := range f.Enclosing(s) {
							if fs, isF := a.(*ast.ForStmt); isF && fs.Init != nil {
								if ias, isA := fs.Init.(*ast.AssignStmt); isA && len(ias.Lhs) == 1 && prog.ObjOf(info, ias.Lhs[0]) == o {
									if ibe, isB := prog.Unparen(ias.Rhs[0]).(*ast.BinaryExpr); isB && ibe.Op == token.SUB && prog.ObjOf(info, ibe.X) == start {
										if _, decTok, isD := prog.IncDecOf(info, fs.Post); isD && decTok == token.DEC {
											// base+1 only when base < start-1 is the caller's business (guarded in code); accept i and i+1 <= start
											ok = true
										}
									}
								}
							}
						}
					}
				}
				c.check(ok, R, f.Key+": gc.Dst = start or an earlier file", c.pos(s), "destination ≤ start", "gc.Dst is assigned something other than the range start or the index of an earlier file: GC would write into a file outside [earlier file, range]")
			}
		}
		return true
	})
}

func chunkIndexOf(f *prog.Func, call *ast.CallExpr) ast.Expr {
	se, ok := prog.Unparen(call.Fun).(*ast.SelectorExpr)
	if !ok {
		return nil
	}
	if ix := indexOfChunks(f.Info(), se.X); ix != nil {
		return ix
	}
	// through a local alias: src := &chunks[i]; src.Clear()
	if _, isId := prog.Unparen(se.X).(*ast.Ident); isId {
		defs := f.DefsReaching(mustPath(f.Info(), se.X), call)
		var ix ast.Expr
		for _, d := range defs {
			i2 := indexOfChunks(f.Info(), d.Rhs)
			if i2 == nil || (ix != nil && !prog.SameExpr(f.Info(), ix, i2)) {
				return nil
			}
			ix = i2
		}
		return ix
	}
	return nil
}

func indexOfChunks(info *types.Info, e ast.Expr) ast.Expr {
	if e == nil {
		return nil
	}
	e = prog.Unparen(e)
	if u, ok := e.(*ast.UnaryExpr); ok && u.Op == token.AND {
		e = prog.Unparen(u.X)
	}
	ix, ok := e.(*ast.IndexExpr)
	if !ok {
		return nil
	}
	if k, _ := prog.FieldOf(info, ix.X); k != "store.dataStore.chunks" {
		return nil
	}
	return ix.Index
}

func c17r5(c *Ctx) {
	const R = "C17.R5"
	f := c.fn(R, "store.Bucket.gcCheckEnd")
	if f == nil {
		return
	}
	info := f.Info()
	end := f.Result(0)
	if end == nil {
		c.undec(R, f.Key, "result `end` is not a named value")
		return
	}
	isEnd := prog.IsObj(info, end)
	headMinus := func(e ast.Expr) (int64, bool) {
		be, ok := prog.Unparen(e).(*ast.BinaryExpr)
		if ok && be.Op == token.SUB && prog.IsField(info, "store.dataStore.newHead")(prog.Unparen(be.X)) {
			if v, ok := prog.ConstInt(info, be.Y); ok {
				return v, true
			}
		}
		if prog.IsField(info, "store.dataStore.newHead")(prog.Unparen(e)) {
			return 0, true
		}
		return 0, false
	}
	clamp := false
	ast.Inspect(f.Decl.Body, func(x ast.Node) bool {
		if st, isS := x.(ast.Stmt); isS {
			if ix, itok, isID := prog.IncDecOf(info, st); isID {
				if isEnd(ix) {
					c.check(itok == token.DEC, R, f.Key+": end--", c.pos(st), "decrement", "`end` is incremented")
				}
				return true
			}
		}
		switch s := x.(type) {
		case *ast.AssignStmt:
			for i, l := range s.Lhs {
				if !isEnd(l) || i >= len(s.Rhs) {
					continue
				}
				rhs := s.Rhs[i]
				key := f.Key + ": store to end"
				switch {
				case prog.ObjOf(info, rhs) == f.Param(1):
					c.ok(R, key+" (= requested end)", c.pos(s), "initialisation from the argument")
				case func() bool { _, ok := headMinus(rhs); return ok }():
					k, _ := headMinus(rhs)
					// guard must cover every end >= newHead-1
					g := f.GuardsAt(s)
					okG := false
					for _, a := range g {
						if a.Op == token.ILLEGAL && !a.Neg {
							// disjunction kept opaque: look inside for end >= newHead-1
							ast.Inspect(a.X, func(y ast.Node) bool {
								if be, ok := y.(*ast.BinaryExpr); ok && (be.Op == token.GEQ || be.Op == token.GTR) && isEnd(be.X) {
									if kk, ok := headMinus(be.Y); ok && ((be.Op == token.GEQ && kk >= 1) || (be.Op == token.GTR && kk >= 2)) {
										okG = true
									}
								}
								return true
							})
						}
						if prog.AtomCmp(a, token.GEQ, isEnd, func(e ast.Expr) bool { kk, ok := headMinus(e); return ok && kk >= 1 }) {
							okG = true
						}
					}
					clamp = true
					c.check(k >= 1 && okG, R, key+" (clamp below the head)", c.pos(s), "end = newHead-1 whenever end >= newHead-1", "the end of the range is not clamped strictly below the data file receiving appends (clamp newHead-"+itoa(int(k))+", guard recognised="+boolStr(okG)+"): GC can rewrite or remove the head file")
				default:
					// must be a decrease: <var> - const>=1
					be, ok := prog.Unparen(rhs).(*ast.BinaryExpr)
					dec := false
					if ok && be.Op == token.SUB {
						if v, ok := prog.ConstInt(info, be.Y); ok && v >= 1 {
							dec = true
						}
					}
					c.check(dec, R, key+" (decrease)", c.pos(s), "x - k, k >= 1", "a store to `end` is not the request, the clamp or a decrease: the range end can grow towards the head file")
				}
			}
		case *ast.IncDecStmt:
			if isEnd(s.X) {
				c.check(s.Tok == token.DEC, R, f.Key+": end--", c.pos(s), "decrement", "`end` is incremented")
			}
		}
		return true
	})
	if !clamp {
		c.viol(R, f.Key+": store to end (clamp below the head)", f.Pos(), "gcCheckEnd no longer clamps the end of the range below dataStore.newHead")
	}
}

func boolStr(b bool) string {
	if b {
		return "yes"
	}
	return "no"
}

func c17r6(c *Ctx) {
	const R = "C17.R6"
	f := c.fn(R, "store.HStore.CancelGC")
	if f == nil {
		return
	}
	info := f.Info()
	reads, writes := statSites(f)
	c.check(len(writes) == 0, R, f.Key+": does not modify GCMgr.stat", f.Pos(), "no store", "CancelGC modifies the running map")
	for _, r := range reads {
		h, ls := holds(c, f, r, lkGC)
		c.check(h, R, f.Key+": reads GCMgr.stat under GCMgr.mu", c.pos(r), "lockset "+ls, "CancelGC reads the running map without GCMgr.mu (lockset "+ls+")")
	}
	if len(reads) == 0 {
		c.undec(R, f.Key, "no read of GCMgr.stat")
	}
	bad := ""
	ast.Inspect(f.Decl.Body, func(x ast.Node) bool {
		if as, ok := x.(*ast.AssignStmt); ok {
			for _, l := range as.Lhs {
				if k, _ := prog.FieldOf(info, l); strings.HasPrefix(k, "store.GCState.") && k != "store.GCState.CancelFlag" {
					bad = k
				}
			}
		}
		return true
	})
	c.check(bad == "", R, f.Key+": only sets CancelFlag", f.Pos(), "no other GCState field written", "CancelGC writes "+bad)
}

// isStoreState: the field belongs to one of the long-lived store structures
// (as opposed to scratch records handed around by pointer).
func isStoreState(fieldKey string) bool {
	for _, t := range []string{"Bucket", "BucketInfo", "BucketStat", "dataStore", "dataChunk", "hintMgr", "hintChunk", "hintSplit", "HintBuffer", "HTree", "Node", "GCMgr", "GCState", "GCFileState", "HStore", "CollisionTable", "HStoreConfig", "HtreeDerivedConfig"} {
		if strings.HasPrefix(fieldKey, "store."+t+".") {
			return true
		}
	}
	return false
}

// c17r7: gcCheckEnd substitutes Conf.NoGCDays only for a negative argument, so every
// entry point must pass a negative default when the request does not name an age limit.
func c17r7(c *Ctx) {
	const R = "C17.R7"
	if f := c.fn(R, "store.Bucket.gcCheckEnd"); f != nil {
		info := f.Info()
		ok := false
		ast.Inspect(f.Decl.Body, func(x ast.Node) bool {
			if as, isA := x.(*ast.AssignStmt); isA && len(as.Lhs) == 1 && prog.ObjOf(info, as.Lhs[0]) == f.Param(2) && prog.MentionsField(info, as.Rhs[0], "store.DataConfig.NoGCDays") {
				for _, a := range f.GuardsAt(as) {
					if prog.AtomCmp(a, token.LSS, prog.IsObj(info, f.Param(2)), prog.IsIntConst(info, 0)) {
						ok = true
					}
				}
			}
			return true
		})
		c.check(ok, R, f.Key+": negative age limit ⇒ configured NoGCDays", f.Pos(), "if noGCDays < 0 { noGCDays = Conf.NoGCDays }", "gcCheckEnd no longer substitutes the configured age limit for a negative argument")
		// the age test uses that value
		used := false
		ast.Inspect(f.Decl.Body, func(x ast.Node) bool {
			if be, isB := x.(*ast.BinaryExpr); isB && be.Op == token.GTR && prog.Mentions(info, be.Y, f.Param(2)) {
				if v := constIn(info, be.Y, 86400); v {
					used = true
				}
			}
			return true
		})
		c.check(used, R, f.Key+": file age compared with noGCDays·86400", f.Pos(), "now - ts > noGCDays*86400", "the age test no longer compares against noGCDays days")
	}
	f := c.fn(R, "gobeansdb.handleGC")
	if f == nil {
		return
	}
	info := f.Info()
	gcs := f.CallsTo("store.HStore.GC")
	if len(gcs) == 0 {
		c.undec(R, f.Key, "call of HStore.GC not found")
		return
	}
	arg := gcs[0].Expr.Args[3]
	okDef := false
	desc := "?"
	other := ""
	for _, s := range f.SourcesAt(arg, gcs[0].Expr) {
		if s.Kind == "call" && s.Key == "gobeansdb.getFormValueInt" && len(s.Call.Args) == 3 {
			if name, isS := prog.ConstString(info, s.Call.Args[1]); isS && name == "nogcdays" {
				if v, isC := prog.ConstInt(info, s.Call.Args[2]); isC {
					desc = itoa(int(v))
					if v < 0 {
						desc = "-" + itoa(int(-v))
						okDef = true
					}
				}
				continue
			}
		}
		other = s.Kind
		if s.Expr != nil {
			other = types.ExprString(s.Expr)
		}
	}
	c.check(other == "", R, f.Key+": `nogcdays` reaches HStore.GC as parsed", gcs[0].Pos(), "the form value, nothing else", "the age-limit argument of HStore.GC can also be `"+other+"`, assigned between the parse and the call: a negative value is the in-band request for the configured no_gc_days, rewriting it (e.g. clamping to 0) makes every default request run with no age limit")
	c.check(okDef, R, f.Key+": missing `nogcdays` ⇒ negative (use the configured limit)", gcs[0].Pos(), "default "+desc, "a GC request that does not name `nogcdays` is passed on with default "+desc+" instead of a negative value: gcCheckEnd then applies no age limit at all and young files are collected despite no_gc_days")
}

func constIn(info *types.Info, e ast.Expr, v int64) bool {
	found := false
	ast.Inspect(e, func(n ast.Node) bool {
		if x, ok := n.(ast.Expr); ok {
			if c, isC := prog.ConstInt(info, x); isC && c == v {
				found = true
			}
		}
		return true
	})
	return found
}
