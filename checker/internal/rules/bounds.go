package rules

import (
	"go/ast"
	"go/token"
	"go/types"
	"strings"

	"gbcheck/internal/prog"
)

// E9 — request-controlled bounds: a small lower-bound solver for len(x) of
// strings/slices that come from the request line, used to judge constant
// indices and slices, plus a capacity rule for variable-length slice-to.

type lenSolver struct {
	c     *Ctx
	depth int
}

func sameBase(info *types.Info, a, b ast.Expr) bool {
	pa, ok1 := prog.PathOf(info, a)
	pb, ok2 := prog.PathOf(info, b)
	if ok1 && ok2 {
		return pa == pb
	}
	return prog.SameExpr(info, a, b)
}

// isLenOf: e is len(base) (through conversions).
func isLenOf(info *types.Info, e ast.Expr, base ast.Expr) bool {
	e = prog.StripConv(info, e)
	call, ok := e.(*ast.CallExpr)
	return ok && prog.CalleeKey(info, call) == "builtin.len" && len(call.Args) == 1 && sameBase(info, call.Args[0], base)
}

// isLenOfF: like isLenOf, also through a local whose only definition is len(base).
func isLenOfF(f *prog.Func, e ast.Expr, base ast.Expr) bool {
	info := f.Info()
	if isLenOf(info, e, base) {
		return true
	}
	if id, ok := prog.StripConv(info, e).(*ast.Ident); ok {
		defs := f.DefsOfPath(id)
		if len(defs) == 1 && defs[0].Rhs != nil && defs[0].Idx < 0 {
			return isLenOf(info, defs[0].Rhs, base)
		}
	}
	return false
}

// ifaceCallers: static callers of f plus, for methods that implement the
// memcache.StorageClient interface, the callers of the interface method.
func (s *lenSolver) ifaceCallers(f *prog.Func) []prog.Call {
	callers := s.c.P.CallersOf(f.Key)
	if f.Decl.Recv != nil {
		callers = append(callers, s.c.P.CallersOf("memcache.StorageClient."+f.Decl.Name.Name)...)
	}
	var out []prog.Call
	for _, c := range callers {
		if c.Fn.IsTestFile() || c.Fn.Key == "memcache.Response.Read" || c.Fn.Key == "memcache.Client" {
			continue // client-side reply parser: not fed by client requests
		}
		out = append(out, c)
	}
	return out
}

// lower returns a proven lower bound of len(base) at node at inside f.
func (s *lenSolver) lower(f *prog.Func, base ast.Expr, at ast.Node) int64 {
	if s.depth > 4 {
		return 0
	}
	s.depth++
	defer func() { s.depth-- }()
	info := f.Info()
	base = prog.Unparen(base)
	best := int64(0)
	up := func(v int64) {
		if v > best {
			best = v
		}
	}
	// guards
	for _, a := range f.GuardsAt(at) {
		if a.Y != nil {
			for _, pr := range [][3]interface{}{{a.X, a.Y, a.Op}, {a.Y, a.X, mirrorOp(a.Op)}} {
				x, y, op := pr[0].(ast.Expr), pr[1].(ast.Expr), pr[2].(token.Token)
				if isLenOfF(f, x, base) {
					if k, ok := prog.ConstInt(info, y); ok {
						switch op {
						case token.GTR:
							up(k + 1)
						case token.GEQ, token.EQL:
							up(k)
						case token.NEQ:
							if k == 0 {
								up(1)
							}
						}
					}
				}
				// base != ""
				if op == token.NEQ && sameBase(info, x, base) {
					if v, ok := prog.ConstString(info, y); ok && v == "" {
						up(1)
					}
				}
			}
		}
		if a.Op == token.ILLEGAL && !a.Neg && a.X != nil {
			if call, ok := prog.Unparen(a.X).(*ast.CallExpr); ok {
				switch prog.CalleeKey(info, call) {
				case "strings.HasSuffix", "strings.HasPrefix":
					if len(call.Args) == 2 && sameBase(info, call.Args[0], base) {
						if v, ok := prog.ConstString(info, call.Args[1]); ok {
							up(int64(len(v)))
						}
					}
				case "config.IsValidKeySize":
					if len(call.Args) == 1 && isLenOf(info, call.Args[0], base) {
						up(1)
					}
				case "store.IsValidKeyString":
					if len(call.Args) == 1 && sameBase(info, call.Args[0], base) {
						up(1)
					}
				}
			}
		}
	}
	// provenance
	t := info.TypeOf(base)
	if t != nil {
		at2 := t.Underlying()
		if p, ok := at2.(*types.Pointer); ok {
			at2 = p.Elem().Underlying()
		}
		if arr, ok := at2.(*types.Array); ok {
			up(arr.Len())
		}
	}
	isString := t != nil && types.Identical(t.Underlying(), types.Typ[types.String])
	switch x := base.(type) {
	case *ast.IndexExpr:
		// element of a token list: non-empty
		if isString && s.isTokenList(f, x.X, at) {
			up(1)
		}
	case *ast.SliceExpr:
		// len(b[lo:hi]) >= hi - lo when constants and in bounds; b[lo:] >= lower(b) - lo
		lo := int64(0)
		if x.Low != nil {
			if v, ok := prog.ConstInt(info, x.Low); ok {
				lo = v
			} else {
				break
			}
		}
		if x.High != nil {
			if hv, ok := prog.ConstInt(info, x.High); ok {
				up(hv - lo)
			}
		} else {
			up(s.lower(f, x.X, at) - lo)
		}
	case *ast.Ident:
		obj := prog.ObjOf(info, x)
		v, _ := obj.(*types.Var)
		if v == nil {
			break
		}
		// range variable over a token list / map of items
		for _, d := range f.DefsOfPath(x) {
			if rs, ok := d.Stmt.(*ast.RangeStmt); ok {
				if d.Idx == 1 && isString && s.isTokenList(f, rs.X, rs) {
					up(1)
				}
				if d.Idx == 0 && isString {
					if mt, ok := info.TypeOf(rs.X).Underlying().(*types.Map); ok && strings.HasSuffix(mt.Elem().String(), "memcache.Item") {
						if s.itemMapKeysNonEmpty() {
							up(1)
						}
					}
				}
			}
		}
		defs := f.DefsReaching(mustPath(info, x), at)
		if len(defs) > 0 {
			m := int64(-1)
			for _, d := range defs {
				var b int64
				switch {
				case d.Rhs == nil || d.Zero:
					if _, isRange := d.Stmt.(*ast.RangeStmt); isRange {
						b = best // handled above
					}
				case d.Idx >= 0:
					b = 0
				default:
					b = s.lower(f, d.Rhs, d.Stmt)
				}
				if m < 0 || b < m {
					m = b
				}
			}
			if m > 0 {
				up(m)
			}
		} else if isParamOf(f, v) {
			// parameter: minimum over call sites
			idx := paramIndex(f, v)
			callers := s.ifaceCallers(f)
			if idx >= 0 && len(callers) > 0 {
				m := int64(-1)
				for _, call := range callers {
					if call.Fn.IsTestFile() || idx >= len(call.Expr.Args) {
						continue
					}
					b := s.lower(call.Fn, call.Expr.Args[idx], call.Expr)
					if m < 0 || b < m {
						m = b
					}
				}
				if m > 0 {
					up(m)
				}
			}
		}
	case *ast.SelectorExpr:
		// req.Keys inside a verb clause: bounded by what Request.Read stores for that verb
		if k, _ := prog.FieldOf(info, x); k == "memcache.Request.Keys" {
			var verbs []string
			for _, a := range f.GuardsAt(at) {
				if a.X != nil && prog.IsField(info, "memcache.Request.Cmd")(prog.Unparen(a.X)) {
					if a.Op == token.EQL && a.Y != nil {
						if v, ok := prog.ConstString(info, a.Y); ok {
							verbs = append(verbs, v)
						}
					}
					if a.Op == token.CASE {
						for _, e := range a.Vals {
							if v, ok := prog.ConstString(info, e); ok {
								verbs = append(verbs, v)
							}
						}
					}
				}
			}
			rd := s.c.P.F("memcache.Request.Read")
			if len(verbs) > 0 && rd != nil {
				rv := switchVerbs(rd)
				m := int64(-1)
				for _, v := range verbs {
					cc := rv[v]
					if cc == nil {
						m = 0
						break
					}
					found := false
					ast.Inspect(cc, func(y ast.Node) bool {
						if as, ok := y.(*ast.AssignStmt); ok {
							for i, l := range as.Lhs {
								if kk, _ := prog.FieldOf(rd.Info(), l); kk == "memcache.Request.Keys" && i < len(as.Rhs) {
									found = true
									b := s.lower(rd, as.Rhs[i], as)
									if m < 0 || b < m {
										m = b
									}
								}
							}
						}
						return true
					})
					if !found {
						m = 0
					}
				}
				if m > 0 {
					up(m)
				}
			}
		}
	}
	return best
}

func mirrorOp(op token.Token) token.Token {
	switch op {
	case token.LSS:
		return token.GTR
	case token.GTR:
		return token.LSS
	case token.LEQ:
		return token.GEQ
	case token.GEQ:
		return token.LEQ
	}
	return op
}

func mustPath(info *types.Info, e ast.Expr) string {
	p, _ := prog.PathOf(info, e)
	return p
}

func isParamOf(f *prog.Func, v *types.Var) bool { return paramIndex(f, v) >= 0 }

func paramIndex(f *prog.Func, v *types.Var) int {
	for i := 0; ; i++ {
		p := f.Param(i)
		if p == nil {
			return -1
		}
		if p == v {
			return i
		}
	}
}

// isTokenList: e evaluates to a list of non-empty tokens — the result of
// strings.Fields/FieldsFunc (directly, through memcache.splitKeys, a slice of
// such a list, or the Request.Keys field which Read only fills from one).
func (s *lenSolver) isTokenList(f *prog.Func, e ast.Expr, at ast.Node) bool {
	info := f.Info()
	e = prog.Unparen(e)
	if se, ok := e.(*ast.SliceExpr); ok {
		return s.isTokenList(f, se.X, at)
	}
	if k, _ := prog.FieldOf(info, e); k == "memcache.Request.Keys" {
		return s.requestKeysAreTokens()
	}
	for _, src := range f.SourcesAt(e, at) {
		switch {
		case src.Kind == "call" && (src.Key == "strings.Fields" || src.Key == "strings.FieldsFunc" || src.Key == "memcache.splitKeys"):
		case src.Kind == "param" && src.Field == "":
			// parameter: all callers pass token lists
			v, _ := src.Obj.(*types.Var)
			idx := paramIndex(f, v)
			callers := s.ifaceCallers(f)
			if idx < 0 || len(callers) == 0 || s.depth > 3 {
				return false
			}
			s.depth++
			for _, call := range callers {
				if call.Fn.IsTestFile() {
					continue
				}
				if !s.isTokenList(call.Fn, call.Expr.Args[idx], call.Expr) {
					s.depth--
					return false
				}
			}
			s.depth--
		case src.Kind == "param" && strings.HasSuffix(src.Field, "Keys"):
			if !s.requestKeysAreTokens() {
				return false
			}
		default:
			return false
		}
	}
	return true
}

// requestKeysAreTokens: every assignment to Request.Keys in non-test code is a
// slice of a token list.
func (s *lenSolver) requestKeysAreTokens() bool {
	if v, ok := s.c.memo["keysTokens"]; ok {
		return v
	}
	s.c.memo["keysTokens"] = false
	ok := true
	n := 0
	for _, f := range s.c.P.SortedFuncs() {
		info := f.Info()
		ast.Inspect(f.Decl.Body, func(x ast.Node) bool {
			as, isA := x.(*ast.AssignStmt)
			if !isA {
				return true
			}
			for i, l := range as.Lhs {
				if k, _ := prog.FieldOf(info, l); k == "memcache.Request.Keys" && i < len(as.Rhs) {
					n++
					if !s.isTokenList(f, as.Rhs[i], as) {
						ok = false
					}
				}
			}
			return true
		})
	}
	s.c.memo["keysTokens"] = ok && n > 0
	return ok && n > 0
}

// itemMapKeysNonEmpty: every insert into a map[string]*memcache.Item uses a non-empty key.
func (s *lenSolver) itemMapKeysNonEmpty() bool {
	if v, ok := s.c.memo["itemKeys"]; ok {
		return v
	}
	s.c.memo["itemKeys"] = true // optimistic for recursion
	ok := true
	for _, f := range s.c.P.SortedFuncs() {
		info := f.Info()
		ast.Inspect(f.Decl.Body, func(x ast.Node) bool {
			as, isA := x.(*ast.AssignStmt)
			if !isA {
				return true
			}
			for _, l := range as.Lhs {
				ix, isI := prog.Unparen(l).(*ast.IndexExpr)
				if !isI {
					continue
				}
				mt, isM := info.TypeOf(ix.X).Underlying().(*types.Map)
				if !isM || !strings.HasSuffix(mt.Elem().String(), "memcache.Item") {
					continue
				}
				if s.lower(f, ix.Index, as) < 1 {
					ok = false
				}
			}
			return true
		})
	}
	s.c.memo["itemKeys"] = ok
	return ok
}
