package rules

import (
	"go/ast"
	"go/token"
	"go/types"
	"os"
	"path/filepath"
	"regexp"
	"strings"

	"gbcheck/internal/prog"
)

// c01r13: the refusal flag of Bucket.incr is sticky: once a refusal condition
// was seen nothing clears it, and the write happens only when it is unset.
func c01r13(c *Ctx) {
	const R = "C01.R13"
	f := c.fn(R, "store.Bucket.incr")
	if f == nil {
		return
	}
	info := f.Info()
	// the flag: the boolean local tested in the guard of the refusing `return 0`
	var flag types.Object
	for _, r := range f.CFG().Returns() {
		if len(r.Results) == 1 {
			if v, isC := prog.ConstInt(info, r.Results[0]); isC && v == 0 {
				for _, a := range f.GuardsAt(r) {
					if a.Op == token.ILLEGAL && !a.Neg {
						if o := prog.ObjOf(info, a.X); o != nil {
							if b, ok := o.Type().Underlying().(*types.Basic); ok && b.Kind() == types.Bool {
								flag = o
							}
						}
					}
				}
			}
		}
	}
	if flag == nil {
		c.undec(R, f.Key, "refusal flag not recognised (no `if flag { … return 0 }`)")
		return
	}
	n, bad := 0, ""
	ast.Inspect(f.Decl.Body, func(x ast.Node) bool {
		if as, ok := x.(*ast.AssignStmt); ok {
			for i, l := range as.Lhs {
				if prog.ObjOf(info, l) == flag && as.Tok != token.DEFINE {
					n++
					if i < len(as.Rhs) {
						if b, isB := prog.ConstBool(info, as.Rhs[i]); !isB || !b {
							bad = c.pos(as)
						}
					} else {
						bad = c.pos(as)
					}
				}
			}
		}
		return true
	})
	c.check(n >= 3 && bad == "", R, f.Key+": the refusal flag is only ever set", f.Pos(), itoa(n)+" assignments, all `= true`", "incr's refusal flag is assigned something other than `true` ("+bad+"): a later test overwrites an earlier refusal (foreign flag, oversized value, read error) and the key is rewritten as a counter")
	okSet := false
	for _, s := range f.CallsTo("store.Bucket.set") {
		if prog.HasBoolFact(f.GuardsAt(s.Expr), prog.IsObj(info, flag), false) {
			okSet = true
		}
	}
	c.check(okSet, R, f.Key+": writes only when no refusal condition was seen", f.Pos(), "Bucket.set under !flag", "incr can write although a refusal condition was seen")
}

// c12r1b: the token goes back into the channel only after every piece of
// per-token bookkeeping was done; afterwards another connection owns slot t.
func c12r1b(c *Ctx) {
	const R = "C12.R1"
	f := c.fn(R, "memcache.ReqLimiter.Put")
	if f == nil {
		return
	}
	info := f.Info()
	var send *ast.SendStmt
	ast.Inspect(f.Decl.Body, func(x ast.Node) bool {
		if s, ok := x.(*ast.SendStmt); ok && prog.IsField(info, "memcache.ReqLimiter.Chan")(prog.Unparen(s.Chan)) {
			send = s
		}
		return true
	})
	if send == nil {
		c.viol(R, f.Key+": token returned last", f.Pos(), "Put no longer sends the token back into the limiter's channel")
		return
	}
	g := f.CFG()
	bad := ""
	ast.Inspect(f.Decl.Body, func(x ast.Node) bool {
		as, ok := x.(*ast.AssignStmt)
		if !ok {
			return true
		}
		for _, l := range as.Lhs {
			if prog.MentionsField(info, l, "memcache.ReqLimiter.Owners") || prog.MentionsField(info, l, "memcache.ReqLimiter.Histories") || prog.MentionsField(info, l, "memcache.Request.Working") {
				if g.ReachesWithout(send, as, nil) {
					bad = c.pos(as)
				}
			}
		}
		return true
	})
	c.check(bad == "", R, f.Key+": token returned last", c.pos(send), "no slot bookkeeping after `rl.Chan <- t`", "slot t's bookkeeping ("+bad+") is written after the token went back into the channel: another connection may already own slot t, its request's Working flag is cleared, its deferred Put is skipped and the token is lost for good; after max_req such losses every connection blocks")
}

// c11r3b: recover() stops a panic only when called directly by the deferred
// function. Every recover() in the program is therefore either in a function
// literal that is itself the operand of `defer`, or in a named function all of
// whose call sites are `defer f(...)`.
func c11r3b(c *Ctx) {
	const R = "C11.R3"
	n := 0
	for _, fn := range c.P.SortedFuncs() {
		info := fn.Info()
		for _, call := range fn.Calls() {
			if call.Key != "builtin.recover" {
				continue
			}
			n++
			lit := fn.EnclosingLit(call.Expr)
			ok, why := false, ""
			if lit != nil {
				if ce, isC := fn.Parent(lit).(*ast.CallExpr); isC && ce.Fun == ast.Expr(lit) {
					if _, isD := fn.Parent(ce).(*ast.DeferStmt); isD {
						ok = true
					}
				}
				why = "the enclosing function literal is not itself deferred"
			} else {
				// named function: every static caller defers it directly
				callers := c.P.CallersOf(fn.Key)
				ok = len(callers) > 0
				for _, cl := range callers {
					if _, isD := cl.Fn.Parent(cl.Expr).(*ast.DeferStmt); !isD {
						ok = false
						why = fn.Key + " is called (not deferred) at " + cl.Pos()
					}
				}
				if len(callers) == 0 {
					why = fn.Key + " has no static `defer` call site"
				}
			}
			_ = info
			c.check(ok, R, fn.Key+": recover() called directly by a deferred function", call.Pos(), "effective", "this recover() is not executed directly by a deferred function ("+why+"), so it returns nil and the panic keeps unwinding: a command that panics takes the whole process (every connection) down instead of closing one connection")
		}
	}
	if n == 0 {
		c.undec(R, "recover() call sites", "none found")
	}
}

// c11r11b: splitKeys strips the last two bytes of the line blindly; every
// caller has established that they are "\r\n".
func c11r11b(c *Ctx) {
	const R = "C11.R11"
	callers := c.P.CallersOf("memcache.splitKeys")
	if len(callers) == 0 {
		c.undec(R, "memcache.splitKeys callers", "none found")
		return
	}
	for _, cl := range callers {
		f := cl.Fn
		if f.Key == "memcache.Response.Read" {
			// client-side parser of the server's own replies, which always end in CRLF (C11.R10)
			c.ok(R, f.Key+": line handed to splitKeys ends in CRLF", cl.Pos(), "frozen exception: client-side reply parser")
			continue
		}
		info := f.Info()
		arg := prog.ObjOf(info, cl.Expr.Args[0])
		ok := false
		for _, a := range f.GuardsAt(cl.Expr) {
			if a.Op == token.ILLEGAL && !a.Neg {
				if call, isC := prog.Unparen(a.X).(*ast.CallExpr); isC && prog.CalleeKey(info, call) == "strings.HasSuffix" && len(call.Args) == 2 && prog.ObjOf(info, call.Args[0]) == arg {
					if s, isS := prog.ConstString(info, call.Args[1]); isS && s == "\r\n" {
						ok = true
					}
				}
			}
		}
		c.check(ok, R, f.Key+": line handed to splitKeys ends in CRLF", cl.Pos(), "guarded by strings.HasSuffix(s, \"\\r\\n\")", "a line is tokenised without having been checked to end in \"\\r\\n\": a line ending in a bare LF loses the last byte of its last token (`get abcd\\n` fetches `abc`, `delete abcd\\n` deletes `abc`) instead of being rejected")
	}
}

// c14r17: the collision table's compare-and-set is one critical section.
func c14r17(c *Ctx) {
	const R = "C14.R17"
	f := c.fn(R, "store.CollisionTable.compareAndSet")
	if f == nil {
		return
	}
	info := f.Info()
	// the read of the old entry and the store are both map accesses in this body
	// under the table's lock, and the lock is not dropped between them
	var reads, writes []ast.Node
	ast.Inspect(f.Decl.Body, func(x ast.Node) bool {
		if as, ok := x.(*ast.AssignStmt); ok {
			for _, l := range as.Lhs {
				if ix, isIx := prog.Unparen(l).(*ast.IndexExpr); isIx {
					root := prog.Unparen(ix.X)
					if prog.IsField(info, "store.CollisionTable.Items")(root) || localFromField(f, root, "store.CollisionTable.Items") {
						writes = append(writes, as)
					}
				}
			}
			for _, r := range as.Rhs {
				if ix, isIx := prog.Unparen(r).(*ast.IndexExpr); isIx {
					root := prog.Unparen(ix.X)
					if localFromField(f, root, "store.CollisionTable.Items") {
						reads = append(reads, as)
					}
				}
			}
		}
		return true
	})
	selfLocking := len(f.CallsTo("store.CollisionTable.get")) > 0
	unlocks := 0
	for _, call := range f.Calls() {
		if kind, lock, _ := prog.LockOp(info, call.Expr); kind == "Unlock" && lock == "store.CollisionTable.Mutex" {
			if _, isD := f.Parent(call.Expr).(*ast.DeferStmt); !isD {
				unlocks++
			}
		}
	}
	ok := len(reads) >= 1 && len(writes) >= 1 && !selfLocking && unlocks == 0
	c.check(ok, R, f.Key+": old entry read and new entry stored in one critical section", f.Pos(), "one Lock, deferred Unlock, map read and write in between", "the comparison with the stored position and the store are no longer one critical section (the old entry is read through the self-locking get, or the lock is dropped in between): a concurrent write with a newer position lands between them and is overwritten by the older one")
}

// localFromField: e is a local defined (in every definition) from an index or
// value of the given field.
func localFromField(f *prog.Func, e ast.Expr, fieldKey string) bool {
	id, ok := prog.Unparen(e).(*ast.Ident)
	if !ok {
		return false
	}
	defs := f.DefsOfPath(id)
	if len(defs) == 0 {
		return false
	}
	found := false
	for _, d := range defs {
		if d.Rhs == nil {
			continue
		}
		if prog.MentionsField(f.Info(), d.Rhs, fieldKey) {
			found = true
		}
	}
	return found
}

// c14r18: the reader opened by a hint-file lookup is closed on every path.
func c14r18(c *Ctx) {
	const R = "C14.R18"
	f := c.fn(R, "store.hintFileIndex.get")
	if f == nil {
		return
	}
	info := f.Info()
	opens := f.CallsTo("store.hintFileReader.open")
	if len(opens) != 1 {
		c.undec(R, f.Key, "expected one hintFileReader.open")
		return
	}
	isClose := func(n ast.Node) bool {
		found := false
		ast.Inspect(n, func(x ast.Node) bool {
			if call, ok := x.(*ast.CallExpr); ok {
				k := prog.CalleeKey(info, call)
				if k == "store.hintFileReader.close" || k == "os.File.Close" {
					found = true
				}
			}
			return true
		})
		return found
	}
	// a deferred close after the successful open covers every later exit
	deferred := false
	ast.Inspect(f.Decl.Body, func(x ast.Node) bool {
		if d, ok := x.(*ast.DeferStmt); ok && isClose(d.Call) && d.Pos() > opens[0].Expr.Pos() {
			deferred = true
		}
		return true
	})
	ok := deferred
	if !ok {
		// otherwise: no exit is reachable from the open's success edge without passing a close
		g := f.CFG()
		var from ast.Node = opens[0].Expr
		// start after the `if err != nil { return }` that follows the open
		r := g.EscapesWithout(from, isClose, func(n ast.Node) bool {
			// stop exploring the failure branch of the open itself
			if rs, isR := n.(*ast.ReturnStmt); isR {
				for _, a := range f.GuardsAt(rs) {
					if a.Op == token.NEQ && prog.IsNil(info, a.Y) && a.Src != nil && a.Src.Pos() < opens[0].Expr.End()+80 && a.Src.Pos() > opens[0].Expr.Pos() {
						return true
					}
				}
			}
			return false
		})
		ok = !r.Found
	}
	c.check(ok, R, f.Key+": the reader's file is closed on every path", opens[0].Pos(), "deferred close (or a close before every return)", "a lookup can return without closing the hint file it opened (e.g. the `hash larger than wanted` exit): every lookup of an absent key leaks a descriptor until lookups of present keys, dumps and merges fail with `too many open files`")
}

// c13r13: an error from a hint chunk lookup ends the search; it is not
// treated as "not in this chunk".
func c13r13(c *Ctx) {
	const R = "C13.R13"
	for _, k := range []string{"store.hintMgr.getItem", "store.hintChunk.get"} {
		f := c.fn(R, k)
		if f == nil {
			continue
		}
		info := f.Info()
		errRes := f.Result(f.Obj.Type().(*types.Signature).Results().Len() - 1)
		n, bad := 0, ""
		ast.Inspect(f.Decl.Body, func(x ast.Node) bool {
			as, ok := x.(*ast.AssignStmt)
			if !ok || len(as.Rhs) != 1 {
				return true
			}
			call, isC := prog.Unparen(as.Rhs[0]).(*ast.CallExpr)
			if !isC {
				return true
			}
			ck := prog.CalleeKey(info, call)
			if ck != "store.hintChunk.get" && ck != "store.hintFileIndex.get" {
				return true
			}
			// which lhs receives the error
			var errObj types.Object
			for _, l := range as.Lhs {
				if o := prog.ObjOf(info, l); o != nil && o.Type().String() == "error" {
					errObj = o
				}
			}
			if errObj == nil {
				n++
				bad = c.pos(as) + " (error discarded)"
				return true
			}
			n++
			// next statement in the same list: if err != nil { …return }
			list := stmtsOf(f.Parent(as))
			okNext := false
			for i, s := range list {
				if s == ast.Stmt(as) && i+1 < len(list) {
					if is, isIf := list[i+1].(*ast.IfStmt); isIf {
						if be, isB := prog.Unparen(is.Cond).(*ast.BinaryExpr); isB && be.Op == token.NEQ && prog.ObjOf(info, be.X) == errObj && prog.IsNil(info, be.Y) && f.Terminates(is.Body) {
							okNext = true
						}
					}
				}
			}
			if !okNext {
				bad = c.pos(as)
			}
			_ = errRes
			return true
		})
		c.check(n > 0 && bad == "", R, f.Key+": a failed lookup ends the search with its error", f.Pos(), itoa(n)+" lookups, each followed by `if err != nil { return }`", "an error of a hint lookup ("+bad+") is not returned at once: the search falls through to an older chunk/split, an overwritten version of the key is served and recorded in the collision table")
	}
}

func stmtsOf(n ast.Node) []ast.Stmt {
	switch b := n.(type) {
	case *ast.BlockStmt:
		return b.List
	case *ast.CaseClause:
		return b.Body
	case *ast.CommClause:
		return b.Body
	}
	return nil
}

// c15r13: a hot-loaded bucket becomes READY only after it was opened
// successfully.
func c15r13(c *Ctx) {
	const R = "C15.R13"
	f := c.fn(R, "store.HStore.ChangeRoute")
	if f == nil {
		return
	}
	info := f.Info()
	opens := f.CallsTo("store.Bucket.open")
	if len(opens) != 1 {
		c.undec(R, f.Key, "expected one Bucket.open")
		return
	}
	var errObj types.Object
	if as, ok := f.Parent(opens[0].Expr).(*ast.AssignStmt); ok && len(as.Lhs) == 1 {
		errObj = prog.ObjOf(info, as.Lhs[0])
	}
	g := f.CFGFor(opens[0].Expr)
	n, bad := 0, ""
	ast.Inspect(f.Decl.Body, func(x ast.Node) bool {
		as, ok := x.(*ast.AssignStmt)
		if !ok || len(as.Lhs) != 1 || len(as.Rhs) != 1 {
			return true
		}
		isReady := prog.ConstObjName(info, as.Rhs[0]) == "store.BUCKET_STAT_READY"
		k, _ := prog.FieldOf(info, prog.Unparen(as.Lhs[0]))
		isStat := false
		if ix, isIx := prog.Unparen(as.Lhs[0]).(*ast.IndexExpr); isIx && prog.MentionsField(info, ix.X, "config.DBRouteConfig.BucketsStat") {
			isStat = true
		}
		if !isReady || !(k == "store.BucketStat.State" || isStat) {
			return true
		}
		n++
		okErr := false
		for _, a := range f.GuardsAt(as) {
			if errObj != nil && a.Op == token.EQL && prog.ObjOf(info, a.X) == errObj && prog.IsNil(info, a.Y) {
				okErr = true
			}
		}
		// or: the failure branch terminates before it
		if !okErr && errObj != nil {
			for _, a := range f.GuardsAt(as) {
				if prog.AtomCmp(a, token.EQL, prog.IsObj(info, errObj), func(e ast.Expr) bool { return prog.IsNil(info, e) }) {
					okErr = true
				}
			}
		}
		if !okErr || !g.Dominates(opens[0].Expr, as) {
			bad = c.pos(as)
		}
		return true
	})
	c.check(n >= 1 && bad == "", R, f.Key+": READY only after a successful open", opens[0].Pos(), itoa(n)+" READY assignments, after open, on err == nil", "a hot-loaded bucket is marked READY before (or regardless of) its open succeeding ("+bad+"): after a failed load the route stays old but the gate is open, sets are written into that bucket's directory and gets return hits")
}

// c17r8b: a form value that does not parse ends the request.
func c17r8b(c *Ctx) {
	const R = "C17.R8"
	f := c.fn(R, "gobeansdb.handleGC")
	if f == nil {
		return
	}
	info := f.Info()
	n, bad := 0, ""
	for _, call := range f.CallsTo("gobeansdb.getFormValueInt") {
		as, ok := f.Parent(call.Expr).(*ast.AssignStmt)
		if !ok || len(as.Lhs) != 2 {
			continue
		}
		n++
		errObj := prog.ObjOf(info, as.Lhs[1])
		list := stmtsOf(f.Parent(as))
		okNext := false
		for i, s := range list {
			if s == ast.Stmt(as) && i+1 < len(list) {
				if is, isIf := list[i+1].(*ast.IfStmt); isIf {
					if be, isB := prog.Unparen(is.Cond).(*ast.BinaryExpr); isB && be.Op == token.NEQ && prog.ObjOf(info, be.X) == errObj && prog.IsNil(info, be.Y) && f.Terminates(is.Body) && len(is.Body.List) == 1 {
						okNext = true
					}
				}
			}
		}
		if !okNext {
			bad = call.Pos()
		}
	}
	c.check(n >= 3 && bad == "", R, f.Key+": a malformed start/end/nogcdays ends the request", f.Pos(), itoa(n)+" form values, each `if err != nil { return }`", "a form value that fails to parse ("+bad+") does not end the request: getFormValueInt has already replaced the default by 0, and 0 no-GC-days means no age limit, 0 as start/end means file 0")
}

// c10r7b: the scratch buffer handed to qlz_compress belongs to this call.
func c10r7b(c *Ctx) {
	const R = "C10.R7"
	f := c.fn(R, "quicklz.CCompress")
	if f == nil {
		return
	}
	info := f.Info()
	// no package-level variable flows into the C call, and a malloc of this call does
	malloc, global := false, ""
	ast.Inspect(f.Decl.Body, func(x ast.Node) bool {
		switch n := x.(type) {
		case *ast.CallExpr:
			if s := types.ExprString(n.Fun); strings.Contains(s, "_Cfunc__CMalloc") || strings.Contains(s, "_Cfunc_malloc") || s == "C.malloc" {
				malloc = true
			}
		case *ast.Ident:
			if o, ok := info.Uses[n].(*types.Var); ok && o.Parent() == f.Pkg.Types.Scope() && !strings.HasPrefix(o.Name(), "_") {
				global = o.Name()
			}
		}
		return true
	})
	c.check(malloc && global == "", R, f.Key+": scratch memory allocated per call", f.Pos(), "C.malloc in the call, no package-level state", "CCompress uses package-level state ("+global+") instead of a scratch buffer of its own: TryCompress runs outside every lock, two concurrent sets share one QuickLZ hash table and produce streams with back-references into the other value")
}

var reCSizeDec = regexp.MustCompile(`qlz_size_decompressed[^{]*\{[^}]*fast_read\(\s*source\s*\+\s*1\s*\+\s*n\s*,\s*n\s*\)`)
var reCSizeComp = regexp.MustCompile(`qlz_size_compressed[^{]*\{[^}]*fast_read\(\s*source\s*\+\s*1\s*,\s*n\s*\)`)

// c10r10b: the Go size accessors read the fields where the C implementation
// puts them for both header forms: compressed size at 1, decompressed size at
// 1+n, n = 4 (long) or 1 (short).
func c10r10b(c *Ctx) {
	const R = "C10.R10"
	src, err := os.ReadFile(filepath.Join(c.P.Dir, "quicklz", "quicklz.c"))
	if err != nil {
		c.undec(R, "quicklz/quicklz.c", "cannot read")
		return
	}
	if !reCSizeDec.Match(src) || !reCSizeComp.Match(src) {
		c.undec(R, "quicklz/quicklz.c: qlz_size_(de)compressed", "`fast_read(source + 1 [+ n], n)` not found")
		return
	}
	read := func(key string) map[int64][2]int64 { // header length -> (offset, width)
		out := map[int64][2]int64{}
		f := c.fn(R, key)
		if f == nil {
			return out
		}
		info := f.Info()
		for _, r := range f.CallsTo("quicklz.fastRead") {
			if len(r.Expr.Args) != 3 {
				continue
			}
			o, ok1 := prog.ConstInt(info, r.Expr.Args[1])
			n, ok2 := prog.ConstInt(info, r.Expr.Args[2])
			if !ok1 || !ok2 {
				continue
			}
			hl := int64(3)
			for _, a := range f.GuardsAt(r.Expr) {
				if a.Op == token.EQL {
					if v, isC := prog.ConstInt(info, a.Y); isC && v == 9 {
						hl = 9
					}
				}
			}
			out[hl] = [2]int64{o, n}
		}
		return out
	}
	dc, cc := read("quicklz.SizeDecompressed"), read("quicklz.SizeCompressed")
	ok := true
	for hl, n := range map[int64]int64{9: 4, 3: 1} {
		if cc[hl] != [2]int64{1, n} || dc[hl] != [2]int64{1 + n, n} {
			ok = false
		}
	}
	c.check(ok, R, "quicklz.SizeCompressed/SizeDecompressed: fields at 1 and 1+n for n = 4 and n = 1, as in qlz_size_compressed/qlz_size_decompressed", "quicklz/quicklz.go", "both header forms agree with the C source", "the Go size accessors read a header form at other offsets than the C implementation writes it (compressed size at 1, decompressed size at 1+n): the safe decompressors reject the C compressor's own short-header streams and clients receive compressed bytes")
}

// c14r13b: the expected split id only advances by one per accepted file.
func c14r13b(c *Ctx) {
	const R = "C14.R13"
	f := c.fn(R, "store.hintMgr.findValidPaths")
	if f == nil {
		return
	}
	info := f.Info()
	// n: the local incremented in the accepting branch
	var nObj types.Object
	ast.Inspect(f.Decl.Body, func(x ast.Node) bool {
		if incX, incTok, ok := incDecNode(info, x); ok && incTok == token.INC {
			nObj = prog.ObjOf(info, incX)
		}
		return true
	})
	if nObj == nil {
		return
	}
	bad := ""
	ast.Inspect(f.Decl.Body, func(x ast.Node) bool {
		if as, ok := x.(*ast.AssignStmt); ok {
			if _, _, isID := prog.IncDecOf(info, as); isID {
				return true
			}
			for i, l := range as.Lhs {
				if prog.ObjOf(info, l) == nObj {
					if as.Tok == token.DEFINE || as.Tok == token.ASSIGN {
						if i < len(as.Rhs) {
							if v, isC := prog.ConstInt(info, as.Rhs[i]); isC && v == 0 {
								continue
							}
						}
					}
					bad = c.pos(as)
				}
			}
		}
		return true
	})
	c.check(bad == "", R, f.Key+": expected split id starts at 0 and only advances by accepting a file", f.Pos(), "n := 0; n++ on acceptance", "the expected split id is re-synchronised after a gap ("+bad+"): splits behind a missing one are accepted again, their data size equals the file size, the rebuild from data is skipped and the keys of the missing split are in no index")
}

// c08r10: a fresh tree has valid summaries only at the leaf level; load
// relies on every inner node of a fresh tree being dirty.
func c08r10(c *Ctx) {
	const R = "C08.R10"
	f := c.fn(R, "store.newHTree")
	if f == nil {
		return
	}
	info := f.Info()
	// every `isHashUpdated = true` in newHTree applies to nodes of the last level only
	n, bad := 0, ""
	ast.Inspect(f.Decl.Body, func(x ast.Node) bool {
		as, ok := x.(*ast.AssignStmt)
		if !ok || len(as.Lhs) != 1 || !prog.IsField(info, "store.Node.isHashUpdated")(prog.Unparen(as.Lhs[0])) {
			return true
		}
		if b, isB := prog.ConstBool(info, as.Rhs[0]); !isB || !b {
			return true
		}
		n++
		// the node slice it indexes is levels[height-1]
		okLeaf := false
		root := rootIdent(as.Lhs[0])
		for _, s := range f.SourcesAt(root, as) {
			if s.Expr != nil {
				if ix, isIx := prog.Unparen(s.Expr).(*ast.IndexExpr); isIx && prog.IsField(info, "store.HTree.levels")(prog.Unparen(ix.X)) {
					if be, isB := prog.Unparen(ix.Index).(*ast.BinaryExpr); isB && be.Op == token.SUB && prog.ObjOf(info, be.X) == f.Param(2) {
						if v, isC := prog.ConstInt(info, be.Y); isC && v == 1 {
							okLeaf = true
						}
					}
				}
			}
		}
		if !okLeaf {
			if id, isI := root.(*ast.Ident); isI {
				for _, d := range f.DefsOfPath(id) {
					if d.Rhs != nil {
						if ix, isIx := prog.Unparen(d.Rhs).(*ast.IndexExpr); isIx && prog.IsField(info, "store.HTree.levels")(prog.Unparen(ix.X)) {
							if be, isB := prog.Unparen(ix.Index).(*ast.BinaryExpr); isB && be.Op == token.SUB && prog.ObjOf(info, be.X) == f.Param(2) {
								if v, isC := prog.ConstInt(info, be.Y); isC && v == 1 {
									okLeaf = true
								}
							}
						}
					}
				}
			}
		}
		if !okLeaf {
			bad = c.pos(as)
		}
		return true
	})
	c.check(n >= 1 && bad == "", R, f.Key+": only leaf-level nodes start with a valid summary", f.Pos(), "isHashUpdated = true on levels[height-1] only", "a fresh tree marks inner nodes as up to date ("+bad+"): HTree.load fills the leaf level behind their back, so after a restart from a dump every inner summary stays (0, 0) until a write happens below it, and listings depend on the history")
}

// c12r7b: the items a multi-get has fetched stay reachable for the caller
// (whose CleanBuffer releases them): every return hands out the map.
func c12r7b(c *Ctx) {
	const R = "C12.R7"
	f := c.fn(R, "gobeansdb.StorageClient.GetMulti")
	if f == nil {
		return
	}
	info := f.Info()
	// the map: the local that receives ret[key] = item
	var m types.Object
	ast.Inspect(f.Decl.Body, func(x ast.Node) bool {
		if as, ok := x.(*ast.AssignStmt); ok && len(as.Lhs) == 1 {
			if ix, isIx := prog.Unparen(as.Lhs[0]).(*ast.IndexExpr); isIx {
				if o := prog.ObjOf(info, ix.X); o != nil {
					if _, isMap := o.Type().Underlying().(*types.Map); isMap {
						m = o
					}
				}
			}
		}
		return true
	})
	if m == nil {
		c.undec(R, f.Key, "result map not recognised")
		return
	}
	bad := ""
	n := 0
	for _, r := range f.CFG().Returns() {
		if len(r.Results) != 2 {
			continue
		}
		n++
		if prog.ObjOf(info, r.Results[0]) != m {
			bad = c.pos(r)
		}
	}
	c.check(n > 0 && bad == "", R, f.Key+": every return hands out the items fetched so far", f.Pos(), itoa(n)+" returns, all with the result map", "a return ("+bad+") drops the map of items already fetched: their buffers were counted by the read path and are only released through the response's CleanBuffer, so they leak (get/alloc counters never return to zero)")
}

// c10r3b: a failed decompression leaves the payload as it was.
func c10r3b(c *Ctx) {
	const R = "C10.R3"
	f := c.fn(R, "store.Payload.Decompress")
	if f == nil {
		return
	}
	info := f.Info()
	recv := f.Recv()
	var errObj types.Object
	for _, d := range f.CallsTo("quicklz.CDecompressSafe") {
		errObj = f.ResultObj(d.Expr, 1)
	}
	bad := ""
	n := 0
	for _, fr := range f.CallsTo("cmem.CArray.Free") {
		sel, ok := fr.Expr.Fun.(*ast.SelectorExpr)
		if !ok || prog.RootObj(info, sel.X) != recv {
			continue
		}
		n++
		okG := false
		for _, a := range f.GuardsAt(fr.Expr) {
			if errObj != nil && prog.AtomCmp(a, token.EQL, prog.IsObj(info, errObj), func(e ast.Expr) bool { return prog.IsNil(info, e) }) {
				okG = true
			}
		}
		if !okG {
			bad = fr.Pos()
		}
	}
	c.check(n >= 1 && bad == "", R, f.Key+": the stored body is released only after a successful decompress", f.Pos(), itoa(n)+" release(s), all on err == nil", "the payload's own buffer is freed on the failure path ("+bad+"): callers ignore Decompress's error and return the record, so a value whose client flags happen to contain the server's compress bit comes back empty")
}

// c10r8b: Payload.Getvhash hashes the decompressed buffer before releasing it.
func c10r8b(c *Ctx) {
	const R = "C10.R8"
	f := c.fn(R, "store.Payload.Getvhash")
	if f == nil {
		return
	}
	info := f.Info()
	var arr types.Object
	for _, d := range f.CallsTo("quicklz.CDecompressSafe") {
		arr = f.ResultObj(d.Expr, 0)
	}
	if arr == nil {
		c.undec(R, f.Key, "decompression of a compressed payload not found")
		return
	}
	var hash *ast.CallExpr
	for _, h := range f.CallsTo("store.Getvhash") {
		if len(h.Expr.Args) == 1 && prog.RootObj(info, h.Expr.Args[0]) == arr {
			hash = h.Expr
		}
	}
	if hash == nil {
		c.viol(R, f.Key+": compressed payloads are hashed over the decompressed buffer", f.Pos(), "Payload.Getvhash does not hash the buffer CDecompressSafe returned")
		return
	}
	bad := ""
	for _, fr := range f.CallsTo("cmem.CArray.Free") {
		if sel, ok := fr.Expr.Fun.(*ast.SelectorExpr); ok && prog.RootObj(info, sel.X) == arr {
			if f.CFG().ReachesWithout(fr.Expr, hash, nil) {
				bad = fr.Pos()
			}
		}
	}
	c.check(bad == "", R, f.Key+": decompressed buffer hashed before it is freed", c.pos(hash), "Getvhash(arr.Body) ≺ arr.Free()", "the decompressed buffer is freed ("+bad+") before it is hashed: for values above the in-Go size limit the body is nil by then and every such value gets the hash of the empty string")
}
