package store

import (
	"strings"
	"testing"
)

// A 240-byte key with an empty value makes the record larger than one block, so
// TryCompress hands the empty body to quicklz.CCompress, which takes &src[0].
func TestReproEmptyValueLongKey(t *testing.T) {
	defer func() {
		if e := recover(); e != nil {
			t.Fatalf("panic: %v", e)
		}
	}()
	p := &Payload{}
	p.Body = []byte{}
	rec := &Record{[]byte(strings.Repeat("k", 240)), p}
	rec.TryCompress()
}
