package rules

import (
	"go/ast"
	"go/token"

	"gbcheck/internal/prog"
)

func init() {
	register(&Property{
		ID:      "C05",
		Clause:  "GC's repoint of a key is atomic with respect to client writes of that key (bucket write lock held, or read+compare-with-old-position+write inside one tree-lock section); nothing that blocks (lock acquisition, hint dump) sits between GC's copy and its repoint; a cancel is honoured only at file boundaries (a mid-file exit of an in-place rewrite would truncate unscanned records) and cleanup is deferred; the reader's key gate, relocated-record hints and index discard of C01/C02/C03 hold",
		NotDec:  "every other interleaving effect (e.g. reads of a source being cleared return an error, not a value), linearizability under GC",
		Engines: "E1 lockset + E2 dominance/path queries + E3 value flow",
		Rules: []Rule{
			{"C05.R1", "q", "repoint atomic w.r.t. writers", c05r1},
			{"C05.R2", "q", "cancel at file boundaries only; cleanup deferred", c05r2},
			{"C05.R4", "q", "no blocking call between copy and repoint", c05r4},
			{"C05.R5", "q", "hint buffers of the collected range held for the whole pass", c05r5},
			{"C17.R1", "q", "shared: a registered pass always counts as running", c17r1},
			{"C17.R6", "q", "shared: CancelGC only flags", c17r6},
			{"C01.R3", "q", "shared: reader key gate", c01r3},
			{"C02.R3", "q", "shared: relocated records get hints", c02r3},
			{"C03.R2", "q", "shared: repoint/hint position = copy target", c03r2},
			{"C03.R4", "q", "shared: indexes discarded first", c03r4},
			{"C18.R4", "q", "shared: deferred endGCWriting", c18r4},
			{"C13.R9", "q", "shared: a colliding key in the hint buffer is reported to GC", c13r9},
			{"C04.L9", "q", "shared: lock contracts of helpers", c04l9},
			{"C13.R12", "q", "shared: collision table takes the position of a record moved by GC", c13r12},
			{"C14.R14", "q", "shared: split dump discipline", c14r14},
		},
	})
}

func c05r1(c *Ctx) {
	const R = "C05.R1"
	f := c.fn(R, "store.GCMgr.UpdateHtreePos")
	if f == nil {
		return
	}
	info := f.Info()
	key := f.Key + ": repoint atomic w.r.t. client writes"
	sets := f.CallsTo(kHTreeSet)
	gets := f.CallsTo("store.HTree.get")
	if len(sets) == 0 {
		// another mechanism (e.g. a compare-and-set method of HTree): accept when it
		// receives both positions and holds the tree lock around read and write
		for _, call := range f.Calls() {
			g := c.P.F(call.Key)
			if g == nil || len(call.Expr.Args) < 3 {
				continue
			}
			old, nw := f.Param(2), f.Param(3)
			passOld, passNew := false, false
			for _, a := range call.Expr.Args {
				if prog.ObjOf(info, a) == old {
					passOld = true
				}
				if prog.ObjOf(info, a) == nw {
					passNew = true
				}
			}
			if passOld && passNew {
				// the callee must compare and write under one HTree.Mutex section
				cmp := false
				ast.Inspect(g.Decl.Body, func(n ast.Node) bool {
					if be, ok := n.(*ast.BinaryExpr); ok && (be.Op == token.EQL || be.Op == token.NEQ) {
						if h, _ := holds(c, g, be, lkTree); h {
							cmp = true
						}
					}
					return true
				})
				c.check(cmp, R, key, call.Pos(), "compare-and-set under HTree.Mutex in "+g.Key, "the repoint helper "+g.Key+" does not compare with the old position under the tree lock")
				return
			}
		}
		c.undec(R, key, "repoint mechanism not recognised (no HTree.set and no compare-and-set helper taking both positions)")
		return
	}
	for _, s := range sets {
		if h, _ := holds(c, f, s.Expr, lkWrite); h {
			c.ok(R, key, s.Pos(), "Bucket.writeLock held around the repoint")
			continue
		}
		hs, _ := holds(c, f, s.Expr, lkTree)
		hg := len(gets) > 0
		for _, g := range gets {
			if h, _ := holds(c, f, g.Expr, lkTree); !h {
				hg = false
			}
		}
		usesOld := false
		if old := f.Param(2); old != nil {
			ast.Inspect(f.Decl.Body, func(n ast.Node) bool {
				if be, ok := n.(*ast.BinaryExpr); ok && (be.Op == token.EQL || be.Op == token.NEQ) && prog.Mentions(info, be, old) {
					usesOld = true
				}
				return true
			})
		}
		if hs && hg && usesOld {
			c.ok(R, key, s.Pos(), "read, compare with oldPos and write in one HTree.Mutex section")
			continue
		}
		c.viol(R, key, s.Pos(), "GC repoints a tree slot with HTree.get followed by HTree.set — two separate acquisitions of the tree lock, no comparison with the old position, and GC does not hold Bucket.writeLock: a client write acknowledged between GC's newest-check and this set is overwritten by the relocated older record")
	}
}

func c05r2(c *Ctx) {
	const R = "C05.R2"
	f := c.fn(R, "store.GCMgr.gc")
	if f == nil {
		return
	}
	info := f.Info()
	nexts := f.CallsTo("store.DataStreamReader.Next")
	rd := f.CallsTo("store.dataStore.GetStreamReader")
	if len(nexts) == 0 || len(rd) == 0 {
		c.undec(R, f.Key, "scan loop not recognised")
		return
	}
	// cancel test at the head of each source iteration
	var cancelIf *ast.IfStmt
	ast.Inspect(f.Decl.Body, func(n ast.Node) bool {
		if is, ok := n.(*ast.IfStmt); ok && prog.MentionsField(info, is.Cond, "store.GCState.CancelFlag") && f.Terminates(is.Body) {
			if cancelIf == nil {
				cancelIf = is
			}
		}
		return true
	})
	if c.check(cancelIf != nil, R, f.Key+": CancelFlag tested", f.Pos(), "present", "gc never tests CancelFlag: a cancel request is ignored") {
		c.Paths++
		c.check(f.CFG().Dominates(cancelIf.Cond, rd[0].Expr), R, f.Key+": CancelFlag test ≺ opening the next source", c.pos(cancelIf), "dominated", "a new source file is opened without consulting the cancel flag")
	}
	// a cancel must not be honoured while an in-place rewritten destination still holds
	// unscanned records: the deferred endGCWriting truncates at the write head
	if cancelIf != nil {
		begins := f.CallsTo("store.dataChunk.beginGCWriting")
		var cancelRet ast.Node
		ast.Inspect(cancelIf.Body, func(n ast.Node) bool {
			if r, ok := n.(*ast.ReturnStmt); ok {
				cancelRet = r
			}
			return true
		})
		// marker of a completed scan: the first statement after the record loop (the Src != Dst test)
		done := func(n ast.Node) bool {
			if e, ok := n.(ast.Expr); ok {
				for _, a := range prog.Decompose(e, true, nil) {
					if prog.AtomCmp(a, token.NEQ, prog.IsField(info, "store.GCState.Src"), prog.IsField(info, "store.GCState.Dst")) {
						return true
					}
				}
			}
			return false
		}
		// …or the cancel branch restores the write head of a still unscanned in-place destination
		restores := func(n ast.Node) bool {
			e, ok := n.(ast.Expr)
			if !ok || !prog.MentionsField(info, e, "store.dataChunk.rewriting") {
				return false
			}
			var is *ast.IfStmt
			ast.Inspect(cancelIf.Body, func(y ast.Node) bool {
				if i2, ok := y.(*ast.IfStmt); ok && i2.Cond == e {
					is = i2
				}
				return true
			})
			if is == nil {
				return false
			}
			okR := false
			ast.Inspect(is.Body, func(y ast.Node) bool {
				if as, ok := y.(*ast.AssignStmt); ok && len(as.Lhs) == 1 && prog.IsField(info, "store.dataChunk.writingHead")(as.Lhs[0]) && prog.IsField(info, "store.dataChunk.size")(prog.Unparen(as.Rhs[0])) {
					okR = true
				}
				return true
			})
			return okR
		}
		if len(begins) > 0 && cancelRet != nil {
			c.Paths++
			early := f.CFG().ReachesWithout(begins[0].Expr, cancelRet, func(n ast.Node) bool { return done(n) || restores(n) })
			c.check(!early, R, f.Key+": cancel not honoured before the in-place source was scanned", c.pos(cancelRet), "every path from beginGCWriting to the cancel return completes a scan first",
				"the cancel return is reachable right after beginGCWriting (head of the first source iteration) before any record of the first source was scanned: when the destination is that source (in-place rewrite, write head 0) the deferred endGCWriting truncates it to 0 and removes the file with all its live records")
		}
	}
	// inside the record loop only error exits
	var loop *ast.ForStmt
	for _, a := range f.Enclosing(nexts[0].Expr) {
		if fs, ok := a.(*ast.ForStmt); ok {
			loop = fs
			break
		}
	}
	if loop == nil {
		c.undec(R, f.Key, "record loop not recognised")
		return
	}
	isErr := func(rs *ast.ReturnStmt) bool {
		for _, a := range f.GuardsAt(rs) {
			if a.Op == token.NEQ && a.Y != nil && (prog.IsNil(info, a.Y) || prog.IsNil(info, a.X)) {
				return true
			}
		}
		return false
	}
	bad := ""
	n := 0
	ast.Inspect(loop.Body, func(x ast.Node) bool {
		if _, ok := x.(*ast.FuncLit); ok {
			return false
		}
		if rs, ok := x.(*ast.ReturnStmt); ok {
			n++
			if !isErr(rs) {
				bad = c.pos(rs)
			}
		}
		if br, ok := x.(*ast.BranchStmt); ok && br.Tok == token.BREAK && br.Label == nil {
			// a break that leaves the record loop itself is the end-of-file exit only
			var inner ast.Node
			for _, enc := range f.Enclosing(br) {
				switch enc.(type) {
				case *ast.ForStmt, *ast.RangeStmt, *ast.SwitchStmt, *ast.TypeSwitchStmt, *ast.SelectStmt:
					if inner == nil {
						inner = enc
					}
				}
			}
			if inner == ast.Node(loop) {
				n++
				recObj := f.ResultObj(nexts[0].Expr, 0)
				if recObj == nil || !prog.HasNilFact(info, f.GuardsAt(br), prog.IsObj(info, recObj), true) {
					bad = c.pos(br)
				}
			}
		}
		return true
	})
	c.check(bad == "", R, f.Key+": record loop left only on errors", c.pos(loop), itoa(n)+" exits inside the record loop: returns on err != nil, break on end of file",
		"the record loop can be left in the middle of a source file on a non-error path ("+bad+"): with an in-place rewrite the deferred endGCWriting truncates the file at the write head and every record not yet scanned is destroyed while the tree still points at it")
}

func c05r4(c *Ctx) {
	const R = "C05.R4"
	f := c.fn(R, "store.GCMgr.gc")
	if f == nil {
		return
	}
	apps := f.CallsTo("store.dataChunk.AppendRecordGC")
	ups := f.CallsTo("store.GCMgr.UpdateHtreePos")
	if len(apps) == 0 || len(ups) == 0 {
		c.undec(R, f.Key, "copy / repoint calls not recognised")
		return
	}
	a, u := apps[0], ups[0]
	acq := acquires(c)
	cfg := f.CFG()
	bad := ""
	n := 0
	for _, x := range f.Calls() {
		if x.Expr == a.Expr || x.Expr == u.Expr || f.EnclosingLit(x.Expr) != nil {
			continue
		}
		g := c.P.F(x.Key)
		if g == nil || len(acq[g]) == 0 {
			continue
		}
		if x.Expr.Pos() >= u.Expr.Pos() && x.Expr.End() <= u.Expr.End() {
			continue
		}
		n++
		c.Paths += 2
		if cfg.ReachesWithout(a.Expr, x.Expr, prog.NodeIs(u.Expr)) && cfg.ReachesWithout(x.Expr, u.Expr, prog.NodeIs(a.Expr)) {
			bad = x.Key + " at " + x.Pos()
		}
	}
	c.check(bad == "", R, f.Key+": copy → repoint window free of blocking calls", u.Pos(), itoa(n)+" lock-acquiring calls in gc, none between AppendRecordGC and UpdateHtreePos",
		"a call that takes locks or dumps hints ("+bad+") sits between GC's copy of a record and the repoint of its tree slot: the window in which a client write to that key is later overwritten by the relocated old record grows from two adjacent tree operations to arbitrary blocking time")
}

// acquires: function -> set of locks acquired by it or its static callees.
func acquires(c *Ctx) map[*prog.Func]map[string]bool {
	if c.acq != nil {
		return c.acq
	}
	funcs := c.P.SortedFuncs()
	acq := map[*prog.Func]map[string]bool{}
	callees := map[*prog.Func][]*prog.Func{}
	for _, f := range funcs {
		acq[f] = map[string]bool{}
		for _, call := range f.Calls() {
			if kind, lock, _ := prog.LockOp(f.Info(), call.Expr); kind == "Lock" || kind == "RLock" {
				acq[f][lock] = true
			}
			if g := c.P.F(call.Key); g != nil {
				if _, isGo := f.Parent(call.Expr).(*ast.GoStmt); !isGo {
					callees[f] = append(callees[f], g)
				}
			}
		}
	}
	for changed := true; changed; {
		changed = false
		for _, f := range funcs {
			for _, g := range callees[f] {
				for l := range acq[g] {
					if !acq[f][l] {
						acq[f][l] = true
						changed = true
					}
				}
			}
		}
	}
	c.acq = acq
	return acq
}

// c05r5: GC holds new hints in memory (maxDumpableChunkID) from BeforeBucket to
// AfterBucket so that a key set during the pass that collides with a key inside
// the collected range is still found in a hint buffer by getCollisionGC.
func c05r5(c *Ctx) {
	const R = "C05.R5"
	ws := fieldWriters(c, "store.hintMgr.maxDumpableChunkID")["store.hintMgr.maxDumpableChunkID"]
	allowed := map[string]bool{"store.newHintMgr": true, "store.GCMgr.BeforeBucket": true, "store.GCMgr.AfterBucket": true}
	if len(ws) == 0 {
		c.undec(R, "store.hintMgr.maxDumpableChunkID", "no writer of the dump limit found")
		return
	}
	for _, w := range ws {
		c.check(allowed[w], R, w+": writes hintMgr.maxDumpableChunkID", "-", "constructor / BeforeBucket / AfterBucket", w+" changes the hint dump limit that GC sets for the duration of a pass: hint buffers holding keys set during GC can be dumped (and dropped from memory) before GC has looked at a colliding key, which is then released as garbage")
	}
	if f := c.fn(R, "store.GCMgr.BeforeBucket"); f != nil {
		info := f.Info()
		okSet := false
		ast.Inspect(f.Decl.Body, func(x ast.Node) bool {
			if as, ok := x.(*ast.AssignStmt); ok && len(as.Lhs) == 1 && prog.IsField(info, "store.hintMgr.maxDumpableChunkID")(as.Lhs[0]) && prog.Mentions(info, as.Rhs[0], f.Param(2)) && len(f.GuardsAt(as)) == 0 {
				okSet = true
			}
			return true
		})
		c.check(okSet, R, f.Key+": dump limit lowered below the collected range", f.Pos(), "maxDumpableChunkID = endChunkID - 1, unconditionally", "BeforeBucket no longer lowers the hint dump limit for the pass")
	}
	if f := c.fn(R, "store.GCMgr.gc"); f != nil {
		after := false
		ast.Inspect(f.Decl.Body, func(x ast.Node) bool {
			if d, ok := x.(*ast.DeferStmt); ok && len(f.CallsIn(d, "store.GCMgr.AfterBucket")) > 0 {
				after = true
			}
			return true
		})
		c.check(after, R, f.Key+": limit restored by a deferred AfterBucket", f.Pos(), "defer mgr.AfterBucket(bkt)", "the dump limit is not restored on every exit of gc")
	}
	if f := c.fn(R, "store.hintMgr.dumpAndMerge"); f != nil {
		// the loop bound may be widened for GC only through a local
		info := f.Info()
		okLocal := true
		ast.Inspect(f.Decl.Body, func(x ast.Node) bool {
			if fs, ok := x.(*ast.ForStmt); ok && fs.Cond != nil && len(f.CallsIn(fs, "store.hintMgr.trydump")) > 0 {
				if be, ok := prog.Unparen(fs.Cond).(*ast.BinaryExpr); ok {
					src := f.SourcesAt(be.Y, fs.Cond)
					hasField := false
					for _, s := range src {
						if prog.MentionsField(info, s.Expr, "store.hintMgr.maxDumpableChunkID") || s.Field == "maxDumpableChunkID" {
							hasField = true
						}
					}
					okLocal = hasField
				}
			}
			return true
		})
		c.check(okLocal, R, f.Key+": dumps only up to the limit", f.Pos(), "loop bound derives from maxDumpableChunkID", "dumpAndMerge no longer bounds its dump loop by maxDumpableChunkID")
	}
}
