package rules

import (
	"go/ast"
	"go/token"
	"go/types"
	"os"
	"path/filepath"
	"regexp"
	"strconv"
	"strings"

	"gbcheck/internal/prog"
)

// disjuncts flattens a || b || c.
func disjuncts(e ast.Expr) []ast.Expr {
	e = prog.Unparen(e)
	if be, ok := e.(*ast.BinaryExpr); ok && be.Op == token.LOR {
		return append(disjuncts(be.X), disjuncts(be.Y)...)
	}
	return []ast.Expr{e}
}

// c13r12: CollisionTable.compareAndSet replaces an entry when the key is new,
// when GC moved the record (GC moves records to lower positions), or when the
// new position is not lower; GC's caller passes the reason the table tests.
func c13r12(c *Ctx) {
	const R = "C13.R12"
	f := c.fn(R, "store.CollisionTable.compareAndSet")
	if f == nil {
		return
	}
	info := f.Info()
	it, reason := f.Param(0), f.Param(1)
	var guard *ast.IfStmt
	ast.Inspect(f.Decl.Body, func(x ast.Node) bool {
		if is, ok := x.(*ast.IfStmt); ok {
			for _, call := range f.CallsIn(is.Cond, "store.Position.CmpKey") {
				_ = call
				guard = is
			}
		}
		return true
	})
	if guard == nil {
		c.undec(R, f.Key, "position comparison not found")
		return
	}
	hasNew, hasGC, hasGE := false, false, false
	gcLit := ""
	for _, d := range disjuncts(guard.Cond) {
		switch x := prog.Unparen(d).(type) {
		case *ast.UnaryExpr:
			if x.Op == token.NOT {
				hasNew = true
			}
		case *ast.BinaryExpr:
			if x.Op == token.EQL {
				for _, pr := range [][2]ast.Expr{{x.X, x.Y}, {x.Y, x.X}} {
					if prog.ObjOf(info, pr[0]) == reason {
						if s, ok := prog.ConstString(info, pr[1]); ok {
							hasGC, gcLit = true, s
						}
					}
				}
			}
			if x.Op == token.GEQ || x.Op == token.LEQ {
				l, r := x.X, x.Y
				if x.Op == token.LEQ {
					l, r = r, l
				}
				recvRoot := func(e ast.Expr) types.Object {
					if call, ok := prog.Unparen(e).(*ast.CallExpr); ok {
						if sel, isS := call.Fun.(*ast.SelectorExpr); isS {
							return prog.RootObj(info, sel.X)
						}
					}
					return prog.RootObj(info, e)
				}
				if recvRoot(l) == it && recvRoot(r) != it {
					hasGE = true
				}
			}
		}
	}
	c.check(hasNew, R, f.Key+": a key not yet in its group is always added", c.pos(guard), "!ok ∨ …", "a new member of a known same-hash group is not added unconditionally")
	c.check(hasGE, R, f.Key+": an entry is replaced when the new position is not lower", c.pos(guard), "it.Pos.CmpKey() >= old.Pos.CmpKey()", "the collision table does not take a position that is equal or higher than the one it holds (or takes lower ones from ordinary writes)")
	c.check(hasGC, R, f.Key+": a record moved by GC replaces the entry although its position is lower", c.pos(guard), "reason == \"gc\" ∨ …", "GC moves records to lower positions; without the `reason == \"gc\"` alternative the table keeps the pre-GC position of a colliding key, reads of that key go to a file that was rewritten or removed")
	if hasGC {
		// the GC call site passes that very reason
		okCaller := false
		if g := c.fn(R, "store.GCMgr.gc"); g != nil {
			for _, s := range g.CallsTo("store.hintMgr.set") {
				if n := len(s.Expr.Args); n > 0 {
					if lit, ok := prog.ConstString(g.Info(), s.Expr.Args[n-1]); ok && lit == gcLit {
						okCaller = true
					}
				}
			}
		}
		okFwd := false
		if h := c.fn(R, "store.hintMgr.set"); h != nil {
			for _, s := range h.CallsTo("store.CollisionTable.compareAndSet") {
				if len(s.Expr.Args) == 2 && prog.ObjOf(h.Info(), s.Expr.Args[1]) == h.Param(h.Obj.Type().(*types.Signature).Params().Len()-1) {
					okFwd = true
				}
			}
		}
		c.check(okCaller && okFwd, R, "store.GCMgr.gc: passes reason "+strconv.Quote(gcLit)+" through hintMgr.set to the table", f.Pos(), "literal agrees with the table's test", "GC's hint update does not reach compareAndSet with the reason the table tests for: its moved records are treated as ordinary (not-lower-only) writes")
	}
}

// linear form a·oldv + b of a version expression, for a given sign of oldv
type lin struct {
	a, b int64
	ok   bool
}

func evalLin(c *Ctx, info *types.Info, e ast.Expr, oldv types.Object, sign int64) lin {
	e = prog.Unparen(e)
	if v, ok := prog.ConstInt(info, e); ok {
		return lin{0, v, true}
	}
	switch x := e.(type) {
	case *ast.Ident:
		if prog.ObjOf(info, x) == oldv {
			return lin{1, 0, true}
		}
	case *ast.UnaryExpr:
		if x.Op == token.SUB {
			r := evalLin(c, info, x.X, oldv, sign)
			return lin{-r.a, -r.b, r.ok}
		}
	case *ast.BinaryExpr:
		l, r := evalLin(c, info, x.X, oldv, sign), evalLin(c, info, x.Y, oldv, sign)
		switch x.Op {
		case token.ADD:
			return lin{l.a + r.a, l.b + r.b, l.ok && r.ok}
		case token.SUB:
			return lin{l.a - r.a, l.b - r.b, l.ok && r.ok}
		}
	case *ast.CallExpr:
		if len(x.Args) == 1 {
			if tv, ok := info.Types[x.Fun]; ok && tv.IsType() {
				return evalLin(c, info, x.Args[0], oldv, sign)
			}
			if isAbsFunc(c.P.F(prog.CalleeKey(info, x))) {
				r := evalLin(c, info, x.Args[0], oldv, sign)
				if r.ok && r.b == 0 { // |a·oldv| with known sign of oldv
					a := r.a
					if (a > 0) != (sign > 0) && a != 0 {
						a = -a
					}
					// result must be non-negative: a·oldv ≥ 0
					if sign > 0 && a < 0 || sign < 0 && a > 0 {
						a = -a
					}
					return lin{a, 0, true}
				}
			}
		}
	}
	return lin{}
}

// c01r12: the documented version arithmetic of checkAndUpdateVerison:
// auto-increment |oldv|+1 on a set without revision, −|oldv|−1 on a delete.
func c01r12(c *Ctx) {
	const R = "C01.R12"
	f := c.fn(R, "store.Bucket.checkAndUpdateVerison")
	if f == nil {
		return
	}
	info := f.Info()
	oldv, ver := f.Param(0), f.Param(1)
	type site struct {
		as       *ast.AssignStmt
		zero, lt bool // under ver == 0 / ver < 0
		pos, neg bool // under oldv >= 0 / oldv < 0
	}
	var sites []site
	ast.Inspect(f.Decl.Body, func(x ast.Node) bool {
		as, ok := x.(*ast.AssignStmt)
		if !ok || len(as.Lhs) != 1 || len(as.Rhs) != 1 || prog.ObjOf(info, as.Lhs[0]) != ver {
			return true
		}
		s := site{as: as}
		isVer, isOld, zero := prog.IsObj(info, ver), prog.IsObj(info, oldv), prog.IsIntConst(info, 0)
		for _, a := range f.GuardsAt(as) {
			switch {
			case prog.AtomCmp(a, token.EQL, isVer, zero):
				s.zero = true
			case prog.AtomCmp(a, token.LSS, isVer, zero):
				s.lt = true
			case prog.AtomCmp(a, token.GEQ, isOld, zero):
				s.pos = true
			case prog.AtomCmp(a, token.LSS, isOld, zero):
				s.neg = true
			}
		}
		sites = append(sites, s)
		return true
	})
	if len(sites) == 0 {
		c.undec(R, f.Key, "no version assignment found")
		return
	}
	okInc, okDel := map[int64]bool{}, map[int64]bool{}
	bad := ""
	for _, s := range sites {
		for _, sign := range []int64{1, -1} {
			if (sign > 0 && s.neg) || (sign < 0 && s.pos) {
				continue
			}
			r := evalLin(c, info, s.as.Rhs[0], oldv, sign)
			if !r.ok {
				bad = c.pos(s.as) + ": expression not linear in oldv"
				continue
			}
			switch {
			case s.zero: // want |oldv| + 1
				if r.a == sign && r.b == 1 {
					okInc[sign] = true
				} else {
					bad = c.pos(s.as) + ": set without revision does not give |oldv|+1 for oldv " + map[int64]string{1: ">= 0", -1: "< 0"}[sign]
				}
			case s.lt: // want -|oldv| - 1
				if r.a == -sign && r.b == -1 {
					okDel[sign] = true
				} else {
					bad = c.pos(s.as) + ": delete does not give -|oldv|-1 for oldv " + map[int64]string{1: ">= 0", -1: "< 0"}[sign]
				}
			}
		}
	}
	c.check(bad == "" && okInc[1] && okInc[-1], R, f.Key+": set without revision ⇒ |oldv| + 1", f.Pos(), "both signs of the stored version", "the auto-increment of a set is not |stored version| + 1 ("+bad+")")
	c.check(bad == "" && okDel[1] && okDel[-1], R, f.Key+": delete ⇒ −|oldv| − 1", f.Pos(), "both signs of the stored version", "the version of a delete is not −|stored version| − 1 ("+bad+"): deleting an already deleted key yields a positive version, the NOT_FOUND test on the new version is bypassed and the key comes back with an empty value")
}

// c09r8: a copy of a buffer is exactly as long as the bytes it copies, and the
// capacity recorded for accounting is only ever written by the allocator.
func c09r8(c *Ctx) {
	const R = "C09.R8"
	if f := c.fn(R, "cmem.CArray.Copy"); f != nil {
		info := f.Info()
		recv := f.Recv()
		isLenBody := func(e ast.Expr, at ast.Node) bool {
			check := func(e ast.Expr) bool {
				call, ok := prog.Unparen(e).(*ast.CallExpr)
				if !ok || len(call.Args) != 1 {
					return false
				}
				if id, isI := call.Fun.(*ast.Ident); !isI || id.Name != "len" {
					return false
				}
				return prog.IsField(info, "cmem.CArray.Body")(prog.Unparen(call.Args[0])) && prog.RootObj(info, call.Args[0]) == recv
			}
			if check(e) {
				return true
			}
			var viaLocal func(e ast.Expr, depth int) bool
			viaLocal = func(e ast.Expr, depth int) bool {
				if check(e) {
					return true
				}
				id, ok := prog.Unparen(e).(*ast.Ident)
				if !ok || depth > 3 {
					return false
				}
				defs := f.DefsOfPath(id)
				if len(defs) == 0 {
					return false
				}
				for _, d := range defs {
					if d.Rhs == nil || !viaLocal(d.Rhs, depth+1) {
						return false
					}
				}
				return true
			}
			return viaLocal(e, 0)
		}
		n, bad := 0, ""
		for _, a := range f.CallsTo("cmem.CArray.Alloc") {
			n++
			if !isLenBody(a.Expr.Args[0], a.Expr) {
				bad = a.Pos()
			}
		}
		ast.Inspect(f.Decl.Body, func(x ast.Node) bool {
			if call, ok := x.(*ast.CallExpr); ok && prog.CalleeKey(info, call) == "builtin.make" && len(call.Args) >= 2 {
				n++
				if !isLenBody(call.Args[1], call) {
					bad = c.pos(call)
				}
			}
			return true
		})
		c.check(n >= 2 && bad == "", R, f.Key+": the copy has exactly len(Body) bytes on both branches", f.Pos(), "make/Alloc(len(arr.Body))", "a copied buffer is not allocated with the length of the bytes it copies ("+bad+"): for a compressed value (capacity = length + 400) the copy handed to a reader carries trailing garbage, fails to decompress and is returned as is")
		okCopy := 0
		ast.Inspect(f.Decl.Body, func(x ast.Node) bool {
			if call, ok := x.(*ast.CallExpr); ok && prog.CalleeKey(info, call) == "builtin.copy" && len(call.Args) == 2 {
				if prog.IsField(info, "cmem.CArray.Body")(prog.Unparen(call.Args[1])) && prog.RootObj(info, call.Args[1]) == recv {
					okCopy++
				}
			}
			return true
		})
		c.check(okCopy >= 2, R, f.Key+": all of Body copied on both branches", f.Pos(), "copy(new.Body, arr.Body)", "the copy does not receive the whole body on every branch")
	}
	// who may write CArray.Cap: the allocator (Alloc / Free) only
	writers := map[string]bool{}
	for _, fn := range c.P.SortedFuncs() {
		info := fn.Info()
		ast.Inspect(fn.Decl, func(x ast.Node) bool {
			switch s := x.(type) {
			case *ast.AssignStmt:
				for _, l := range s.Lhs {
					if prog.IsField(info, "cmem.CArray.Cap")(prog.Unparen(l)) {
						writers[fn.Key+" "+c.pos(s)] = true
					}
				}
			case *ast.IncDecStmt:
				if prog.IsField(info, "cmem.CArray.Cap")(prog.Unparen(s.X)) {
					writers[fn.Key+" "+c.pos(s)] = true
				}
			}
			return true
		})
	}
	badW := ""
	for w := range writers {
		if !(strings.HasPrefix(w, "cmem.CArray.Alloc ") || strings.HasPrefix(w, "cmem.CArray.Free ")) {
			badW = w
		}
	}
	c.check(badW == "" && len(writers) >= 2, R, "cmem.CArray.Cap: written only by Alloc and Free", "-", itoa(len(writers))+" writes", "CArray.Cap is written outside the allocator ("+badW+"): Free returns Cap bytes to the C-allocation counter, so any other value than the allocated size leaves the counter off by the difference for ever")
}

// c06r8: a fatal log line stops the process. The checks of start-up integrity
// (C02, C06, C07) treat logger.Fatalf as the end of the path; this rule makes
// that assumption a checked fact.
func c06r8(c *Ctx) {
	const R = "C06.R8"
	if f := c.fn(R, "loghub.Logger.Fatalf"); f != nil {
		info := f.Info()
		ok := false
		for _, l := range f.CallsTo("loghub.Logger.Logf") {
			if len(l.Expr.Args) >= 2 && prog.ConstObjName(info, l.Expr.Args[0]) == "loghub.FATAL" {
				ok = len(f.GuardsAt(l.Expr)) == 0
			}
		}
		c.check(ok, R, f.Key+": Logf(FATAL, …) unconditionally", f.Pos(), "level FATAL", "Fatalf does not log at level FATAL on every path")
	}
	if f := c.fn(R, "loghub.Logger.Logf"); f != nil {
		info := f.Info()
		level := f.Param(0)
		var hub *ast.CallExpr
		ast.Inspect(f.Decl.Body, func(x ast.Node) bool {
			if call, ok := x.(*ast.CallExpr); ok {
				if sel, isS := call.Fun.(*ast.SelectorExpr); isS && sel.Sel.Name == "Log" && prog.MentionsField(info, sel.X, "loghub.Logger.Hub") {
					hub = call
				}
			}
			return true
		})
		ok := hub != nil && len(hub.Args) >= 2 && prog.ObjOf(info, hub.Args[1]) == level
		if ok {
			// the only way past Hub.Log is the minimum-level filter
			for _, r := range f.CFG().Returns() {
				if r.Pos() > hub.Pos() {
					continue
				}
				g := f.GuardsAt(r)
				filt := false
				for _, a := range g {
					if prog.AtomCmp(a, token.LSS, prog.IsObj(info, level), prog.IsField(info, "loghub.Logger.minLevel")) {
						filt = true
					}
				}
				if !filt {
					ok = false
				}
			}
			if len(f.GuardsAt(hub)) > 0 {
				for _, a := range f.GuardsAt(hub) {
					if !prog.AtomCmp(a, token.GEQ, prog.IsObj(info, level), prog.IsField(info, "loghub.Logger.minLevel")) {
						ok = false
					}
				}
			}
		}
		c.check(ok, R, f.Key+": every message at or above the minimum level reaches Hub.Log with its level", f.Pos(), "only the level filter returns early", "a log call can return without handing the message (and its level) to the hub: a fatal message no longer stops the process")
	}
	if f := c.fn(R, "loghub.ErrorLogHub.Log"); f != nil {
		info := f.Info()
		level := f.Param(1)
		exits := f.CallsTo("os.Exit")
		ok := len(exits) >= 1
		for _, e := range exits {
			g := f.GuardsAt(e.Expr)
			if len(g) != 1 || !(prog.AtomCmp(g[0], token.EQL, prog.IsObj(info, level), prog.IsConstNamed(info, "loghub.FATAL")) || prog.AtomCmp(g[0], token.GEQ, prog.IsObj(info, level), prog.IsConstNamed(info, "loghub.FATAL"))) {
				ok = false
			}
		}
		// no return before the exit test
		if ok {
			for _, r := range f.CFG().Returns() {
				if r.Pos() < exits[0].Expr.Pos() {
					ok = false
				}
			}
		}
		c.check(ok, R, f.Key+": os.Exit under level == FATAL and nothing else", f.Pos(), "fail-stop", "the error log hub does not terminate the process for every FATAL message (extra condition or early return): `fail to start for bad data` and the other fatal paths continue, and a store with a torn or unreadable data file is opened and serves stale values")
	}
	// the store's logger is the error logger, whose hub is an ErrorLogHub
	okHub := true
	nHub := 0
	for _, fn := range c.P.SortedFuncs() {
		if fn.Pkg.Name != "loghub" {
			continue
		}
		info := fn.Info()
		ast.Inspect(fn.Decl, func(x ast.Node) bool {
			if as, ok := x.(*ast.AssignStmt); ok && len(as.Lhs) == 1 && len(as.Rhs) == 1 && prog.IsField(info, "loghub.Logger.Hub")(prog.Unparen(as.Lhs[0])) {
				if root := prog.RootObj(info, as.Lhs[0]); root != nil && root.Name() == "ErrorLogger" {
					nHub++
					if tv, has := info.Types[as.Rhs[0]]; !has || !strings.HasSuffix(tv.Type.String(), "loghub.ErrorLogHub") {
						okHub = false
					}
				}
			}
			if as, ok := x.(*ast.AssignStmt); ok && len(as.Lhs) == 1 && len(as.Rhs) == 1 {
				if root := prog.ObjOf(info, as.Lhs[0]); root != nil && root.Name() == "ErrorLogger" && root.Parent() == fn.Pkg.Types.Scope() {
					if call, isC := prog.Unparen(as.Rhs[0]).(*ast.CallExpr); isC && prog.CalleeKey(info, call) == "loghub.NewLogger" && len(call.Args) == 3 {
						nHub++
						if tv, has := info.Types[call.Args[1]]; !has || !strings.HasSuffix(tv.Type.String(), "loghub.ErrorLogHub") {
							okHub = false
						}
					}
				}
			}
			return true
		})
	}
	c.check(okHub && nHub >= 2, R, "loghub.ErrorLogger: its hub is always an *ErrorLogHub", "-", itoa(nHub)+" assignments", "the error logger is given a hub that is not the fail-stop ErrorLogHub")
}

// c09r6b: the resynchronisation after a damaged record probes every block up
// to the end of the file.
func c09r9(c *Ctx) {
	const R = "C09.R9"
	f := c.fn(R, "store.DataStreamReader.nextValid")
	if f == nil {
		return
	}
	info := f.Info()
	var loop *ast.ForStmt
	for _, l := range topLoops(f) {
		if len(f.CallsIn(l.Body, "store.readRecordAt")) > 0 {
			loop = l
		}
	}
	if loop == nil {
		c.undec(R, f.Key, "probe loop not found")
		return
	}
	ok := false
	cond := loop.Cond
	if as := prog.Decompose(loop.Cond, true, loop); len(as) == 1 && as[0].Op == token.LSS {
		// `!(a >= b)` and `a < b` are the same bound
		cond = &ast.BinaryExpr{X: as[0].X, Op: token.LSS, Y: as[0].Y, OpPos: loop.Cond.Pos()}
	}
	if be, isB := prog.Unparen(cond).(*ast.BinaryExpr); isB && be.Op == token.LSS {
		bound := prog.Unparen(prog.StripConv(info, be.Y))
		isSize := func(e ast.Expr) bool {
			call, isC := prog.Unparen(prog.StripConv(info, e)).(*ast.CallExpr)
			if !isC {
				return false
			}
			sel, isS := call.Fun.(*ast.SelectorExpr)
			return isS && sel.Sel.Name == "Size" && len(call.Args) == 0
		}
		if isSize(bound) {
			ok = true
		} else if id, isI := bound.(*ast.Ident); isI {
			defs := f.DefsOfPath(id)
			ok = len(defs) > 0
			for _, d := range defs {
				if d.Rhs == nil || !isSize(d.Rhs) {
					ok = false
				}
			}
		}
	}
	c.check(ok, R, f.Key+": probes every block below the file size", c.pos(loop), "for offset < st.Size()", "the resynchronisation loop stops before the last block of the file: an intact record in the final block after a damaged region is never yielded")
}

// c15r9: a path key's hash is the inverse of ParsePathUint64: digit i at bits
// 60−4i, for every digit of the path.
func c15r9(c *Ctx) {
	const R = "C15.R9"
	f := c.fn(R, "store.KeyInfo.setKeyHashByPath")
	if f == nil {
		return
	}
	info := f.Info()
	var l ast.Stmt
	okCond := false
	nLoops := 0
	ast.Inspect(f.Decl.Body, func(x ast.Node) bool {
		switch s := x.(type) {
		case *ast.ForStmt:
			nLoops++
			l = s
			// condition: i < len(path) and nothing else
			if be, ok := prog.Unparen(s.Cond).(*ast.BinaryExpr); ok && be.Op == token.LSS {
				if call, isC := prog.Unparen(be.Y).(*ast.CallExpr); isC {
					if id, isI := call.Fun.(*ast.Ident); isI && id.Name == "len" {
						okCond = true
					}
				}
			}
		case *ast.RangeStmt:
			nLoops++
			l = s
			okCond = true
		}
		return true
	})
	if nLoops != 1 {
		c.undec(R, f.Key, "expected one loop over the path digits")
		return
	}
	var shiftObj types.Object
	okStart, okStep, okOr := false, false, false
	ast.Inspect(f.Decl.Body, func(x ast.Node) bool {
		switch s := x.(type) {
		case *ast.AssignStmt:
			if len(s.Lhs) == 1 && len(s.Rhs) == 1 {
				if v, isC := prog.ConstInt(info, prog.StripConv(info, s.Rhs[0])); isC && v == 60 && s.Pos() < l.Pos() {
					shiftObj = prog.ObjOf(info, s.Lhs[0])
					okStart = true
				}
				if s.Tok == token.SUB_ASSIGN && shiftObj != nil && prog.ObjOf(info, s.Lhs[0]) == shiftObj {
					if v, isC := prog.ConstInt(info, s.Rhs[0]); isC && v == 4 && len(f.GuardsAt(s)) <= 1 {
						okStep = true
					}
				}
				if s.Tok == token.OR_ASSIGN && prog.IsField(info, "store.KeyInfo.KeyHash")(prog.Unparen(s.Lhs[0])) {
					if sh, isB := prog.Unparen(s.Rhs[0]).(*ast.BinaryExpr); isB && sh.Op == token.SHL && shiftObj != nil && prog.ObjOf(info, sh.Y) == shiftObj {
						okOr = true
					}
				}
			}
		}
		return true
	})
	c.check(okCond, R, f.Key+": every digit of the path contributes", c.pos(l), "for i < len(path)", "the loop over the path digits has an extra stop condition: the last digit(s) of a full 16-digit path are dropped, `get @<16 digits>` lists the neighbouring key or nothing")
	c.check(okStart && okStep && okOr, R, f.Key+": digit i at bits 60−4i", f.Pos(), "shift 60, −4 per digit, OR-ed in", "the hash of a path key is not built with digit i at bits 60−4i (the inverse of ParsePathUint64)")
}

// c10r8: every value hash is taken over uncompressed bytes: a call of the
// plain Getvhash(body) is preceded by Decompress of that payload, or the
// payload comes from an API that hands out decompressed records.
func c10r8(c *Ctx) {
	const R = "C10.R8"
	// APIs whose result payload is decompressed (checked by C10.R2: GetRecordByOffset returns only after Decompress)
	decompressed := map[string]bool{
		"store.HStore.Get": true, "store.Bucket.get": true, "store.Bucket.getRecordByPos": true,
		"store.dataStore.GetRecordByPos": true, "store.dataChunk.GetRecordByOffset": true, "store.Bucket.GetRecordByKeyHash": true, "store.HStore.GetRecordByKeyHash": true,
	}
	n := 0
	for _, fn := range c.P.SortedFuncs() {
		if fn.Key == "store.Payload.CalcValueHash" || fn.Key == "store.Payload.Getvhash" || fn.Key == "store.Getvhash" {
			continue
		}
		info := fn.Info()
		for _, call := range fn.CallsTo("store.Getvhash") {
			if len(call.Expr.Args) != 1 || !prog.MentionsField(info, call.Expr.Args[0], "cmem.CArray.Body") {
				continue
			}
			n++
			root := prog.RootObj(info, call.Expr.Args[0])
			ok := false
			g := fn.CFGFor(call.Expr)
			for _, d := range fn.CallsTo("store.Payload.Decompress") {
				if sel, isS := d.Expr.Fun.(*ast.SelectorExpr); isS {
					r2 := prog.RootObj(info, sel.X)
					if r2 != nil && (r2 == root || aliasOf(fn, root, r2)) && g.Dominates(d.Expr, call.Expr) {
						ok = true
					}
				}
			}
			if !ok && root != nil {
				all := true
				srcs := fn.SourcesAt(rootIdent(call.Expr.Args[0]), call.Expr)
				if len(srcs) == 0 {
					all = false
				}
				for _, s := range srcs {
					if !(s.Kind == "call" && decompressed[s.Key]) {
						all = false
					}
				}
				ok = all
			}
			c.check(ok, R, fn.Key+": Getvhash over decompressed bytes", call.Pos(), "Decompress ≺ Getvhash, or payload from a decompressing read", "the value hash is computed over a body that may still be server-compressed (no Decompress of that payload before it, and the payload does not come from a read API that decompresses): the hash published to the tree, the hints and synchronisation is that of the compressed bytes")
		}
	}
	if n == 0 {
		c.undec(R, "store.Getvhash call sites", "none found")
	}
	c10r8b(c)
}

// aliasOf: b := a.Payload style alias (one definition whose root is a).
func aliasOf(f *prog.Func, root, other types.Object) bool {
	info := f.Info()
	for _, pair := range [][2]types.Object{{root, other}, {other, root}} {
		var id *ast.Ident
		ast.Inspect(f.Decl.Body, func(x ast.Node) bool {
			if i, ok := x.(*ast.Ident); ok && info.Defs[i] == pair[0] {
				id = i
			}
			return true
		})
		if id == nil {
			continue
		}
		defs := f.DefsOfPath(id)
		if len(defs) == 1 && defs[0].Rhs != nil && prog.RootObj(info, defs[0].Rhs) == pair[1] {
			return true
		}
	}
	return false
}

var reCompactC = regexp.MustCompile(`if\s*\(\s*size\s*<\s*(\d+)\s*\)\s*\n?\s*base\s*=\s*3\s*;`)

// c10r9: the two shipped compressors choose the compact (3-byte) header for
// the same sizes: its one-byte length fields cannot describe more.
func c10r9(c *Ctx) {
	const R = "C10.R9"
	src, err := os.ReadFile(filepath.Join(c.P.Dir, "quicklz", "quicklz.c"))
	if err != nil {
		c.undec(R, "quicklz/quicklz.c", "cannot read: "+err.Error())
		return
	}
	m := reCompactC.FindSubmatch(src)
	if m == nil {
		c.undec(R, "quicklz/quicklz.c: qlz_compress header choice", "`if(size < N) base = 3;` not found")
		return
	}
	cN, _ := strconv.ParseInt(string(m[1]), 10, 64)
	// With the compact header both sizes are stored in one byte. An input that
	// does not compress is stored verbatim behind the header, so the largest
	// stream under the compact header is (N-1) + 3 bytes and must fit 255.
	c.check(cN-1+3 <= 255, R, "quicklz/quicklz.c qlz_compress: sizes under the compact (3-byte) header fit its one-byte length fields", "quicklz/quicklz.c", "threshold "+itoa(int(cN))+": "+itoa(int(cN+2))+" ≤ 255",
		"qlz_compress picks the 3-byte header for sizes < "+itoa(int(cN))+", but an incompressible input of "+itoa(int(cN-1))+" bytes is stored as "+itoa(int(cN+2))+" bytes, which its one-byte compressed-size field cannot hold: the safe decompressors (C and Go) reject the compressor's own output")
}

// c11r11: the command line is split on the ASCII space only.
func c11r11(c *Ctx) {
	const R = "C11.R11"
	f := c.fn(R, "memcache.splitKeys")
	if f == nil {
		return
	}
	info := f.Info()
	verdict, why := Undecided, "tokenizer not recognised"
	for _, call := range f.Calls() {
		switch call.Key {
		case "strings.Fields":
			verdict, why = Violation, "strings.Fields splits on every Unicode white space"
		case "strings.FieldsFunc":
			if len(call.Expr.Args) == 2 {
				var pred *prog.Func
				if o := prog.ObjOf(info, call.Expr.Args[1]); o != nil {
					if fo, ok := o.(*types.Func); ok {
						pred = c.P.F(prog.FuncKey(fo))
					}
				}
				if pred != nil && isSpaceOnly(pred) {
					verdict = OK
				} else if pred != nil {
					verdict, why = Violation, "the separator predicate "+pred.Key+" is not `r == ' '`"
				}
			}
		case "strings.Split":
			if len(call.Expr.Args) == 2 {
				if s, ok := prog.ConstString(info, call.Expr.Args[1]); ok && s == " " {
					verdict = OK
				} else {
					verdict, why = Violation, "split separator is not a single space"
				}
			}
		}
	}
	switch verdict {
	case OK:
		c.ok(R, f.Key+": tokens separated by ' ' only", f.Pos(), "FieldsFunc(…, r == ' ')")
	case Violation:
		c.viol(R, f.Key+": tokens separated by ' ' only", f.Pos(), why+": a well-formed storage command whose key contains such a byte sequence (TAB, U+0085, U+00A0 …) gets the wrong token count, is answered with an error before its data block is read, and the data block is executed as the next command")
	default:
		c.undec(R, f.Key, why)
	}
	c11r11b(c)
}

func isSpaceOnly(f *prog.Func) bool {
	info := f.Info()
	rets := f.CFG().Returns()
	if len(rets) != 1 || len(rets[0].Results) != 1 {
		return false
	}
	be, ok := prog.Unparen(rets[0].Results[0]).(*ast.BinaryExpr)
	if !ok || be.Op != token.EQL {
		return false
	}
	if prog.ObjOf(info, be.X) != f.Param(0) {
		return false
	}
	v, isC := prog.ConstInt(info, be.Y)
	return isC && v == ' '
}

// c15r1b: loops over all buckets touch a bucket's tree and hints only when it
// is READY, and its data store only when READY or non-nil.
func c15r1b(c *Ctx) {
	const R = "C15.R1"
	n := 0
	for _, fn := range c.P.SortedFuncs() {
		if !strings.HasPrefix(fn.Key, "store.HStore.") {
			continue
		}
		info := fn.Info()
		ast.Inspect(fn.Decl.Body, func(x ast.Node) bool {
			rs, ok := x.(*ast.RangeStmt)
			if !ok || rs.Value == nil || !prog.IsField(info, "store.HStore.buckets")(prog.Unparen(rs.X)) {
				return true
			}
			bo := prog.ObjOf(info, rs.Value)
			if bo == nil {
				return true
			}
			isB := func(e ast.Expr) bool { return prog.RootObj(info, e) == bo }
			ready := func(at ast.Node) bool {
				for _, a := range fn.GuardsAt(at) {
					if prog.AtomCmp(a, token.EQL, func(e ast.Expr) bool { return prog.IsField(info, "store.BucketStat.State")(e) && isB(e) }, prog.IsConstNamed(info, "store.BUCKET_STAT_READY")) {
						return true
					}
				}
				return false
			}
			nonNil := func(at ast.Node, field string) bool {
				return prog.HasNilFact(info, fn.GuardsAt(at), func(e ast.Expr) bool { return prog.IsField(info, field)(prog.Unparen(e)) && isB(e) }, false)
			}
			bad := ""
			uses := 0
			ast.Inspect(rs.Body, func(y ast.Node) bool {
				se, isS := y.(*ast.SelectorExpr)
				if !isS || prog.ObjOf(info, se.X) != bo {
					return true
				}
				k, _ := prog.FieldOf(info, se)
				// a use is a dereference: the selector is itself the operand of a further selection / call
				par := fn.Parent(se)
				_, derefSel := par.(*ast.SelectorExpr)
				if !derefSel {
					return true
				}
				switch k {
				case "store.Bucket.htree", "store.Bucket.hints":
					uses++
					if !ready(se) {
						bad = c.pos(se)
					}
				case "store.Bucket.datas":
					uses++
					if !ready(se) && !nonNil(se, "store.Bucket.datas") {
						bad = c.pos(se)
					}
				}
				return true
			})
			if uses > 0 {
				n++
				c.check(bad == "", R, fn.Key+": loop over all buckets uses tree/hints only of READY buckets", c.pos(rs), itoa(uses)+" uses gated", "a loop over all buckets dereferences the tree, hints or data store of a bucket that is not READY ("+bad+"): while a bucket is being loaded or after a failed load its tree is nil, and an ordinary `stats` (or listing) command gets no reply")
			}
			return true
		})
	}
	if n == 0 {
		c.undec(R, "store.HStore: loops over all buckets", "none found")
	}
}

// c15r10: the tree parameters (depth = number of bucket digits) are derived
// after the number of buckets is known from the route table.
func c15r10(c *Ctx) {
	const R = "C15.R10"
	f := c.fn(R, "gobeansdb.DBConfig.Load")
	if f == nil {
		return
	}
	info := f.Info()
	g := f.CFG()
	inits := f.CallsTo("store.HStoreConfig.InitTree")
	if len(inits) == 0 {
		c.viol(R, f.Key+": InitTree after the route table", f.Pos(), "DBConfig.Load no longer derives the tree parameters")
		return
	}
	pass := f.ContainsCall("store.HStoreConfig.InitTree")
	bad := ""
	n := 0
	ast.Inspect(f.Decl.Body, func(x ast.Node) bool {
		as, ok := x.(*ast.AssignStmt)
		if !ok {
			return true
		}
		for _, l := range as.Lhs {
			k, _ := prog.FieldOf(info, prog.Unparen(l))
			if strings.HasSuffix(k, ".DBRouteConfig") || strings.HasSuffix(k, ".NumBucket") {
				n++
				if r := g.EscapesWithout(as, pass, nil); r.Found {
					bad = c.pos(as)
				}
			}
		}
		return true
	})
	// also the configuration files (they may set NumBucket)
	for _, l := range f.CallsTo("config.LoadYamlConfig") {
		n++
		if r := g.EscapesWithout(l.Expr, pass, nil); r.Found {
			bad = l.Pos()
		}
	}
	c.check(n > 0 && bad == "", R, f.Key+": InitTree runs after every source of NumBucket (config files, route table)", f.Pos(), itoa(n)+" sources, all followed by InitTree", "the tree depth is derived before the number of buckets is final ("+bad+" is not followed by InitTree): with 256 buckets in the route table the depth stays that of the default, keys are routed by one digit and written into another bucket's directory")
}

// c16r5: a value hash is computed after the body it covers is in place.
func c16r5(c *Ctx) {
	const R = "C16.R5"
	n := 0
	for _, fn := range c.P.SortedFuncs() {
		info := fn.Info()
		calcs := fn.CallsTo("store.Payload.CalcValueHash")
		if len(calcs) == 0 {
			continue
		}
		g := fn.CFG()
		for _, cc := range calcs {
			sel, ok := cc.Expr.Fun.(*ast.SelectorExpr)
			if !ok {
				continue
			}
			root := prog.RootObj(info, sel.X)
			n++
			bad := ""
			ast.Inspect(fn.Decl.Body, func(x ast.Node) bool {
				as, isA := x.(*ast.AssignStmt)
				if !isA {
					return true
				}
				for _, l := range as.Lhs {
					k, _ := prog.FieldOf(info, prog.Unparen(l))
					if (k == "cmem.CArray.Body" || k == "store.Payload.CArray") && prog.RootObj(info, l) == root && fn.EnclosingLit(as) == fn.EnclosingLit(cc.Expr) {
						if g.ReachesWithout(cc.Expr, as, nil) {
							bad = c.pos(as)
						}
					}
				}
				return true
			})
			c.check(bad == "", R, fn.Key+": CalcValueHash after the body is assigned", cc.Pos(), "no later assignment of the body", "the payload's body is assigned ("+bad+") after its value hash was computed: the hash stored in the tree and hints is that of the previous (empty) body")
		}
	}
	if n == 0 {
		c.undec(R, "CalcValueHash call sites", "none found")
	}
}

// c18r6: removing the hint files of a chunk removes every file on disk that
// carries the chunk's id, not only those of the splits known in memory.
func c18r6(c *Ctx) {
	const R = "C18.R6"
	f := c.fn(R, "store.hintMgr.RemoveHintfilesByChunk")
	if f == nil {
		return
	}
	info := f.Info()
	okPat := false
	var pat types.Object
	for _, p := range f.CallsTo("store.hintMgr.getPath") {
		if len(p.Expr.Args) == 3 && prog.ObjOf(info, p.Expr.Args[0]) == f.Param(0) {
			if v, isC := prog.ConstInt(info, p.Expr.Args[1]); isC && v < 0 {
				okPat = true
				if as, isA := f.Parent(p.Expr).(*ast.AssignStmt); isA {
					pat = prog.ObjOf(info, as.Lhs[0])
				}
			}
		}
	}
	okGlob := false
	var paths types.Object
	for _, gl := range f.CallsTo("filepath.Glob") {
		if len(gl.Expr.Args) == 1 {
			a := gl.Expr.Args[0]
			if (pat != nil && prog.ObjOf(info, a) == pat) || len(f.CallsIn(a, "store.hintMgr.getPath")) > 0 {
				okGlob = true
				paths = f.ResultObj(gl.Expr, 0)
			}
		}
	}
	okRm := false
	ast.Inspect(f.Decl.Body, func(x ast.Node) bool {
		if rs, ok := x.(*ast.RangeStmt); ok && paths != nil && prog.ObjOf(info, rs.X) == paths && rs.Value != nil {
			v := prog.ObjOf(info, rs.Value)
			for _, rm := range f.CallsIn(rs.Body, "utils.Remove", "os.Remove") {
				if len(rm.Expr.Args) == 1 && prog.ObjOf(info, rm.Expr.Args[0]) == v && len(f.GuardsAt(rm.Expr)) == 0 {
					okRm = true
				}
			}
		}
		return true
	})
	c.check(okPat && okGlob && okRm, R, f.Key+": every <chunk>.*.idx.s on disk is removed", f.Pos(), "Glob(getPath(chunkID, -1, false)) → Remove each", "the hint files of a chunk are not removed by globbing the directory for the chunk id: after GC rewrote the file (and reset the chunk to one split) stale higher-numbered splits stay on disk, are replayed after the fresh one at the next start, and the tree points at pre-GC offsets")
}

// c02r8b: in the rebuild loop every record read from the data file gets a
// hint, tombstones included.
func c02r8b(c *Ctx) {
	const R = "C02.R8"
	f := c.fn(R, "store.Bucket.buildHintFromData")
	if f == nil {
		return
	}
	info := f.Info()
	var loop *ast.ForStmt
	for _, l := range topLoops(f) {
		if len(f.CallsIn(l.Body, "store.DataStreamReader.Next")) > 0 {
			loop = l
		}
	}
	sets := f.CallsTo("store.hintMgr.setItem")
	if loop == nil || len(sets) == 0 {
		c.undec(R, f.Key+": every scanned record is indexed", "scan loop / setItem not found")
		return
	}
	var next *ast.CallExpr
	for _, n := range f.CallsIn(loop.Body, "store.DataStreamReader.Next") {
		next = n.Expr
	}
	rec, errObj := f.ResultObj(next, 0), f.ResultObj(next, 3)
	// the only ways round setItem inside the loop: error return and end of file (rec == nil)
	bad := ""
	extra := 0
	for _, a := range f.GuardsAt(sets[0].Expr) {
		if a.Src == nil || a.Src.Pos() < loop.Pos() {
			continue
		}
		switch {
		case rec != nil && prog.AtomCmp(a, token.NEQ, prog.IsObj(info, rec), func(e ast.Expr) bool { return prog.IsNil(info, e) }):
		case errObj != nil && prog.AtomCmp(a, token.EQL, prog.IsObj(info, errObj), func(e ast.Expr) bool { return prog.IsNil(info, e) }):
		default:
			extra++
			bad = c.pos(a.Src)
		}
	}
	c.check(extra == 0, R, f.Key+": every scanned record is indexed (tombstones included)", sets[0].Pos(), "setItem guarded only by `no error` and `not end of file`", "the rebuild skips some records ("+bad+"): a delete that reached the data file but not the hints is not replayed after a crash, the tree keeps the deleted value and GC later keeps it and drops the tombstone")
}

// c04l9: helper functions that read or write shared state without taking a
// lock themselves rely on every caller holding it. The interprocedural
// must-lockset (meet over all static call sites; goroutine entries and
// dynamically called functions start empty) has to contain that lock at the
// function's entry.
func c04l9(c *Ctx) {
	const R = "C04.L9"
	L := c.P.Locks()
	contracts := []struct{ fn, lock, what string }{
		{"store.HintBuffer.Set", "store.hintChunk.Mutex", "the split buffer's maps and slots"},
		{"store.HintBuffer.Get", "store.hintChunk.Mutex", "the split buffer's maps and slots"},
		{"store.hintMgr.dump", "store.hintChunk.Mutex", "the chunk's split list (dump unlocks and re-locks it: it must be entered locked)"},
		{"store.hintSplit.needDump", "store.hintChunk.Mutex", "the split's file/buffer fields"},
		{"store.SliceHeader.Set", "store.HTree.Mutex", "a leaf's entry array"},
		{"store.SliceHeader.Get", "store.HTree.Mutex", "a leaf's entry array"},
		{"store.SliceHeader.Remove", "store.HTree.Mutex", "a leaf's entry array"},
		{"store.SliceHeader.Iter", "store.HTree.Mutex", "a leaf's entry array"},
		{"store.HTree.setToLeaf", "store.HTree.Mutex", "leafs and node summaries"},
		{"store.HTree.remvoeFromLeaf", "store.HTree.Mutex", "leafs and node summaries"},
		{"store.HTree.getLeafAndInvalidNodes", "store.HTree.Mutex", "node summaries (invalidation)"},
		{"store.HTree.updateNodes", "store.HTree.Mutex", "node summaries (recomputation)"},
		{"store.HTree.collectItems", "store.HTree.Mutex", "leafs and node summaries"},
		{"store.HTree.listDir", "store.HTree.Mutex", "leafs and node summaries"},
		{"store.dataChunk.AppendRecord", "store.dataStore.Mutex", "the head chunk's write head (position assignment)"},
		{"store.dataChunk.flush", "store.dataStore.flushLock", "the one-flusher-per-store discipline"},
		{"store.dataStore.GetStreamWriter", "store.dataStore.flushLock", "the one-writer-per-file discipline"},
		{"store.HStore.updateNodesUpper", "store.HStore.htreeLock", "the store-level tree"},
		{"store.mergeWriter.write", "store.hintMgr.mergeLock", "the merge state"},
		{"store.Record.Copy", "store.dataChunk.Mutex", "a buffered record while the flusher may free it"},
	}
	c.Floor(R, len(contracts))
	for _, ct := range contracts {
		f := c.fn(R, ct.fn)
		if f == nil {
			continue
		}
		e := L.Entry(f)
		_, held := e[ct.lock]
		c.check(held, R, ct.fn+": entered only with "+short(ct.lock)+" held", f.Pos(), "entry lockset "+e.String(), ct.fn+" touches "+ct.what+" without locking; some call site reaches it without "+ct.lock+" held (entry lockset "+e.String()+"): a concurrent reader or writer sees a half-updated structure")
	}
}
