package prog

import (
	"go/ast"
	"go/token"
	"go/types"
	"strings"
)

// Atom is one atomic fact known to hold at a program point.
//   - comparison:  X Op Y          (Op in == != < <= > >=)
//   - boolean:     X (Neg=false) or !X (Neg=true), Op == token.ILLEGAL
//   - switch case: Tag in Vals     (Op == token.CASE); default clause: Tag not in Vals (Op == token.DEFAULT)
type Atom struct {
	Op   token.Token
	X, Y ast.Expr
	Neg  bool
	Vals []ast.Expr
	Src  ast.Node // the if/switch that produced it
}

func flipOp(op token.Token) token.Token {
	switch op {
	case token.EQL:
		return token.NEQ
	case token.NEQ:
		return token.EQL
	case token.LSS:
		return token.GEQ
	case token.GEQ:
		return token.LSS
	case token.GTR:
		return token.LEQ
	case token.LEQ:
		return token.GTR
	}
	return token.ILLEGAL
}

func isCmp(op token.Token) bool {
	switch op {
	case token.EQL, token.NEQ, token.LSS, token.GEQ, token.GTR, token.LEQ:
		return true
	}
	return false
}

// Decompose turns "cond has truth value pol" into a conjunction of atoms.
func Decompose(cond ast.Expr, pol bool, src ast.Node) []Atom {
	cond = Unparen(cond)
	switch x := cond.(type) {
	case *ast.UnaryExpr:
		if x.Op == token.NOT {
			return Decompose(x.X, !pol, src)
		}
	case *ast.BinaryExpr:
		switch {
		case x.Op == token.LAND && pol, x.Op == token.LOR && !pol:
			return append(Decompose(x.X, pol, src), Decompose(x.Y, pol, src)...)
		case x.Op == token.LAND || x.Op == token.LOR:
			return []Atom{{Op: token.ILLEGAL, X: cond, Neg: !pol, Src: src}}
		case isCmp(x.Op):
			op := x.Op
			if !pol {
				op = flipOp(op)
			}
			return []Atom{{Op: op, X: x.X, Y: x.Y, Src: src}}
		}
	}
	return []Atom{{Op: token.ILLEGAL, X: cond, Neg: !pol, Src: src}}
}

// Terminates reports whether control never falls out of the bottom of s into
// the statement that follows it in the same list.
func (f *Func) Terminates(s ast.Stmt) bool {
	switch x := s.(type) {
	case *ast.ReturnStmt:
		return true
	case *ast.BranchStmt:
		return x.Tok != token.FALLTHROUGH
	case *ast.ExprStmt:
		if c, ok := x.X.(*ast.CallExpr); ok {
			return !f.p.MayReturn(f.Info(), c)
		}
	case *ast.BlockStmt:
		if n := len(x.List); n > 0 {
			return f.Terminates(x.List[n-1])
		}
	case *ast.IfStmt:
		if x.Else == nil {
			return false
		}
		return f.Terminates(x.Body) && f.Terminates(x.Else)
	case *ast.LabeledStmt:
		return f.Terminates(x.Stmt)
	}
	return false
}

// MayReturn is the fail-stop oracle: panic, os.Exit, log.Fatal*, and the
// repository's own loghub.Logger.Fatalf never return.
func (p *Program) MayReturn(info *types.Info, c *ast.CallExpr) bool {
	switch CalleeKey(info, c) {
	case "builtin.panic", "os.Exit", "loghub.Logger.Fatalf", "log.Fatal", "log.Fatalf", "log.Fatalln",
		"log.Logger.Fatalf", "log.Logger.Fatal", "runtime.Goexit":
		return false
	}
	return true
}

func stmtList(n ast.Node) []ast.Stmt {
	switch x := n.(type) {
	case *ast.BlockStmt:
		return x.List
	case *ast.CaseClause:
		return x.Body
	case *ast.CommClause:
		return x.Body
	}
	return nil
}

// assignedPaths collects the lvalue paths assigned anywhere inside n.
func assignedPaths(info *types.Info, n ast.Node, out map[string]bool) {
	if n == nil {
		return
	}
	ast.Inspect(n, func(x ast.Node) bool {
		switch s := x.(type) {
		case *ast.AssignStmt:
			for _, l := range s.Lhs {
				if p, ok := PathOf(info, l); ok {
					out[p] = true
				}
			}
		case *ast.IncDecStmt:
			if p, ok := PathOf(info, s.X); ok {
				out[p] = true
			}
		case *ast.RangeStmt:
			if s.Key != nil {
				if p, ok := PathOf(info, s.Key); ok {
					out[p] = true
				}
			}
			if s.Value != nil {
				if p, ok := PathOf(info, s.Value); ok {
					out[p] = true
				}
			}
		}
		return true
	})
}

// mentionedPaths collects maximal paths mentioned in e.
func mentionedPaths(info *types.Info, e ast.Node) []string {
	var out []string
	var visit func(n ast.Node) bool
	visit = func(n ast.Node) bool {
		switch x := n.(type) {
		case *ast.SelectorExpr, *ast.Ident:
			if p, ok := PathOf(info, x.(ast.Expr)); ok {
				out = append(out, p)
				return false
			}
		}
		return true
	}
	if e != nil {
		ast.Inspect(e, visit)
	}
	return out
}

func killed(info *types.Info, a Atom, assigned map[string]bool) bool {
	if len(assigned) == 0 {
		return false
	}
	var ms []string
	ms = append(ms, mentionedPaths(info, a.X)...)
	if a.Y != nil {
		ms = append(ms, mentionedPaths(info, a.Y)...)
	}
	for _, m := range ms {
		for as := range assigned {
			if m == as || strings.HasPrefix(m, as+".") || strings.HasPrefix(as, m+".") && false {
				return true
			}
		}
	}
	return false
}

// GuardsAt returns the conjunction of atoms that structurally hold whenever
// control reaches node n inside f: polarities of enclosing if/else and switch
// clauses, plus the negation of every earlier sibling `if c { …terminates }`.
// A fact is dropped when something it mentions is assigned between the test
// and n. Facts do not cross a function-literal boundary.
func (f *Func) GuardsAt(n ast.Node) []Atom {
	info := f.Info()
	var atoms []Atom
	assigned := map[string]bool{} // paths assigned on the way from a fact to n
	child := n
	parents := f.p.parentsOf(f.File)
	for cur := parents[n]; cur != nil && cur != ast.Node(f.Decl); child, cur = cur, parents[cur] {
		if _, ok := cur.(*ast.FuncLit); ok {
			break
		}
		switch x := cur.(type) {
		case *ast.BinaryExpr:
			// short-circuit: inside Y of `X && Y` X holds; inside Y of `X || Y` X is false
			if child == ast.Node(x.Y) {
				if x.Op == token.LAND {
					atoms = append(atoms, Decompose(x.X, true, x)...)
				} else if x.Op == token.LOR {
					atoms = append(atoms, Decompose(x.X, false, x)...)
				}
			}
		case *ast.IfStmt:
			var as []Atom
			if child == ast.Node(x.Body) {
				as = Decompose(x.Cond, true, x)
			} else if x.Else != nil && child == ast.Node(x.Else) {
				as = Decompose(x.Cond, false, x)
			}
			for _, a := range as {
				if !killed(info, a, assigned) {
					atoms = append(atoms, a)
				}
			}
		case *ast.CaseClause:
			// child is one of the body statements (or a case expr)
			inBody := false
			for _, s := range x.Body {
				if ast.Node(s) == child {
					inBody = true
				}
			}
			if inBody {
				// early exits among preceding siblings
				atoms = append(atoms, f.siblingFacts(x.Body, child, assigned)...)
				if sw, ok := parents[parents[cur]].(*ast.SwitchStmt); ok {
					atoms = append(atoms, switchFacts(sw, x)...)
				}
			}
		case *ast.BlockStmt:
			atoms = append(atoms, f.siblingFacts(x.List, child, assigned)...)
		case *ast.CommClause:
			atoms = append(atoms, f.siblingFacts(x.Body, child, assigned)...)
		case *ast.ForStmt:
			if child == ast.Node(x.Body) {
				if x.Cond != nil {
					for _, a := range Decompose(x.Cond, true, x) {
						// loop condition holds at body entry; killed by body assignments
						body := map[string]bool{}
						assignedPaths(info, x.Body, body)
						if !killed(info, a, body) {
							atoms = append(atoms, a)
						}
					}
				}
				assignedPaths(info, x.Body, assigned)
				if x.Post != nil {
					assignedPaths(info, x.Post, assigned)
				}
			}
		case *ast.RangeStmt:
			if child == ast.Node(x.Body) {
				assignedPaths(info, x.Body, assigned)
			}
		}
	}
	return atoms
}

func switchFacts(sw *ast.SwitchStmt, cc *ast.CaseClause) []Atom {
	if sw.Tag != nil {
		if cc.List == nil { // default
			var all []ast.Expr
			for _, s := range sw.Body.List {
				if c, ok := s.(*ast.CaseClause); ok {
					all = append(all, c.List...)
				}
			}
			return []Atom{{Op: token.DEFAULT, X: sw.Tag, Vals: all, Src: sw}}
		}
		if len(cc.List) == 1 {
			return []Atom{{Op: token.EQL, X: sw.Tag, Y: cc.List[0], Src: sw}}
		}
		return []Atom{{Op: token.CASE, X: sw.Tag, Vals: cc.List, Src: sw}}
	}
	// tagless switch: this clause's condition (if single) holds, earlier ones do not
	var out []Atom
	for _, s := range sw.Body.List {
		c, ok := s.(*ast.CaseClause)
		if !ok {
			continue
		}
		if c == cc {
			if len(c.List) == 1 {
				out = append(out, Decompose(c.List[0], true, sw)...)
			}
			break
		}
		for _, e := range c.List {
			out = append(out, Decompose(e, false, sw)...)
		}
	}
	return out
}

// siblingFacts: for statements preceding child in list, add early-exit facts;
// also records assignments made by the preceding statements (for killing
// facts that originate further out).
func (f *Func) siblingFacts(list []ast.Stmt, child ast.Node, assigned map[string]bool) []Atom {
	info := f.Info()
	idx := -1
	for i, s := range list {
		if ast.Node(s) == child {
			idx = i
		}
	}
	if idx < 0 {
		return nil
	}
	var out []Atom
	// walk backwards so that `assigned` accumulates statements between the
	// fact and child
	local := map[string]bool{}
	for k := range assigned {
		local[k] = true
	}
	for j := idx - 1; j >= 0; j-- {
		s := list[j]
		if is, ok := s.(*ast.IfStmt); ok {
			var as []Atom
			if f.Terminates(is.Body) && (is.Else == nil || !f.Terminates(is.Else)) {
				as = Decompose(is.Cond, false, is)
				// else-if chain whose every body terminates and that has no final
				// else: falling out of it means every condition was false
				for cur := is; ; {
					nx, ok := cur.Else.(*ast.IfStmt)
					if !ok {
						break
					}
					if !f.Terminates(nx.Body) {
						break
					}
					if nx.Init == nil {
						as = append(as, Decompose(nx.Cond, false, nx)...)
					}
					cur = nx
				}
			} else if is.Else != nil && f.Terminates(is.Else) && !f.Terminates(is.Body) {
				as = Decompose(is.Cond, true, is)
			}
			// assignments in the non-terminating branch may invalidate the fact
			br := map[string]bool{}
			for k := range local {
				br[k] = true
			}
			if is.Else != nil && !f.Terminates(is.Else) {
				assignedPaths(info, is.Else, br)
			}
			if !f.Terminates(is.Body) {
				assignedPaths(info, is.Body, br)
			}
			for _, a := range as {
				if !killed(info, a, br) {
					out = append(out, a)
				}
			}
		}
		f.assignedReaching(s, local)
	}
	for k := range local {
		assigned[k] = true
	}
	return out
}

// ------------------------------------------------------------ atom matching

// AtomIs reports whether atom asserts `lhs op rhs` where lhs/rhs are matched
// by the predicates (either orientation; op is mirrored accordingly).
func AtomCmp(a Atom, op token.Token, lhs, rhs func(ast.Expr) bool) bool {
	if !isCmp(a.Op) || a.X == nil || a.Y == nil {
		return false
	}
	if a.Op == op && lhs(a.X) && rhs(a.Y) {
		return true
	}
	if mirror(a.Op) == op && lhs(a.Y) && rhs(a.X) {
		return true
	}
	return false
}

func mirror(op token.Token) token.Token {
	switch op {
	case token.LSS:
		return token.GTR
	case token.GTR:
		return token.LSS
	case token.LEQ:
		return token.GEQ
	case token.GEQ:
		return token.LEQ
	}
	return op
}

// HasNilFact: guards contain `e == nil` (isNil=true) or `e != nil`.
func HasNilFact(info *types.Info, atoms []Atom, match func(ast.Expr) bool, isNil bool) bool {
	op := token.NEQ
	if isNil {
		op = token.EQL
	}
	for _, a := range atoms {
		if AtomCmp(a, op, match, func(e ast.Expr) bool { return IsNil(info, e) }) {
			return true
		}
	}
	return false
}

// HasBoolFact: guards contain boolean atom matching with given truth.
func HasBoolFact(atoms []Atom, match func(ast.Expr) bool, truth bool) bool {
	for _, a := range atoms {
		if a.Op == token.ILLEGAL && a.X != nil && a.Neg == !truth && match(Unparen(a.X)) {
			return true
		}
	}
	return false
}

// IsObj returns a predicate matching identifiers denoting obj.
func IsObj(info *types.Info, obj types.Object) func(ast.Expr) bool {
	return func(e ast.Expr) bool { return obj != nil && ObjOf(info, e) == obj }
}

// IsField returns a predicate matching selectors of the given field key.
func IsField(info *types.Info, key string) func(ast.Expr) bool {
	return func(e ast.Expr) bool { k, _ := FieldOf(info, e); return k == key }
}

// IsConstNamed matches a reference to named constant "pkg.NAME".
func IsConstNamed(info *types.Info, name string) func(ast.Expr) bool {
	return func(e ast.Expr) bool { return ConstObjName(info, e) == name }
}

// IsIntConst matches any constant expression with the given value.
func IsIntConst(info *types.Info, v int64) func(ast.Expr) bool {
	return func(e ast.Expr) bool { c, ok := ConstInt(info, e); return ok && c == v }
}

// assignedReaching collects assignments of s that can be followed by the next
// statement of the list: branches that terminate are skipped.
func (f *Func) assignedReaching(s ast.Stmt, out map[string]bool) {
	info := f.Info()
	switch x := s.(type) {
	case *ast.IfStmt:
		if x.Init != nil {
			assignedPaths(info, x.Init, out)
		}
		if !f.Terminates(x.Body) {
			for _, st := range x.Body.List {
				f.assignedReaching(st, out)
			}
		}
		if x.Else != nil && !f.Terminates(x.Else) {
			f.assignedReaching(x.Else, out)
		}
	case *ast.BlockStmt:
		for _, st := range x.List {
			f.assignedReaching(st, out)
		}
	default:
		assignedPaths(info, s, out)
	}
}
