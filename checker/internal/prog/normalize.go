package prog

// Source normalisation, applied before type-checking, so that the rule engines
// see the shape the rule tables were confirmed on when a tree differs from it
// only by behaviour-preserving refactorings:
//
//   - a tagless `switch { case c1: … }` (and a `switch ident { case v: … }` over
//     non-string values) becomes the equivalent if / else-if chain;
//   - a helper function that is NEW relative to the confirmed tree (not listed
//     in KnownFuncs), unexported, and of an inlinable shape is inlined at its
//     call sites ("extract helper" undone): arguments are bound to typed
//     temporaries in call order, the body is copied verbatim, `return`s become
//     assignments to result temporaries.
//
// Both rewrites are semantics-preserving; they are done on the source text into
// a scratch copy of the tree, which is then loaded instead of the original. If
// the rewritten tree does not type-check, the loader falls back to the
// original tree. On a tree without such constructs (the pinned tree) nothing is
// copied and nothing changes. `x++` ⇒ `x += 1` is done in the parser hook of
// the loader (positions are unchanged by it).

import (
	"bytes"
	"fmt"
	"go/ast"
	"go/parser"
	"go/token"
	"os"
	"os/exec"
	"path/filepath"
	"sort"
	"strings"
	"unicode"
)

type edit struct {
	start, end int
	text       string
}

type nfile struct {
	path  string
	src   []byte
	ast   *ast.File
	tf    *token.File
	edits []edit
}

func (f *nfile) off(p token.Pos) int       { return f.tf.Offset(p) }
func (f *nfile) text(n ast.Node) string    { return string(f.src[f.off(n.Pos()):f.off(n.End())]) }
func (f *nfile) add(s, e int, t string)    { f.edits = append(f.edits, edit{s, e, t}) }
func (f *nfile) overlaps(s, e int) bool {
	for _, x := range f.edits {
		if s < x.end && x.start < e {
			return true
		}
	}
	return false
}

// Normalize returns the directory to load (dir itself when nothing had to be
// rewritten), notes describing what was done, the keys of helpers that became
// dead by inlining, and a cleanup function.
func Normalize(dir string) (out string, notes []string, dead map[string]bool, cleanup func()) {
	cleanup = func() {}
	dead = map[string]bool{}
	cur := dir
	var tmp string
	for round := 0; round < 4; round++ {
		files, changed, ns, dd := normalizeOnce(cur)
		if !changed {
			break
		}
		if tmp == "" {
			t, err := os.MkdirTemp("", "gbnorm.")
			if err != nil {
				return dir, append(notes, "normalisation skipped: "+err.Error()), map[string]bool{}, cleanup
			}
			tmp = t
			cleanup = func() { os.RemoveAll(tmp) }
			cp := exec.Command("rsync", "-a", "--exclude", ".git", "--exclude", "*.tmp", dir+"/", tmp+"/")
			if b, err := cp.CombinedOutput(); err != nil {
				cleanup()
				return dir, append(notes, "normalisation skipped: rsync: "+err.Error()+" "+string(b)), map[string]bool{}, func() {}
			}
			cur = tmp
		}
		for _, f := range files {
			if len(f.edits) == 0 {
				continue
			}
			rel, _ := filepath.Rel(func() string {
				if round == 0 {
					return dir
				}
				return tmp
			}(), f.path)
			os.WriteFile(filepath.Join(tmp, rel), applyEdits(f.src, f.edits), 0644)
		}
		notes = append(notes, ns...)
		for k := range dd {
			dead[k] = true
		}
	}
	return cur, notes, dead, cleanup
}

func applyEdits(src []byte, edits []edit) []byte {
	sort.SliceStable(edits, func(i, j int) bool { return edits[i].start < edits[j].start })
	var b bytes.Buffer
	pos := 0
	for _, e := range edits {
		if e.start < pos {
			continue // overlapping edit: dropped (the next round picks it up)
		}
		b.Write(src[pos:e.start])
		b.WriteString(e.text)
		pos = e.end
	}
	b.Write(src[pos:])
	return b.Bytes()
}

type helper struct {
	key   string
	decl  *ast.FuncDecl
	file  *nfile
	sites int
}

var inlCounter int

func normalizeOnce(dir string) (files []*nfile, changed bool, notes []string, dead map[string]bool) {
	dead = map[string]bool{}
	fset := token.NewFileSet()
	pkgs := map[string][]*nfile{}
	filepath.Walk(dir, func(path string, info os.FileInfo, err error) error {
		if err != nil {
			return nil
		}
		if info.IsDir() {
			b := filepath.Base(path)
			if path != dir && (strings.HasPrefix(b, ".") || strings.HasPrefix(b, "_") || b == "testdata" || b == "vendor") {
				return filepath.SkipDir
			}
			return nil
		}
		if !strings.HasSuffix(path, ".go") || strings.HasSuffix(path, "_test.go") {
			return nil
		}
		src, err := os.ReadFile(path)
		if err != nil {
			return nil
		}
		af, err := parser.ParseFile(fset, path, src, parser.SkipObjectResolution)
		if err != nil {
			return nil
		}
		nf := &nfile{path: path, src: src, ast: af, tf: fset.File(af.Pos())}
		d := filepath.Dir(path)
		pkgs[d] = append(pkgs[d], nf)
		files = append(files, nf)
		return nil
	})
	for _, pf := range pkgs {
		// 1. switch → if chain
		for _, f := range pf {
			for _, d := range f.ast.Decls {
				fd, ok := d.(*ast.FuncDecl)
				if !ok || fd.Body == nil {
					continue
				}
				ast.Inspect(fd.Body, func(n ast.Node) bool {
					if sw, ok := n.(*ast.SwitchStmt); ok {
						if rewriteSwitch(f, sw) {
							notes = append(notes, fmt.Sprintf("switch at %s:%d read as an if/else-if chain", filepath.Base(f.path), fset.Position(sw.Pos()).Line))
						}
					}
					// `for { if c { break }; … }`  ⇒  `for !(c) { … }`
					if fs, ok := n.(*ast.ForStmt); ok && fs.Init == nil && fs.Cond == nil && fs.Post == nil && len(fs.Body.List) > 1 {
						if is, ok := fs.Body.List[0].(*ast.IfStmt); ok && is.Init == nil && is.Else == nil && len(is.Body.List) == 1 {
							if br, ok := is.Body.List[0].(*ast.BranchStmt); ok && br.Tok == token.BREAK && br.Label == nil {
								a, b := f.off(fs.Pos()), f.off(is.End())
								if !f.overlaps(a, b) {
									f.add(a, b, "for !("+f.text(is.Cond)+") {")
									notes = append(notes, fmt.Sprintf("loop at %s:%d read as `for !cond`", filepath.Base(f.path), fset.Position(fs.Pos()).Line))
								}
							}
						}
					}
					return true
				})
			}
		}
		if len(pf) == 0 {
			continue
		}
		pkgName := pf[0].ast.Name.Name
		// 1b. new explaining variables are read through
		for _, f := range pf {
			for _, d := range f.ast.Decls {
				fd, ok := d.(*ast.FuncDecl)
				if !ok || fd.Body == nil {
					continue
				}
				key := pkgName + "." + fd.Name.Name
				if fd.Recv != nil && len(fd.Recv.List) == 1 {
					key = pkgName + "." + recvTypeName(fd.Recv.List[0].Type) + "." + fd.Name.Name
				}
				if n, names := propagateTemps(f, key, fd); n > 0 {
					notes = append(notes, fmt.Sprintf("%s: new explaining variable(s) %s read through", key, strings.Join(names, ", ")))
				}
			}
		}
		// 2. inline new helpers
		nameCount := map[string]int{}
		for _, f := range pf {
			for _, d := range f.ast.Decls {
				if fd, ok := d.(*ast.FuncDecl); ok {
					nameCount[fd.Name.Name]++
				}
			}
		}
		// known functions of this package that are absent: a new function with the
		// same receiver may be one of them under a new name (the loader decides);
		// such a function is not inlined
		declared := map[string]bool{}
		for _, f := range pf {
			for _, d := range f.ast.Decls {
				if fd, ok := d.(*ast.FuncDecl); ok {
					k := pkgName + "." + fd.Name.Name
					if fd.Recv != nil && len(fd.Recv.List) == 1 {
						k = pkgName + "." + recvTypeName(fd.Recv.List[0].Type) + "." + fd.Name.Name
					}
					declared[k] = true
				}
			}
		}
		missingPrefix := map[string]bool{}
		for k := range KnownFuncs {
			if strings.HasPrefix(k, pkgName+".") && !declared[k] {
				missingPrefix[k[:strings.LastIndex(k, ".")+1]] = true
			}
		}
		var helpers []*helper
		for _, f := range pf {
			for _, d := range f.ast.Decls {
				fd, ok := d.(*ast.FuncDecl)
				if !ok || fd.Body == nil {
					continue
				}
				key := pkgName + "." + fd.Name.Name
				if fd.Recv != nil && len(fd.Recv.List) == 1 {
					key = pkgName + "." + recvTypeName(fd.Recv.List[0].Type) + "." + fd.Name.Name
				}
				if KnownFuncs[key] != "" || !unicode.IsLower(rune(fd.Name.Name[0])) || fd.Name.Name == "init" || fd.Name.Name == "main" {
					continue
				}
				if nameCount[fd.Name.Name] != 1 || !inlinable(fd) || missingPrefix[key[:strings.LastIndex(key, ".")+1]] {
					continue
				}
				helpers = append(helpers, &helper{key: key, decl: fd, file: f})
			}
		}
		for _, h := range helpers {
			refs, sites := 0, 0
			type siteT struct {
				f    *nfile
				fd   *ast.FuncDecl
				list []ast.Stmt
				idx  int
				call *ast.CallExpr
			}
			var found []siteT
			for _, f := range pf {
				// count identifier references to the helper's name
				ast.Inspect(f.ast, func(n ast.Node) bool {
					if id, ok := n.(*ast.Ident); ok && id.Name == h.decl.Name.Name {
						refs++
					}
					return true
				})
				for _, d := range f.ast.Decls {
					fd, ok := d.(*ast.FuncDecl)
					if !ok || fd.Body == nil || fd == h.decl {
						continue
					}
					forEachStmtList(fd.Body, func(list []ast.Stmt) {
						for i, s := range list {
							if c := siteCall(s, h); c != nil {
								found = append(found, siteT{f, fd, list, i, c})
							}
						}
					})
				}
			}
			sites = len(found)
			if sites == 0 || refs != sites+1 {
				continue // referenced in a position that cannot be inlined (or unused): leave it alone
			}
			okAll := true
			var pending []func()
			for _, st := range found {
				s := st.list[st.idx]
				if st.f.overlaps(st.f.off(s.Pos()), st.f.off(s.End())) {
					okAll = false
					break
				}
				if hasDefer(h.decl) {
					_, isExpr := s.(*ast.ExprStmt)
					n := len(st.fd.Body.List)
					if !isExpr || n == 0 || st.fd.Body.List[n-1] != s {
						okAll = false
						break
					}
				}
				txt, ok := inlineText(h, st.f, st.fd, s, st.call)
				if !ok {
					okAll = false
					break
				}
				f, a, b := st.f, st.f.off(s.Pos()), st.f.off(s.End())
				pending = append(pending, func() { f.add(a, b, txt) })
			}
			if !okAll {
				continue
			}
			// the helper's own text must not be touched by another edit of this round
			ds, de := h.file.off(h.decl.Pos()), h.file.off(h.decl.End())
			if h.file.overlaps(ds, de) {
				continue
			}
			for _, p := range pending {
				p()
			}
			// the helper stays in the file (unreferenced, hence dead); the loader drops it
			dead[h.key] = true
			// protect it from further edits in this round
			h.file.add(ds, ds, "")
			notes = append(notes, fmt.Sprintf("new helper %s inlined at its %d call site(s)", h.key, sites))
		}
	}
	for _, f := range files {
		// drop empty marker edits
		var es []edit
		for _, e := range f.edits {
			if e.start != e.end || e.text != "" {
				es = append(es, e)
			}
		}
		f.edits = es
		if len(es) > 0 {
			changed = true
		}
	}
	return
}

func recvTypeName(t ast.Expr) string {
	if s, ok := t.(*ast.StarExpr); ok {
		t = s.X
	}
	if id, ok := t.(*ast.Ident); ok {
		return id.Name
	}
	return "?"
}

// rewriteSwitch turns `switch [init;] [ident] { case a, b: … default: … }` into
// an if / else-if chain by editing the keyword lines only.
func rewriteSwitch(f *nfile, sw *ast.SwitchStmt) bool {
	tag := ""
	if sw.Tag != nil {
		id, ok := sw.Tag.(*ast.Ident)
		if !ok {
			return false
		}
		tag = id.Name
	}
	if sw.Init != nil || len(sw.Body.List) == 0 {
		return false
	}
	for i, s := range sw.Body.List {
		cc := s.(*ast.CaseClause)
		if cc.List == nil && i != len(sw.Body.List)-1 {
			return false // default not last
		}
		for _, e := range cc.List {
			if bl, ok := e.(*ast.BasicLit); ok && bl.Kind == token.STRING && tag != "" {
				return false // string-cased verb tables stay switches
			}
			if tag != "" {
				if _, isFn := e.(*ast.FuncLit); isFn {
					return false
				}
			}
		}
		bad := false
		for _, b := range cc.Body {
			ast.Inspect(b, func(n ast.Node) bool {
				switch x := n.(type) {
				case *ast.ForStmt, *ast.RangeStmt, *ast.SwitchStmt, *ast.TypeSwitchStmt, *ast.SelectStmt, *ast.FuncLit:
					// an unlabeled break inside these does not refer to our switch;
					// but a labeled one might: be conservative about labels below
					hasLabeledBreak := false
					ast.Inspect(x, func(m ast.Node) bool {
						if br, ok := m.(*ast.BranchStmt); ok && br.Label != nil {
							hasLabeledBreak = true
						}
						return true
					})
					if hasLabeledBreak {
						bad = true
					}
					return false
				case *ast.BranchStmt:
					if x.Tok == token.BREAK || x.Tok == token.FALLTHROUGH || x.Tok == token.GOTO {
						bad = true
					}
				}
				return true
			})
		}
		if bad {
			return false
		}
	}
	if len(sw.Body.List) == 1 && sw.Body.List[0].(*ast.CaseClause).List == nil {
		return false // only a default
	}
	// a labeled switch keeps its shape
	s0, e0 := f.off(sw.Pos()), f.off(sw.End())
	if f.overlaps(s0, e0) {
		return false
	}
	// `switch … {` up to and including the first `case …:` becomes `if cond {`
	for i, s := range sw.Body.List {
		cc := s.(*ast.CaseClause)
		var cond string
		if cc.List != nil {
			var parts []string
			for _, e := range cc.List {
				if tag != "" {
					parts = append(parts, tag+" == ("+f.text(e)+")")
				} else {
					parts = append(parts, "("+f.text(e)+")")
				}
			}
			cond = strings.Join(parts, " || ")
		}
		var head string
		switch {
		case i == 0:
			head = "if " + cond + " {"
		case cc.List == nil:
			head = "} else {"
		default:
			head = "} else if " + cond + " {"
		}
		start := f.off(cc.Pos())
		if i == 0 {
			start = s0
		}
		f.add(start, f.off(cc.Colon)+1, head)
	}
	return true
}

func inlinable(fd *ast.FuncDecl) bool {
	if fd.Type.TypeParams != nil {
		return false
	}
	if fd.Type.Params != nil {
		for _, p := range fd.Type.Params.List {
			if _, ok := p.Type.(*ast.Ellipsis); ok {
				return false
			}
			if len(p.Names) == 0 {
				return false
			}
			for _, n := range p.Names {
				if n.Name == "_" {
					return false
				}
			}
		}
	}
	if fd.Recv != nil {
		if len(fd.Recv.List) != 1 || len(fd.Recv.List[0].Names) != 1 || fd.Recv.List[0].Names[0].Name == "_" {
			return false
		}
		t := fd.Recv.List[0].Type
		if s, ok := t.(*ast.StarExpr); ok {
			t = s.X
		}
		if _, ok := t.(*ast.Ident); !ok {
			return false
		}
	}
	ok := true
	ast.Inspect(fd.Body, func(n ast.Node) bool {
		switch x := n.(type) {
		case *ast.DeferStmt:
			// allowed at tail call sites only (see hasDefer)
		case *ast.LabeledStmt:
			ok = false
		case *ast.BranchStmt:
			if x.Label != nil || x.Tok == token.GOTO {
				ok = false
			}
		case *ast.CallExpr:
			if id, isId := x.Fun.(*ast.Ident); isId && (id.Name == "recover" || id.Name == fd.Name.Name) {
				ok = false
			}
			if se, isSel := x.Fun.(*ast.SelectorExpr); isSel && se.Sel.Name == fd.Name.Name {
				ok = false
			}
		}
		return ok
	})
	return ok
}

// hasDefer: the helper defers something (top level of its body, not inside a
// function literal). Such a helper is inlined only where its exit is the
// caller's exit: as the last statement of the caller's body.
func hasDefer(fd *ast.FuncDecl) bool {
	found := false
	ast.Inspect(fd.Body, func(n ast.Node) bool {
		switch n.(type) {
		case *ast.FuncLit:
			return false
		case *ast.DeferStmt:
			found = true
		}
		return true
	})
	return found
}

func forEachStmtList(body *ast.BlockStmt, fn func([]ast.Stmt)) {
	ast.Inspect(body, func(n ast.Node) bool {
		switch x := n.(type) {
		case *ast.BlockStmt:
			fn(x.List)
		case *ast.CaseClause:
			fn(x.Body)
		case *ast.CommClause:
			fn(x.Body)
		}
		return true
	})
}

func isCallTo(e ast.Expr, h *helper) *ast.CallExpr {
	c, ok := e.(*ast.CallExpr)
	if !ok {
		return nil
	}
	name := h.decl.Name.Name
	if h.decl.Recv == nil {
		if id, ok := c.Fun.(*ast.Ident); ok && id.Name == name {
			return c
		}
		return nil
	}
	if se, ok := c.Fun.(*ast.SelectorExpr); ok && se.Sel.Name == name {
		return c
	}
	return nil
}

// siteCall recognises the statement shapes at which a call can be hoisted out
// without changing evaluation order, and returns the call.
func siteCall(s ast.Stmt, h *helper) *ast.CallExpr {
	switch x := s.(type) {
	case *ast.ExprStmt:
		return isCallTo(x.X, h)
	case *ast.AssignStmt:
		if len(x.Rhs) == 1 {
			return isCallTo(x.Rhs[0], h)
		}
	case *ast.RangeStmt:
		return isCallTo(x.X, h)
	case *ast.ReturnStmt:
		if len(x.Results) == 1 {
			return isCallTo(x.Results[0], h)
		}
	case *ast.IfStmt:
		if x.Init == nil {
			if c := isCallTo(x.Cond, h); c != nil {
				return c
			}
			if u, ok := x.Cond.(*ast.UnaryExpr); ok && u.Op == token.NOT {
				return isCallTo(u.X, h)
			}
			return nil
		}
		if as, ok := x.Init.(*ast.AssignStmt); ok && len(as.Rhs) == 1 {
			return isCallTo(as.Rhs[0], h)
		}
	}
	return nil
}

func qualifiers(e ast.Expr) []string {
	var out []string
	ast.Inspect(e, func(n ast.Node) bool {
		if se, ok := n.(*ast.SelectorExpr); ok {
			if id, ok := se.X.(*ast.Ident); ok {
				out = append(out, id.Name)
			}
		}
		return true
	})
	return out
}

func importName(f *ast.File, name string) string {
	for _, im := range f.Imports {
		p := strings.Trim(im.Path.Value, `"`)
		n := p[strings.LastIndex(p, "/")+1:]
		if im.Name != nil {
			n = im.Name.Name
		}
		if n == name {
			return p
		}
	}
	return ""
}

// declaredNames lists the identifiers a function declares (parameters, results,
// receiver, := / var / range variables, labels), scoping ignored.
func declaredNames(fd *ast.FuncDecl) map[string]bool {
	out := map[string]bool{}
	addFields := func(fl *ast.FieldList) {
		if fl == nil {
			return
		}
		for _, f := range fl.List {
			for _, n := range f.Names {
				out[n.Name] = true
			}
		}
	}
	addFields(fd.Recv)
	addFields(fd.Type.Params)
	addFields(fd.Type.Results)
	ast.Inspect(fd.Body, func(n ast.Node) bool {
		switch x := n.(type) {
		case *ast.AssignStmt:
			if x.Tok == token.DEFINE {
				for _, l := range x.Lhs {
					if id, ok := l.(*ast.Ident); ok {
						out[id.Name] = true
					}
				}
			}
		case *ast.ValueSpec:
			for _, nm := range x.Names {
				out[nm.Name] = true
			}
		case *ast.RangeStmt:
			if x.Tok == token.DEFINE {
				for _, l := range []ast.Expr{x.Key, x.Value} {
					if id, ok := l.(*ast.Ident); ok {
						out[id.Name] = true
					}
				}
			}
		case *ast.FuncLit:
			addFields(x.Type.Params)
			addFields(x.Type.Results)
		case *ast.TypeSwitchStmt:
			if as, ok := x.Assign.(*ast.AssignStmt); ok {
				for _, l := range as.Lhs {
					if id, ok := l.(*ast.Ident); ok {
						out[id.Name] = true
					}
				}
			}
		}
		return true
	})
	return out
}

// captures reports whether an identifier the helper takes from the package scope
// would be captured by a declaration of the caller once the body is moved there.
func captures(h *helper, caller *ast.FuncDecl) bool {
	own := declaredNames(h.decl)
	theirs := declaredNames(caller)
	bad := false
	sel := map[*ast.Ident]bool{}
	ast.Inspect(h.decl.Body, func(n ast.Node) bool {
		if se, ok := n.(*ast.SelectorExpr); ok {
			sel[se.Sel] = true
		}
		return true
	})
	ast.Inspect(h.decl.Body, func(n ast.Node) bool {
		if id, ok := n.(*ast.Ident); ok && !sel[id] && !own[id.Name] && theirs[id.Name] {
			bad = true
		}
		return true
	})
	// result types and parameter types are copied into the caller as well
	for _, fl := range []*ast.FieldList{h.decl.Type.Params, h.decl.Type.Results, h.decl.Recv} {
		if fl == nil {
			continue
		}
		for _, f := range fl.List {
			ast.Inspect(f.Type, func(n ast.Node) bool {
				if id, ok := n.(*ast.Ident); ok && theirs[id.Name] {
					bad = true
				}
				return true
			})
		}
	}
	return bad
}

// inlineText builds the replacement of statement s (which contains the call c to h).
func inlineText(h *helper, f *nfile, caller *ast.FuncDecl, s ast.Stmt, c *ast.CallExpr) (string, bool) {
	if captures(h, caller) {
		return "", false
	}
	hf := h.file
	inlCounter++
	id := fmt.Sprintf("__inl%d", inlCounter)
	typeText := func(t ast.Expr) (string, bool) {
		if hf != f {
			for _, q := range qualifiers(t) {
				if p := importName(hf.ast, q); p == "" || importName(f.ast, q) != p {
					return "", false
				}
			}
		}
		return hf.text(t), true
	}
	var pre, inner strings.Builder
	// receiver
	argN := 0
	written := map[string]bool{}
	ast.Inspect(h.decl.Body, func(n ast.Node) bool {
		switch x := n.(type) {
		case *ast.AssignStmt:
			for _, l := range x.Lhs {
				if id, ok := l.(*ast.Ident); ok {
					written[id.Name] = true
				}
			}
		case *ast.IncDecStmt:
			if id, ok := x.X.(*ast.Ident); ok {
				written[id.Name] = true
			}
		case *ast.UnaryExpr:
			if id, ok := x.X.(*ast.Ident); ok && x.Op == token.AND {
				written[id.Name] = true
			}
		case *ast.RangeStmt:
			for _, l := range []ast.Expr{x.Key, x.Value} {
				if id, ok := l.(*ast.Ident); ok {
					written[id.Name] = true
				}
			}
		}
		return true
	})
	bind := func(name string, t ast.Expr, val string, ptrRecv bool) bool {
		if val == name && !written[name] {
			// the caller passes its own variable of that name and the helper only reads it:
			// no rebinding (keeps named results of the caller unshadowed)
			return true
		}
		tt, ok := typeText(t)
		if !ok {
			return false
		}
		tmp := fmt.Sprintf("%s_a%d", id, argN)
		argN++
		fmt.Fprintf(&pre, "var %s %s = %s; ", tmp, tt, val)
		fmt.Fprintf(&inner, "var %s %s = %s; _ = %s; ", name, tt, tmp, name)
		return true
	}
	if h.decl.Recv != nil {
		se := c.Fun.(*ast.SelectorExpr)
		r := h.decl.Recv.List[0]
		_, isPtr := r.Type.(*ast.StarExpr)
		if !bind(r.Names[0].Name, r.Type, f.text(se.X), isPtr) {
			return "", false
		}
	}
	var params []*ast.Ident
	var ptypes []ast.Expr
	if h.decl.Type.Params != nil {
		for _, p := range h.decl.Type.Params.List {
			for _, n := range p.Names {
				params = append(params, n)
				ptypes = append(ptypes, p.Type)
			}
		}
	}
	if len(params) != len(c.Args) || c.Ellipsis.IsValid() {
		return "", false
	}
	// a `func()` parameter that receives a function literal and is called exactly once, as a
	// statement, is replaced by the literal's body (the lock-wrapper idiom `locked(func(){…})`)
	subst := map[string]string{}
	for i, p := range params {
		ft, isFT := ptypes[i].(*ast.FuncType)
		lit, isLit := c.Args[i].(*ast.FuncLit)
		if isFT && isLit && (ft.Params == nil || len(ft.Params.List) == 0) && ft.Results == nil {
			uses, calls := 0, 0
			ast.Inspect(h.decl.Body, func(n ast.Node) bool {
				if id, ok := n.(*ast.Ident); ok && id.Name == p.Name {
					uses++
				}
				if es, ok := n.(*ast.ExprStmt); ok {
					if ce, ok := es.X.(*ast.CallExpr); ok && len(ce.Args) == 0 {
						if id, ok := ce.Fun.(*ast.Ident); ok && id.Name == p.Name {
							calls++
						}
					}
				}
				return true
			})
			hasRet := false
			ast.Inspect(lit.Body, func(n ast.Node) bool {
				switch n.(type) {
				case *ast.ReturnStmt:
					hasRet = true
				}
				return true
			})
			// the literal's free identifiers must mean the same inside the helper's scope
			own := declaredNames(h.decl)
			same := map[string]bool{}
			if h.decl.Recv != nil {
				if se, ok := c.Fun.(*ast.SelectorExpr); ok {
					if id, ok := se.X.(*ast.Ident); ok && id.Name == h.decl.Recv.List[0].Names[0].Name {
						same[id.Name] = true
					}
				}
			}
			for j, q := range params {
				if id, ok := c.Args[j].(*ast.Ident); ok && id.Name == q.Name {
					same[q.Name] = true
				}
			}
			sel := map[*ast.Ident]bool{}
			ast.Inspect(lit.Body, func(n ast.Node) bool {
				if se, ok := n.(*ast.SelectorExpr); ok {
					sel[se.Sel] = true
				}
				return true
			})
			litOwn := map[string]bool{}
			ast.Inspect(lit.Body, func(n ast.Node) bool {
				if as, ok := n.(*ast.AssignStmt); ok && as.Tok == token.DEFINE {
					for _, l := range as.Lhs {
						if id, ok := l.(*ast.Ident); ok {
							litOwn[id.Name] = true
						}
					}
				}
				return true
			})
			clash := false
			ast.Inspect(lit.Body, func(n ast.Node) bool {
				if id, ok := n.(*ast.Ident); ok && !sel[id] && own[id.Name] && !same[id.Name] && !litOwn[id.Name] {
					clash = true
				}
				return true
			})
			if uses == 1 && calls == 1 && !hasRet && !clash {
				subst[p.Name] = "{ " + string(f.src[f.off(lit.Body.Lbrace)+1:f.off(lit.Body.Rbrace)]) + "\n}"
				continue
			}
		}
		if !bind(p.Name, ptypes[i], f.text(c.Args[i]), false) {
			return "", false
		}
	}
	// results
	var rtmp []string
	var rnames []string
	if h.decl.Type.Results != nil {
		k := 0
		for _, r := range h.decl.Type.Results.List {
			tt, ok := typeText(r.Type)
			if !ok {
				return "", false
			}
			n := len(r.Names)
			if n == 0 {
				n = 1
			}
			for j := 0; j < n; j++ {
				t := fmt.Sprintf("%s_r%d", id, k)
				k++
				rtmp = append(rtmp, t)
				fmt.Fprintf(&pre, "var %s %s; _ = %s; ", t, tt, t)
				if len(r.Names) > 0 {
					if r.Names[j].Name == "_" {
						return "", false
					}
					rnames = append(rnames, r.Names[j].Name)
					fmt.Fprintf(&inner, "var %s %s; _ = %s; ", r.Names[j].Name, tt, r.Names[j].Name)
				}
			}
		}
	}
	// body with returns rewritten
	body := h.decl.Body
	var rets []*ast.ReturnStmt
	var walk func(n ast.Node)
	walk = func(n ast.Node) {
		ast.Inspect(n, func(m ast.Node) bool {
			switch x := m.(type) {
			case *ast.FuncLit:
				return false
			case *ast.ReturnStmt:
				rets = append(rets, x)
			}
			return true
		})
	}
	walk(body)
	lastIsRet := false
	if n := len(body.List); n > 0 {
		_, lastIsRet = body.List[n-1].(*ast.ReturnStmt)
	}
	needLabel := false
	for _, r := range rets {
		if !(lastIsRet && r == body.List[len(body.List)-1]) {
			needLabel = true
		}
	}
	// the error-propagation idiom `if v := h(…); v != nil { return v }` in a caller with a
	// single result: a `return X` of the helper with a pure X is then also spelled as the
	// caller's own `return X` (guarded by X != nil), so that rules about what the caller
	// returns still see it
	forward := false
	fwdAssign, fwdBody := "", "" // `v = ` / `v := `, and the caller's return statement
	if is, ok := s.(*ast.IfStmt); ok && is.Else == nil && len(rtmp) == 1 {
		var v string
		if as, ok := is.Init.(*ast.AssignStmt); ok && len(as.Lhs) == 1 {
			if id, ok := as.Lhs[0].(*ast.Ident); ok {
				v = id.Name
				fwdAssign = v + " " + as.Tok.String() + " "
			}
		}
		if be, ok := is.Cond.(*ast.BinaryExpr); ok && v != "" && be.Op == token.NEQ {
			x, okx := be.X.(*ast.Ident)
			y, oky := be.Y.(*ast.Ident)
			if okx && oky && x.Name == v && y.Name == "nil" && len(is.Body.List) == 1 {
				if rs, ok := is.Body.List[0].(*ast.ReturnStmt); ok {
					forward = true
					fwdBody = f.text(rs)
				}
			}
		}
	}
	if forward && caller.Type.Results != nil {
		// a bare return of the caller must still see its named results: none of them may
		// be shadowed by a name the helper declares
		own := declaredNames(h.decl)
		// parameters that are not re-declared (same-named argument, only read) do not shadow
		for i, p := range params {
			if id, ok := c.Args[i].(*ast.Ident); ok && id.Name == p.Name && !written[p.Name] {
				delete(own, p.Name)
			}
		}
		for _, fl := range caller.Type.Results.List {
			for _, nm := range fl.Names {
				if own[nm.Name] && !(strings.HasPrefix(fwdAssign, nm.Name+" ")) {
					forward = false
				}
				if own[nm.Name] && strings.TrimSpace(fwdBody) == "return" {
					forward = false
				}
			}
		}
	}
	// an error value that is known not to be nil: fmt.Errorf / errors.New, or an Err* variable
	nonNil := func(e ast.Expr) bool {
		switch x := e.(type) {
		case *ast.CallExpr:
			if se, ok := x.Fun.(*ast.SelectorExpr); ok {
				if id, ok := se.X.(*ast.Ident); ok {
					return (id.Name == "fmt" && se.Sel.Name == "Errorf") || (id.Name == "errors" && se.Sel.Name == "New")
				}
			}
		case *ast.Ident:
			return strings.HasPrefix(x.Name, "Err")
		case *ast.SelectorExpr:
			return strings.HasPrefix(x.Sel.Name, "Err")
		}
		return false
	}
	pureRet := func(e ast.Expr) bool {
		switch x := e.(type) {
		case *ast.Ident:
			return x.Name != "nil"
		case *ast.SelectorExpr:
			_, ok := x.X.(*ast.Ident)
			return ok
		}
		return false
	}
	bs, be := hf.off(body.Lbrace)+1, hf.off(body.Rbrace)
	var bedits []edit
	for _, r := range rets {
		var as string
		switch {
		case len(rtmp) == 0:
			as = ""
		case len(r.Results) == 0:
			if len(rnames) != len(rtmp) {
				return "", false
			}
			as = strings.Join(rtmp, ", ") + " = " + strings.Join(rnames, ", ") + "; "
		default:
			var rs []string
			for _, e := range r.Results {
				rs = append(rs, hf.text(e))
			}
			as = strings.Join(rtmp, ", ") + " = " + strings.Join(rs, ", ") + "; "
		}
		last := lastIsRet && r == body.List[len(body.List)-1]
		if forward && len(r.Results) == 1 {
			x := hf.text(r.Results[0])
			use := "; _ = " + strings.Fields(fwdAssign)[0] + "; "
			switch {
			case nonNil(r.Results[0]):
				// the caller's `if v != nil { return … }` is certain to fire: spell it here
				body := fwdBody
				if v := strings.Fields(fwdAssign)[0]; strings.Join(strings.Fields(fwdBody), " ") == "return "+v && pureRet(r.Results[0]) {
					body = "return " + x
				}
				as = fwdAssign + x + use + body + "; " + as
			case pureRet(r.Results[0]):
				as = "if " + x + " != nil { " + fwdAssign + x + use + fwdBody + " }; " + as
			}
		}
		txt := "{ " + as
		if needLabel && !last {
			txt += "break " + id + "; "
		}
		txt += "}"
		if needLabel && last {
			txt = "{ " + as + "}"
		}
		bedits = append(bedits, edit{hf.off(r.Pos()) - bs, hf.off(r.End()) - bs, txt})
	}
	if len(subst) > 0 {
		ast.Inspect(body, func(n ast.Node) bool {
			if es, ok := n.(*ast.ExprStmt); ok {
				if ce, ok := es.X.(*ast.CallExpr); ok && len(ce.Args) == 0 {
					if id, ok := ce.Fun.(*ast.Ident); ok && subst[id.Name] != "" {
						bedits = append(bedits, edit{hf.off(es.Pos()) - bs, hf.off(es.End()) - bs, subst[id.Name]})
					}
				}
			}
			return true
		})
	}
	btxt := string(applyEdits(hf.src[bs:be], bedits))
	// falling off the end of a function with named results returns them
	tail := ""
	if !lastIsRet && len(rtmp) > 0 {
		if len(rnames) != len(rtmp) {
			return "", false
		}
		tail = strings.Join(rtmp, ", ") + " = " + strings.Join(rnames, ", ") + "; "
	}
	var out strings.Builder
	out.WriteString("/* " + h.key + " inlined */ ")
	out.WriteString(pre.String())
	if needLabel {
		out.WriteString(id + ": switch { default: ")
	} else {
		out.WriteString("{ ")
	}
	out.WriteString(inner.String())
	out.WriteString("\n")
	out.WriteString(btxt)
	out.WriteString("\n")
	out.WriteString(tail)
	out.WriteString("}\n")
	// continuation: s with the call replaced by the result temporaries
	if _, isExpr := s.(*ast.ExprStmt); !isExpr {
		if len(rtmp) == 0 {
			return "", false
		}
		ss, cs, ce, se := f.off(s.Pos()), f.off(c.Pos()), f.off(c.End()), f.off(s.End())
		out.Write(f.src[ss:cs])
		out.WriteString(strings.Join(rtmp, ", "))
		out.Write(f.src[ce:se])
	}
	return out.String(), true
}

// ------------------------------------------------------------ explaining variables

var pureCalls = map[string]bool{"len": true, "cap": true, "int": true, "int8": true, "int16": true, "int32": true, "int64": true,
	"uint": true, "uint8": true, "uint16": true, "uint32": true, "uint64": true, "uintptr": true, "byte": true, "rune": true,
	"float32": true, "float64": true, "string": true, "bool": true, "min": true, "max": true}

// pureExpr: evaluating e has no effect and depends only on the paths it mentions.
func pureExpr(e ast.Expr) bool {
	ok := true
	ast.Inspect(e, func(n ast.Node) bool {
		switch x := n.(type) {
		case nil, *ast.Ident, *ast.BasicLit, *ast.SelectorExpr, *ast.IndexExpr, *ast.SliceExpr, *ast.BinaryExpr, *ast.ParenExpr, *ast.StarExpr:
		case *ast.UnaryExpr:
			if x.Op == token.ARROW || x.Op == token.AND {
				ok = false
			}
		case *ast.CallExpr:
			id, isId := x.Fun.(*ast.Ident)
			if !isId || !pureCalls[id.Name] || len(x.Args) == 0 {
				ok = false
			}
		default:
			ok = false
		}
		return ok
	})
	return ok
}

func exprPath(e ast.Expr) string {
	switch x := e.(type) {
	case *ast.Ident:
		return x.Name
	case *ast.ParenExpr:
		return exprPath(x.X)
	case *ast.StarExpr:
		return exprPath(x.X)
	case *ast.SelectorExpr:
		if p := exprPath(x.X); p != "" {
			return p + "." + x.Sel.Name
		}
	case *ast.IndexExpr:
		if p := exprPath(x.X); p != "" {
			return p + ".[]"
		}
	case *ast.SliceExpr:
		if p := exprPath(x.X); p != "" {
			return p + ".[]"
		}
	}
	return ""
}

// mentionedPathsOf lists the maximal access paths read by e ("" entries mean unknown).
func mentionedPathsOf(e ast.Expr) (paths []string, onlyBare bool) {
	onlyBare = true
	var walk func(n ast.Expr)
	walk = func(n ast.Expr) {
		switch x := n.(type) {
		case *ast.Ident:
			paths = append(paths, x.Name)
		case *ast.BasicLit:
		case *ast.SelectorExpr, *ast.StarExpr:
			onlyBare = false
			paths = append(paths, exprPath(x))
		case *ast.IndexExpr:
			onlyBare = false
			paths = append(paths, exprPath(x))
			walk(x.Index)
		case *ast.SliceExpr:
			paths = append(paths, exprPath(x))
			if _, bare := x.X.(*ast.Ident); !bare {
				onlyBare = false
			}
			for _, s := range []ast.Expr{x.Low, x.High, x.Max} {
				if s != nil {
					walk(s)
				}
			}
		case *ast.BinaryExpr:
			walk(x.X)
			walk(x.Y)
		case *ast.UnaryExpr:
			walk(x.X)
		case *ast.ParenExpr:
			walk(x.X)
		case *ast.CallExpr:
			for _, a := range x.Args {
				walk(a)
			}
		}
	}
	walk(e)
	return
}

func pathsInterfere(a, b string) bool {
	if a == "" || b == "" {
		return true
	}
	return a == b || strings.HasPrefix(a, b+".") || strings.HasPrefix(b, a+".")
}

// propagateTemps reads through explaining variables that are new relative to
// KnownLocals: `t := <pure expr>` defined once, never assigned again, whose
// operands are not written (and, unless they are bare locals, no call happens)
// between the definition and the last use. Uses become `(expr)`, the
// definition disappears. Returns the number of variables read through.
func propagateTemps(f *nfile, key string, fd *ast.FuncDecl) (n int, names []string) {
	known, isKnown := KnownLocals[key]
	if !isKnown {
		return
	}
	// a known local that is gone was probably renamed: the "new" name is then not an
	// explaining variable but the old one, and the rules expect it as a variable
	present := map[string]bool{}
	ast.Inspect(fd, func(m ast.Node) bool {
		if id, ok := m.(*ast.Ident); ok {
			present[id.Name] = true
		}
		return true
	})
	for _, k := range strings.Fields(known) {
		if !present[k] {
			return
		}
	}
	hasLit, hasAddr := false, map[string]bool{}
	ast.Inspect(fd.Body, func(m ast.Node) bool {
		switch x := m.(type) {
		case *ast.FuncLit:
			hasLit = true
		case *ast.UnaryExpr:
			if x.Op == token.AND {
				if p := exprPath(x.X); p != "" {
					hasAddr[strings.SplitN(p, ".", 2)[0]] = true
				}
			}
		}
		return true
	})
	forEachStmtList(fd.Body, func(list []ast.Stmt) {
		for i, s := range list {
			as, ok := s.(*ast.AssignStmt)
			if !ok || as.Tok != token.DEFINE || len(as.Lhs) != 1 || len(as.Rhs) != 1 {
				continue
			}
			id, ok := as.Lhs[0].(*ast.Ident)
			if !ok || id.Name == "_" || strings.Contains(known, " "+id.Name+" ") || !pureExpr(as.Rhs[0]) {
				continue
			}
			if f.overlaps(f.off(s.Pos()), f.off(s.End())) {
				continue
			}
			t := id.Name
			// every other occurrence of the name in the function
			var uses []*ast.Ident
			bad := false
			skip := map[*ast.Ident]bool{id: true}
			// the variable lives from its definition to the end of this statement list
			scope := &ast.BlockStmt{List: list[i+1:]}
			ast.Inspect(scope, func(m ast.Node) bool {
				switch x := m.(type) {
				case *ast.SelectorExpr:
					skip[x.Sel] = true
				case *ast.KeyValueExpr:
					if k, isId := x.Key.(*ast.Ident); isId && k.Name == t {
						bad = true
					}
				case *ast.AssignStmt:
					if x != as {
						for _, l := range x.Lhs {
							if li, isId := l.(*ast.Ident); isId && li.Name == t {
								bad = true
							}
						}
					}
				case *ast.IncDecStmt:
					if li, isId := x.X.(*ast.Ident); isId && li.Name == t {
						bad = true
					}
				case *ast.RangeStmt:
					for _, l := range []ast.Expr{x.Key, x.Value} {
						if li, isId := l.(*ast.Ident); isId && li.Name == t {
							bad = true
						}
					}
				case *ast.ValueSpec:
					for _, nm := range x.Names {
						if nm.Name == t {
							bad = true
						}
					}
				case *ast.Field:
					for _, nm := range x.Names {
						if nm.Name == t {
							bad = true
						}
					}
				case *ast.UnaryExpr:
					if x.Op == token.AND {
						if li, isId := x.X.(*ast.Ident); isId && li.Name == t {
							bad = true
						}
					}
				case *ast.LabeledStmt:
					skip[x.Label] = true
				case *ast.BranchStmt:
					if x.Label != nil {
						skip[x.Label] = true
					}
				}
				return true
			})
			if bad {
				continue
			}
			ast.Inspect(scope, func(m ast.Node) bool {
				if x, isId := m.(*ast.Ident); isId && x.Name == t && !skip[x] {
					uses = append(uses, x)
				}
				return true
			})
			if len(uses) == 0 || len(uses) > 6 {
				continue
			}
			last := -1
			okUses := true
			for _, u := range uses {
				if u.Pos() < as.End() {
					okUses = false // the name occurs before its definition: another variable
					break
				}
				found := false
				for j := i + 1; j < len(list); j++ {
					if list[j].Pos() <= u.Pos() && u.End() <= list[j].End() {
						found = true
						if j > last {
							last = j
						}
					}
				}
				if !found {
					okUses = false
				}
			}
			if !okUses || last < 0 {
				continue
			}
			paths, onlyBare := mentionedPathsOf(as.Rhs[0])
			if onlyBare {
				for _, p := range paths {
					if hasAddr[p] || hasLit {
						onlyBare = false
					}
				}
			}
			interfere := false
			for j := i + 1; j <= last && !interfere; j++ {
				ast.Inspect(list[j], func(m ast.Node) bool {
					var lhs []ast.Expr
					switch x := m.(type) {
					case *ast.AssignStmt:
						lhs = x.Lhs
					case *ast.IncDecStmt:
						lhs = []ast.Expr{x.X}
					case *ast.RangeStmt:
						lhs = []ast.Expr{x.Key, x.Value}
					case *ast.CallExpr:
						cid, isId := x.Fun.(*ast.Ident)
						if !(isId && pureCalls[cid.Name]) && !onlyBare {
							interfere = true
						}
					case *ast.UnaryExpr:
						if x.Op == token.ARROW {
							interfere = true
						}
					case *ast.GoStmt, *ast.DeferStmt, *ast.SelectStmt:
						interfere = true
					}
					for _, l := range lhs {
						if l == nil {
							continue
						}
						lp := exprPath(l)
						for _, p := range paths {
							if pathsInterfere(lp, p) {
								interfere = true
							}
						}
					}
					return !interfere
				})
			}
			if interfere {
				continue
			}
			// uses must not overlap pending edits
			conflict := false
			for _, u := range uses {
				if f.overlaps(f.off(u.Pos()), f.off(u.End())) {
					conflict = true
				}
			}
			if conflict {
				continue
			}
			etxt := "(" + f.text(as.Rhs[0]) + ")"
			for _, u := range uses {
				f.add(f.off(u.Pos()), f.off(u.End()), etxt)
			}
			f.add(f.off(s.Pos()), f.off(s.End()), "/* "+t+" read through */")
			n++
			names = append(names, t)
		}
	})
	return
}
