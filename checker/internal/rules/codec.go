package rules

import (
	"fmt"
	"go/ast"
	"go/token"
	"sort"
	"strings"

	"gbcheck/internal/prog"
)

// codecEntry is one (byte range, bit shift, field) tuple of an encoder or decoder.
type codecEntry struct {
	Base   string // symbolic base of the range ("" = absolute)
	Lo, Hi int64  // byte range [Lo,Hi) relative to Base
	Shift  int64  // for byte-wise codecs: which bits of the field this byte carries (-1: whole value)
	Field  string // field path ("" = local / unknown)
	Pos    string
}

func (e codecEntry) String() string {
	s := fmt.Sprintf("[%d:%d)", e.Lo, e.Hi)
	if e.Base != "" {
		s = e.Base + "+" + s
	}
	if e.Shift >= 0 {
		s += fmt.Sprintf(">>%d", e.Shift)
	}
	return s + "=" + e.Field
}

var binWidth = map[string]int64{
	"binary.littleEndian.PutUint16": 2, "binary.littleEndian.PutUint32": 4, "binary.littleEndian.PutUint64": 8,
	"binary.littleEndian.Uint16": 2, "binary.littleEndian.Uint32": 4, "binary.littleEndian.Uint64": 8,
	"binary.bigEndian.PutUint16": -2, "binary.bigEndian.PutUint32": -4, "binary.bigEndian.PutUint64": -8,
	"binary.bigEndian.Uint16": -2, "binary.bigEndian.Uint32": -4, "binary.bigEndian.Uint64": -8,
}

// bound parses a slice bound: const, ident, ident+const.
func bound(f *prog.Func, e ast.Expr) (base string, off int64, ok bool) {
	info := f.Info()
	if e == nil {
		return "", 0, true
	}
	if v, isC := prog.ConstInt(info, e); isC {
		return "", v, true
	}
	e = prog.Unparen(e)
	if be, isB := e.(*ast.BinaryExpr); isB && be.Op == token.ADD {
		if v, isC := prog.ConstInt(info, be.Y); isC {
			if p, okp := prog.PathOf(info, be.X); okp {
				return p, v, true
			}
		}
		if v, isC := prog.ConstInt(info, be.X); isC {
			if p, okp := prog.PathOf(info, be.Y); okp {
				return p, v, true
			}
		}
	}
	if p, okp := prog.PathOf(info, e); okp {
		return p, 0, true
	}
	return "", 0, false
}

// rangeOf: byte range denoted by buffer expression b for a value of width w.
func rangeOf(f *prog.Func, b ast.Expr, w int64) (base string, lo, hi int64, ok bool) {
	b = prog.Unparen(b)
	switch x := b.(type) {
	case *ast.SliceExpr:
		lb, lo, ok1 := bound(f, x.Low)
		if !ok1 {
			return "", 0, 0, false
		}
		if x.High == nil {
			return lb, lo, lo + w, true
		}
		hb, hi, ok2 := bound(f, x.High)
		if !ok2 || hb != lb {
			return "", 0, 0, false
		}
		return lb, lo, hi, true
	case *ast.Ident, *ast.SelectorExpr:
		return "", 0, w, true
	}
	return "", 0, 0, false
}

// fieldOfValue names the struct field an encoded value comes from.
func fieldOfValue(f *prog.Func, v ast.Expr, at ast.Node) string {
	info := f.Info()
	v = prog.StripConv(info, v)
	if c, ok := v.(*ast.CallExpr); ok && prog.CalleeKey(info, c) == "builtin.len" && len(c.Args) == 1 {
		return "len(" + prog.FieldPath(info, c.Args[0]) + ")"
	}
	if fp := prog.FieldPath(info, v); fp != "" {
		return fp
	}
	// local variable: trace to a field read
	if _, ok := v.(*ast.Ident); ok {
		var fields []string
		for _, s := range f.SourcesAt(v, at) {
			switch s.Kind {
			case "param", "global", "zero":
				if s.Field != "" {
					fields = append(fields, s.Field)
				}
			case "call":
				if s.Key == "builtin.len" && len(s.Call.Args) == 1 {
					fields = append(fields, "len("+prog.FieldPath(info, s.Call.Args[0])+")")
				}
			}
		}
		fields = dedupSorted(fields)
		if len(fields) == 1 {
			return fields[0]
		}
	}
	return ""
}

func dedupSorted(s []string) []string {
	sort.Strings(s)
	return dedup(s)
}

// encoderTable extracts the writer-side table of f.
func encoderTable(c *Ctx, f *prog.Func) []codecEntry {
	info := f.Info()
	var out []codecEntry
	ast.Inspect(f.Decl.Body, func(n ast.Node) bool {
		switch x := n.(type) {
		case *ast.CallExpr:
			k := prog.CalleeKey(info, x)
			if w, ok := binWidth[k]; ok && strings.Contains(k, "Put") && len(x.Args) == 2 {
				if w < 0 {
					out = append(out, codecEntry{Lo: -1, Field: "big-endian", Pos: c.pos(x)})
					return true
				}
				base, lo, hi, ok := rangeOf(f, x.Args[0], w)
				if !ok || hi-lo != w {
					out = append(out, codecEntry{Base: "?", Lo: lo, Hi: hi, Shift: -1, Field: fmt.Sprintf("width %d does not fit range", w), Pos: c.pos(x)})
					return true
				}
				out = append(out, codecEntry{Base: base, Lo: lo, Hi: hi, Shift: -1, Field: fieldOfValue(f, x.Args[1], x), Pos: c.pos(x)})
			}
		case *ast.AssignStmt:
			// b[k] = byte(v >> s)
			if len(x.Lhs) != 1 || len(x.Rhs) != 1 {
				return true
			}
			ix, ok := prog.Unparen(x.Lhs[0]).(*ast.IndexExpr)
			if !ok {
				return true
			}
			if t := info.TypeOf(ix.X); t == nil || !strings.HasSuffix(t.String(), "[]byte") && !strings.HasSuffix(t.String(), "]byte") && t.String() != "[]uint8" {
				return true
			}
			base, k, okb := bound(f, ix.Index)
			if !okb {
				return true
			}
			rhs := prog.StripConv(info, x.Rhs[0])
			shift := int64(0)
			val := rhs
			if be, isB := rhs.(*ast.BinaryExpr); isB && be.Op == token.SHR {
				if s, isC := prog.ConstInt(info, be.Y); isC {
					shift, val = s, be.X
				}
			}
			out = append(out, codecEntry{Base: base, Lo: k, Hi: k + 1, Shift: shift, Field: fieldOfValue(f, val, x), Pos: c.pos(x)})
		}
		return true
	})
	return out
}

// decoderTable extracts the reader-side table of f.
func decoderTable(c *Ctx, f *prog.Func) []codecEntry {
	info := f.Info()
	var out []codecEntry
	target := func(lhs ast.Expr) string {
		if fp := prog.FieldPath(info, lhs); fp != "" {
			return fp
		}
		return ""
	}
	fromCall := func(lhsField string, e ast.Expr, pos ast.Node) bool {
		e = prog.StripConv(info, e)
		call, ok := e.(*ast.CallExpr)
		if !ok {
			return false
		}
		k := prog.CalleeKey(info, call)
		w, okw := binWidth[k]
		if !okw || strings.Contains(k, "Put") || len(call.Args) != 1 {
			return false
		}
		if w < 0 {
			out = append(out, codecEntry{Lo: -1, Field: "big-endian", Pos: c.pos(pos)})
			return true
		}
		base, lo, hi, okr := rangeOf(f, call.Args[0], w)
		if !okr || hi-lo != w {
			out = append(out, codecEntry{Base: "?", Lo: lo, Hi: hi, Shift: -1, Field: fmt.Sprintf("width %d does not fit range", w), Pos: c.pos(pos)})
			return true
		}
		out = append(out, codecEntry{Base: base, Lo: lo, Hi: hi, Shift: -1, Field: lhsField, Pos: c.pos(pos)})
		return true
	}
	// byte-wise: T(b[k])<<s | …
	var byteTerms func(lhsField string, e ast.Expr, pos ast.Node) bool
	byteTerms = func(lhsField string, e ast.Expr, pos ast.Node) bool {
		e = prog.StripConv(info, e)
		if be, ok := e.(*ast.BinaryExpr); ok && (be.Op == token.OR || be.Op == token.ADD) {
			a := byteTerms(lhsField, be.X, pos)
			b := byteTerms(lhsField, be.Y, pos)
			return a && b
		}
		shift := int64(0)
		if be, ok := e.(*ast.BinaryExpr); ok && be.Op == token.SHL {
			if s, isC := prog.ConstInt(info, be.Y); isC {
				shift = s
				e = prog.StripConv(info, be.X)
			}
		}
		ix, ok := e.(*ast.IndexExpr)
		if !ok {
			return false
		}
		if t := info.TypeOf(ix.X); t == nil || (!strings.HasSuffix(t.String(), "]byte") && !strings.HasSuffix(t.String(), "]uint8")) {
			return false
		}
		base, k, okb := bound(f, ix.Index)
		if !okb {
			return false
		}
		out = append(out, codecEntry{Base: base, Lo: k, Hi: k + 1, Shift: shift, Field: lhsField, Pos: c.pos(pos)})
		return true
	}
	ast.Inspect(f.Decl.Body, func(n ast.Node) bool {
		switch x := n.(type) {
		case *ast.AssignStmt:
			for i, l := range x.Lhs {
				if i >= len(x.Rhs) {
					break
				}
				lf := target(l)
				if fromCall(lf, x.Rhs[i], x) {
					continue
				}
				mark := len(out)
				if !byteTerms(lf, x.Rhs[i], x) {
					out = out[:mark]
				}
			}
		case *ast.ReturnStmt:
			for _, r := range x.Results {
				fromCall("<result>", r, x)
			}
		}
		return true
	})
	return out
}

func tableKey(e codecEntry) string {
	return fmt.Sprintf("%s|%d|%d|%d", e.Base, e.Lo, e.Hi, e.Shift)
}

// compareCodec checks writer vs reader tables and the declared header size.
func compareCodec(c *Ctx, rule, name string, enc, dec *prog.Func, declared int64, minEntries int, alias map[string]string) {
	c.Funcs[enc.Key] = true
	c.Funcs[dec.Key] = true
	et, dt := encoderTable(c, enc), decoderTable(c, dec)
	// drop bases: compare relative ranges (writer's and reader's buffers are different variables)
	norm := func(t []codecEntry) map[string]codecEntry {
		m := map[string]codecEntry{}
		for _, e := range t {
			e2 := e
			if e2.Base != "?" {
				e2.Base = "" // writer and reader address their buffers differently; only relative ranges are compared
			}
			k := tableKey(e2)
			for i := 2; ; i++ {
				if _, dup := m[k]; !dup {
					break
				}
				k = tableKey(e2) + "#" + fmt.Sprint(i)
			}
			m[k] = e
		}
		return m
	}
	em, dm := norm(et), norm(dt)
	key := name + ": " + short(enc.Key) + " ↔ " + short(dec.Key)
	if (len(em) < minEntries && len(dm) < minEntries) || len(em) == 0 || len(dm) == 0 {
		c.undec(rule, key, fmt.Sprintf("codec not recognised: %d writer entries, %d reader entries (expected at least %d)", len(em), len(dm), minEntries))
		return
	}
	var ks []string
	for k := range em {
		ks = append(ks, k)
	}
	sort.Strings(ks)
	var extent int64
	for _, k := range ks {
		w := em[k]
		if w.Lo < 0 || w.Base == "?" {
			c.viol(rule, key+" "+w.String(), w.Pos, "writer uses "+w.Field)
			continue
		}
		if w.Hi > extent {
			extent = w.Hi
		}
		r, ok := dm[k]
		if !ok {
			c.viol(rule, key+" "+w.String(), w.Pos, "the writer stores "+w.String()+" but the reader has no matching read of that byte range (reader table: "+tableString(dt)+"): what is written is not what is read back")
			continue
		}
		wf, rf := w.Field, r.Field
		if a, ok := alias[wf]; ok {
			wf = a
		}
		if a, ok := alias[rf]; ok {
			rf = a
		}
		if wf != "" && rf != "" && rf != "<result>" && wf != rf && !strings.HasSuffix(wf, "."+rf) && !strings.HasSuffix(rf, "."+wf) {
			c.viol(rule, key+" "+w.String(), r.Pos, "bytes "+w.String()+" are written from field "+w.Field+" but read into field "+r.Field)
			continue
		}
		c.ok(rule, key+" "+w.String(), w.Pos, "reader agrees: "+r.String())
	}
	for k, r := range dm {
		if _, ok := em[k]; !ok && r.Lo >= 0 {
			c.viol(rule, key+" reader "+r.String(), r.Pos, "the reader decodes "+r.String()+" but the writer never stores that byte range (writer table: "+tableString(et)+")")
		}
	}
	if declared > 0 {
		c.check(extent == declared, rule, key+" declared size", enc.Pos(), fmt.Sprintf("extent %d = declared %d", extent, declared), fmt.Sprintf("the encoded layout extends to byte %d but the declared header size is %d", extent, declared))
	}
}

func tableString(t []codecEntry) string {
	var s []string
	for _, e := range t {
		s = append(s, e.String())
	}
	sort.Strings(s)
	return strings.Join(s, " ")
}

// constVal returns the integer value of package-level constant pkg.name.
func constVal(c *Ctx, pkg, name string) (int64, bool) {
	pk := c.P.ByName[pkg]
	if pk == nil {
		return 0, false
	}
	o := pk.Types.Scope().Lookup(name)
	if o == nil {
		return 0, false
	}
	if k, ok := o.(interface{ Val() interface{ String() string } }); ok {
		_ = k
	}
	return constOf(o)
}
