#!/bin/sh
# Mutant authoring helper.
#   tools/mut.sh new                 fresh scratch copy of /repo at $W
#   tools/mut.sh save <name> <rule>  build-check the scratch copy, store its diff as mutants/<name>.patch (expecting <rule> to fire)
#   tools/mut.sh benign <name>       same, stored under benign/ (no rule may fire)
#   tools/mut.sh drop                remove the scratch copy
set -e
W=${TMPDIR:-/tmp}/gbmut/work
V=$(cd "$(dirname "$0")/.." && pwd)
export GOFLAGS=-mod=mod GOPROXY=off GOSUMDB=off GOTOOLCHAIN=local
case "$1" in
new)
  rm -rf "$W"; mkdir -p "$W"
  rsync -a --exclude .git --exclude '*.tmp' /repo/ "$W/"
  echo "$W";;
save|benign)
  name=$2; rule=$3
  ( cd "$W" && go build ./... ) || { echo "mutant does not compile"; exit 1; }
  dir=mutants; [ "$1" = benign ] && dir=benign
  out="$V/$dir/$name.patch"
  { echo "# expect: $rule"; ( cd /repo && diff -ruN --exclude .git --exclude '*.tmp' . "$W" | sed "s#$W#.#g" ) || true; } > "$out"
  grep -c '^@@' "$out" | sed "s/^/hunks: /"
  rm -rf "$W";;
drop) rm -rf "$W";;
esac
