package rules

import (
	"go/ast"
	"go/token"
	"strings"

	"gbcheck/internal/prog"
)

func init() {
	register(&Property{
		ID:      "C03",
		Clause:  "GC decides 'newest' on the full (chunk, offset) position; the tree and the hint are repointed to exactly the position the record was copied to (offset from AppendRecordGC, chunk refreshed after every destination switch); the repoint keeps the tree's own version/value-hash; the stale tree dump and merged hint are discarded before anything moves; a source is removed only when it is not the destination; tombstones unknown to a rebuilt tree are kept unless the pass starts at file 0; a source's hints are cleared before it is scanned",
		NotDec:  "that the keep decision is complete (its table is C18.R2), equality of reads before/after GC, repeated GC",
		Engines: "E2 guards/dominance + E3 value flow (field-wise reaching stores)",
		Rules: []Rule{
			{"C03.R1", "q", "newest test compares full positions", c03r1},
			{"C03.R2", "q", "repoint/hint position = copy target", c03r2},
			{"C03.R3", "q", "repoint keeps the tree's meta", c03r3},
			{"C03.R4", "q", "BeforeBucket first; drops tree dump and merged hint", c03r4},
			{"C03.R5", "q", "Clear guarded by Src != Dst", c03r5},
			{"C03.R6", "q", "tombstone reservation", c03r6},
			{"C03.R7", "q", "ClearChunk(src) before scanning src", c03r7},
			{"C13.R3b", "q", "shared: collision item's chunk reported to GC", c13r3b},
			{"C18.R2", "q", "shared: keep table", c18r2},
			{"C18.R4", "q", "shared: rewritten file cut and released on every exit", c18r4},
			{"C18.R5", "q", "shared: earlier file appended to, never overwritten", c18r5},
			{"C13.R12", "q", "shared: collision table takes the position of a record moved by GC", c13r12},
			{"C13.R9", "q", "shared: a colliding key in the hint buffer is reported to GC", c13r9},
			{"C14.R4", "q", "shared: merge order and position comparison", c14r4},
			{"C05.R2", "q", "shared: cancel only between files; record loop left only on errors / end of file", c05r2},
			{"C14.R14", "q", "shared: split dump discipline (rotate before dump)", c14r14},
		},
	})
}

func c03r1(c *Ctx) {
	const R = "C03.R1"
	m := buildGCModel(c, R)
	if m == nil {
		return
	}
	if m.keep == nil {
		c.undec(R, m.f.Key, "keep flag guarding AppendRecordGC not recognised")
		return
	}
	n := 0
	for _, s := range m.stores {
		if !s.value {
			continue
		}
		for _, t := range s.sig {
			switch {
			case t == "scanned==tree":
				n++
				c.ok(R, m.f.Key+": newest test (tree position)", c.pos(s.stmt), "struct comparison of store.Position (chunk and offset)")
			case strings.HasPrefix(t, "scanned.") && strings.Contains(t, "==tree."):
				n++
				// field-wise: need both fields among the tags of this store
				hasCk, hasOff := false, false
				for _, u := range s.sig {
					if u == "scanned.ChunkID==tree.ChunkID" {
						hasCk = true
					}
					if u == "scanned.Offset==tree.Offset" {
						hasOff = true
					}
				}
				c.check(hasCk && hasOff, R, m.f.Key+": newest test (tree position)", c.pos(s.stmt), "both fields compared", "the newest test compares only part of the position ("+t+"): a record at the same offset in another file is taken for the current one and older data is resurrected")
			}
		}
	}
	if n == 0 {
		c.viol(R, m.f.Key+": newest test (tree position)", m.f.Pos(), "no store of `true` to the keep flag is guarded by a comparison of the scanned position with the tree position")
	}
}

func c03r2(c *Ctx) {
	const R = "C03.R2"
	m := buildGCModel(c, R)
	if m == nil {
		return
	}
	f := m.f
	info := f.Info()
	uses := append(f.CallsTo("store.GCMgr.UpdateHtreePos"), f.CallsTo(kHintSet)...)
	if len(uses) < 2 {
		c.viol(R, f.Key+": repoint and hint after copy", f.Pos(), "gc no longer both repoints the tree (UpdateHtreePos) and writes a hint (hintMgr.set) for a relocated record")
		return
	}
	var newPosExpr ast.Expr
	for _, u := range uses {
		var arg ast.Expr
		if u.Key == kHintSet {
			arg = u.Expr.Args[2]
		} else {
			arg = u.Expr.Args[3]
		}
		newPosExpr = arg
		off := f.SourcesOfField(arg, "Offset", u.Expr)
		okOff := len(off) > 0
		for _, s := range off {
			if !(s.Kind == "call" && s.Key == "store.dataChunk.AppendRecordGC" && s.Idx <= 0) {
				okOff = false
			}
		}
		c.check(okOff, R, f.Key+": "+short(u.Key)+" offset = AppendRecordGC result", u.Pos(), "newPos.Offset <= res0(AppendRecordGC)", "the position handed to "+u.Key+" does not carry the offset returned by AppendRecordGC: the index points at something other than the relocated copy")
		bp, _ := prog.PathOf(info, arg)
		ck := f.DefsReaching(bp+".ChunkID", u.Expr)
		okCk := len(ck) > 0
		for _, d := range ck {
			if d.Rhs == nil || !prog.IsField(info, "store.GCState.Dst")(prog.StripConv(info, d.Rhs)) {
				okCk = false
			}
		}
		c.check(okCk, R, f.Key+": "+short(u.Key)+" chunk = gc.Dst", u.Pos(), "newPos.ChunkID <= gc.Dst", "the position handed to "+u.Key+" does not carry the destination chunk id")
	}
	// after every store to gc.Dst, newPos.ChunkID is refreshed before the next copy
	if newPosExpr == nil {
		return
	}
	base, _ := prog.PathOf(info, newPosExpr)
	isRefresh := func(n ast.Node) bool {
		as, ok := n.(*ast.AssignStmt)
		if !ok {
			return false
		}
		for i, l := range as.Lhs {
			if p, ok := prog.PathOf(info, l); ok && p == base+".ChunkID" && i < len(as.Rhs) && prog.MentionsField(info, as.Rhs[i], "store.GCState.Dst") {
				return true
			}
			if p, ok := prog.PathOf(info, l); ok && p == base && i < len(as.Rhs) && prog.MentionsField(info, as.Rhs[i], "store.GCState.Dst") {
				return true
			}
		}
		return false
	}
	n := 0
	ast.Inspect(f.Decl.Body, func(x ast.Node) bool {
		var lhs ast.Expr
		switch s := x.(type) {
		case *ast.AssignStmt:
			for _, l := range s.Lhs {
				if k, _ := prog.FieldOf(info, l); k == "store.GCState.Dst" {
					lhs = l
				}
			}
		case *ast.IncDecStmt:
			if k, _ := prog.FieldOf(info, s.X); k == "store.GCState.Dst" {
				lhs = s.X
			}
		}
		if lhs == nil {
			return true
		}
		n++
		c.Paths++
		stale := f.CFG().ReachesWithout(x, m.appendGC.Expr, isRefresh)
		c.check(!stale, R, f.Key+": newPos.ChunkID refreshed after store to gc.Dst", c.pos(x), "every path to the next copy passes `newPos.ChunkID = gc.Dst`", "after the destination chunk changes, a record can be copied and indexed with the previous destination's chunk id")
		return true
	})
	if n == 0 {
		c.undec(R, f.Key, "no store to gc.Dst recognised")
	}
}

func c03r3(c *Ctx) {
	const R = "C03.R3"
	f := c.fn(R, "store.GCMgr.UpdateHtreePos")
	if f == nil {
		return
	}
	info := f.Info()
	sets := f.CallsTo(kHTreeSet)
	if len(sets) == 0 {
		// a dedicated atomic API would be fine: look for any HTree method taking the new position
		c.undec(R, f.Key, "UpdateHtreePos no longer calls HTree.set: repoint mechanism replaced, rule needs re-derivation")
		return
	}
	for _, s := range sets {
		metaOK := true
		srcs := f.SourcesAt(s.Expr.Args[1], s.Expr)
		if len(srcs) == 0 {
			metaOK = false
		}
		for _, src := range srcs {
			if !(src.Kind == "call" && src.Key == "store.HTree.get" && src.Idx == 0) {
				metaOK = false
			}
		}
		c.check(metaOK, R, f.Key+": tree.set keeps the tree's meta", s.Pos(), "meta <= res0(HTree.get)", "the repoint writes a version/value-hash that was not read from the tree slot being moved (e.g. the scanned record's): the key's version changes under GC")
		posOK := false
		if np := f.Param(3); np != nil && prog.ObjOf(info, s.Expr.Args[2]) == np {
			posOK = true
		}
		c.check(posOK, R, f.Key+": tree.set uses the new position", s.Pos(), "pos = newPos parameter", "the repoint does not store the new position it was given")
	}
}

func c03r4(c *Ctx) {
	const R = "C03.R4"
	f := c.fn(R, "store.GCMgr.gc")
	bb := c.fn(R, "store.GCMgr.BeforeBucket")
	if f == nil || bb == nil {
		return
	}
	before := f.CallsTo("store.GCMgr.BeforeBucket")
	if len(before) == 0 {
		c.viol(R, f.Key+": BeforeBucket first", f.Pos(), "gc no longer calls BeforeBucket (which drops the tree dump and the merged hint)")
		return
	}
	for _, call := range f.CallsTo("store.dataChunk.beginGCWriting", "store.dataChunk.AppendRecordGC", "store.dataChunk.Clear") {
		c.Paths++
		c.check(f.CFG().Dominates(before[0].Expr, call.Expr), R, f.Key+": BeforeBucket ≺ "+short(call.Key), call.Pos(), "dominated", "data files are moved before the stale tree dump / merged hint were discarded: a kill or restart would load an index describing the old layout")
	}
	c.Paths += 2
	esc := bb.CFG().EscapesWithout(nil, bb.ContainsCall("store.Bucket.removeHtree"), nil)
	c.check(!esc.Found, R, bb.Key+": removes the tree dump on every path", bb.Pos(), "every path calls Bucket.removeHtree", "a path through BeforeBucket keeps the old tree dump", c.trail(esc.Trail)...)
	esc = bb.CFG().EscapesWithout(nil, bb.ContainsCall("store.hintMgr.RemoveMerged", "store.hintMgr.Merge"), nil)
	c.check(!esc.Found, R, bb.Key+": removes or rebuilds the merged hint on every path", bb.Pos(), "every path calls RemoveMerged or Merge", "a path through BeforeBucket keeps the old merged hint", c.trail(esc.Trail)...)
	if rh := c.fn(R, "store.Bucket.removeHtree"); rh != nil {
		c.check(len(rh.CallsTo("utils.Remove", "os.Remove")) > 0, R, rh.Key+": removes the files", rh.Pos(), "utils.Remove", "removeHtree no longer removes the dump files")
	}
}

func c03r5(c *Ctx) {
	const R = "C03.R5"
	f := c.fn(R, "store.GCMgr.gc")
	if f == nil {
		return
	}
	info := f.Info()
	clears := f.CallsTo("store.dataChunk.Clear")
	if len(clears) == 0 {
		c.ok(R, f.Key+": no source removal", f.Pos(), "gc does not call dataChunk.Clear")
		return
	}
	for _, cl := range clears {
		okG := false
		for _, a := range f.GuardsAt(cl.Expr) {
			if prog.AtomCmp(a, token.NEQ, prog.IsField(info, "store.GCState.Src"), prog.IsField(info, "store.GCState.Dst")) ||
				prog.AtomCmp(a, token.GTR, prog.IsField(info, "store.GCState.Src"), prog.IsField(info, "store.GCState.Dst")) {
				okG = true
			}
		}
		c.check(okG, R, f.Key+": Clear(src) guarded by Src != Dst", cl.Pos(), "guarded", "a source file can be removed while it is also the file being rewritten: every record just relocated into it is deleted")
		// the cleared chunk is the source
		ixe := chunkIndexOf(f, cl.Expr)
		c.check(ixe != nil && prog.IsField(info, "store.GCState.Src")(prog.Unparen(ixe)), R, f.Key+": Clear applies to chunks[gc.Src]", cl.Pos(), "chunks[gc.Src]", "Clear is applied to a chunk other than the current source")
	}
}

func c03r6(c *Ctx) {
	const R = "C03.R6"
	m := buildGCModel(c, R)
	if m == nil || m.keep == nil {
		if m != nil {
			c.undec(R, m.f.Key, "keep flag not recognised")
		}
		return
	}
	found := false
	for _, s := range m.stores {
		if s.value && s.signature() == "!found ∧ gc.Begin>0 ∧ rec.Ver<0" {
			found = true
			c.ok(R, m.f.Key+": tombstone reservation", c.pos(s.stmt), s.signature())
		}
	}
	if !found {
		c.viol(R, m.f.Key+": tombstone reservation", m.f.Pos(), "no store keeps a tombstone that the (rebuilt) tree does not know when the pass does not start at file 0 (¬found ∧ gc.Begin > 0 ∧ Ver < 0): an older value in a file below the range comes back to life after the next index rebuild")
	}
}

func c03r7(c *Ctx) {
	const R = "C03.R7"
	f := c.fn(R, "store.GCMgr.gc")
	if f == nil {
		return
	}
	info := f.Info()
	clr := f.CallsTo("store.hintMgr.ClearChunk")
	rd := f.CallsTo("store.dataStore.GetStreamReader")
	if len(rd) == 0 {
		c.undec(R, f.Key, "no GetStreamReader call in gc")
		return
	}
	if len(clr) == 0 {
		c.viol(R, f.Key+": ClearChunk(src) ≺ scan", rd[0].Pos(), "the hints of a source file are no longer cleared before it is scanned: stale hints of the emptied file survive and are replayed on restart")
		return
	}
	c.Paths++
	okArg := len(clr[0].Expr.Args) == 1 && prog.MentionsField(info, clr[0].Expr.Args[0], "store.GCState.Src")
	c.check(f.CFG().Dominates(clr[0].Expr, rd[0].Expr) && okArg, R, f.Key+": ClearChunk(src) ≺ scan", clr[0].Pos(), "dominated, argument gc.Src", "the source's hints are not cleared (for gc.Src) before the source is scanned")
}
