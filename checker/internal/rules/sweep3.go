package rules

import (
	"go/ast"
	"go/token"
	"go/types"
	"strings"

	"gbcheck/internal/prog"
)

// c10r10: header codec of the Go QuickLZ implementation: what writeHeader
// writes at offsets 1 and 5 is what SizeCompressed / SizeDecompressed read
// there, the long-header flag written is the one headerLen tests, and the
// call sites pass the total output length and the source length in the
// positions that end up at those offsets.
func c10r10(c *Ctx) {
	const R = "C10.R10"
	type fld struct{ off, n int64 }
	readAt := func(key string) (long fld, ok bool) {
		f := c.fn(R, key)
		if f == nil {
			return
		}
		info := f.Info()
		// the fastRead under headerLen(source) == 9
		for _, r := range f.CallsTo("quicklz.fastRead") {
			if len(r.Expr.Args) != 3 {
				continue
			}
			is9 := false
			for _, a := range f.GuardsAt(r.Expr) {
				if a.Op == token.EQL {
					if v, isC := prog.ConstInt(info, a.Y); isC && v == 9 {
						is9 = true
					}
				}
			}
			o, ok1 := prog.ConstInt(info, r.Expr.Args[1])
			n, ok2 := prog.ConstInt(info, r.Expr.Args[2])
			if is9 && ok1 && ok2 {
				return fld{o, n}, true
			}
		}
		return
	}
	rc, ok1 := readAt("quicklz.SizeCompressed")
	rd, ok2 := readAt("quicklz.SizeDecompressed")
	w := c.fn(R, "quicklz.writeHeader")
	if !ok1 || !ok2 || w == nil {
		c.undec(R, "quicklz header readers/writer", "not recognised")
		return
	}
	winfo := w.Info()
	// which parameter is written where
	at := map[int64]types.Object{}
	wn := map[int64]int64{}
	for _, fw := range w.CallsTo("quicklz.fastWrite") {
		if len(fw.Expr.Args) == 4 {
			o, okO := prog.ConstInt(winfo, fw.Expr.Args[1])
			n, okN := prog.ConstInt(winfo, fw.Expr.Args[3])
			if okO && okN {
				at[o] = prog.ObjOf(winfo, fw.Expr.Args[2])
				wn[o] = n
			}
		}
	}
	c.check(at[rc.off] != nil && wn[rc.off] == rc.n && at[rd.off] != nil && wn[rd.off] == rd.n && rc.off != rd.off, R, "quicklz.writeHeader: size fields where SizeCompressed/SizeDecompressed read them", w.Pos(),
		"compressed size at "+itoa(int(rc.off))+", decompressed size at "+itoa(int(rd.off))+", "+itoa(int(rc.n))+" bytes each",
		"the Go compressor writes its size fields at other offsets or widths than SizeCompressed / SizeDecompressed (and the C decoder) read them")
	// the long-header bit
	okBit := false
	ast.Inspect(w.Decl.Body, func(x ast.Node) bool {
		if as, ok := x.(*ast.AssignStmt); ok && len(as.Lhs) == 1 && len(as.Rhs) == 1 {
			if ix, isIx := prog.Unparen(as.Lhs[0]).(*ast.IndexExpr); isIx {
				if z, isC := prog.ConstInt(winfo, ix.Index); isC && z == 0 && as.Tok == token.ASSIGN {
					ast.Inspect(as.Rhs[0], func(y ast.Node) bool {
						if be, isB := y.(*ast.BinaryExpr); isB && be.Op == token.OR {
							if v, isC := prog.ConstInt(winfo, be.X); isC && v&2 == 2 {
								okBit = true
							}
						}
						return true
					})
				}
			}
		}
		return true
	})
	okHL := false
	if h := c.fn(R, "quicklz.headerLen"); h != nil {
		hinfo := h.Info()
		ast.Inspect(h.Decl.Body, func(x ast.Node) bool {
			if be, ok := x.(*ast.BinaryExpr); ok && be.Op == token.AND {
				if v, isC := prog.ConstInt(hinfo, be.Y); isC && v == 2 {
					okHL = true
				}
			}
			return true
		})
	}
	c.check(okBit && okHL, R, "quicklz.writeHeader / headerLen: long-header flag", w.Pos(), "bit 1 set by the writer, tested by headerLen", "the flag bit the Go compressor sets for its 9-byte header is not the bit headerLen tests")
	// call sites: parameter written at the compressed-size offset receives the total output length
	if f := c.fn(R, "quicklz.Compress"); f != nil {
		info := f.Info()
		sig := w.Obj.Type().(*types.Signature)
		idxOf := func(o types.Object) int {
			for i := 0; i < sig.Params().Len(); i++ {
				if sig.Params().At(i) == o {
					return i
				}
			}
			return -1
		}
		ic, id := idxOf(at[rc.off]), idxOf(at[rd.off])
		src := f.Param(0)
		n, bad := 0, ""
		for _, call := range f.CallsTo("quicklz.writeHeader") {
			if ic < 0 || id < 0 || len(call.Expr.Args) <= ic || len(call.Expr.Args) <= id {
				bad = call.Pos()
				continue
			}
			n++
			// decompressed size = len(source)
			d := prog.Unparen(call.Expr.Args[id])
			okD := false
			if lc, isC := d.(*ast.CallExpr); isC {
				if idn, isI := lc.Fun.(*ast.Ident); isI && idn.Name == "len" && prog.ObjOf(info, lc.Args[0]) == src {
					okD = true
				}
			}
			// compressed size = the length of the slice that is returned: either the output cursor used for make([]byte, cursor), or len(source)+header for the stored form
			cexpr := prog.Unparen(call.Expr.Args[ic])
			okC := false
			ast.Inspect(f.Decl.Body, func(x ast.Node) bool {
				if mk, isC := x.(*ast.CallExpr); isC && prog.CalleeKey(info, mk) == "builtin.make" && len(mk.Args) == 2 && prog.SameExpr(info, mk.Args[1], cexpr) {
					okC = true
				}
				return true
			})
			if !okD || !okC {
				bad = call.Pos()
			}
		}
		c.check(n >= 2 && bad == "", R, f.Key+": header carries len(source) and the length of the returned stream", f.Pos(), itoa(n)+" call sites", "a header written by the Go compressor does not declare the source length and the length of the stream it returns ("+bad+"): the safe decompressors reject it or the C decoder reads past it")
	}
	for _, k := range []string{"quicklz.fastRead", "quicklz.fastWrite"} {
		if f := c.fn(R, k); f != nil {
			info := f.Info()
			ok := false
			ast.Inspect(f.Decl.Body, func(x ast.Node) bool {
				if be, isB := x.(*ast.BinaryExpr); isB && (be.Op == token.SHL || be.Op == token.SHR) {
					if m, isM := prog.Unparen(be.Y).(*ast.BinaryExpr); isM && m.Op == token.MUL {
						a, b := prog.ConstInt(info, m.X)
						a2, b2 := prog.ConstInt(info, m.Y)
						if (b && a == 8) || (b2 && a2 == 8) {
							ok = true
						}
					}
				}
				return true
			})
			c.check(ok, R, f.Key+": little-endian, byte j at bits 8j", f.Pos(), "shift by j*8", "the byte order of the header fields changed on one side only")
		}
	}
	c10r10b(c)
}

// c14r15: the sort/heap interface methods the dump and the merge rely on.
func c14r15(c *Ctx) {
	const R = "C14.R15"
	swapOK := func(f *prog.Func) bool {
		info := f.Info()
		i, j := f.Param(0), f.Param(1)
		ok := false
		ast.Inspect(f.Decl.Body, func(x ast.Node) bool {
			as, isA := x.(*ast.AssignStmt)
			if !isA || len(as.Lhs) != 2 || len(as.Rhs) != 2 {
				return true
			}
			idx := func(e ast.Expr) (ast.Expr, types.Object) {
				if ix, isIx := prog.Unparen(e).(*ast.IndexExpr); isIx {
					return ix.X, prog.ObjOf(info, ix.Index)
				}
				return nil, nil
			}
			l0, a := idx(as.Lhs[0])
			l1, b := idx(as.Lhs[1])
			r0, cc := idx(as.Rhs[0])
			r1, d := idx(as.Rhs[1])
			if l0 != nil && l1 != nil && r0 != nil && r1 != nil && a == i && b == j && cc == j && d == i &&
				prog.SameExpr(info, l0, l1) && prog.SameExpr(info, l0, r0) && prog.SameExpr(info, l0, r1) {
				ok = true
			}
			return true
		})
		return ok
	}
	lenOK := func(f *prog.Func, field string) bool {
		info := f.Info()
		rets := f.CFG().Returns()
		if len(rets) != 1 || len(rets[0].Results) != 1 {
			return false
		}
		call, ok := prog.Unparen(rets[0].Results[0]).(*ast.CallExpr)
		if !ok || len(call.Args) != 1 {
			return false
		}
		if id, isI := call.Fun.(*ast.Ident); !isI || id.Name != "len" {
			return false
		}
		if field == "" {
			return prog.ObjOf(info, call.Args[0]) == f.Recv()
		}
		return prog.IsField(info, field)(prog.Unparen(call.Args[0]))
	}
	if f := c.fn(R, "store.mergeHeap.Swap"); f != nil {
		c.check(swapOK(f), R, f.Key+": h[i], h[j] = h[j], h[i]", f.Pos(), "swap", "the merge heap's Swap does not exchange elements i and j: the heap order is destroyed and merged files are no longer sorted")
	}
	if f := c.fn(R, "store.byKeyHash.Swap"); f != nil {
		c.check(swapOK(f), R, f.Key+": idx[i], idx[j] = idx[j], idx[i]", f.Pos(), "swap", "the dump sorter's Swap does not exchange elements i and j: hint files are written unsorted and lookups miss")
	}
	if f := c.fn(R, "store.mergeHeap.Len"); f != nil {
		c.check(lenOK(f, ""), R, f.Key+": len(h)", f.Pos(), "all elements", "the merge heap's Len is not the number of readers: sources are left out of the merge")
	}
	if f := c.fn(R, "store.byKeyHash.Len"); f != nil {
		c.check(lenOK(f, "store.byKeyHash.idx"), R, f.Key+": len(idx)", f.Pos(), "all elements", "the dump sorter's Len is not the number of items: a tail of the buffer is written unsorted")
	}
	if f := c.fn(R, "store.mergeHeap.Push"); f != nil {
		info := f.Info()
		ok := false
		ast.Inspect(f.Decl.Body, func(x ast.Node) bool {
			if as, isA := x.(*ast.AssignStmt); isA && len(as.Rhs) == 1 {
				if call, isC := prog.Unparen(as.Rhs[0]).(*ast.CallExpr); isC && prog.CalleeKey(info, call) == "builtin.append" && len(call.Args) == 2 && prog.RootObj(info, stripAssert(call.Args[1])) == f.Param(0) && prog.RootObj(info, stripAssert(as.Lhs[0])) == f.Recv() {
					ok = true
				}
			}
			return true
		})
		c.check(ok, R, f.Key+": *h = append(*h, x)", f.Pos(), "appends the pushed reader", "the merge heap's Push does not append the pushed reader")
	}
	if f := c.fn(R, "store.mergeHeap.Pop"); f != nil {
		info := f.Info()
		// returns old[n-1] and shrinks to old[:n-1]
		okRet, okShrink := false, false
		isNm1 := func(e ast.Expr) bool {
			be, ok := prog.Unparen(e).(*ast.BinaryExpr)
			if !ok || be.Op != token.SUB {
				return false
			}
			k, isC := prog.ConstInt(info, be.Y)
			return isC && k == 1
		}
		ast.Inspect(f.Decl.Body, func(x ast.Node) bool {
			switch s := x.(type) {
			case *ast.IndexExpr:
				if isNm1(s.Index) {
					okRet = true
				}
			case *ast.SliceExpr:
				if s.High != nil && isNm1(s.High) {
					if s.Low == nil {
						okShrink = true
					} else if z, isC := prog.ConstInt(info, s.Low); isC && z == 0 {
						okShrink = true
					}
				}
			}
			return true
		})
		c.check(okRet && okShrink, R, f.Key+": returns the last element and shrinks by one", f.Pos(), "old[n-1]; old[:n-1]", "the merge heap's Pop does not remove exactly the last element: a source is merged twice or dropped")
	}
}

// c14r16: the sparse index handed to lookups is every filled slot, in order.
func c14r16(c *Ctx) {
	const R = "C14.R16"
	f := c.fn(R, "store.hintFileIndexBuffer.toIndex")
	if f == nil {
		return
	}
	info := f.Info()
	// n = ROW_SIZE*currRow + currCol
	okN := false
	ast.Inspect(f.Decl.Body, func(x ast.Node) bool {
		if be, ok := x.(*ast.BinaryExpr); ok && be.Op == token.ADD {
			if m, isM := prog.Unparen(be.X).(*ast.BinaryExpr); isM && m.Op == token.MUL &&
				((prog.ConstObjName(info, m.X) == "store.HINTINDEX_ROW_SIZE" && prog.IsField(info, "store.hintFileIndexBuffer.currRow")(prog.Unparen(m.Y))) ||
					(prog.ConstObjName(info, m.Y) == "store.HINTINDEX_ROW_SIZE" && prog.IsField(info, "store.hintFileIndexBuffer.currRow")(prog.Unparen(m.X)))) &&
				prog.IsField(info, "store.hintFileIndexBuffer.currCol")(prog.Unparen(be.Y)) {
				okN = true
			}
		}
		return true
	})
	// full rows r < currRow, then the partial row [:currCol]
	okRows, okTail := false, false
	for _, l := range topLoops(f) {
		if be, ok := prog.Unparen(l.Cond).(*ast.BinaryExpr); ok && be.Op == token.LSS && prog.IsField(info, "store.hintFileIndexBuffer.currRow")(prog.Unparen(be.Y)) {
			if as, isA := l.Init.(*ast.AssignStmt); isA {
				if z, isC := prog.ConstInt(info, as.Rhs[0]); isC && z == 0 {
					okRows = true
				}
			}
		}
	}
	ast.Inspect(f.Decl.Body, func(x ast.Node) bool {
		if se, ok := x.(*ast.SliceExpr); ok && se.High != nil && se.Low == nil && prog.IsField(info, "store.hintFileIndexBuffer.currCol")(prog.Unparen(se.High)) {
			if ix, isIx := prog.Unparen(se.X).(*ast.IndexExpr); isIx && prog.IsField(info, "store.hintFileIndexBuffer.currRow")(prog.Unparen(ix.Index)) {
				okTail = true
			}
		}
		return true
	})
	c.check(okN && okRows && okTail, R, f.Key+": ROW_SIZE·currRow + currCol entries: all full rows, then the filled part of the current row", f.Pos(), "every filled slot, in order", "the flattened sparse index does not consist of exactly the filled slots (full rows 0..currRow-1, then index[currRow][:currCol]): lookups binary-search an array with holes or miss the tail")
}

// c15r12: a bucket's directory is a function of (number of buckets, bucket id)
// that is injective and nests by the leading hex digit.
func c15r12(c *Ctx) {
	const R = "C15.R12"
	if f := c.fn(R, "store.GetBucketDir"); f != nil {
		info := f.Info()
		nb, id := f.Param(0), f.Param(1)
		cases := map[int64]string{}
		for _, r := range f.CFG().Returns() {
			if len(r.Results) != 1 {
				continue
			}
			var n int64 = -1
			for _, a := range f.GuardsAt(r) {
				if a.Op == token.EQL && prog.ObjOf(info, a.X) == nb {
					if v, isC := prog.ConstInt(info, a.Y); isC {
						n = v
					}
				}
			}
			if n < 0 {
				continue
			}
			if s, isS := prog.ConstString(info, r.Results[0]); isS {
				cases[n] = "lit:" + s
				continue
			}
			if call, isC := prog.Unparen(r.Results[0]).(*ast.CallExpr); isC && prog.CalleeKey(info, call) == "fmt.Sprintf" {
				fs, _ := prog.ConstString(info, call.Args[0])
				desc := "fmt:" + fs
				for _, a := range call.Args[1:] {
					a = prog.Unparen(a)
					switch {
					case prog.ObjOf(info, a) == id:
						desc += " id"
					default:
						if be, isB := a.(*ast.BinaryExpr); isB && prog.ObjOf(info, be.X) == id {
							if v, isC := prog.ConstInt(info, be.Y); isC {
								desc += " id" + be.Op.String() + itoa(int(v))
							}
						} else {
							desc += " ?"
						}
					}
				}
				cases[n] = desc
			}
		}
		ok := cases[1] == "lit:" && cases[16] == "fmt:%x id" && cases[256] == "fmt:%x/%x id/16 id%16"
		c.check(ok, R, f.Key+": 1 ⇒ \"\", 16 ⇒ %x(id), 256 ⇒ %x/%x(id/16, id%16)", f.Pos(), "one directory per bucket, nested by the leading digit", "the directory of a bucket is no longer \"\" / <x> / <x>/<y> from its id (got 1:"+cases[1]+" 16:"+cases[16]+" 256:"+cases[256]+"): two buckets share a directory or records are written into another bucket's directory")
	}
	if f := c.fn(R, "store.GetBucketPath"); f != nil {
		info := f.Info()
		ok := false
		for _, d := range f.CallsTo("store.GetBucketDir") {
			if len(d.Expr.Args) == 2 && prog.MentionsField(info, d.Expr.Args[0], "config.DBRouteConfig.NumBucket") && prog.ObjOf(info, d.Expr.Args[1]) == f.Param(0) {
				ok = true
			}
		}
		c.check(ok, R, f.Key+": Join(Home, GetBucketDir(NumBucket, bucketID))", f.Pos(), "configured bucket count, this bucket", "a bucket's path is not derived from the configured number of buckets and its own id")
	}
	// every bucket is opened on its own path
	for _, k := range []string{"store.NewHStore", "store.HStore.ChangeRoute"} {
		f := c.fn(R, k)
		if f == nil {
			continue
		}
		info := f.Info()
		n, bad := 0, ""
		for _, o := range f.CallsTo("store.Bucket.open") {
			if len(o.Expr.Args) != 2 {
				continue
			}
			n++
			idArg := prog.ObjOf(info, o.Expr.Args[0])
			okP := false
			if call, isC := prog.Unparen(o.Expr.Args[1]).(*ast.CallExpr); isC && prog.CalleeKey(info, call) == "store.GetBucketPath" && len(call.Args) == 1 && prog.ObjOf(info, call.Args[0]) == idArg && idArg != nil {
				okP = true
			}
			if !okP {
				bad = o.Pos()
			}
		}
		c.check(n > 0 && bad == "", R, f.Key+": bucket i opened on GetBucketPath(i)", f.Pos(), itoa(n)+" open sites", "a bucket is opened on the path of another bucket id ("+bad+")")
	}
}

// c02r10: constructors that carry identity: a hint item's fields, a key info
// built from a hint item, and the start-up list of index files.
func c02r10(c *Ctx) {
	const R = "C02.R10"
	if f := c.fn(R, "store.newHintItem"); f != nil {
		info := f.Info()
		// HintItem{HintItemMeta{Keyhash, Pos, Ver, Vhash}, Key}
		want := map[string]int{"Keyhash": 0, "Ver": 1, "Vhash": 2, "Pos": 3, "Key": 4}
		got := map[string]bool{}
		var visit func(cl *ast.CompositeLit)
		visit = func(cl *ast.CompositeLit) {
			tv, has := info.Types[cl]
			if !has {
				return
			}
			st, isS := tv.Type.Underlying().(*types.Struct)
			if !isS {
				return
			}
			for i, e := range cl.Elts {
				name := ""
				val := e
				if kv, isKV := e.(*ast.KeyValueExpr); isKV {
					name = kv.Key.(*ast.Ident).Name
					val = kv.Value
				} else if i < st.NumFields() {
					name = st.Field(i).Name()
				}
				if inner, isCL := prog.Unparen(val).(*ast.CompositeLit); isCL {
					visit(inner)
					continue
				}
				if pi, has := want[name]; has && prog.ObjOf(info, val) == f.Param(pi) {
					got[name] = true
				}
			}
		}
		ast.Inspect(f.Decl.Body, func(x ast.Node) bool {
			if cl, ok := x.(*ast.CompositeLit); ok {
				if tv, has := info.Types[cl]; has && strings.HasSuffix(tv.Type.String(), "store.HintItem") {
					visit(cl)
					return false
				}
			}
			return true
		})
		c.check(len(got) == 5, R, f.Key+": (khash, ver, vhash, pos, key) land in (Keyhash, Ver, Vhash, Pos, Key)", f.Pos(), "five fields", "newHintItem does not store each argument in the field of its name (positional literal out of step with the struct): hints carry a version as value hash or vice versa")
	}
	if f := c.fn(R, "store.hintMgr.set"); f != nil {
		info := f.Info()
		ok := false
		for _, n := range f.CallsTo("store.newHintItem") {
			a := n.Expr.Args
			if len(a) == 5 && prog.MentionsField(info, a[0], "store.KeyInfo.KeyHash") && prog.MentionsField(info, a[1], "store.Meta.Ver") && prog.MentionsField(info, a[2], "store.Meta.ValueHash") && prog.MentionsField(info, a[4], "store.KeyInfo.StringKey") && prog.MentionsField(info, a[3], "store.Position.Offset") {
				ok = true
			}
		}
		c.check(ok, R, f.Key+": item = (ki.KeyHash, meta.Ver, meta.ValueHash, {0, pos.Offset}, ki.StringKey)", f.Pos(), "from the arguments", "the hint item of a write is not built from the key's hash and string, the payload's version and value hash and the record's offset")
	}
	if f := c.fn(R, "store.NewKeyInfoFromBytes"); f != nil {
		info := f.Info()
		got := map[string]bool{}
		ast.Inspect(f.Decl.Body, func(x ast.Node) bool {
			if kv, ok := x.(*ast.KeyValueExpr); ok {
				if id, isI := kv.Key.(*ast.Ident); isI {
					switch id.Name {
					case "Key":
						got["Key"] = prog.ObjOf(info, kv.Value) == f.Param(0)
					case "StringKey":
						got["StringKey"] = prog.ObjOf(info, argOfConv(kv.Value)) == f.Param(0)
					case "KeyHash":
						got["KeyHash"] = prog.ObjOf(info, kv.Value) == f.Param(1)
					case "KeyIsPath":
						got["KeyIsPath"] = prog.ObjOf(info, kv.Value) == f.Param(2)
					}
				}
			}
			return true
		})
		c.check(got["Key"] && got["StringKey"] && got["KeyHash"] && got["KeyIsPath"] && len(f.CallsTo("store.KeyInfo.Prepare")) == 1, R, f.Key+": fields from the arguments, then Prepare", f.Pos(), "Key, StringKey, KeyHash, KeyIsPath; Prepare()", "a key info rebuilt from stored bytes does not carry the given key, hash and path flag, or is not prepared (no bucket / path digits)")
	}
	if f := c.fn(R, "store.Bucket.getAllIndex"); f != nil {
		info := f.Info()
		g := f.CFG()
		var rng *ast.RangeStmt
		ast.Inspect(f.Decl.Body, func(x ast.Node) bool {
			if r, ok := x.(*ast.RangeStmt); ok && rng == nil {
				rng = r
			}
			return true
		})
		sorted := false
		for _, s := range f.CallsTo("sort.Sort", "sort.Strings") {
			if rng != nil && g.Dominates(s.Expr, rng) {
				sorted = true
			}
		}
		// paths and ids appended together
		var ap, ai ast.Node
		ast.Inspect(f.Decl.Body, func(x ast.Node) bool {
			if as, ok := x.(*ast.AssignStmt); ok && len(as.Lhs) == 1 && len(as.Rhs) == 1 {
				if call, isC := prog.Unparen(as.Rhs[0]).(*ast.CallExpr); isC && prog.CalleeKey(info, call) == "builtin.append" {
					switch prog.ObjOf(info, as.Lhs[0]) {
					case types.Object(f.Result(0)):
						ap = as
					case types.Object(f.Result(1)):
						ai = as
					}
				}
			}
			return true
		})
		paired := ap != nil && ai != nil && f.Parent(ap) == f.Parent(ai)
		c.check(sorted && paired, R, f.Key+": files sorted by name; path and parsed id appended together", f.Pos(), "paths[i] ↔ ids[i]", "the start-up list of index files is not sorted, or a path is listed without its id: Bucket.open pairs a tree dump with the id of another file")
	}
}

func stripAssert(e ast.Expr) ast.Expr {
	for {
		switch x := prog.Unparen(e).(type) {
		case *ast.TypeAssertExpr:
			e = x.X
		case *ast.StarExpr:
			e = x.X
		default:
			return x
		}
	}
}

// c02r11: data file naming: one producer of names, used with the chunk's own
// index everywhere, and the directory scans glob for the same suffix.
func c02r11(c *Ctx) {
	const R = "C02.R11"
	suffix := ""
	if f := c.fn(R, "store.genDataPath"); f != nil {
		info := f.Info()
		ok := false
		for _, s := range f.CallsTo("fmt.Sprintf") {
			if len(s.Expr.Args) == 3 {
				if fs, isS := prog.ConstString(info, s.Expr.Args[0]); isS && strings.HasPrefix(fs, "%s/%03d") && prog.ObjOf(info, s.Expr.Args[1]) == f.Param(0) && prog.ObjOf(info, s.Expr.Args[2]) == f.Param(1) {
					ok = true
					suffix = strings.TrimPrefix(fs, "%s/%03d")
				}
			}
		}
		c.check(ok && suffix != "", R, f.Key+": <home>/<chunk:%03d><suffix>", f.Pos(), "suffix "+suffix, "data file names are no longer <home>/<three-digit chunk id>.data")
	}
	if suffix == "" {
		return
	}
	sameIndex := func(f *prog.Func, lhsField string) bool {
		info := f.Info()
		ok := false
		ast.Inspect(f.Decl.Body, func(x ast.Node) bool {
			call, isC := x.(*ast.CallExpr)
			if !isC || prog.CalleeKey(info, call) != "store.genDataPath" || len(call.Args) != 2 {
				return true
			}
			iv := prog.ObjOf(info, call.Args[1])
			if iv == nil {
				return true
			}
			// the same variable indexes ds.chunks in the statement(s) around it
			found := false
			ast.Inspect(f.Decl.Body, func(y ast.Node) bool {
				if ix, isIx := y.(*ast.IndexExpr); isIx && prog.IsField(info, "store.dataStore.chunks")(prog.Unparen(ix.X)) && prog.ObjOf(info, ix.Index) == iv {
					found = true
				}
				return true
			})
			if found {
				ok = true
			}
			return true
		})
		return ok
	}
	if f := c.fn(R, "store.NewdataStore"); f != nil {
		c.check(sameIndex(f, ""), R, f.Key+": chunks[i].path = genDataPath(home, i)", f.Pos(), "same index", "a chunk is given the path of another chunk id")
	}
	if f := c.fn(R, "store.dataStore.ListFiles"); f != nil {
		c.check(sameIndex(f, ""), R, f.Key+": size of chunks[i] taken from genDataPath(home, i)", f.Pos(), "same index", "the start-up scan records the size of one data file under another chunk id")
	}
	if f := c.fn(R, "store.dataStore.genPath"); f != nil {
		info := f.Info()
		ok := false
		for _, g := range f.CallsTo("store.genDataPath") {
			if len(g.Expr.Args) == 2 && prog.IsField(info, "store.dataStore.home")(prog.Unparen(g.Expr.Args[0])) && prog.ObjOf(info, g.Expr.Args[1]) == f.Param(0) {
				ok = true
			}
		}
		c.check(ok, R, f.Key+": genDataPath(ds.home, chunkID)", f.Pos(), "forwarded", "a data store builds paths outside its own directory or for another chunk")
	}
	// globs
	for _, k := range []string{"store.Bucket.close", "store.HStore.scanBuckets", "store.NewHStore", "store.HStore.getBucketPath"} {
		f := c.P.F(k)
		if f == nil {
			continue
		}
		info := f.Info()
		for _, g := range f.CallsTo("filepath.Glob") {
			lit := ""
			ast.Inspect(g.Expr, func(x ast.Node) bool {
				if bl, ok := x.(*ast.BasicLit); ok && bl.Kind == token.STRING && strings.Contains(bl.Value, "*") {
					if s, isS := prog.ConstString(info, bl); isS {
						lit = s
					}
				}
				return true
			})
			if lit == "" || !strings.Contains(lit, "*.") || strings.Contains(lit, "idx") {
				continue
			}
			c.check(strings.HasSuffix(lit, "*"+suffix), R, f.Key+": scans for *"+suffix, g.Pos(), "same suffix as genDataPath", "a directory scan looks for data files under the pattern "+lit+", which does not match the names genDataPath produces: a bucket with data is taken for empty (or not dumped at close)")
		}
	}
}
