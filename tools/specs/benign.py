SPECS = [
 dict(name='benign-gc-rename-locals', kind='benign', rule='all', why='rename locals in gc (isNewest->keep, oldPos->scanPos)',
      edits=[('store/gc.go', 'isNewest', 'keepIt', 9), ('store/gc.go', 'oldPos', 'scanPos', 9)]),
 dict(name='benign-gc-if-inverted', kind='benign', rule='all', why='`if !isNewest {continue}` -> `if isNewest { …rest… }` is too invasive; instead invert the Clear guard',
      edits=[('store/gc.go', '''		if gc.Src != gc.Dst {
			bkt.datas.chunks[gc.Src].Clear()
		}''', '''		if gc.Dst != gc.Src {
			src := &bkt.datas.chunks[gc.Src]
			src.Clear()
		}''')]),
 dict(name='benign-process-extra-logging', kind='benign', rule='all', why='extra debug logging in Process and ServeOnce',
      edits=[('memcache/protocol.go', '		key := req.Keys[0]\n		var suc bool\n		suc, err = store.Set(key, req.Item, req.NoReply)', '		key := req.Keys[0]\n		logger.Debugf("set %s", key)\n		var suc bool\n		suc, err = store.Set(key, req.Item, req.NoReply)'),
             ('memcache/server.go', '		req.SetStat("process")\n', '		req.SetStat("process")\n		logger.Debugf("process %s", req.Cmd)\n')]),
 dict(name='benign-read-else-to-early-return', kind='benign', rule='all', why='readRecordAt: else-if chain -> two early returns',
      edits=[('store/datafile.go', '''		logger.Errorf(err.Error())
		return
	} else if !config.IsValidValueSize(wrec.vsz) {''', '''		logger.Errorf(err.Error())
		return
	}
	if !config.IsValidValueSize(wrec.vsz) {''')]),
 dict(name='benign-getrecord-if-else', kind='benign', rule='all', why='GetRecordByOffset: early returns -> nested else',
      edits=[('store/datachunk.go', '''	if res != nil {
		inbuffer = true
		cmem.DBRL.GetData.AddSize(res.Payload.DiffSizeAfterDecompressed())
		res.Payload.Decompress()
		return
	}
	wrec, e := readRecordAtPath(dc.path, offset)
	if e != nil {
		return nil, false, e
	}
	cmem.DBRL.GetData.AddSize(wrec.rec.Payload.DiffSizeAfterDecompressed())
	wrec.rec.Payload.Decompress()
	return wrec.rec, false, nil''', '''	if res != nil {
		inbuffer = true
		cmem.DBRL.GetData.AddSize(res.Payload.DiffSizeAfterDecompressed())
		res.Payload.Decompress()
		return
	} else {
		wrec, e := readRecordAtPath(dc.path, offset)
		if e != nil {
			return nil, false, e
		}
		rec := wrec.rec
		cmem.DBRL.GetData.AddSize(rec.Payload.DiffSizeAfterDecompressed())
		rec.Payload.Decompress()
		return rec, false, nil
	}''')]),
 dict(name='benign-hstore-get-helper', kind='benign', rule='all', why='HStore.Get/Set/Incr: READY test phrased positively',
      edits=[('store/hstore.go', '''	atomic.AddInt64(&bkt.NumGet, 1)
	if bkt.State != BUCKET_STAT_READY {
		return
	}
	return bkt.get(ki, memOnly)''', '''	atomic.AddInt64(&bkt.NumGet, 1)
	if bkt.State == BUCKET_STAT_READY {
		return bkt.get(ki, memOnly)
	}
	return''')]),
 dict(name='benign-keepflag-switch', kind='benign', rule='all', why='updateHtreeFromHint: if/else -> switch',
      edits=[('store/bucket.go', '''		if item.Ver > 0 {
			pos.ChunkID = chunkID
			tree.set(ki, &meta, pos)
		} else {
			pos.ChunkID = -1
			tree.remove(ki, pos)
		}''', '''		switch {
		case item.Ver > 0:
			pos.ChunkID = chunkID
			tree.set(ki, &meta, pos)
		default:
			pos.ChunkID = -1
			tree.remove(ki, pos)
		}''')]),
 dict(name='benign-encode-header-reorder', kind='benign', rule='all', why='encodeHeader: independent field stores reordered',
      edits=[('store/datafile.go', '''	binary.LittleEndian.PutUint32(h[4:8], wrec.rec.Payload.TS)
	binary.LittleEndian.PutUint32(h[8:12], wrec.rec.Payload.Flag)''', '''	binary.LittleEndian.PutUint32(h[8:12], wrec.rec.Payload.Flag)
	binary.LittleEndian.PutUint32(h[4:8], wrec.rec.Payload.TS)''')]),
 dict(name='benign-lock-defer', kind='benign', rule='all', why='dataChunk.AppendRecord: explicit Unlock -> defer',
      edits=[('store/datachunk.go', '''	dc.Lock()
	dc.wbuf = append(dc.wbuf, wrec)

	size := wrec.rec.Payload.RecSize

	dc.writingHead += size
	dc.size = dc.writingHead
	dc.Unlock()''', '''	dc.Lock()
	defer dc.Unlock()
	dc.wbuf = append(dc.wbuf, wrec)

	size := wrec.rec.Payload.RecSize

	dc.writingHead += size
	dc.size = dc.writingHead''')]),
 dict(name='benign-getvhash-local', kind='benign', rule='all', why='Getvhash: length switch through a named constant',
      edits=[('store/item.go', '	l := len(value)\n	hash := uint32(l) * 97\n	if l <= 1024 {', '	const whole = 1024\n	l := len(value)\n	hash := uint32(l) * 97\n	if l <= whole {')]),
 dict(name='benign-storageclient-set-comment', kind='benign', rule='all', why='StorageClient.Set: error message and local rename',
      edits=[('gobeansdb/store.go', '''	tofree = nil
	err := s.hstore.Set(ki, payload)
	if err != nil {
		logger.Errorf("err to get %s: %s", key, err.Error())
		return false, err
	}
	return true, nil''', '''	tofree = nil
	if e := s.hstore.Set(ki, payload); e != nil {
		logger.Errorf("err to set %s: %s", key, e.Error())
		return false, e
	}
	return true, nil''')]),
 dict(name='benign-htree-set-inline-req', kind='benign', rule='all', why='HTree.remove: lock/unlock explicit instead of defer',
      edits=[('store/htree.go', '''	tree.Lock()
	defer tree.Unlock()

	tree.getLeafAndInvalidNodes(ki, &tree.ni)
	tree.remvoeFromLeaf(&tree.ni, ki, oldPos)''', '''	tree.Lock()
	tree.getLeafAndInvalidNodes(ki, &tree.ni)
	tree.remvoeFromLeaf(&tree.ni, ki, oldPos)
	tree.Unlock()''')]),
 dict(name='benign-serveonce-status-const', kind='benign', rule='all', why='ServeOnce: CLIENT_ERROR branch built through a helper variable',
      edits=[('memcache/server.go', '''			resp = new(Response)
			resp.Status = "CLIENT_ERROR"
			resp.Msg = err.Error()
			err = nil''', '''			r := new(Response)
			r.Status = "CLIENT_ERROR"
			r.Msg = err.Error()
			resp = r
			err = nil''')]),
 dict(name='benign-hintfile-writeitem-local', kind='benign', rule='all', why='writeItem: key length through a local',
      edits=[('store/hintfile.go', '	h[22] = byte(len(item.Key))\n', '	ksz := len(item.Key)\n	h[22] = byte(ksz)\n')]),
 dict(name='benign-close-order', kind='benign', rule='all', why='Bucket.close: dumpCollisions after hints.close',
      edits=[('store/bucket.go', '	bkt.hints.dumpCollisions()\n	bkt.hints.close()\n	bkt.dumpHtree()', '	bkt.hints.close()\n	bkt.hints.dumpCollisions()\n	bkt.dumpHtree()')]),
]
SPECS += [
 dict(name='benign-crc-empty-guard', kind='benign', rule='all', why='crc32.write guards against empty input (fixes a latent index panic)',
      edits=[('store/crc32.go', 'func (h *crc32) write(data []byte) {\n', 'func (h *crc32) write(data []byte) {\n	if len(data) == 0 {\n		return\n	}\n')]),
 dict(name='benign-index-append-roll-first', kind='benign', rule='all', why='index buffer rolls over first, with the matching test',
      edits=[('store/hintindex.go', '''	idx.index[idx.currRow][idx.currCol] = hintIndexItem{keyhash, offset}
	idx.lastoffset = offset
	if idx.currCol >= HINTINDEX_ROW_SIZE-1 {
		idx.currRow += 1
		idx.index[idx.currRow] = make([]hintIndexItem, HINTINDEX_ROW_SIZE)
		idx.currCol = 0
	} else {
		idx.currCol += 1
	}''', '''	if idx.currCol >= HINTINDEX_ROW_SIZE {
		idx.currRow += 1
		idx.index[idx.currRow] = make([]hintIndexItem, HINTINDEX_ROW_SIZE)
		idx.currCol = 0
	}
	idx.index[idx.currRow][idx.currCol] = hintIndexItem{keyhash, offset}
	idx.lastoffset = offset
	idx.currCol += 1''')]),
 dict(name='benign-route-parseuint', kind='benign', rule='all', why='route ids parsed with ParseUint(…,16,8)',
      edits=[('config/route.go', '		i64, err := strconv.ParseInt(str, 16, 16)', '		i64, err := strconv.ParseUint(str, 16, 8)')]),
 dict(name='benign-web-default-minus2', kind='benign', rule='all', why='handleGC default -2 (still negative)',
      edits=[('gobeansdb/web.go', 'getFormValueInt(r, "nogcdays", -1)', 'getFormValueInt(r, "nogcdays", -2)')]),
 dict(name='benign-clear-reordered', kind='benign', rule='all', why='Request.Clear: statements reordered',
      edits=[('memcache/protocol.go', '''	req.NoReply = false
	if req.Item != nil {
		req.Item = nil
	}''', '''	if req.Item != nil {
		req.Item = nil
	}
	req.NoReply = false''')]),
 dict(name='benign-collisiongc-named', kind='benign', rule='all', why='getCollisionGC: nil test first',
      edits=[('store/hint.go', '''	if !collision {
		// only in mem, in new hints buffers after gc begin
		it, ChunkID, collision = h.getItemCollision(ki.KeyHash, ki.StringKey)
	} else if it != nil {
		ChunkID = it.Pos.ChunkID
	}
	return''', '''	if collision {
		if it != nil {
			ChunkID = it.Pos.ChunkID
		}
		return
	}
	// only in mem, in new hints buffers after gc begin
	it, ChunkID, collision = h.getItemCollision(ki.KeyHash, ki.StringKey)
	return''')]),
 dict(name='benign-gc-skip-empty-eq', kind='benign', rule='all', why='gc: empty chunk test written == 0',
      edits=[('store/gc.go', '		if bkt.datas.chunks[gc.Src].size <= 0 {', '		if bkt.datas.chunks[gc.Src].size == 0 {')]),
 dict(name='benign-close-range-loop', kind='benign', rule='all', why='Bucket.close: flush loop over the chunk slice',
      edits=[('store/bucket.go', '''	for i := 0; i < bkt.datas.newHead; i++ {
		ck := &bkt.datas.chunks[i]
		ck.Lock()''', '''	for i := range bkt.datas.chunks[:bkt.datas.newHead] {
		ck := &bkt.datas.chunks[i]
		ck.Lock()''')]),
 dict(name='benign-hintbuffer-get-renames', kind='benign', rule='all', why='HintBuffer.Get: renamed locals, early return',
      edits=[('store/hint.go', '''	idx, found := h.index[keyhash]
	if found {
		if key != h.items[idx].Key {
			iscollision = true
			var keys map[string]int
			keys, found = h.collisions[keyhash]
			if found {
				idx, found = keys[key]
			}
		}
	}
	if found {
		it = h.items[idx]
	}
	return''', '''	slot, found := h.index[keyhash]
	if !found {
		return
	}
	if key != h.items[slot].Key {
		iscollision = true
		var group map[string]int
		group, found = h.collisions[keyhash]
		if found {
			slot, found = group[key]
		}
	}
	if found {
		it = h.items[slot]
	}
	return''')]),
 dict(name='benign-write-end-writeline', kind='benign', rule='all', why='Response.Write: END through writeLine',
      edits=[('memcache/protocol.go', '			WriteFull(w, []byte("\\r\\n"))\n		}\n		io.WriteString(w, "END\\r\\n")\n', '			WriteFull(w, []byte("\\r\\n"))\n		}\n		io.WriteString(w, "END")\n		io.WriteString(w, "\\r\\n")\n')]),
 dict(name='benign-incr-else', kind='benign', rule='all', why='StorageClient.Incr: early return → if/else',
      edits=[('gobeansdb/store.go', '''	if !store.IsValidKeyString(key) {
		cmem.DBRL.SetData.SubCount(1)
		return 0, nil
	}
	ki := s.prepare(key, false)
	newvalue := s.hstore.Incr(ki, value)
	return newvalue, nil''', '''	if store.IsValidKeyString(key) {
		ki := s.prepare(key, false)
		return s.hstore.Incr(ki, value), nil
	}
	cmem.DBRL.SetData.SubCount(1)
	return 0, nil''')]),
 dict(name='benign-sizes-div', kind='benign', rule='all', why='Record.Sizes: rounding through division',
      edits=[('store/item.go', '	return recSize, ((recSize + 255) >> 8) << 8', '	return recSize, (recSize + PADDING - 1) / PADDING * PADDING')]),
 # ---------------- round 3: benign edits around the hint layer / helper rules
 dict(name='benign-getitem-loop-gt-minus1', kind='benign', rule='all', why='descending loop written with > -1',
      edits=[('store/hint.go', '	for i := h.maxChunkID; i >= 0; i-- {\n		if !memOnly && merged != nil', '	for i := h.maxChunkID; i > -1; i -= 1 {\n		if !memOnly && merged != nil')]),
 dict(name='benign-setitem-inline-last-split', kind='benign', rule='all', why='current split selected without the local l',
      edits=[('store/hint.go', '	l := len(chunk.splits)\n	sp := chunk.splits[l-1]\n	if !sp.buf.Set', '	sp := chunk.splits[len(chunk.splits)-1]\n	if !sp.buf.Set')]),
 dict(name='benign-trydump-local-bound', kind='benign', rule='all', why='old-splits loop bound through a local',
      edits=[('store/hint.go', '	j := 0\n	for ; j < l-1; j++ {', '	j := 0\n	last := l - 1\n	for ; j < last; j++ {')]),
 dict(name='benign-findvalid-uses-parser', kind='benign', rule='all', why='findValidPaths calls parseSplitIDFromName',
      edits=[('store/hint.go', '		sid, err := strconv.Atoi(name[4:7])', '		sid, err := parseSplitIDFromName(name)')]),
 dict(name='benign-wraprecord-local-size', kind='benign', rule='all', why='padded size through a local',
      edits=[('store/datafile.go', '	_, rec.Payload.RecSize = rec.Sizes()\n	return &WriteRecord{', '	_, padded := rec.Sizes()\n	rec.Payload.RecSize = padded\n	return &WriteRecord{')]),
 dict(name='benign-compareandset-reordered', kind='benign', rule='all', why='disjuncts reordered, reason through a constant',
      edits=[('store/collision.go', '		if !ok || reason == "gc" || it.Pos.CmpKey() >= old.Pos.CmpKey() {', '		const gcReason = "gc"\n		if reason == gcReason || !ok || old.Pos.CmpKey() <= it.Pos.CmpKey() {')]),
 dict(name='benign-delete-version-parenthesised', kind='benign', rule='all', why='-(abs(oldv) + 1)',
      edits=[('store/bucket.go', '		ver = -abs(oldv) - 1', '		ver = -(abs(oldv) + 1)')]),
 dict(name='benign-copy-renamed-size', kind='benign', rule='all', why='CArray.Copy local renamed, make uses it',
      edits=[('cmem/cmem.go', '	size := len(arr.Body)\n	if arr.Addr == 0 {\n		arrNew.Body = make([]byte, size)', '	n := len(arr.Body)\n	size := n\n	if arr.Addr == 0 {\n		arrNew.Body = make([]byte, len(arr.Body))')]),
 dict(name='benign-fatal-geq', kind='benign', rule='all', why='level >= FATAL',
      edits=[('loghub/errorlog.go', '	if level == FATAL {\n		os.Exit(1)', '	if level >= FATAL {\n		os.Exit(1)')]),
 dict(name='benign-nextvalid-size-local', kind='benign', rule='all', why='file size through a local',
      edits=[('store/datafile.go', '	for int64(offset2) < st.Size() {', '	fsize := st.Size()\n	for int64(offset2) < fsize {')]),
 dict(name='benign-pathhash-range-loop', kind='benign', rule='all', why='setKeyHashByPath with a range loop',
      edits=[('store/key.go', '	for i := 0; i < len(v); i++ {\n		ki.KeyHash |= (uint64(v[i]) << shift)', '	for _, d := range v {\n		ki.KeyHash |= (uint64(d) << shift)')]),
 dict(name='benign-removehints-inline-glob', kind='benign', rule='all', why='glob pattern inline',
      edits=[('store/hint.go', '	pattern := h.getPath(chunkID, -1, false)\n	paths, _ := filepath.Glob(pattern)\n	for _, p := range paths {\n		utils.Remove(p)\n	}\n}\n\nfunc (hm *hintMgr) findValidPaths', '	paths, _ := filepath.Glob(h.getPath(chunkID, -1, false))\n	for _, p := range paths {\n		utils.Remove(p)\n	}\n}\n\nfunc (hm *hintMgr) findValidPaths')]),
 dict(name='benign-numkey-continue', kind='benign', rule='all', why='NumKey with an early continue',
      edits=[('store/hstore.go', '		if b.State == BUCKET_STAT_READY {\n			n += int(b.htree.levels[0][0].count)\n		}', '		if b.State != BUCKET_STAT_READY {\n			continue\n		}\n		n += int(b.htree.levels[0][0].count)')]),
 dict(name='benign-rebuild-extra-logging', kind='benign', rule='all', why='logging in the rebuild loop',
      edits=[('store/bucket.go', '		khash := getKeyHash(rec.Key)\n		p := rec.Payload\n		p.Decompress()', '		khash := getKeyHash(rec.Key)\n		p := rec.Payload\n		if p.Ver < 0 {\n			logger.Debugf("rebuild: tombstone at %d", offset)\n		}\n		p.Decompress()')]),
 dict(name='benign-adapter-set-field-order', kind='benign', rule='all', why='payload fields assigned in another order',
      edits=[('gobeansdb/store.go', '	payload.Flag = uint32(item.Flag)\n	payload.CArray = item.CArray\n	payload.Ver = int32(item.Exptime)', '	payload.Ver = int32(item.Exptime)\n	payload.CArray = item.CArray\n	payload.Flag = uint32(item.Flag)')]),
 dict(name='benign-splitkeys-split', kind='benign', rule='all', why='isSpace written with a switch-free comparison on the other side',
      edits=[('memcache/protocol.go', "	return r == ' '\n", "	return r == 0x20\n")]),
 dict(name='benign-dump-err-first', kind='benign', rule='all', why='hintMgr.dump checks the error with an early path',
      edits=[('store/hint.go', '	sp.file, err = sp.buf.Dump(path)\n	if err == nil {\n		h.maxDumpedHintID.setIfLarger(chunkID, splitID)\n	}\n	sp.buf = nil', '	sp.file, err = sp.buf.Dump(path)\n	if err != nil {\n		logger.Errorf("dump %s: %v", path, err)\n	} else {\n		h.maxDumpedHintID.setIfLarger(chunkID, splitID)\n	}\n	sp.buf = nil')]),
 dict(name='benign-incr-hash-after-flag', kind='benign', rule='all', why='incr sets the flag after the body, hash last',
      edits=[('store/bucket.go', '	payload.Flag = FLAG_INCR\n	payload.Ver = ver\n	payload.TS = uint32(time.Now().Unix())\n	s := strconv.Itoa(value)\n	payload.Body = []byte(s)\n	payload.CalcValueHash()', '	payload.Ver = ver\n	payload.TS = uint32(time.Now().Unix())\n	payload.Body = []byte(strconv.Itoa(value))\n	payload.Flag = FLAG_INCR\n	payload.CalcValueHash()')]),
]
