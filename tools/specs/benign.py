SPECS = [
 dict(name='benign-gc-rename-locals', kind='benign', rule='all', why='rename locals in gc (isNewest->keep, oldPos->scanPos)',
      edits=[('store/gc.go', 'isNewest', 'keepIt', 9), ('store/gc.go', 'oldPos', 'scanPos', 9)]),
 dict(name='benign-gc-if-inverted', kind='benign', rule='all', why='`if !isNewest {continue}` -> `if isNewest { …rest… }` is too invasive; instead invert the Clear guard',
      edits=[('store/gc.go', '''		if gc.Src != gc.Dst {
			bkt.datas.chunks[gc.Src].Clear()
		}''', '''		if gc.Dst != gc.Src {
			src := &bkt.datas.chunks[gc.Src]
			src.Clear()
		}''')]),
 dict(name='benign-process-extra-logging', kind='benign', rule='all', why='extra debug logging in Process and ServeOnce',
      edits=[('memcache/protocol.go', '		key := req.Keys[0]\n		var suc bool\n		suc, err = store.Set(key, req.Item, req.NoReply)', '		key := req.Keys[0]\n		logger.Debugf("set %s", key)\n		var suc bool\n		suc, err = store.Set(key, req.Item, req.NoReply)'),
             ('memcache/server.go', '		req.SetStat("process")\n', '		req.SetStat("process")\n		logger.Debugf("process %s", req.Cmd)\n')]),
 dict(name='benign-read-else-to-early-return', kind='benign', rule='all', why='readRecordAt: else-if chain -> two early returns',
      edits=[('store/datafile.go', '''		logger.Errorf(err.Error())
		return
	} else if !config.IsValidValueSize(wrec.vsz) {''', '''		logger.Errorf(err.Error())
		return
	}
	if !config.IsValidValueSize(wrec.vsz) {''')]),
 dict(name='benign-getrecord-if-else', kind='benign', rule='all', why='GetRecordByOffset: early returns -> nested else',
      edits=[('store/datachunk.go', '''	if res != nil {
		inbuffer = true
		cmem.DBRL.GetData.AddSize(res.Payload.DiffSizeAfterDecompressed())
		res.Payload.Decompress()
		return
	}
	wrec, e := readRecordAtPath(dc.path, offset)
	if e != nil {
		return nil, false, e
	}
	cmem.DBRL.GetData.AddSize(wrec.rec.Payload.DiffSizeAfterDecompressed())
	wrec.rec.Payload.Decompress()
	return wrec.rec, false, nil''', '''	if res != nil {
		inbuffer = true
		cmem.DBRL.GetData.AddSize(res.Payload.DiffSizeAfterDecompressed())
		res.Payload.Decompress()
		return
	} else {
		wrec, e := readRecordAtPath(dc.path, offset)
		if e != nil {
			return nil, false, e
		}
		rec := wrec.rec
		cmem.DBRL.GetData.AddSize(rec.Payload.DiffSizeAfterDecompressed())
		rec.Payload.Decompress()
		return rec, false, nil
	}''')]),
 dict(name='benign-hstore-get-helper', kind='benign', rule='all', why='HStore.Get/Set/Incr: READY test phrased positively',
      edits=[('store/hstore.go', '''	atomic.AddInt64(&bkt.NumGet, 1)
	if bkt.State != BUCKET_STAT_READY {
		return
	}
	return bkt.get(ki, memOnly)''', '''	atomic.AddInt64(&bkt.NumGet, 1)
	if bkt.State == BUCKET_STAT_READY {
		return bkt.get(ki, memOnly)
	}
	return''')]),
 dict(name='benign-keepflag-switch', kind='benign', rule='all', why='updateHtreeFromHint: if/else -> switch',
      edits=[('store/bucket.go', '''		if item.Ver > 0 {
			pos.ChunkID = chunkID
			tree.set(ki, &meta, pos)
		} else {
			pos.ChunkID = -1
			tree.remove(ki, pos)
		}''', '''		switch {
		case item.Ver > 0:
			pos.ChunkID = chunkID
			tree.set(ki, &meta, pos)
		default:
			pos.ChunkID = -1
			tree.remove(ki, pos)
		}''')]),
 dict(name='benign-encode-header-reorder', kind='benign', rule='all', why='encodeHeader: independent field stores reordered',
      edits=[('store/datafile.go', '''	binary.LittleEndian.PutUint32(h[4:8], wrec.rec.Payload.TS)
	binary.LittleEndian.PutUint32(h[8:12], wrec.rec.Payload.Flag)''', '''	binary.LittleEndian.PutUint32(h[8:12], wrec.rec.Payload.Flag)
	binary.LittleEndian.PutUint32(h[4:8], wrec.rec.Payload.TS)''')]),
 dict(name='benign-lock-defer', kind='benign', rule='all', why='dataChunk.AppendRecord: explicit Unlock -> defer',
      edits=[('store/datachunk.go', '''	dc.Lock()
	dc.wbuf = append(dc.wbuf, wrec)

	size := wrec.rec.Payload.RecSize

	dc.writingHead += size
	dc.size = dc.writingHead
	dc.Unlock()''', '''	dc.Lock()
	defer dc.Unlock()
	dc.wbuf = append(dc.wbuf, wrec)

	size := wrec.rec.Payload.RecSize

	dc.writingHead += size
	dc.size = dc.writingHead''')]),
 dict(name='benign-getvhash-local', kind='benign', rule='all', why='Getvhash: length switch through a named constant',
      edits=[('store/item.go', '	l := len(value)\n	hash := uint32(l) * 97\n	if l <= 1024 {', '	const whole = 1024\n	l := len(value)\n	hash := uint32(l) * 97\n	if l <= whole {')]),
 dict(name='benign-storageclient-set-comment', kind='benign', rule='all', why='StorageClient.Set: error message and local rename',
      edits=[('gobeansdb/store.go', '''	tofree = nil
	err := s.hstore.Set(ki, payload)
	if err != nil {
		logger.Errorf("err to get %s: %s", key, err.Error())
		return false, err
	}
	return true, nil''', '''	tofree = nil
	if e := s.hstore.Set(ki, payload); e != nil {
		logger.Errorf("err to set %s: %s", key, e.Error())
		return false, e
	}
	return true, nil''')]),
 dict(name='benign-htree-set-inline-req', kind='benign', rule='all', why='HTree.remove: lock/unlock explicit instead of defer',
      edits=[('store/htree.go', '''	tree.Lock()
	defer tree.Unlock()

	tree.getLeafAndInvalidNodes(ki, &tree.ni)
	tree.remvoeFromLeaf(&tree.ni, ki, oldPos)''', '''	tree.Lock()
	tree.getLeafAndInvalidNodes(ki, &tree.ni)
	tree.remvoeFromLeaf(&tree.ni, ki, oldPos)
	tree.Unlock()''')]),
 dict(name='benign-serveonce-status-const', kind='benign', rule='all', why='ServeOnce: CLIENT_ERROR branch built through a helper variable',
      edits=[('memcache/server.go', '''			resp = new(Response)
			resp.Status = "CLIENT_ERROR"
			resp.Msg = err.Error()
			err = nil''', '''			r := new(Response)
			r.Status = "CLIENT_ERROR"
			r.Msg = err.Error()
			resp = r
			err = nil''')]),
 dict(name='benign-hintfile-writeitem-local', kind='benign', rule='all', why='writeItem: key length through a local',
      edits=[('store/hintfile.go', '	h[22] = byte(len(item.Key))\n', '	ksz := len(item.Key)\n	h[22] = byte(ksz)\n')]),
 dict(name='benign-close-order', kind='benign', rule='all', why='Bucket.close: dumpCollisions after hints.close',
      edits=[('store/bucket.go', '	bkt.hints.dumpCollisions()\n	bkt.hints.close()\n	bkt.dumpHtree()', '	bkt.hints.close()\n	bkt.hints.dumpCollisions()\n	bkt.dumpHtree()')]),
]
SPECS += [
 dict(name='benign-crc-empty-guard', kind='benign', rule='all', why='crc32.write guards against empty input (fixes a latent index panic)',
      edits=[('store/crc32.go', 'func (h *crc32) write(data []byte) {\n', 'func (h *crc32) write(data []byte) {\n	if len(data) == 0 {\n		return\n	}\n')]),
 dict(name='benign-index-append-roll-first', kind='benign', rule='all', why='index buffer rolls over first, with the matching test',
      edits=[('store/hintindex.go', '''	idx.index[idx.currRow][idx.currCol] = hintIndexItem{keyhash, offset}
	idx.lastoffset = offset
	if idx.currCol >= HINTINDEX_ROW_SIZE-1 {
		idx.currRow += 1
		idx.index[idx.currRow] = make([]hintIndexItem, HINTINDEX_ROW_SIZE)
		idx.currCol = 0
	} else {
		idx.currCol += 1
	}''', '''	if idx.currCol >= HINTINDEX_ROW_SIZE {
		idx.currRow += 1
		idx.index[idx.currRow] = make([]hintIndexItem, HINTINDEX_ROW_SIZE)
		idx.currCol = 0
	}
	idx.index[idx.currRow][idx.currCol] = hintIndexItem{keyhash, offset}
	idx.lastoffset = offset
	idx.currCol += 1''')]),
 dict(name='benign-route-parseuint', kind='benign', rule='all', why='route ids parsed with ParseUint(…,16,8)',
      edits=[('config/route.go', '		i64, err := strconv.ParseInt(str, 16, 16)', '		i64, err := strconv.ParseUint(str, 16, 8)')]),
 dict(name='benign-web-default-minus2', kind='benign', rule='all', why='handleGC default -2 (still negative)',
      edits=[('gobeansdb/web.go', 'getFormValueInt(r, "nogcdays", -1)', 'getFormValueInt(r, "nogcdays", -2)')]),
 dict(name='benign-clear-reordered', kind='benign', rule='all', why='Request.Clear: statements reordered',
      edits=[('memcache/protocol.go', '''	req.NoReply = false
	if req.Item != nil {
		req.Item = nil
	}''', '''	if req.Item != nil {
		req.Item = nil
	}
	req.NoReply = false''')]),
 dict(name='benign-collisiongc-named', kind='benign', rule='all', why='getCollisionGC: nil test first',
      edits=[('store/hint.go', '''	if !collision {
		// only in mem, in new hints buffers after gc begin
		it, ChunkID, collision = h.getItemCollision(ki.KeyHash, ki.StringKey)
	} else if it != nil {
		ChunkID = it.Pos.ChunkID
	}
	return''', '''	if collision {
		if it != nil {
			ChunkID = it.Pos.ChunkID
		}
		return
	}
	// only in mem, in new hints buffers after gc begin
	it, ChunkID, collision = h.getItemCollision(ki.KeyHash, ki.StringKey)
	return''')]),
 dict(name='benign-gc-skip-empty-eq', kind='benign', rule='all', why='gc: empty chunk test written == 0',
      edits=[('store/gc.go', '		if bkt.datas.chunks[gc.Src].size <= 0 {', '		if bkt.datas.chunks[gc.Src].size == 0 {')]),
 dict(name='benign-close-range-loop', kind='benign', rule='all', why='Bucket.close: flush loop over the chunk slice',
      edits=[('store/bucket.go', '''	for i := 0; i < bkt.datas.newHead; i++ {
		ck := &bkt.datas.chunks[i]
		ck.Lock()''', '''	for i := range bkt.datas.chunks[:bkt.datas.newHead] {
		ck := &bkt.datas.chunks[i]
		ck.Lock()''')]),
 dict(name='benign-hintbuffer-get-renames', kind='benign', rule='all', why='HintBuffer.Get: renamed locals, early return',
      edits=[('store/hint.go', '''	idx, found := h.index[keyhash]
	if found {
		if key != h.items[idx].Key {
			iscollision = true
			var keys map[string]int
			keys, found = h.collisions[keyhash]
			if found {
				idx, found = keys[key]
			}
		}
	}
	if found {
		it = h.items[idx]
	}
	return''', '''	slot, found := h.index[keyhash]
	if !found {
		return
	}
	if key != h.items[slot].Key {
		iscollision = true
		var group map[string]int
		group, found = h.collisions[keyhash]
		if found {
			slot, found = group[key]
		}
	}
	if found {
		it = h.items[slot]
	}
	return''')]),
 dict(name='benign-write-end-writeline', kind='benign', rule='all', why='Response.Write: END through writeLine',
      edits=[('memcache/protocol.go', '			WriteFull(w, []byte("\\r\\n"))\n		}\n		io.WriteString(w, "END\\r\\n")\n', '			WriteFull(w, []byte("\\r\\n"))\n		}\n		io.WriteString(w, "END")\n		io.WriteString(w, "\\r\\n")\n')]),
 dict(name='benign-incr-else', kind='benign', rule='all', why='StorageClient.Incr: early return → if/else',
      edits=[('gobeansdb/store.go', '''	if !store.IsValidKeyString(key) {
		cmem.DBRL.SetData.SubCount(1)
		return 0, nil
	}
	ki := s.prepare(key, false)
	newvalue := s.hstore.Incr(ki, value)
	return newvalue, nil''', '''	if store.IsValidKeyString(key) {
		ki := s.prepare(key, false)
		return s.hstore.Incr(ki, value), nil
	}
	cmem.DBRL.SetData.SubCount(1)
	return 0, nil''')]),
 dict(name='benign-sizes-div', kind='benign', rule='all', why='Record.Sizes: rounding through division',
      edits=[('store/item.go', '	return recSize, ((recSize + 255) >> 8) << 8', '	return recSize, (recSize + PADDING - 1) / PADDING * PADDING')]),
]
