package rules

import (
	"go/ast"
	"go/token"
	"os/exec"
	"path/filepath"
	"sort"
	"strings"

	"gbcheck/internal/prog"
)

func init() {
	register(&Property{
		ID:      "C10",
		Clause:  "the value hash is taken before any compression and never recomputed on the compressed bytes (only the two write entry points compute it, each before TryCompress/append); every path that hands a record out of the data layer decompresses it, the hint rebuild decompresses before hashing, and Payload.Getvhash tests the compress flag; the server compress flag and the compressed buffer are installed and removed together with one constant, under a guard on both the client and the server flag, and removal happens only after a successful decompress; the safe decompressors recover panics into an error, check the declared compressed size before decompressing and the decompressed size after; the C decompressor is compiled with its bounds checks",
		NotDec:  "that C and Go QuickLZ invert each other, the threshold arithmetic (256 / 10 KB / 0.7), byte equality of round trips",
		Engines: "E2 guards/dominance + E5 who-may-call + E7 constants/C macros + E8 panic containment",
		Rules: []Rule{
			{"C10.R1", "q", "value hash before compression", c10r1},
			{"C10.R2", "q", "decompress on every read path", c10r2},
			{"C10.R3", "q", "flag and buffer move together", c10r3},
			{"C10.R4", "q", "safe decompress wrappers", c10r4},
			{"C10.R5", "q", "C bounds checks compiled in", c10r5},
			{"C10.R6", "q", "Go decoder takes the header length from the stream", c10r6},
			{"C10.R7", "q", "cgo wrapper geometry (worst-case destination, trimmed result, verified size); whole body compressed after the sample", c10r7},
			{"C10.R8", "q", "value hashes are taken over decompressed bytes", c10r8},
			{"C10.R9", "q", "C and Go compressors agree on the compact-header threshold", c10r9},
			{"C09.R8", "q", "shared: buffer copies are exact", c09r8},
			{"C10.R10", "q", "Go QuickLZ header codec: writer, readers and call sites agree", c10r10},
		},
	})
}

func c10r1(c *Ctx) {
	const R = "C10.R1"
	// who may compute the hash of a payload about to be written
	allowed := map[string]string{"store.Bucket.checkAndSet": "client write entry", "store.Bucket.incr": "incr entry"}
	callers := c.P.CallersOf("store.Payload.CalcValueHash")
	if len(callers) == 0 {
		c.viol(R, "store.Payload.CalcValueHash: computed on the write path", "-", "nobody computes the value hash of a written payload any more")
	}
	for _, call := range callers {
		f := call.Fn
		c.Funcs[f.Key] = true
		if _, ok := allowed[f.Key]; !ok {
			c.viol(R, f.Key+": computes the value hash", call.Pos(), "CalcValueHash is called from "+f.Key+", which is not one of the two write entry points (checkAndSet, incr): on this path the payload may already be compressed (TryCompress runs in checkAndSet and again in AppendRecord), so the hash published to tree and hints would be that of the compressed bytes")
			continue
		}
		// in this function: hash before any TryCompress / Bucket.set / AppendRecord
		later := f.CallsTo("store.Record.TryCompress", kBucketSet, kAppendRecord)
		if len(later) == 0 {
			c.viol(R, f.Key+": CalcValueHash ≺ compress/append", call.Pos(), "the entry point no longer compresses or appends after hashing")
			continue
		}
		for _, l := range later {
			c.Paths++
			okDom := f.CFGFor(l.Expr).Dominates(call.Expr, l.Expr)
			if !okDom {
				// the hash may be skipped only for tombstones (negative version, no value)
				info := f.Info()
				g := f.GuardsAt(call.Expr)
				only := len(g) > 0
				for _, a := range g {
					isVer := func(e ast.Expr) bool { k, _ := prog.FieldOf(info, e); return k == "store.Meta.Ver" }
					if !(prog.AtomCmp(a, token.GEQ, isVer, prog.IsIntConst(info, 0)) || prog.AtomCmp(a, token.GTR, isVer, prog.IsIntConst(info, -1))) {
						only = false
					}
				}
				okDom = only && f.CFGFor(l.Expr).ReachesWithout(call.Expr, l.Expr, nil)
			}
			// TryCompress in checkAndSet is conditional on Ver >= 0 together with the hash: accept same guard region
			c.check(okDom, R, f.Key+": CalcValueHash ≺ "+short(l.Key), l.Pos(), "dominated", "a payload can be compressed/appended before its value hash was computed from the uncompressed bytes")
		}
	}
	// callers of TryCompress: only the write path
	tc := c.P.CallersOf("store.Record.TryCompress")
	var names []string
	for _, call := range tc {
		names = append(names, call.Fn.Key)
	}
	sort.Strings(names)
	okTC := true
	for _, n := range names {
		if n != "store.Bucket.checkAndSet" && n != kAppendRecord {
			okTC = false
		}
	}
	c.check(okTC && len(names) > 0, R, "callers of Record.TryCompress", "-", strings.Join(names, ","), "TryCompress is called from "+strings.Join(names, ",")+": only checkAndSet (after hashing) and dataStore.AppendRecord may compress")
}

func c10r2(c *Ctx) {
	const R = "C10.R2"
	if f := c.fn(R, "store.dataChunk.GetRecordByOffset"); f != nil {
		info := f.Info()
		n := 0
		for _, rs := range f.CFG().Returns() {
			// does this return hand out a record? explicit non-nil first result, or bare return with res != nil known
			hands := false
			var recExpr ast.Expr
			if len(rs.Results) == 3 {
				if !prog.IsNil(info, rs.Results[0]) {
					hands, recExpr = true, rs.Results[0]
				}
			} else if len(rs.Results) == 0 {
				if res := f.Result(0); res != nil && prog.HasNilFact(info, f.GuardsAt(rs), prog.IsObj(info, res), false) {
					hands = true
				} else if res != nil {
					// `if err != nil || res != nil { return }`: one way into the branch is a non-nil record
					for _, a := range f.GuardsAt(rs) {
						if a.Op == token.ILLEGAL && !a.Neg && a.X != nil {
							for _, d := range disjuncts(a.X) {
								if be, ok := prog.Unparen(d).(*ast.BinaryExpr); ok && be.Op == token.NEQ && prog.ObjOf(info, be.X) == res && prog.IsNil(info, be.Y) {
									hands = true
								}
							}
						}
					}
				}
			}
			if !hands {
				continue
			}
			n++
			// a Decompress call dominates this return
			okD := false
			for _, d := range f.CallsTo("store.Payload.Decompress") {
				if f.CFG().Dominates(d.Expr, rs) {
					// same record: the receiver's root is the returned record's root (or the named result)
					if recExpr == nil || prog.RootObj(info, d.Expr.Fun) == prog.RootObj(info, recExpr) {
						okD = true
					}
				}
			}
			c.Paths++
			c.check(okD, R, f.Key+": record returned only after Decompress", c.pos(rs), "dominated", "a record leaves the data layer without passing Payload.Decompress: a server-compressed value reaches the client as QuickLZ bytes with the internal flag bit set")
		}
		if n < 2 {
			c.undec(R, f.Key, "fewer than two record-returning paths (buffer, file) recognised")
		}
	}
	if f := c.fn(R, "store.Bucket.buildHintFromData"); f != nil {
		dec := f.CallsTo("store.Payload.Decompress")
		vh := f.CallsTo("store.Getvhash", "store.Payload.Getvhash")
		ok := len(dec) > 0 && len(vh) > 0
		if ok {
			c.Paths++
			ok = f.CFG().Dominates(dec[0].Expr, vh[0].Expr) || vh[0].Key == "store.Payload.Getvhash"
		}
		c.check(ok, R, f.Key+": Decompress ≺ value hash", f.Pos(), "dominated", "the hint rebuild hashes a record's bytes without decompressing them first: rebuilt hints carry the hash of the compressed bytes")
		if len(vh) > 0 {
			bad := ""
			for _, fr := range f.CallsTo("cmem.CArray.Free", "store.Payload.Free") {
				// a Free of the payload must not precede the hash of its body within one iteration
				c.Paths++
				if f.CFG().ReachesWithout(fr.Expr, vh[0].Expr, f.ContainsCall("store.DataStreamReader.Next")) {
					bad = fr.Pos()
				}
			}
			c.check(bad == "", R, f.Key+": value hashed before its buffer is freed", vh[0].Pos(), "Getvhash ≺ Free", "the decompressed buffer is freed ("+bad+") before its bytes are hashed: for values decompressed into C memory the body is nil by then and the rebuilt hint carries the hash of the empty string")
		}
	}
	if f := c.fn(R, "store.Payload.Getvhash"); f != nil {
		info := f.Info()
		okT := false
		for _, call := range f.CallsTo("store.Getvhash") {
			// the direct hash of p.Body must be under flag&FLAG_COMPRESS == 0
			if prog.MentionsField(info, call.Expr.Args[0], "cmem.CArray.Body") && prog.RootObj(info, call.Expr.Args[0]) == f.Recv() {
				for _, a := range f.GuardsAt(call.Expr) {
					if prog.AtomCmp(a, token.EQL, func(e ast.Expr) bool { return prog.MentionsConst(info, e, "store.FLAG_COMPRESS") }, prog.IsIntConst(info, 0)) {
						okT = true
					}
				}
			}
		}
		c.check(okT, R, f.Key+": hashes the raw body only when not compressed", f.Pos(), "guarded by Flag&FLAG_COMPRESS == 0", "Payload.Getvhash hashes the stored bytes without testing the compress flag")
	}
}

func c10r3(c *Ctx) {
	const R = "C10.R3"
	if f := c.fn(R, "store.Record.TryCompress"); f != nil {
		info := f.Info()
		var swap, flag *ast.AssignStmt
		ast.Inspect(f.Decl.Body, func(x ast.Node) bool {
			as, ok := x.(*ast.AssignStmt)
			if !ok || len(as.Lhs) != 1 {
				return true
			}
			if k, _ := prog.FieldOf(info, as.Lhs[0]); k == "store.Payload.CArray" && as.Tok == token.ASSIGN {
				swap = as
			}
			if k, _ := prog.FieldOf(info, as.Lhs[0]); k == "store.Meta.Flag" {
				flag = as
			}
			return true
		})
		if swap == nil || flag == nil {
			c.viol(R, f.Key+": installs buffer and flag", f.Pos(), "TryCompress no longer installs both the compressed buffer and the compress flag")
		} else {
			// same straight-line region: no return reachable between them, each dominates/postdominates the other
			cfg := f.CFG()
			c.Paths += 2
			first, second := ast.Node(swap), ast.Node(flag)
			if flag.Pos() < swap.Pos() {
				first, second = flag, swap
			}
			esc := cfg.EscapesWithout(first, prog.NodeIs(second), nil)
			c.check(cfg.Dominates(first, second) && !esc.Found, R, f.Key+": buffer swap and flag update are atomic", c.pos(flag), "no exit between them", "the compressed buffer and the compress flag are not installed together: a path installs one without the other (compressed bytes without the flag are served raw; the flag without compressed bytes makes every read fail)")
			okConst := (flag.Tok == token.ADD_ASSIGN || flag.Tok == token.OR_ASSIGN) && prog.ConstObjName(info, flag.Rhs[0]) == "store.FLAG_COMPRESS"
			c.check(okConst, R, f.Key+": adds FLAG_COMPRESS", c.pos(flag), "p.Flag += FLAG_COMPRESS", "the flag installed by TryCompress is not FLAG_COMPRESS")
			// guard: neither client nor server flag set
			g := f.GuardsAt(swap)
			hasClient, hasServer := false, false
			for _, a := range g {
				if a.Op == token.EQL && a.Y != nil {
					if v, ok := prog.ConstInt(info, a.Y); ok && v == 0 {
						if prog.MentionsConst(info, a.X, "store.FLAG_CLIENT_COMPRESS") {
							hasClient = true
						}
						if prog.MentionsConst(info, a.X, "store.FLAG_COMPRESS") {
							hasServer = true
						}
					}
				}
			}
			c.check(hasClient, R, f.Key+": skipped for client-compressed values", c.pos(swap), "Flag&FLAG_CLIENT_COMPRESS == 0", "values the client marked as compressed are compressed again by the server")
			c.check(hasServer, R, f.Key+": skipped when already server-compressed", c.pos(swap), "Flag&FLAG_COMPRESS == 0", "TryCompress runs twice on the write path (checkAndSet, AppendRecord); without the `already compressed` guard a compressible QuickLZ stream is compressed again and the flag is added twice (0x20000): reads return doubly compressed bytes with a foreign flag bit")
		}
	}
	if f := c.fn(R, "store.Payload.Decompress"); f != nil {
		info := f.Info()
		var swap, flag *ast.AssignStmt
		ast.Inspect(f.Decl.Body, func(x ast.Node) bool {
			as, ok := x.(*ast.AssignStmt)
			if !ok || len(as.Lhs) != 1 {
				return true
			}
			if k, _ := prog.FieldOf(info, as.Lhs[0]); k == "store.Payload.CArray" {
				swap = as
			}
			if k, _ := prog.FieldOf(info, as.Lhs[0]); k == "store.Meta.Flag" {
				flag = as
			}
			return true
		})
		dec := f.CallsTo("quicklz.CDecompressSafe", "quicklz.DecompressSafe")
		if swap == nil || flag == nil || len(dec) == 0 {
			c.viol(R, f.Key+": removes buffer and flag", f.Pos(), "Decompress no longer swaps the buffer and clears the flag after a safe decompress")
			return
		}
		errObj := f.ResultObj(dec[0].Expr, 1)
		for _, st := range []*ast.AssignStmt{swap, flag} {
			g := f.GuardsAt(st)
			okErr := errObj != nil && prog.HasNilFact(info, g, prog.IsObj(info, errObj), true)
			okFlag := false
			for _, a := range g {
				if a.Op == token.NEQ && a.Y != nil && prog.MentionsConst(info, a.X, "store.FLAG_COMPRESS") {
					if v, ok := prog.ConstInt(info, a.Y); ok && v == 0 {
						okFlag = true
					}
				}
			}
			what := "buffer swap"
			if st == flag {
				what = "flag clear"
			}
			c.check(okErr, R, f.Key+": "+what+" only after a successful decompress", c.pos(st), "guarded by err == nil", "the "+what+" happens although decompression failed: the record loses its compress flag while still holding compressed bytes (or gets an empty buffer)")
			c.check(okFlag, R, f.Key+": "+what+" only for compressed payloads", c.pos(st), "guarded by Flag&FLAG_COMPRESS != 0", "the "+what+" is applied to payloads that do not carry the server compress flag")
		}
		okConst := (flag.Tok == token.SUB_ASSIGN || flag.Tok == token.AND_NOT_ASSIGN || flag.Tok == token.XOR_ASSIGN) && prog.ConstObjName(info, flag.Rhs[0]) == "store.FLAG_COMPRESS"
		c.check(okConst, R, f.Key+": removes FLAG_COMPRESS", c.pos(flag), "p.Flag -= FLAG_COMPRESS", "the flag removed by Decompress is not the one TryCompress installs")
		c.check(len(dec[0].Expr.Args) == 1 && prog.MentionsField(info, dec[0].Expr.Args[0], "cmem.CArray.Body"), R, f.Key+": decompresses its own body", dec[0].Pos(), "CDecompressSafe(p.Body)", "Decompress does not decompress the payload's own body")
	}
	c10r3b(c)
}

func c10r4(c *Ctx) {
	const R = "C10.R4"
	for _, k := range []string{"quicklz.CDecompressSafe", "quicklz.DecompressSafe"} {
		f := c.fn(R, k)
		if f == nil {
			continue
		}
		info := f.Info()
		errRes := f.Result(1)
		// deferred recover assigning the named error, registered first
		var dfr *ast.DeferStmt
		ast.Inspect(f.Decl.Body, func(x ast.Node) bool {
			if d, ok := x.(*ast.DeferStmt); ok && len(f.CallsIn(d, "builtin.recover")) > 0 {
				dfr = d
			}
			return true
		})
		okRec := false
		if dfr != nil && errRes != nil {
			ast.Inspect(dfr, func(x ast.Node) bool {
				if as, ok := x.(*ast.AssignStmt); ok {
					for _, l := range as.Lhs {
						if prog.ObjOf(info, l) == errRes {
							okRec = true
						}
					}
				}
				return true
			})
		}
		first := len(f.Decl.Body.List) > 0 && dfr != nil && f.Decl.Body.List[0] == ast.Stmt(dfr)
		c.check(okRec && first, R, f.Key+": deferred recover turns a panic into the error result", f.Pos(), "first statement, assigns err", "the safe decompressor does not convert a panic into its error result (recover missing, not first, or not assigning the named error): arbitrary bytes crash the caller")
		// size checks
		dcall := f.CallsTo("quicklz.CDecompress", "quicklz.Decompress")
		if len(dcall) == 0 {
			c.undec(R, f.Key, "decompress call not found")
			continue
		}
		okPre := false
		for _, a := range f.GuardsAt(dcall[0].Expr) {
			isLen := func(e ast.Expr) bool {
				call, ok := prog.Unparen(e).(*ast.CallExpr)
				return ok && prog.CalleeKey(info, call) == "builtin.len" && prog.ObjOf(info, call.Args[0]) == f.Param(0)
			}
			isSizeC := func(e ast.Expr) bool {
				for _, s := range f.SourcesAt(e, dcall[0].Expr) {
					if s.Kind == "call" && s.Key == "quicklz.SizeCompressed" {
						return true
					}
				}
				return false
			}
			if prog.AtomCmp(a, token.EQL, isLen, isSizeC) {
				okPre = true
			}
		}
		c.check(okPre, R, f.Key+": len(src) == SizeCompressed(src) before decompressing", dcall[0].Pos(), "guarded", "the decompressor runs on input whose length does not match the size its header declares: the C/Go decoder reads past the end of the buffer")
		// post: produced size compared with SizeDecompressed
		okPost := false
		if k == "quicklz.DecompressSafe" {
			ast.Inspect(f.Decl.Body, func(x ast.Node) bool {
				if be, ok := x.(*ast.BinaryExpr); ok && be.Op == token.NEQ {
					for _, s := range f.SourcesAt(be.Y, be) {
						if s.Kind == "call" && s.Key == "quicklz.SizeDecompressed" {
							okPost = true
						}
					}
				}
				return true
			})
		} else {
			// CDecompressSafe passes SizeDecompressed to CDecompress, which compares
			for _, s := range f.SourcesAt(dcall[0].Expr.Args[1], dcall[0].Expr) {
				if s.Kind == "call" && s.Key == "quicklz.SizeDecompressed" {
					if g := c.P.F("quicklz.CDecompress"); g != nil {
						ginfo := g.Info()
						ast.Inspect(g.Decl.Body, func(x ast.Node) bool {
							if be, ok := x.(*ast.BinaryExpr); ok && be.Op == token.NEQ && (prog.ObjOf(ginfo, be.Y) == g.Param(1) || prog.ObjOf(ginfo, be.X) == g.Param(1)) {
								okPost = true
							}
							return true
						})
					}
				}
			}
		}
		c.check(okPost, R, f.Key+": decompressed length compared with SizeDecompressed", f.Pos(), "compared", "the safe decompressor does not verify that it produced the declared number of bytes")
	}
}

func c10r5(c *Ctx) {
	const R = "C10.R5"
	dir := filepath.Join(c.Repo, "quicklz")
	out, err := exec.Command("gcc", "-E", "-dM", "-I", dir, filepath.Join(dir, "quicklz.h")).Output()
	if err != nil {
		c.undec(R, "quicklz/quicklz.h", "gcc -E -dM failed: "+err.Error())
		return
	}
	macros := map[string]string{}
	for _, ln := range strings.Split(string(out), "\n") {
		fs := strings.SplitN(ln, " ", 3)
		if len(fs) >= 2 && fs[0] == "#define" {
			v := ""
			if len(fs) == 3 {
				v = fs[2]
			}
			macros[fs[1]] = v
		}
	}
	if _, ok := macros["QLZ_COMPRESSION_LEVEL"]; !ok {
		c.undec(R, "quicklz/quicklz.h", "QLZ_COMPRESSION_LEVEL not defined after preprocessing: header not recognised")
		return
	}
	// also honour -D flags of the cgo directives
	cflags := ""
	if pk := c.P.ByName["quicklz"]; pk != nil {
		for _, g := range pk.GoFiles {
			if b, err := exec.Command("grep", "-h", "#cgo", g).Output(); err == nil {
				cflags += string(b)
			}
		}
	}
	_, safe := macros["QLZ_MEMORY_SAFE"]
	if strings.Contains(cflags, "-DQLZ_MEMORY_SAFE") {
		safe = true
	}
	c.check(safe, R, "quicklz/quicklz.h: QLZ_MEMORY_SAFE defined", "quicklz/quicklz.h", "bounds checks compiled into qlz_decompress",
		"the C decompressor is built without QLZ_MEMORY_SAFE (the #define is commented out): CDecompressSafe's size check covers only the header, so a body that lies about its matches makes qlz_decompress read/write out of bounds in C — Go's recover cannot contain that; 'returns an error instead of crashing' does not hold for arbitrary bytes")
	c.note("quicklz.h macros: level=%s streaming=%s", macros["QLZ_COMPRESSION_LEVEL"], macros["QLZ_STREAMING_BUFFER"])
}

// c10r6: the C compressor emits a 3-byte header for short inputs, the Go one
// always 9: every decoder-side offset must come from headerLen(source).
func c10r6(c *Ctx) {
	const R = "C10.R6"
	f := c.fn(R, "quicklz.Decompress")
	if f == nil {
		return
	}
	info := f.Info()
	uses := 0
	ast.Inspect(f.Decl.Body, func(x ast.Node) bool {
		if e, ok := x.(ast.Expr); ok && prog.ConstObjName(info, e) == "quicklz.DEFAULT_HEADERLEN" {
			uses++
		}
		return true
	})
	hl := len(f.CallsTo("quicklz.headerLen"))
	c.check(uses == 0 && hl > 0, R, f.Key+": header length read from the stream, never assumed", f.Pos(), itoa(hl)+" uses of headerLen(source), 0 of DEFAULT_HEADERLEN",
		"the Go decompressor assumes the 9-byte default header ("+itoa(uses)+" use(s) of DEFAULT_HEADERLEN) instead of reading the header length from the stream: streams the C compressor writes with a 3-byte header (inputs < 216 bytes) decode to shifted, zero-padded bytes of the right length, so DecompressSafe reports no error")
	for _, k := range []string{"quicklz.SizeDecompressed", "quicklz.SizeCompressed"} {
		if g := c.fn(R, k); g != nil {
			c.check(len(g.CallsTo("quicklz.headerLen")) > 0, R, g.Key+": dispatches on headerLen", g.Pos(), "headerLen(source)", k+" no longer distinguishes the 3-byte and the 9-byte header")
		}
	}
}
