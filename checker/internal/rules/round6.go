package rules

import (
	"go/ast"
	"go/token"
	"go/types"
	"strings"

	"gbcheck/internal/prog"
)

// Rules added after round 6 of independently seeded changes (DESIGN.md 10.6).

func init() {
	addRule("C12", Rule{"C12.R11", "q", "no read of a buffer's bytes after its Free on the same path", c12r11})
	addRule("C01", Rule{"C12.R11", "q", "shared: no read of a buffer's bytes after its Free on the same path", c12r11})
	addRule("C13", Rule{"C13.R19", "q", "the buffer walk of getItemCollision reports a collision it has seen when it stops", c13r19})
	addRule("C05", Rule{"C13.R19", "q", "shared: the buffer walk of getItemCollision reports a collision it has seen when it stops", c13r19})
	addRule("C09", Rule{"C09.R10", "q", "a record's key is copied out of the read buffer", c09r10})
	addRule("C11", Rule{"C11.R14", "q", "noreply is an optional field behind the mandatory ones", c11r14})
	addRule("C12", Rule{"C12.R12", "q", "CleanBuffer releases GetData for exactly the keys whose fetch acquired it", c12r12})
	addRule("C14", Rule{"C14.R19", "q", "every item handed out by the hint file reader is a fresh object", c14r19})
	addRule("C13", Rule{"C14.R19", "q", "shared: every item handed out by the hint file reader is a fresh object", c14r19})
	addRule("C03", Rule{"C17.R4", "q", "shared: destination is the range start or the nearest earlier file", c17r4})
	addRule("C06", Rule{"C09.R4", "q", "shared: block size agreement of writer and rebuild scanner", c09r4})
	clause := map[string]string{
		"C12": "nothing reads a buffer's bytes on a path that already freed it; CleanBuffer releases GetData under the key predicate under which the fetch acquired it",
		"C01": "nothing reads a buffer's bytes on a path that already freed it",
		"C13": "the newest-first buffer walk reports a collision it has seen when it stops; hint file readers hand out fresh items",
		"C09": "a record's key is a copy, not a slice of the payload buffer",
		"C11": "noreply is recognised only behind the mandatory fields (constant bound)",
		"C14": "hint file readers hand out fresh items",
	}
	for p, t := range clause {
		if pr := Registry[p]; pr != nil && !strings.Contains(pr.Clause, t) {
			pr.Clause += "; " + t
		}
	}
}

// c12r11: after `x.Free()` (cmem.CArray.Free, also through the embedding
// Payload / Item) nothing on a path from that call reads `x.Body` again:
// Free releases and nils a C-allocated body, so the read sees an empty value
// (or, for a copied slice header, freed memory).
func c12r11(c *Ctx) {
	const R = "C12.R11"
	n := 0
	for _, f := range c.P.SortedFuncs() {
		if f.Pkg.Name == "cmem" {
			continue
		}
		info := f.Info()
		frees := f.CallsTo("cmem.CArray.Free")
		if len(frees) == 0 {
			continue
		}
		for _, fr := range frees {
			se, ok := prog.Unparen(fr.Expr.Fun).(*ast.SelectorExpr)
			if !ok {
				continue
			}
			root := prog.RootObj(info, se.X)
			if root == nil {
				continue
			}
			// deferred frees run at exit
			deferred := false
			for _, a := range f.Enclosing(fr.Expr) {
				if _, isD := a.(*ast.DeferStmt); isD {
					deferred = true
				}
				if _, isL := a.(*ast.FuncLit); isL {
					deferred = true // a closure: runs elsewhere
				}
			}
			if deferred {
				continue
			}
			ownerPath := prog.FieldPath(info, se.X)
			n++
			c.Funcs[f.Key] = true
			bad := ""
			cfg := f.CFGFor(fr.Expr)
			ast.Inspect(f.Decl.Body, func(x ast.Node) bool {
				use, ok := x.(*ast.SelectorExpr)
				if !ok || use.Sel.Name != "Body" || bad != "" {
					return true
				}
				k, _ := prog.FieldOf(info, use)
				if k != "cmem.CArray.Body" || prog.RootObj(info, use.X) != root {
					return true
				}
				// same owner path (x.CArray.Free() vs x.Body through embedding: compare the
				// path up to the embedded CArray)
				up := prog.FieldPath(info, use.X)
				if !(up == ownerPath || strings.HasPrefix(ownerPath, up) || strings.HasPrefix(up, ownerPath)) {
					return true
				}
				if use.Pos() < fr.Expr.End() && !inLoopWith(f, use, fr.Expr) {
					return true
				}
				// a store to Body is not a read
				if as, isA := f.Parent(use).(*ast.AssignStmt); isA {
					for _, l := range as.Lhs {
						if l == ast.Expr(use) {
							return true
						}
					}
				}
				c.Paths++
				if cfg != nil && cfg.ReachesWithout(fr.Expr, use, func(y ast.Node) bool {
					// re-assignment of the owner revives it
					if as, isA := y.(*ast.AssignStmt); isA {
						for _, l := range as.Lhs {
							if prog.RootObj(info, l) == root && !strings.Contains(prog.FieldPath(info, l), "Body") {
								if p := prog.FieldPath(info, l); p == "" || strings.HasPrefix(ownerPath, p) {
									return true
								}
							}
						}
					}
					return false
				}) {
					bad = c.pos(use)
				}
				return true
			})
			c.check(bad == "", R, f.Key+": no read of "+types.ExprString(se.X)+".Body after its Free", fr.Pos(), "none reachable",
				"the bytes of a buffer are read at "+bad+" on a path that has already called Free on it: for a value kept in C memory the body is gone (length 0 / freed memory), so the reply reports a wrong length or content")
		}
	}
	if n < 5 {
		c.undec(R, "cmem.CArray.Free", "fewer than 5 direct Free calls found")
	}
}

func inLoopWith(f *prog.Func, a, b ast.Node) bool {
	for _, x := range f.Enclosing(a) {
		switch x.(type) {
		case *ast.ForStmt, *ast.RangeStmt:
			if x.Pos() <= b.Pos() && b.End() <= x.End() {
				return true
			}
		}
	}
	return false
}

// c13r19: hintChunk.getItemCollision walks the splits newest-first and stops at
// the first split that was already dumped. A collision seen in a newer,
// still-buffered split must be part of what it returns at that point: GC
// relies on it to keep the other key's record.
func c13r19(c *Ctx) {
	const R = "C13.R19"
	f := c.fn(R, "store.hintChunk.getItemCollision")
	if f == nil {
		return
	}
	info := f.Info()
	sig := f.Obj.Type().(*types.Signature)
	ci := -1
	for i := 0; i < sig.Results().Len(); i++ {
		if sig.Results().At(i).Name() == "collision" || (sig.Results().At(i).Type().String() == "bool" && ci < 0 && i >= 2) {
			ci = i
			if sig.Results().At(i).Name() == "collision" {
				break
			}
		}
	}
	if ci < 0 {
		c.undec(R, f.Key, "collision result not identified")
		return
	}
	n := 0
	for _, r := range f.CFG().Returns() {
		if len(r.Results) == 0 {
			n++
			// named results: whatever was accumulated is returned
			c.ok(R, f.Key+": exit returns the named results", c.pos(r), "bare return")
			continue
		}
		if ci >= len(r.Results) {
			continue
		}
		n++
		// inside the loop (or after it), a literal `false` forgets what an earlier iteration saw
		inLoop := false
		for _, a := range f.Enclosing(r) {
			if _, ok := a.(*ast.ForStmt); ok {
				inLoop = true
			}
		}
		v, isC := prog.ConstBool(info, r.Results[ci])
		c.check(!(isC && !v && inLoop), R, f.Key+": exits inside the walk report the collision seen so far", c.pos(r), "the accumulated flag",
			"an exit inside the newest-first walk returns collision=false as a constant: a collision found in a newer, still-buffered split is forgotten when the walk stops at an already dumped split, GC takes the other key's record for garbage and drops it")
	}
	if n == 0 {
		c.undec(R, f.Key, "no return found")
	}
}

// c09r10: readRecordAt reads key and value into one buffer that becomes the
// payload's buffer (freed by Decompress / Free). The record's key must be a
// copy of its own.
func c09r10(c *Ctx) {
	const R = "C09.R10"
	f := c.fn(R, "store.readRecordAt")
	if f == nil {
		return
	}
	info := f.Info()
	var last *ast.AssignStmt
	ast.Inspect(f.Decl.Body, func(x ast.Node) bool {
		if as, ok := x.(*ast.AssignStmt); ok && len(as.Lhs) == 1 {
			if k, _ := prog.FieldOf(info, as.Lhs[0]); k == "store.Record.Key" {
				if last == nil || as.Pos() > last.Pos() {
					last = as
				}
			}
		}
		return true
	})
	if last == nil {
		c.undec(R, f.Key, "no assignment of the record key")
		return
	}
	fresh := false
	if call, ok := prog.Unparen(last.Rhs[0]).(*ast.CallExpr); ok {
		k := prog.CalleeKey(info, call)
		fresh = k == "builtin.make" || k == "builtin.append" || k == "bytes.Clone" || k == "conv"
		if k == "builtin.append" && len(call.Args) > 0 {
			// append([]byte(nil), …) / append([]byte{}, …)
			_, isLit := prog.Unparen(call.Args[0]).(*ast.CompositeLit)
			fresh = isLit || prog.IsNil(info, prog.StripConv(info, call.Args[0]))
		}
	}
	c.check(fresh, R, f.Key+": the key handed out is a copy", c.pos(last), "make + copy",
		"the key of the record returned by readRecordAt is a slice of the read buffer, which is the payload's buffer: Decompress or Free of the payload releases it, and the key (used for the key gate, hints and GC) dangles for records kept in C memory")
}

// c11r14: `noreply` is an optional trailing field. The flag may only be set when
// the line has more fields than the mandatory ones — a constant bound — so that
// a key that happens to be "noreply" is not taken for the option.
func c11r14(c *Ctx) {
	const R = "C11.R14"
	f := c.fn(R, "memcache.Request.Read")
	if f == nil {
		return
	}
	info := f.Info()
	n := 0
	ast.Inspect(f.Decl.Body, func(x ast.Node) bool {
		as, ok := x.(*ast.AssignStmt)
		if !ok || len(as.Lhs) != 1 || len(as.Rhs) != 1 {
			return true
		}
		if k, _ := prog.FieldOf(info, as.Lhs[0]); k != "memcache.Request.NoReply" {
			return true
		}
		if v, isC := prog.ConstBool(info, as.Rhs[0]); isC && !v {
			return true
		}
		n++
		rhs := as.Rhs[0]
		// a boolean local: read through its definition
		if o := prog.ObjOf(info, prog.Unparen(rhs)); o != nil {
			for _, d := range f.DefsOfPath(prog.Unparen(rhs)) {
				if d.Rhs != nil {
					rhs = d.Rhs
				}
			}
		}
		okBound := false
		for _, a := range append(prog.Decompose(rhs, true, as), f.GuardsAt(as)...) {
			isLen := func(e ast.Expr) bool {
				call, ok := prog.Unparen(e).(*ast.CallExpr)
				return ok && prog.CalleeKey(info, call) == "builtin.len"
			}
			bound := func(min int64) func(ast.Expr) bool {
				return func(e ast.Expr) bool {
					v, isC := prog.ConstInt(info, e)
					return isC && v >= min
				}
			}
			if prog.AtomCmp(a, token.GTR, isLen, bound(2)) || prog.AtomCmp(a, token.GEQ, isLen, bound(3)) || prog.AtomCmp(a, token.EQL, isLen, bound(3)) {
				okBound = true
			}
		}
		c.check(okBound, R, f.Key+": NoReply set only with more than the mandatory fields", c.pos(as), "len(parts) > k, k constant",
			"the noreply flag is set without a constant lower bound on the number of fields: a command whose last mandatory field (e.g. the key of `delete noreply`) is the word noreply is executed but never answered")
		return true
	})
	if n < 3 {
		c.undec(R, f.Key, "fewer than 3 noreply assignments found")
	}
}

// c12r12: StorageClient.Get/GetMulti account one GetData unit for every item of
// an ordinary key and none for '@' / '?' keys; Response.CleanBuffer has to use
// the same predicate (the key), not a property of the buffer.
func c12r12(c *Ctx) {
	const R = "C12.R12"
	f := c.fn(R, "memcache.Response.CleanBuffer")
	if f == nil {
		return
	}
	info := f.Info()
	var keyObj types.Object
	ast.Inspect(f.Decl.Body, func(x ast.Node) bool {
		if r, ok := x.(*ast.RangeStmt); ok && r.Key != nil {
			if k, _ := prog.FieldOf(info, r.X); k == "memcache.Response.Items" {
				keyObj = prog.ObjOf(info, r.Key)
			}
		}
		return true
	})
	n := 0
	for _, call := range f.Calls() {
		if cls, d, ok := c12events(f, call.Expr); ok && cls == "G" && d < 0 {
			n++
			gs := f.GuardsAt(call.Expr)
			okKey := keyObj != nil && len(gs) > 0
			for _, a := range gs {
				m := false
				for _, e := range []ast.Expr{a.X, a.Y} {
					if e != nil && keyObj != nil && prog.Mentions(info, e, keyObj) {
						m = true
					}
				}
				if !m {
					okKey = false
				}
			}
			c.check(okKey, R, f.Key+": GetData released under the key predicate", call.Pos(), "key[0] != '@' && key[0] != '?'",
				"the GetData unit of a fetched item is released under a condition that is not the key's class (e.g. the buffer's capacity): items whose body lives on the Go heap were counted with size 0 and are never taken back, GetData.Count grows with every buffered small get")
		}
	}
	if n == 0 {
		c.undec(R, f.Key, "no GetData release found")
	}
}

// c14r19: hintFileReader.next returns a new HintItem each time. The merge keeps
// whole same-hash groups (and the heap keeps one item per source) alive across
// calls, so an item must never be overwritten by a later call.
func c14r19(c *Ctx) {
	const R = "C14.R19"
	f := c.fn(R, "store.hintFileReader.next")
	if f == nil {
		return
	}
	info := f.Info()
	item := f.Result(0)
	n := 0
	check := func(rhs ast.Expr, at ast.Node) {
		n++
		rhs = prog.Unparen(rhs)
		ok := prog.IsNil(info, rhs)
		if call, isC := rhs.(*ast.CallExpr); isC && prog.CalleeKey(info, call) == "builtin.new" {
			ok = true
		}
		if u, isU := rhs.(*ast.UnaryExpr); isU && u.Op == token.AND {
			if _, isLit := prog.Unparen(u.X).(*ast.CompositeLit); isLit {
				ok = true
			}
		}
		c.check(ok, R, f.Key+": item = new(HintItem)", c.pos(at), "fresh allocation", "the item returned by the hint file reader is not a fresh object ("+types.ExprString(rhs)+"): a later call overwrites an item the merge still holds in its same-hash group buffer or heap, keys vanish from the merged file and stale entries are written twice")
	}
	ast.Inspect(f.Decl.Body, func(x ast.Node) bool {
		switch s := x.(type) {
		case *ast.AssignStmt:
			for i, l := range s.Lhs {
				if item != nil && prog.ObjOf(info, l) == item && i < len(s.Rhs) && len(s.Rhs) == len(s.Lhs) {
					check(s.Rhs[i], s)
				}
			}
		case *ast.ReturnStmt:
			if len(s.Results) > 0 {
				if o := prog.ObjOf(info, prog.Unparen(s.Results[0])); o != nil && o != item {
					for _, d := range f.DefsOfPath(prog.Unparen(s.Results[0])) {
						if d.Rhs != nil {
							check(d.Rhs, s)
						}
					}
				} else if o == nil {
					check(s.Results[0], s)
				}
			}
		}
		return true
	})
	if n == 0 {
		c.undec(R, f.Key, "no definition of the returned item found")
	}
}

func init() {
	addRule("C10", Rule{"C10.R12", "q", "the compressor is never handed an empty body", c10r12})
	addRule("C11", Rule{"C10.R12", "q", "shared: the compressor is never handed an empty body (a contained panic, no reply)", c10r12})
}

// c10r12: quicklz.CCompress takes &src[0]. Whether a record is compressed is
// decided on the size of the whole record (key included), so a long key with an
// empty value reaches the compressor unless the body's length is tested.
func c10r12(c *Ctx) {
	const R = "C10.R12"
	n := 0
	for _, f := range c.P.SortedFuncs() {
		if f.Pkg.Name == "quicklz" {
			continue
		}
		info := f.Info()
		for _, call := range f.CallsTo("quicklz.CCompress") {
			n++
			c.Funcs[f.Key] = true
			arg := prog.Unparen(call.Expr.Args[0])
			roots := map[types.Object]bool{}
			if o := prog.ObjOf(info, arg); o != nil {
				roots[o] = true
				for _, d := range f.DefsOfPath(arg) {
					if d.Rhs != nil {
						r := prog.Unparen(d.Rhs)
						if se, ok := r.(*ast.SliceExpr); ok {
							r = prog.Unparen(se.X)
						}
						if o2 := prog.ObjOf(info, r); o2 != nil {
							roots[o2] = true
						}
					}
				}
			}
			ok := false
			for _, a := range f.GuardsAt(call.Expr) {
				isLen := func(e ast.Expr) bool {
					ce, isC := prog.Unparen(e).(*ast.CallExpr)
					if !isC || prog.CalleeKey(info, ce) != "builtin.len" || len(ce.Args) != 1 {
						return false
					}
					x := prog.Unparen(ce.Args[0])
					if o := prog.ObjOf(info, x); o != nil && roots[o] {
						return true
					}
					k, _ := prog.FieldOf(info, x)
					return k == "cmem.CArray.Body"
				}
				if prog.AtomCmp(a, token.GTR, isLen, prog.IsIntConst(info, 0)) || prog.AtomCmp(a, token.NEQ, isLen, prog.IsIntConst(info, 0)) || prog.AtomCmp(a, token.GEQ, isLen, prog.IsIntConst(info, 1)) {
					ok = true
				}
				// len(body) > N with N >= 0 on the path (second call under len(body) > len(try))
				if a.Op == token.GTR && isLen(a.X) {
					ok = true
				}
			}
			c.check(ok, R, f.Key+": CCompress("+types.ExprString(arg)+") only with a non-empty body", call.Pos(), "len(body) > 0 on every path",
				"the compressor, which takes the address of the first byte, is reachable with an empty body: `set <240-byte key> 0 0 0` makes the record larger than a block, TryCompress calls CCompress on zero bytes and panics — the panic is contained, the client gets no STORED and the connection is closed")
		}
	}
	if n == 0 {
		c.undec(R, "quicklz.CCompress", "no call site found")
	}
}
