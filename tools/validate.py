#!/usr/bin/env python3-vt
import json,jsonschema,sys,glob
m=json.load(open('MANIFEST.json'));s=json.load(open('/root/.vp/MANIFEST.schema.json'));jsonschema.validate(m,s)
print('manifest ok: claimed',len(m['checks']),'not_applicable',len(m.get('not_applicable',[])))
es=json.load(open('/root/.vp/EVIDENCE.schema.json'))
for c in m['checks']:
    try:
        e=json.load(open(c['evidence_file']));jsonschema.validate(e,es);print(' evidence ok',c['property_id'],e['coverage']['evaluations'],e['coverage']['distinct_nontrivial'])
    except Exception as ex:
        print(' EVIDENCE PROBLEM',c['property_id'],str(ex)[:200])
