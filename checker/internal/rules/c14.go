package rules

import (
	"go/ast"
	"go/token"
	"go/types"
	"strings"

	"gbcheck/internal/prog"
)

func init() {
	register(&Property{
		ID:      "C14",
		Clause:  "hint item, hint file header and sparse-index row encoders and decoders agree (ranges, widths, fields, declared sizes); key length fits its one-byte field; a reader that tracks a logical offset next to its file descriptor stores the new offset whenever it seeks; the dump order (keyhash, key), the merge order (keyhash, key, position) and the index scan's stop conditions are the same ascending order; merge stamps every item entering the heap with its file's chunk id and keeps the greatest position of equal (hash,key); same-hash groups are reported to the collision table; the recorded data size is the buffer's max offset; results of lookups that may be nil on success are nil-tested before use; a split's recorded data size covers only records accepted into it",
		NotDec:  "item-for-item equality of a round trip, totality of lookup in general, the merge result for all multisets",
		Engines: "E6 codec tables + E7 comparator chains + E2/E3 seek-offset pairing and nil discipline",
		Rules: []Rule{
			{"C14.R1", "q", "three codec agreements", c14r1},
			{"C14.R2", "q", "key length fits one byte", c14r2},
			{"C14.R3", "q", "seek/offset pairing", c14r3},
			{"C14.R4", "q", "comparator agreement", c14r4},
			{"C14.R5", "q", "chunk stamping and last-wins in merge", c14r5},
			{"C13.R6", "q", "shared: same-hash groups reported", c13r6},
			{"C14.R7", "q", "data size recorded", c14r7},
			{"C14.R8", "q", "nil discipline of hint readers", c14r8},
			{"C13.R6b", "q", "shared: merge flushes its last group on every path", c13r6b},
			{"C14.R9", "q", "sparse-index buffer fills every slot", c14r9},
			{"C14.R10", "q", "hint lookups walk chunks and splits newest-first; a buffer keeps the last write of a key", c14r10},
			{"C14.R11", "q", "an item is never dropped when a split is full; newest chunk id tracked", c14r11},
			{"C14.R12", "q", "index file names: writers and the start-up parser agree on the columns", c14r12},
			{"C14.R13", "q", "start-up acceptance of hint files (sequence, coverage)", c14r13},
			{"C14.R14", "q", "split dump discipline (needDump, file before buffer release, id bookkeeping)", c14r14},
			{"C14.R15", "q", "sort/heap interface methods of the dump sorter and the merge heap", c14r15},
			{"C14.R16", "q", "flattened sparse index = every filled slot", c14r16},
			{"C14.R17", "q", "collision table compare-and-set is one critical section", c14r17},
			{"C14.R18", "q", "hint lookup closes its reader on every path", c14r18},
			{"C13.R12", "q", "shared: collision table replacement rule", c13r12},
		},
	})
}

func c14r1(c *Ctx) {
	const R = "C14.R1"
	if fs := c.fns(R, "store.hintFileWriter.writeItem", "store.hintFileReader.next"); fs != nil {
		sz, _ := constVal(c, "store", "HINTITEM_HEAD_SIZE")
		compareCodec(c, R, "hint item", fs[0], fs[1], sz, 6, nil)
	}
	if fs := c.fns(R, "store.hintFileMeta.Dumps", "store.hintFileMeta.Loads"); fs != nil {
		sz, _ := constVal(c, "store", "HINTFILE_HEAD_SIZE")
		compareCodec(c, R, "hint file header", fs[0], fs[1], sz, 3, nil)
	}
	if fs := c.fns(R, "store.hintFileWriter.close", "store.loadHintIndex"); fs != nil {
		compareCodec(c, R, "sparse index row", fs[0], fs[1], 16, 2, nil)
		// stride 16 on the reader side
		f := fs[1]
		info := f.Info()
		okStride := false
		ast.Inspect(f.Decl.Body, func(x ast.Node) bool {
			if as, ok := x.(*ast.AssignStmt); ok && as.Tok == token.ADD_ASSIGN {
				if v, isC := prog.ConstInt(info, as.Rhs[0]); isC && v == 16 {
					okStride = true
				}
			}
			return true
		})
		c.check(okStride, R, f.Key+": row stride 16", f.Pos(), "offset += 16", "the index loader does not step by the 16-byte row the writer emits")
	}
}

func c14r2(c *Ctx) {
	const R = "C14.R2"
	mk, ok := constVal(c, "store", "MAX_KEY_LEN")
	if !ok {
		c.undec(R, "store.MAX_KEY_LEN", "constant not found")
		return
	}
	c.check(mk <= 255 && mk > 0, R, "store.MAX_KEY_LEN fits one byte", "-", itoa(int(mk)), "keys longer than 255 bytes are accepted but the hint item stores the key length in one byte: the hint file becomes unparsable from that item on")
	// config.DefaultMCConfig.MaxKeyLen literal
	if pk := c.P.ByName["config"]; pk != nil {
		found := false
		for _, file := range pk.Syntax {
			ast.Inspect(file, func(x ast.Node) bool {
				if kv, ok := x.(*ast.KeyValueExpr); ok {
					if id, ok := kv.Key.(*ast.Ident); ok && id.Name == "MaxKeyLen" {
						if v, isC := prog.ConstInt(pk.TypesInfo, kv.Value); isC {
							found = true
							c.check(v <= 255 && v > 0, R, "config.DefaultMCConfig.MaxKeyLen fits one byte", c.pos(kv), itoa(int(v)), "the default protocol key limit exceeds 255: stored key sizes no longer fit the one-byte hint field")
						}
					}
				}
				return true
			})
		}
		if !found {
			c.undec(R, "config.DefaultMCConfig.MaxKeyLen", "literal not found")
		}
	}
	if f := c.fn(R, "store.IsValidKeyString"); f != nil {
		info := f.Info()
		okc := false
		ast.Inspect(f.Decl.Body, func(x ast.Node) bool {
			if be, ok := x.(*ast.BinaryExpr); ok && (be.Op == token.GTR || be.Op == token.GEQ) && prog.ConstObjName(info, be.Y) == "store.MAX_KEY_LEN" {
				okc = true
			}
			return true
		})
		c.check(okc, R, f.Key+": rejects len > MAX_KEY_LEN", f.Pos(), "compared", "IsValidKeyString no longer bounds the key length by MAX_KEY_LEN")
	}
	if f := c.fn(R, "store.hintFileWriter.writeItem"); f != nil {
		// the length byte is byte(len(item.Key)) — covered by R1; here: the same expression advances the offset
		info := f.Info()
		okAdv := false
		ast.Inspect(f.Decl.Body, func(x ast.Node) bool {
			if as, ok := x.(*ast.AssignStmt); ok && as.Tok == token.ADD_ASSIGN && prog.IsField(info, "store.hintFileWriter.offset")(as.Lhs[0]) {
				if prog.MentionsConst(info, as.Rhs[0], "store.HINTITEM_HEAD_SIZE") && prog.MentionsField(info, as.Rhs[0], "store.HintItem.Key") {
					okAdv = true
				}
			}
			return true
		})
		c.check(okAdv, R, f.Key+": offset advances by head + key length", f.Pos(), "offset += HINTITEM_HEAD_SIZE + len(key)", "the writer's logical offset (used for the sparse index and the index start) does not advance by the bytes written per item")
	}
}

// seekSites: (*os.File).Seek calls in package store with the reader/writer they belong to.
func c14r3(c *Ctx) {
	const R = "C14.R3"
	c.Floor(R, 4)
	exceptions := map[string]string{
		"store.hintFileWriter.close": "seeks to 0 only to write the header, then closes the file; no further sequential use",
		"store.loadHintIndex":        "plain *os.File without a logical offset; reads the index block once",
	}
	for _, f := range c.P.SortedFuncs() {
		if f.Pkg.Name != "store" {
			continue
		}
		info := f.Info()
		for _, call := range f.CallsTo("os.File.Seek") {
			c.Funcs[f.Key] = true
			key := f.Key + ": fd.Seek paired with offset store"
			if why, ok := exceptions[f.Key]; ok {
				c.ok(R, key, call.Pos(), "frozen exception: "+why)
				continue
			}
			// which object owns the fd?  X.fd.Seek(...)  ->  X
			se, _ := prog.Unparen(call.Expr.Fun).(*ast.SelectorExpr)
			var owner ast.Expr
			if se != nil {
				if fdSel, ok := prog.Unparen(se.X).(*ast.SelectorExpr); ok {
					owner = fdSel.X
				}
			}
			if owner == nil {
				// bare local fd (GetStreamWriter): the struct is built afterwards with offset = the seek result / file size
				if f.Key == "store.GetStreamWriter" {
					okW := false
					ast.Inspect(f.Decl.Body, func(x ast.Node) bool {
						if cl, ok := x.(*ast.CompositeLit); ok {
							for _, el := range cl.Elts {
								if kv, ok := el.(*ast.KeyValueExpr); ok {
									if id, ok := kv.Key.(*ast.Ident); ok && id.Name == "offset" {
										for _, s := range f.SourcesAt(kv.Value, cl) {
											if s.Kind == "call" && (s.Key == "os.FileInfo.Size" || strings.HasSuffix(s.Key, ".Size") || s.Key == "os.File.Seek") {
												okW = true
											}
										}
									}
								}
							}
						}
						return true
					})
					c.check(okW, R, key, call.Pos(), "writer constructed with offset = file size", "the appending writer's logical offset is not initialised from the file size it seeked to")
					continue
				}
				c.undec(R, key, "seek on a file descriptor whose owner object is not recognised")
				continue
			}
			ownerT := info.TypeOf(owner)
			hasOffset := false
			if ownerT != nil {
				t := ownerT
				if p, ok := t.Underlying().(*types.Pointer); ok {
					t = p.Elem()
				}
				if st, ok := t.Underlying().(*types.Struct); ok {
					for i := 0; i < st.NumFields(); i++ {
						if st.Field(i).Name() == "offset" {
							hasOffset = true
						}
					}
				}
			}
			if !hasOffset {
				c.ok(R, key, call.Pos(), "owner has no logical offset field")
				continue
			}
			// an assignment <owner>.offset = … must be reachable-after or dominate, in the same function, on every path from the seek to a normal exit
			ownerPath, _ := prog.PathOf(info, owner)
			isStore := func(n ast.Node) bool {
				as, ok := n.(*ast.AssignStmt)
				if !ok {
					return false
				}
				for _, l := range as.Lhs {
					if p, ok := prog.PathOf(info, l); ok && p == ownerPath+".offset" {
						return true
					}
				}
				return false
			}
			c.Paths++
			cfg := f.CFGFor(call.Expr)
			esc := cfg.EscapesWithout(call.Expr, isStore, nil)
			// stores before the seek in the same straight-line region do not count; but a store that dominates… no: must follow or immediately precede
			before := false
			ast.Inspect(f.Decl.Body, func(x ast.Node) bool {
				if isStore(x) && cfg.Dominates(x, call.Expr) && false {
					before = true
				}
				return true
			})
			c.check(!esc.Found || before, R, key, call.Pos(), "every path after the seek stores "+types.ExprString(owner)+".offset",
				"the file descriptor of a reader that tracks a logical offset is repositioned but the logical offset is not: the reader's end-of-items test (offset >= indexOffset) and reported offsets no longer correspond to the file position, so it runs past the items into the index rows (lookup of an absent key returns an I/O error instead of 'absent')", c.trail(esc.Trail)...)
		}
	}
}

// lessChain extracts the lexicographic chain of a Less method: list of compared field paths.
func lessChain(c *Ctx, f *prog.Func) ([]string, bool) {
	info := f.Info()
	var chain []string
	asc := true
	seen := map[string]bool{}
	ast.Inspect(f.Decl.Body, func(x ast.Node) bool {
		be, ok := x.(*ast.BinaryExpr)
		if !ok {
			return true
		}
		switch be.Op {
		case token.LSS, token.GTR, token.NEQ, token.EQL:
		default:
			return true
		}
		name := func(e ast.Expr) string {
			e = prog.StripConv(info, e)
			if call, ok := e.(*ast.CallExpr); ok {
				if k := prog.CalleeKey(info, call); k == "builtin.len" && len(call.Args) == 1 {
					if fp := prog.FieldPath(info, call.Args[0]); fp != "" {
						return "len(" + fp + ")"
					}
				}
				if k := prog.CalleeKey(info, call); k == "store.Position.CmpKey" {
					if se, ok := prog.Unparen(call.Fun).(*ast.SelectorExpr); ok {
						return prog.FieldPath(info, se.X) + ".CmpKey()"
					}
				}
			}
			return prog.FieldPath(info, e)
		}
		nx, ny := name(be.X), name(be.Y)
		if nx == "" || nx != ny {
			return true
		}
		if !seen[nx] {
			seen[nx] = true
			chain = append(chain, nx)
		}
		// ascending: `a.F < b.F` returned; a is element i
		if be.Op == token.LSS || be.Op == token.GTR {
			rx := prog.RootObj(info, be.X)
			_ = rx
		}
		return true
	})
	// direction: the function must `return a.X < b.X` (a from index i) somewhere and never `return a.X > b.X`
	ast.Inspect(f.Decl.Body, func(x ast.Node) bool {
		if rs, ok := x.(*ast.ReturnStmt); ok && len(rs.Results) == 1 {
			if be, ok := prog.Unparen(rs.Results[0]).(*ast.BinaryExpr); ok && be.Op == token.GTR {
				asc = false
			}
		}
		return true
	})
	return chain, asc
}

func c14r4(c *Ctx) {
	const R = "C14.R4"
	if f := c.fn(R, "store.byKeyHash.Less"); f != nil {
		ch, asc := lessChain(c, f)
		ok := len(ch) == 2 && strings.HasSuffix(ch[0], "Keyhash") && strings.HasSuffix(ch[1], "Key") && asc
		c.check(ok, R, f.Key+": (Keyhash, Key) ascending", f.Pos(), strings.Join(ch, ", "), "a hint buffer is dumped in order ("+strings.Join(ch, ", ")+") but the index scan and the merge assume (Keyhash, Key) ascending")
		// element a is indexed by i, b by j
		info := f.Info()
		okIJ := true
		ast.Inspect(f.Decl.Body, func(x ast.Node) bool {
			if be, ok := x.(*ast.BinaryExpr); ok && be.Op == token.LSS {
				if fp := prog.FieldPath(info, be.X); strings.HasSuffix(fp, "Keyhash") {
					ra := prog.RootObj(info, be.X)
					for _, s := range f.Sources(ast.NewIdent("_")) {
						_ = s
					}
					defs := f.DefsReaching(objPath(info, ra), be)
					for _, d := range defs {
						if d.Rhs != nil && !prog.Mentions(info, d.Rhs, f.Param(0)) {
							okIJ = false
						}
					}
				}
			}
			return true
		})
		c.check(okIJ, R, f.Key+": left operand is element i", f.Pos(), "a = data[idx[i]]", "the operands of Less are swapped (descending order)")
	}
	if f := c.fn(R, "store.mergeHeap.Less"); f != nil {
		ch, asc := lessChain(c, f)
		ok := len(ch) == 3 && strings.HasSuffix(ch[0], "Keyhash") && strings.HasSuffix(ch[1], "Key") && strings.HasSuffix(ch[2], "Pos.CmpKey()") && asc
		c.check(ok, R, f.Key+": (Keyhash, Key, Pos) ascending", f.Pos(), strings.Join(ch, ", "), "the merge heap orders by ("+strings.Join(ch, ", ")+") instead of (Keyhash, Key, position): entries of one key no longer leave the heap oldest-first, so `last of equal (hash,key) wins` keeps an arbitrary position")
	}
	if f := c.fn(R, "store.Position.CmpKey"); f != nil {
		info := f.Info()
		ok := false
		ast.Inspect(f.Decl.Body, func(x ast.Node) bool {
			if be, ok2 := x.(*ast.BinaryExpr); ok2 && (be.Op == token.ADD || be.Op == token.OR) {
				if sh, ok3 := prog.Unparen(be.X).(*ast.BinaryExpr); ok3 && sh.Op == token.SHL {
					ck, w1 := wideConv(info, sh.X)
					off, w2 := wideConv(info, be.Y)
					if k, isC := prog.ConstInt(info, sh.Y); isC && k >= 32 && w1 && w2 && prog.IsField(info, "store.Position.ChunkID")(ck) && prog.IsField(info, "store.Position.Offset")(off) {
						ok = true
					}
				}
			}
			return true
		})
		c.check(ok, R, f.Key+": orders by (ChunkID, Offset)", f.Pos(), "ChunkID<<32 + Offset, both unmasked", "Position.CmpKey no longer ranks the whole chunk id above the whole offset (a masked or truncated chunk id makes later files compare as earlier ones: merge and the collision table keep stale positions)")
	}
	if f := c.fn(R, "store.hintFileIndex.get"); f != nil {
		info := f.Info()
		// scan: it.Keyhash < keyhash => continue ; > => stop (return)
		var lessCont, greaterStop bool
		ast.Inspect(f.Decl.Body, func(x ast.Node) bool {
			is, ok := x.(*ast.IfStmt)
			if !ok {
				return true
			}
			be, ok := prog.Unparen(is.Cond).(*ast.BinaryExpr)
			if !ok || !strings.HasSuffix(prog.FieldPath(info, be.X), "Keyhash") || prog.ObjOf(info, be.Y) != f.Param(0) {
				return true
			}
			last := is.Body.List[len(is.Body.List)-1]
			switch be.Op {
			case token.LSS:
				if b, ok := last.(*ast.BranchStmt); ok && b.Tok == token.CONTINUE {
					lessCont = true
				}
			case token.GTR:
				if _, ok := last.(*ast.ReturnStmt); ok {
					greaterStop = true
				}
				if b, ok := last.(*ast.BranchStmt); ok && b.Tok == token.BREAK {
					greaterStop = true
				}
			}
			return true
		})
		c.check(lessCont && greaterStop, R, f.Key+": scan skips smaller hashes, stops at a larger one", f.Pos(), "< continue, > stop", "the lookup's linear scan no longer matches the ascending key-hash order of the file")
		// binary search predicate: first index with keyhash >= target; start from the entry before it
		okSearch := false
		for _, call := range f.CallsTo("sort.Search") {
			ast.Inspect(call.Expr, func(x ast.Node) bool {
				if be, ok := x.(*ast.BinaryExpr); ok && be.Op == token.GEQ && strings.HasSuffix(prog.FieldPath(info, be.X), "keyhash") {
					okSearch = true
				}
				return true
			})
		}
		c.check(okSearch, R, f.Key+": index search finds the first entry >= target", f.Pos(), "sort.Search(… >= keyhash)", "the sparse-index search predicate is not `entry.keyhash >= target`")
	}
}

func objPath(info *types.Info, o types.Object) string {
	if o == nil {
		return ""
	}
	id := ast.NewIdent(o.Name())
	_ = id
	// reproduce prog.PathOf's naming for a local object
	return o.Name() + "#" + itoa(int(o.Pos()))
}

func c14r5(c *Ctx) {
	const R = "C14.R5"
	f := c.fn(R, "store.merge")
	if f == nil {
		return
	}
	info := f.Info()
	// every `X.curr, err = Y.next()` must be followed, before the item can enter the heap, by X.curr.Pos.ChunkID = <reader>.chunkID
	nexts := f.CallsTo("store.hintFileReader.next")
	if len(nexts) < 2 {
		c.undec(R, f.Key, "fewer than two next() sites in merge")
		return
	}
	enters := append(f.CallsTo("heap.Init"), f.CallsTo("heap.Push")...)
	for ni, nx := range nexts {
		lhs := f.ResultLhs(nx.Expr, 0)
		if lhs == nil {
			c.undec(R, f.Key+": next() result", "result of next() is not assigned")
			continue
		}
		lp, _ := prog.PathOf(info, lhs)
		isStamp := func(n ast.Node) bool {
			as, ok := n.(*ast.AssignStmt)
			if !ok {
				return false
			}
			for i, l := range as.Lhs {
				if p, ok := prog.PathOf(info, l); ok && p == lp+".Pos.ChunkID" && i < len(as.Rhs) && prog.MentionsField(info, as.Rhs[i], "store.hintFileReader.chunkID") {
					return true
				}
			}
			return false
		}
		bad := ""
		if _, isLocal := prog.Unparen(lhs).(*ast.Ident); isLocal {
			// plain local: it enters the heap where it is wrapped into a mergeReader
			lo := prog.ObjOf(info, lhs)
			n := 0
			ast.Inspect(f.Decl.Body, func(x ast.Node) bool {
				cl, ok := x.(*ast.CompositeLit)
				if !ok || !prog.Mentions(info, cl, lo) {
					return true
				}
				if t := info.TypeOf(cl); t == nil || !strings.HasSuffix(t.String(), "mergeReader") {
					return true
				}
				n++
				var stamp ast.Node
				ast.Inspect(f.Decl.Body, func(y ast.Node) bool {
					if isStamp(y) {
						stamp = y
					}
					return true
				})
				c.Paths++
				if stamp == nil || !f.CFG().Dominates(stamp, cl) {
					bad = c.pos(cl)
				}
				return true
			})
			if n == 0 {
				bad = "never wrapped"
			}
		} else {
			for _, e := range enters {
				c.Paths++
				if f.CFG().ReachesWithout(nx.Expr, e.Expr, func(n ast.Node) bool {
					if isStamp(n) {
						return true
					}
					for _, o := range nexts {
						if o.Expr != nx.Expr && prog.NodeIs(o.Expr)(n) {
							return true
						}
					}
					return false
				}) {
					bad = e.Pos()
				}
			}
		}
		c.check(bad == "", R, f.Key+": item from next() #"+itoa(ni+1)+" stamped with its file's chunk id before entering the heap", nx.Pos(), "Pos.ChunkID = reader.chunkID before the item is placed in the heap",
			"an item read from a per-file hint can enter the merge heap (at "+bad+") without its Pos.ChunkID set to the file's chunk id (hint items store chunk 0): the position tie-break and the merged entry's chunk are wrong, so the merge does not keep the greatest (file, offset) position")
	}
	if w := c.fn(R, "store.mergeWriter.write"); w != nil {
		winfo := w.Info()
		// replaces the last buffered item iff hash and key are equal
		var repl *ast.AssignStmt
		ast.Inspect(w.Decl.Body, func(x ast.Node) bool {
			if as, ok := x.(*ast.AssignStmt); ok && len(as.Lhs) == 1 {
				if ix, ok := prog.Unparen(as.Lhs[0]).(*ast.IndexExpr); ok && prog.MentionsField(winfo, ix.X, "store.mergeWriter.buf") {
					if be, ok := prog.Unparen(ix.Index).(*ast.BinaryExpr); ok && be.Op == token.SUB && prog.MentionsField(winfo, be.X, "store.mergeWriter.num") {
						repl = as
					}
				}
			}
			return true
		})
		okR := false
		if repl != nil {
			// guards: ¬(last.Keyhash != it.Keyhash)
			for _, a := range w.GuardsAt(repl) {
				if a.Op == token.EQL && strings.HasSuffix(prog.FieldPath(winfo, a.X), "Keyhash") {
					okR = true
				}
			}
		}
		c.check(okR, R, w.Key+": later item replaces the buffered one of the same (hash,key)", w.Pos(), "buf[num-1] = it under equal hash (slot advanced only for a different key)", "mergeWriter.write no longer overwrites the buffered entry of the same (hash, key) with the later one: the merged file keeps the smallest instead of the greatest position")
	}
}

func lineOf(c *Ctx, n ast.Node) int { return c.P.Fset.Position(n.Pos()).Line }

func c14r7(c *Ctx) {
	const R = "C14.R7"
	if f := c.fn(R, "store.HintBuffer.Dump"); f != nil {
		info := f.Info()
		ws := f.CallsTo("store.newHintFileWriter")
		ok := len(ws) == 1 && prog.IsField(info, "store.HintBuffer.maxoffset")(prog.Unparen(ws[0].Expr.Args[1]))
		c.check(ok, R, f.Key+": file's data size = buffer's max offset", f.Pos(), "newHintFileWriter(path, h.maxoffset, …)", "the hint file header does not record the buffer's max offset as the covered data size: restart rebuilds too little or too much of the data file")
	}
	if f := c.fn(R, "store.hintFileWriter.close"); f != nil {
		dumps := f.CallsTo("store.hintFileMeta.Dumps")
		ren := f.CallsTo("os.Rename")
		fl := f.CallsTo("bufio.Writer.Flush")
		ok := len(dumps) == 1 && len(ren) == 1 && len(fl) >= 1 && f.CFG().Dominates(fl[0].Expr, dumps[0].Expr) && f.CFG().Dominates(dumps[0].Expr, ren[0].Expr)
		c.Paths += 2
		c.check(ok, R, f.Key+": header written after the items and before the rename", f.Pos(), "Flush ≺ Dumps ≺ Rename", "the hint file header (index offset, count, data size) is not written between flushing the items and renaming the file into place")
	}
	// a split's data size covers only records accepted into it
	if f := c.fn(R, "store.HintBuffer.Set"); f != nil {
		info := f.Info()
		recSize := f.Param(1)
		var rejects []*ast.ReturnStmt
		for _, rs := range f.CFG().Returns() {
			if len(rs.Results) == 1 {
				if b, isC := prog.ConstBool(info, rs.Results[0]); isC && !b {
					rejects = append(rejects, rs)
				}
			}
		}
		if len(rejects) == 0 {
			c.undec(R, f.Key, "no `return false` (split full) path recognised")
			return
		}
		bad := ""
		ast.Inspect(f.Decl.Body, func(x ast.Node) bool {
			as, ok := x.(*ast.AssignStmt)
			if !ok || len(as.Lhs) != 1 || !prog.IsField(info, "store.HintBuffer.maxoffset")(as.Lhs[0]) {
				return true
			}
			usesSize := false
			for _, s := range f.SourcesAt(as.Rhs[0], as) {
				if s.Kind == "param" && s.Obj == recSize {
					usesSize = true
				}
			}
			if !usesSize {
				return true
			}
			for _, rj := range rejects {
				c.Paths++
				if f.CFG().ReachesWithout(as, rj, nil) {
					bad = c.pos(as)
				}
			}
			return true
		})
		c.check(bad == "", R, f.Key+": rejected record does not extend the split's data size", f.Pos(), "maxoffset += recSize only on the accepting path", "when a split is full and rejects an item, its recorded data size is still extended to the END of that record ("+bad+"): the dumped split claims to cover a record it does not contain, so after a restart that loses the next split the rebuild starts one record too late and the key is missing or stale")
	}
}

func c14r8(c *Ctx) {
	const R = "C14.R8"
	f := c.fn(R, "store.merge")
	if f == nil {
		return
	}
	nilDiscipline(c, R, f, "store.hintFileReader.next", 0)
}

// nilDiscipline: for every call to callee in f whose result idx is stored in an
// lvalue L, every dereference L.x / *L reached from the call must be dominated
// by a nil test of L (guards contain L != nil) — unless L is reassigned first.
func nilDiscipline(c *Ctx, R string, f *prog.Func, callee string, idx int) {
	info := f.Info()
	for ci, call := range f.CallsTo(callee) {
		lhs := f.ResultLhs(call.Expr, idx)
		if lhs == nil {
			continue
		}
		lp, ok := prog.PathOf(info, lhs)
		if !ok {
			continue
		}
		c.Funcs[f.Key] = true
		redefs := func(n ast.Node) bool {
			as, ok := n.(*ast.AssignStmt)
			if !ok {
				return false
			}
			for _, l := range as.Lhs {
				if p, ok := prog.PathOf(info, l); ok && p == lp && !(n.Pos() <= call.Expr.Pos() && call.Expr.End() <= n.End()) {
					return true
				}
			}
			return false
		}
		bad := ""
		n := 0
		ast.Inspect(f.Decl.Body, func(x ast.Node) bool {
			se, ok := x.(*ast.SelectorExpr)
			if !ok {
				return true
			}
			bp, ok := prog.PathOf(info, se.X)
			if !ok || bp != lp {
				return true
			}
			if sel := info.Selections[se]; sel == nil || sel.Kind() != types.FieldVal {
				return true
			}
			// is this deref reachable from the call without a redefinition?
			if f.EnclosingLit(se) != f.EnclosingLit(call.Expr) {
				return true
			}
			cfg := f.CFGFor(se)
			c.Paths++
			if !cfg.ReachesWithout(call.Expr, se, redefs) {
				return true
			}
			n++
			guarded := prog.HasNilFact(info, f.GuardsAt(se), func(e ast.Expr) bool { p, ok := prog.PathOf(info, e); return ok && p == lp }, false)
			if !guarded {
				bad = c.pos(se)
			}
			return true
		})
		key := f.Key + ": result of " + short(callee) + " #" + itoa(ci+1) + " nil-tested before dereference"
		if n == 0 {
			c.ok(R, key, call.Pos(), "result not dereferenced in this function")
			continue
		}
		c.check(bad == "", R, key, call.Pos(), itoa(n)+" dereference(s), all under a nil test", short(callee)+" can return a nil pointer together with a nil error (end of items / key not known), and its result is dereferenced at "+bad+" without a nil test")
	}
}

// c14r9: hintFileIndexBuffer.append must not leave a hole when a row fills up.
// Either it stores and then rolls over when currCol has reached ROW_SIZE-1, or
// it rolls over first when currCol has reached ROW_SIZE.
func c14r9(c *Ctx) {
	const R = "C14.R9"
	f := c.fn(R, "store.hintFileIndexBuffer.append")
	if f == nil {
		return
	}
	info := f.Info()
	var store ast.Node
	var roll *ast.IfStmt
	var k int64 = -1
	ast.Inspect(f.Decl.Body, func(x ast.Node) bool {
		switch s := x.(type) {
		case *ast.AssignStmt:
			for _, l := range s.Lhs {
				if ix, ok := prog.Unparen(l).(*ast.IndexExpr); ok {
					if ix2, ok := prog.Unparen(ix.X).(*ast.IndexExpr); ok && prog.IsField(info, "store.hintFileIndexBuffer.index")(prog.Unparen(ix2.X)) && prog.IsField(info, "store.hintFileIndexBuffer.currCol")(prog.Unparen(ix.Index)) {
						store = s
					}
				}
			}
		case *ast.IfStmt:
			if be, ok := prog.Unparen(s.Cond).(*ast.BinaryExpr); ok && prog.IsField(info, "store.hintFileIndexBuffer.currCol")(prog.Unparen(be.X)) {
				if v, isC := prog.ConstInt(info, be.Y); isC {
					size, _ := constVal(c, "store", "HINTINDEX_ROW_SIZE")
					switch be.Op {
					case token.GEQ:
						k = size - v
					case token.GTR:
						k = size - v - 1
					case token.EQL:
						k = size - v
					}
					roll = s
				}
			}
		}
		return true
	})
	if store == nil || roll == nil || k < 0 {
		c.undec(R, f.Key, "slot store / row roll-over test not recognised")
		return
	}
	storeFirst := store.Pos() < roll.Pos()
	// an unconditional advance of currCol between the store and the test means
	// the test sees the number of filled slots, not the index just written
	incBefore := false
	for _, st := range f.Decl.Body.List {
		if st.Pos() >= roll.Pos() {
			break
		}
		switch s := st.(type) {
		case *ast.IncDecStmt:
			if s.Tok == token.INC && prog.IsField(info, "store.hintFileIndexBuffer.currCol")(prog.Unparen(s.X)) {
				incBefore = true
			}
		case *ast.AssignStmt:
			if s.Tok == token.ADD_ASSIGN && len(s.Lhs) == 1 && prog.IsField(info, "store.hintFileIndexBuffer.currCol")(prog.Unparen(s.Lhs[0])) {
				incBefore = true
			}
		}
	}
	ok := (storeFirst && !incBefore && k == 1) || (storeFirst && incBefore && k == 0) || (!storeFirst && k == 0)
	c.check(ok, R, f.Key+": roll-over test matches the store/advance order", c.pos(roll), "store then roll at ROW_SIZE-1 (or roll at ROW_SIZE then store)",
		"the row roll-over happens "+map[bool]string{true: "after", false: "before"}[storeFirst]+" the slot store but tests currCol against ROW_SIZE-"+itoa(int(k))+": the last slot of every full row is never written (or one is overwritten), so the persisted sparse index has a zero entry in the middle and the binary search starts the scan at offset 0 or past the item")
}
