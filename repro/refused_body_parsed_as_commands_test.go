package memcache

import (
	"bufio"
	"bytes"
	"strings"
	"testing"

	"github.com/douban/gobeansdb/config"
)

type rwc struct {
	*strings.Reader
	out *bytes.Buffer
}

func (r rwc) Write(p []byte) (int, error) { return r.out.Write(p) }
func (r rwc) Close() error                { return nil }

// A set whose byte count exceeds body_max is refused with CLIENT_ERROR; its data
// block must not be answered a second time as if it were a command.
func TestReproRefusedBodyIsNotParsedAsCommands(t *testing.T) {
	InitTokens()
	old := config.MCConf.BodyMax
	config.MCConf.BodyMax = 10
	defer func() { config.MCConf.BodyMax = old }()
	out := &bytes.Buffer{}
	in := "set k 0 0 20\r\n01234567890123456789\r\nget nokey\r\n"
	c := &ServerConn{rwc: rwc{strings.NewReader(in), out}}
	c.rbuf = bufio.NewReader(c.rwc)
	c.wbuf = bufio.NewWriter(c.rwc)
	c.req = new(Request)
	c.Serve(NewMapStore().Client(), NewStats())
	got := out.String()
	want := "CLIENT_ERROR value too large\r\nEND\r\n"
	t.Logf("replies: %q", got)
	if got != want {
		t.Fatalf("replies: %q, want %q", got, want)
	}
}
