package main

import (
	"fmt"
	"sort"

	"gbcheck/internal/prog"
)

func main() {
	p, err := prog.Load("/repo", false)
	if err != nil {
		panic(err)
	}
	m := p.Locks().DebugEntries()
	var ks []string
	for k := range m {
		ks = append(ks, k)
	}
	sort.Strings(ks)
	for _, k := range ks {
		fmt.Println(k, m[k])
	}
}
