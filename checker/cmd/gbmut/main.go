// gbmut is a development tool of the checker (not a registered check): it
// enumerates small syntactic mutants of the repository's non-test Go source
// (relational/logical operator slips, deleted or swapped statements, off-by-one
// constants, dropped defers, break/continue slips), applies each one to a private
// scratch copy of the tree and runs `gbcheck -property all` on it. The result is
// a map of blind spots: mutants that compile and leave every check silent. It
// never runs gobeansdb code. Survivors are triaged by reading (equivalent /
// caught by the pinned tests / outside the 18 properties / a rule is missing).
//
//	gbmut -repo /repo -gbcheck /verif/bin/gbcheck -verif /verif -out sweep.jsonl [-files store/gc.go,...] [-jobs 12] [-list]
package main

import (
	"bufio"
	"bytes"
	"encoding/json"
	"flag"
	"fmt"
	"go/ast"
	"go/parser"
	"go/printer"
	"go/token"
	"os"
	"os/exec"
	"path/filepath"
	"regexp"
	"sort"
	"strconv"
	"strings"
	"sync"
)

type Mutant struct {
	ID     string   `json:"id"`
	File   string   `json:"file"`
	Line   int      `json:"line"`
	Func   string   `json:"func"`
	Op     string   `json:"op"`
	Desc   string   `json:"desc"`
	Status string   `json:"status,omitempty"` // noncompile | silent | caught | undecided
	Fired  []string `json:"fired,omitempty"`
	// edit: replace bytes [Start,End) of the original file by Repl
	Start int    `json:"start"`
	End   int    `json:"end"`
	Repl  string `json:"repl"`
}

func main() {
	repo := flag.String("repo", "/repo", "repository")
	gb := flag.String("gbcheck", "", "gbcheck binary")
	verif := flag.String("verif", "/verif", "verif dir (known_findings.json is copied from it)")
	out := flag.String("out", "sweep.jsonl", "output (JSON lines)")
	files := flag.String("files", "", "comma-separated repo-relative files (default: all non-test .go files of store, memcache, gobeansdb, cmem, quicklz, config, loghub, utils)")
	funcs := flag.String("funcs", "", "comma-separated function keys to restrict to (e.g. Bucket.checkAndSet,GCMgr.gc)")
	jobs := flag.Int("jobs", 8, "parallel workers")
	list := flag.Bool("list", false, "only list mutants")
	scratch := flag.String("scratch", "", "scratch root (default: mktemp)")
	skipDone := flag.String("skip", "", "existing output file whose mutant ids are skipped")
	flag.Parse()

	var flist []string
	if *files != "" {
		flist = strings.Split(*files, ",")
	} else {
		for _, d := range []string{"store", "memcache", "gobeansdb", "cmem", "quicklz", "config", "loghub", "utils"} {
			m, _ := filepath.Glob(filepath.Join(*repo, d, "*.go"))
			for _, f := range m {
				if strings.HasSuffix(f, "_test.go") {
					continue
				}
				rel, _ := filepath.Rel(*repo, f)
				flist = append(flist, rel)
			}
		}
	}
	sort.Strings(flist)
	only := map[string]bool{}
	for _, f := range strings.Split(*funcs, ",") {
		if f != "" {
			only[f] = true
		}
	}
	var muts []Mutant
	for _, rel := range flist {
		ms, err := enumerate(*repo, rel)
		if err != nil {
			fmt.Fprintln(os.Stderr, "parse", rel, err)
			continue
		}
		for _, m := range ms {
			if len(only) > 0 && !only[m.Func] {
				continue
			}
			muts = append(muts, m)
		}
	}
	done := map[string]bool{}
	if *skipDone != "" {
		if f, err := os.Open(*skipDone); err == nil {
			sc := bufio.NewScanner(f)
			sc.Buffer(make([]byte, 1<<20), 1<<24)
			for sc.Scan() {
				var m Mutant
				if json.Unmarshal(sc.Bytes(), &m) == nil {
					done[m.ID] = true
				}
			}
			f.Close()
		}
	}
	fmt.Fprintf(os.Stderr, "%d mutants in %d files (%d already done)\n", len(muts), len(flist), len(done))
	if *list {
		for _, m := range muts {
			fmt.Printf("%s %s:%d %s %s %s\n", m.ID, m.File, m.Line, m.Func, m.Op, m.Desc)
		}
		return
	}
	if *gb == "" {
		fmt.Fprintln(os.Stderr, "need -gbcheck")
		os.Exit(2)
	}
	root := *scratch
	if root == "" {
		var err error
		root, err = os.MkdirTemp("", "gbmut.")
		if err != nil {
			panic(err)
		}
		defer os.RemoveAll(root)
	}
	of, err := os.OpenFile(*out, os.O_CREATE|os.O_APPEND|os.O_WRONLY, 0644)
	if err != nil {
		panic(err)
	}
	defer of.Close()
	var mu sync.Mutex
	ch := make(chan Mutant)
	var wg sync.WaitGroup
	for w := 0; w < *jobs; w++ {
		wg.Add(1)
		go func(w int) {
			defer wg.Done()
			dir := filepath.Join(root, fmt.Sprintf("w%d", w))
			vdir := filepath.Join(root, fmt.Sprintf("v%d", w))
			os.MkdirAll(vdir, 0755)
			cp := exec.Command("rsync", "-a", "--exclude", ".git", "--exclude", "*.tmp", *repo+"/", dir+"/")
			if b, err := cp.CombinedOutput(); err != nil {
				fmt.Fprintln(os.Stderr, "rsync:", err, string(b))
				return
			}
			kf, _ := os.ReadFile(filepath.Join(*verif, "known_findings.json"))
			os.WriteFile(filepath.Join(vdir, "known_findings.json"), kf, 0644)
			for m := range ch {
				path := filepath.Join(dir, m.File)
				orig, _ := os.ReadFile(filepath.Join(*repo, m.File))
				mut := append(append(append([]byte{}, orig[:m.Start]...), []byte(m.Repl)...), orig[m.End:]...)
				os.WriteFile(path, mut, 0644)
				cmd := exec.Command(*gb, "-verif", vdir, "-repo", dir, "-property", "all", "-no-evidence")
				cmd.Env = append(os.Environ(), "GOFLAGS=-mod=mod", "GOPROXY=off", "GOSUMDB=off", "GOTOOLCHAIN=local")
				b, _ := cmd.CombinedOutput()
				os.WriteFile(path, orig, 0644)
				os.RemoveAll(filepath.Join(vdir, "evidence"))
				classify(&m, string(b))
				js, _ := json.Marshal(m)
				mu.Lock()
				of.Write(append(js, '\n'))
				mu.Unlock()
			}
			os.RemoveAll(dir)
			os.RemoveAll(vdir)
		}(w)
	}
	for _, m := range muts {
		if done[m.ID] {
			continue
		}
		ch <- m
	}
	close(ch)
	wg.Wait()
}

var reViol = regexp.MustCompile(`^(\S+): (C\d\d\.[A-Za-z0-9′']+) `)
var reVline = regexp.MustCompile(`^VIOLATION property=(C\d\d)`)
var reUnd = regexp.MustCompile(`^UNDECIDED property=(C\d\d) rule=(\S+)`)

func classify(m *Mutant, out string) {
	if strings.Contains(out, "reason=type errors") || strings.Contains(out, "reason=packages.Load") {
		m.Status = "noncompile"
		return
	}
	fired := map[string]bool{}
	lastRule := ""
	und := false
	for _, ln := range strings.Split(out, "\n") {
		if mm := reViol.FindStringSubmatch(ln); mm != nil {
			lastRule = mm[2]
		}
		if mm := reVline.FindStringSubmatch(ln); mm != nil {
			fired[mm[1]+"["+lastRule+"]"] = true
		}
		if mm := reUnd.FindStringSubmatch(ln); mm != nil {
			fired[mm[1]+"["+mm[2]+"?]"] = true
			und = true
		}
	}
	for k := range fired {
		m.Fired = append(m.Fired, k)
	}
	sort.Strings(m.Fired)
	switch {
	case len(fired) == 0:
		if strings.Contains(out, "UNDECIDED") {
			m.Status = "undecided"
			m.Fired = []string{firstLine(out, "UNDECIDED")}
		} else {
			m.Status = "silent"
		}
	default:
		m.Status = "caught"
		onlyUnd := true
		for k := range fired {
			if !strings.HasSuffix(k, "?]") {
				onlyUnd = false
			}
		}
		if und && onlyUnd {
			m.Status = "undecided"
		}
	}
}

func firstLine(s, sub string) string {
	for _, ln := range strings.Split(s, "\n") {
		if strings.Contains(ln, sub) {
			if len(ln) > 200 {
				ln = ln[:200]
			}
			return ln
		}
	}
	return ""
}

func enumerate(repo, rel string) ([]Mutant, error) {
	path := filepath.Join(repo, rel)
	src, err := os.ReadFile(path)
	if err != nil {
		return nil, err
	}
	fset := token.NewFileSet()
	f, err := parser.ParseFile(fset, path, src, parser.ParseComments)
	if err != nil {
		return nil, err
	}
	tf := fset.File(f.Pos())
	off := func(p token.Pos) int { return tf.Offset(p) }
	text := func(n ast.Node) string { return string(src[off(n.Pos()):off(n.End())]) }
	var muts []Mutant
	n := 0
	add := func(fn string, pos token.Pos, op, desc string, start, end int, repl string) {
		n++
		muts = append(muts, Mutant{ID: fmt.Sprintf("%s#%d", rel, n), File: rel, Line: fset.Position(pos).Line, Func: fn, Op: op,
			Desc: desc, Start: start, End: end, Repl: repl})
	}
	short := func(s string) string {
		s = strings.Join(strings.Fields(s), " ")
		if len(s) > 70 {
			s = s[:70] + "…"
		}
		return s
	}
	ror := map[token.Token][]token.Token{
		token.LSS: {token.LEQ}, token.LEQ: {token.LSS}, token.GTR: {token.GEQ}, token.GEQ: {token.GTR},
		token.EQL: {token.NEQ}, token.NEQ: {token.EQL}, token.LAND: {token.LOR}, token.LOR: {token.LAND},
		token.ADD: {token.SUB}, token.SUB: {token.ADD},
	}
	isCgo := func(e ast.Expr) bool {
		// skip expressions mentioning the C pseudo-package: mutating them is fine, but keep as is
		return false
	}
	_ = isCgo
	var walkFunc func(fn string, body ast.Node)
	walkFunc = func(fn string, body ast.Node) {
		ast.Inspect(body, func(nd ast.Node) bool {
			switch x := nd.(type) {
			case *ast.BinaryExpr:
				for _, to := range ror[x.Op] {
					if x.Op == token.ADD || x.Op == token.SUB {
						// skip string concatenations (cheap syntactic test) and logging arguments
						if lit, ok := x.X.(*ast.BasicLit); ok && lit.Kind == token.STRING {
							continue
						}
						if lit, ok := x.Y.(*ast.BasicLit); ok && lit.Kind == token.STRING {
							continue
						}
					}
					s := off(x.OpPos)
					add(fn, x.OpPos, "ROR", short(text(x))+"  :  "+x.Op.String()+" -> "+to.String(), s, s+len(x.Op.String()), to.String())
				}
			case *ast.UnaryExpr:
				if x.Op == token.NOT {
					s := off(x.OpPos)
					add(fn, x.OpPos, "NEG", "drop ! in "+short(text(x)), s, s+1, "")
				}
			case *ast.IfStmt:
				// negate a condition that is not a comparison/!x (those are covered by ROR/NEG)
				switch c := x.Cond.(type) {
				case *ast.BinaryExpr:
					_ = c
				case *ast.UnaryExpr:
				default:
					add(fn, x.Cond.Pos(), "NEG", "negate if "+short(text(x.Cond)), off(x.Cond.Pos()), off(x.Cond.End()), "!("+text(x.Cond)+")")
				}
			case *ast.BasicLit:
				if x.Kind == token.INT {
					if v, err := strconv.ParseInt(x.Value, 0, 64); err == nil {
						add(fn, x.Pos(), "CON", x.Value+" -> "+strconv.FormatInt(v+1, 10), off(x.Pos()), off(x.End()), strconv.FormatInt(v+1, 10))
						if v > 0 {
							add(fn, x.Pos(), "CON", x.Value+" -> "+strconv.FormatInt(v-1, 10), off(x.Pos()), off(x.End()), strconv.FormatInt(v-1, 10))
						}
					}
				}
			case *ast.Ident:
				if x.Name == "true" || x.Name == "false" {
					to := "true"
					if x.Name == "true" {
						to = "false"
					}
					add(fn, x.Pos(), "CON", x.Name+" -> "+to, off(x.Pos()), off(x.End()), to)
				}
			case *ast.BranchStmt:
				if x.Label == nil && (x.Tok == token.BREAK || x.Tok == token.CONTINUE) {
					to := "continue"
					if x.Tok == token.CONTINUE {
						to = "break"
					}
					add(fn, x.Pos(), "BRK", x.Tok.String()+" -> "+to, off(x.Pos()), off(x.End()), to)
				}
			case *ast.DeferStmt:
				add(fn, x.Pos(), "DFR", "run now instead of deferred: "+short(text(x.Call)), off(x.Pos()), off(x.Call.Pos()), "")
			case *ast.GoStmt:
				add(fn, x.Pos(), "GO", "synchronous instead of go: "+short(text(x.Call)), off(x.Pos()), off(x.Call.Pos()), "")
			case *ast.BlockStmt:
				stmtMut(fn, x.List, add, off, text, short)
			case *ast.CaseClause:
				stmtMut(fn, x.Body, add, off, text, short)
			case *ast.CommClause:
				stmtMut(fn, x.Body, add, off, text, short)
			}
			return true
		})
	}
	for _, d := range f.Decls {
		switch x := d.(type) {
		case *ast.FuncDecl:
			if x.Body == nil {
				continue
			}
			name := x.Name.Name
			if x.Recv != nil && len(x.Recv.List) > 0 {
				t := x.Recv.List[0].Type
				if s, ok := t.(*ast.StarExpr); ok {
					t = s.X
				}
				if id, ok := t.(*ast.Ident); ok {
					name = id.Name + "." + name
				}
			}
			walkFunc(name, x.Body)
		case *ast.GenDecl:
			if x.Tok == token.CONST || x.Tok == token.VAR {
				for _, sp := range x.Specs {
					vs := sp.(*ast.ValueSpec)
					for _, v := range vs.Values {
						nm := "const"
						if len(vs.Names) > 0 {
							nm = "decl:" + vs.Names[0].Name
						}
						walkFunc(nm, v)
					}
				}
			}
		}
	}
	_ = printer.Fprint
	_ = bytes.Compare
	return muts, nil
}

func stmtMut(fn string, list []ast.Stmt, add func(string, token.Pos, string, string, int, int, string), off func(token.Pos) int, text func(ast.Node) string, short func(string) string) {
	simple := func(s ast.Stmt) bool {
		switch x := s.(type) {
		case *ast.ExprStmt, *ast.IncDecStmt:
			return true
		case *ast.AssignStmt:
			return x.Tok != token.DEFINE
		}
		return false
	}
	isLog := func(s ast.Stmt) bool {
		es, ok := s.(*ast.ExprStmt)
		if !ok {
			return false
		}
		c, ok := es.X.(*ast.CallExpr)
		if !ok {
			return false
		}
		if se, ok := c.Fun.(*ast.SelectorExpr); ok {
			if id, ok := se.X.(*ast.Ident); ok && id.Name == "logger" && se.Sel.Name != "Fatalf" {
				return true
			}
		}
		return false
	}
	for i, s := range list {
		if isLog(s) {
			continue
		}
		switch x := s.(type) {
		case *ast.ExprStmt, *ast.IncDecStmt, *ast.AssignStmt:
			if as, ok := x.(*ast.AssignStmt); ok && as.Tok == token.DEFINE {
				break
			}
			add(fn, s.Pos(), "SDL", "delete: "+short(text(s)), off(s.Pos()), off(s.End()), "")
		case *ast.ReturnStmt:
			// delete an early return (compiles only when it is not needed for termination)
			if i == len(list)-1 || true {
				add(fn, s.Pos(), "SDL", "delete: "+short(text(s)), off(s.Pos()), off(s.End()), "")
			}
		case *ast.IfStmt:
			// delete a whole guard `if c { ... }` without else and without init
			if x.Else == nil && x.Init == nil {
				add(fn, s.Pos(), "SDL", "delete if-block: if "+short(text(x.Cond)), off(s.Pos()), off(s.End()), "")
			}
		}
		if i+1 < len(list) && simple(s) && simple(list[i+1]) && !isLog(list[i+1]) {
			a, b := text(s), text(list[i+1])
			add(fn, s.Pos(), "SWP", "swap: "+short(a)+"  <->  "+short(b), off(s.Pos()), off(list[i+1].End()), b+"\n"+a)
		}
	}
}
