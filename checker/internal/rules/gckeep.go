package rules

import (
	"go/ast"
	"go/token"
	"go/types"
	"sort"
	"strings"

	"gbcheck/internal/prog"
)

// gcModel is the recognised shape of GCMgr.gc's per-record decision.
type gcModel struct {
	f        *prog.Func
	appendGC prog.Call
	keep     types.Object // the keep flag (guards AppendRecordGC)
	found    types.Object // res2 of HTree.get
	treePos  types.Object // res1 of HTree.get
	treeMeta types.Object
	oldPos   types.Object // scanned position (Offset <= res1(Next))
	coll     types.Object // res2 of getCollisionGC
	hintit   types.Object // res0 of getCollisionGC
	hintck   types.Object // res1 of getCollisionGC
	rec      types.Object // res0 of Next
	next     prog.Call
	treeGet  prog.Call
	collGet  *prog.Call
	stores   []keepStore
	problems []string
}

type keepStore struct {
	stmt  *ast.AssignStmt
	value bool
	sig   []string // sorted recognised tags
	unk   []string // unrecognised atoms (positions)
}

func (k keepStore) signature() string { return strings.Join(k.sig, " ∧ ") }

// buildGCModel recognises the constructs of the record loop in GCMgr.gc.
func buildGCModel(c *Ctx, rule string) *gcModel {
	f := c.fn(rule, "store.GCMgr.gc")
	if f == nil {
		return nil
	}
	info := f.Info()
	m := &gcModel{f: f}
	apps := f.CallsTo("store.dataChunk.AppendRecordGC")
	nexts := f.CallsTo("store.DataStreamReader.Next")
	gets := f.CallsTo("store.HTree.get")
	if len(apps) == 0 || len(nexts) == 0 || len(gets) == 0 {
		c.undec(rule, f.Key, "GCMgr.gc no longer has the scan(Next) / tree lookup(HTree.get) / copy(AppendRecordGC) shape")
		return nil
	}
	m.appendGC, m.next, m.treeGet = apps[0], nexts[0], gets[0]
	m.rec = f.ResultObj(m.next.Expr, 0)
	if l := f.ResultLhs(m.next.Expr, 1); l != nil {
		m.oldPos = prog.RootObj(info, l)
	}
	m.treeMeta = f.ResultObj(m.treeGet.Expr, 0)
	m.treePos = f.ResultObj(m.treeGet.Expr, 1)
	m.found = f.ResultObj(m.treeGet.Expr, 2)
	if cg := f.CallsTo("store.hintMgr.getCollisionGC"); len(cg) > 0 {
		m.collGet = &cg[0]
		m.hintit = f.ResultObj(cg[0].Expr, 0)
		m.hintck = f.ResultObj(cg[0].Expr, 1)
		m.coll = f.ResultObj(cg[0].Expr, 2)
	}
	// keep flag: boolean local known true at the copy
	for _, a := range f.GuardsAt(m.appendGC.Expr) {
		if a.Op == token.ILLEGAL && !a.Neg {
			if o := prog.ObjOf(info, a.X); o != nil {
				if b, ok := o.Type().Underlying().(*types.Basic); ok && b.Kind() == types.Bool {
					m.keep = o
				}
			}
		}
	}
	if m.keep == nil || m.found == nil || m.oldPos == nil || m.treePos == nil || m.rec == nil {
		return m
	}
	isPosType := func(e ast.Expr) bool {
		t := info.TypeOf(e)
		return t != nil && strings.HasSuffix(t.String(), "store.Position")
	}
	// classify every store to the keep flag
	ast.Inspect(f.Decl.Body, func(x ast.Node) bool {
		as, ok := x.(*ast.AssignStmt)
		if !ok {
			return true
		}
		for i, l := range as.Lhs {
			if prog.ObjOf(info, l) != m.keep || i >= len(as.Rhs) {
				continue
			}
			v, isConst := prog.ConstBool(info, as.Rhs[i])
			ks := keepStore{stmt: as, value: v}
			if !isConst {
				ks.unk = append(ks.unk, "non-constant value")
				ks.value = true
			}
			for _, a := range f.GuardsAt(as) {
				tag := ""
				if a.Src != nil && a.Src.Pos() < m.treeGet.Expr.Pos() {
					continue // established before the tree lookup: scan-loop environment (err == nil, rec != nil, not cancelled, …)
				}
				switch {
				case a.Op == token.ILLEGAL && prog.ObjOf(info, a.X) == m.found:
					tag = "found"
					if a.Neg {
						tag = "!found"
					}
				case a.Op == token.ILLEGAL && m.coll != nil && prog.ObjOf(info, a.X) == m.coll:
					tag = "coveredByCollision"
					if a.Neg {
						tag = "!coveredByCollision"
					}
				case (a.Op == token.EQL || a.Op == token.NEQ) && a.Y != nil && isPosType(a.X) && isPosType(a.Y):
					ox, oy := prog.ObjOf(info, a.X), prog.ObjOf(info, a.Y)
					other := oy
					if oy == m.oldPos {
						other = ox
					} else if ox != m.oldPos {
						break
					}
					switch {
					case other == m.treePos:
						tag = "scanned==tree"
					case other != nil && m.hintit != nil && isHintPos(f, other, m, as):
						tag = "scanned==collisionItem"
					}
					if tag != "" && a.Op == token.NEQ {
						tag = strings.Replace(tag, "==", "!=", 1)
					}
				case (a.Op == token.EQL || a.Op == token.NEQ) && a.Y != nil && m.hintit != nil &&
					((prog.ObjOf(info, a.X) == m.hintit && prog.IsNil(info, a.Y)) || (prog.ObjOf(info, a.Y) == m.hintit && prog.IsNil(info, a.X))):
					tag = "item==nil"
					if a.Op == token.NEQ {
						tag = "item!=nil"
					}
				case prog.AtomCmp(a, token.GTR, prog.IsField(info, "store.GCState.Begin"), prog.IsIntConst(info, 0)),
					prog.AtomCmp(a, token.GEQ, prog.IsField(info, "store.GCState.Begin"), prog.IsIntConst(info, 1)),
					prog.AtomCmp(a, token.NEQ, prog.IsField(info, "store.GCState.Begin"), prog.IsIntConst(info, 0)):
					tag = "gc.Begin>0"
				case prog.AtomCmp(a, token.LSS, func(e ast.Expr) bool {
					k, _ := prog.FieldOf(info, e)
					return k == "store.Meta.Ver" && prog.RootObj(info, e) == m.rec
				}, prog.IsIntConst(info, 0)):
					tag = "rec.Ver<0"
				case a.Op == token.ILLEGAL && a.Neg && prog.ObjOf(info, a.X) == m.keep:
					tag = "" // `if !keep {continue}` style facts do not occur before stores; ignore
				}
				// offset-only comparison: recognised, wrong parameter
				if tag == "" && (a.Op == token.EQL || a.Op == token.NEQ) && a.Y != nil {
					kx, _ := prog.FieldOf(info, a.X)
					ky, _ := prog.FieldOf(info, a.Y)
					if strings.HasPrefix(kx, "store.Position.") && strings.HasPrefix(ky, "store.Position.") {
						rx, ry := prog.RootObj(info, a.X), prog.RootObj(info, a.Y)
						if (rx == m.oldPos && ry == m.treePos) || (ry == m.oldPos && rx == m.treePos) {
							tag = "scanned." + strings.TrimPrefix(kx, "store.Position.") + "==tree." + strings.TrimPrefix(ky, "store.Position.")
							if a.Op == token.NEQ {
								tag = strings.Replace(tag, "==", "!=", 1)
							}
						}
					}
				}
				if tag == "" {
					if a.X != nil {
						ks.unk = append(ks.unk, c.pos(a.X))
					}
					continue
				}
				ks.sig = append(ks.sig, tag)
			}
			sort.Strings(ks.sig)
			ks.sig = dedup(ks.sig)
			m.stores = append(m.stores, ks)
		}
		return true
	})
	return m
}

func dedup(s []string) []string {
	var out []string
	for i, x := range s {
		if i == 0 || x != s[i-1] {
			out = append(out, x)
		}
	}
	return out
}

// isHintPos: variable o is built as Position{res1(getCollisionGC), hintit.Pos.Offset}.
func isHintPos(f *prog.Func, o types.Object, m *gcModel, at ast.Node) bool {
	info := f.Info()
	var ident *ast.Ident
	ast.Inspect(f.Decl.Body, func(n ast.Node) bool {
		if id, ok := n.(*ast.Ident); ok && info.Defs[id] == o {
			ident = id
		}
		return ident == nil
	})
	if ident == nil {
		return false
	}
	ck := f.SourcesOfField(ident, "ChunkID", at)
	off := f.SourcesOfField(ident, "Offset", at)
	okCk, okOff := len(ck) > 0, len(off) > 0
	for _, s := range ck {
		if !(s.Kind == "call" && s.Key == "store.hintMgr.getCollisionGC" && s.Idx == 1) {
			okCk = false
		}
	}
	for _, s := range off {
		if !(s.Kind == "call" && s.Key == "store.hintMgr.getCollisionGC" && s.Idx == 0 && strings.HasSuffix(s.Field, "Offset")) {
			okOff = false
		}
	}
	return okCk && okOff
}

// the frozen keep table: the only situations in which a scanned record is the
// current one of its key (or a tombstone that must be retained).
var keepTable = map[string]string{
	"found ∧ scanned==tree": "(a) the tree points exactly at the scanned record",
	"coveredByCollision ∧ found ∧ item!=nil ∧ scanned!=tree ∧ scanned==collisionItem": "(b) the collision table / hint buffer item of this key points at the scanned record",
	"coveredByCollision ∧ found ∧ item==nil ∧ scanned!=tree":                          "(c) hash is known to collide, item unknown: conservative keep (guess)",
	"!found ∧ gc.Begin>0 ∧ rec.Ver<0":                                                 "(d) tombstone unknown to a rebuilt tree, pass does not start at file 0",
}
