#!/bin/bash
# tools/trypatch.sh <patch> <Cxx> [Cxx...] : run quick checks of the given properties on a scratch copy of /repo with the patch applied
set -u
P=$1; shift
V=$(cd "$(dirname "$0")/.." && pwd)
W=$(mktemp -d /tmp/gbtry.XXXXXX); trap 'rm -rf "$W"' EXIT
rsync -a --exclude .git /repo/ "$W/"
( cd "$W" && (git apply "$P" 2>/dev/null || patch -p1 -s -f < "$P") ) || { echo "patch failed"; exit 3; }
for p in "$@"; do
  "$V/bin/gbcheck" -verif "$V" -repo "$W" -property $p -tier quick -no-evidence 2>&1 | grep -v '^ok\|KNOWN-FINDING' | sed "s#$W/##g" | cut -c1-400
done
