package rules

import (
	"go/ast"
	"go/token"
	"go/types"
	"regexp"
	"strconv"
	"strings"

	"gbcheck/internal/prog"
)

// Rules for the in-memory/on-disk hint layer between the anchors of C01, C02,
// C13 and C14: the lookup order over chunks and splits, the "never drop an
// item" discipline of the split rotation, the file-name codec shared by the
// writers and the start-up scan, the acceptance of hint files at start-up and
// the dump of splits. Every rule states a necessary condition of the listed
// properties on the construct it names.

// downLoop recognises `for v := init; v >= 0; v--` (also `v > -1`, `v -= 1`).
func downLoop(info *types.Info, fs *ast.ForStmt) (init ast.Expr, v types.Object, ok bool) {
	as, isA := fs.Init.(*ast.AssignStmt)
	if !isA || len(as.Lhs) != 1 || len(as.Rhs) != 1 {
		return nil, nil, false
	}
	v = prog.ObjOf(info, as.Lhs[0])
	if v == nil {
		return nil, nil, false
	}
	be, isB := prog.Unparen(fs.Cond).(*ast.BinaryExpr)
	if !isB || prog.ObjOf(info, be.X) != v {
		return nil, nil, false
	}
	k, isC := prog.ConstInt(info, be.Y)
	if !isC || !((be.Op == token.GEQ && k == 0) || (be.Op == token.GTR && k == -1)) {
		return nil, nil, false
	}
	switch p := fs.Post.(type) {
	case *ast.IncDecStmt:
		if p.Tok != token.DEC || prog.ObjOf(info, p.X) != v {
			return nil, nil, false
		}
	case *ast.AssignStmt:
		one, isOne := prog.ConstInt(info, p.Rhs[0])
		if p.Tok != token.SUB_ASSIGN || prog.ObjOf(info, p.Lhs[0]) != v || !isOne || one != 1 {
			return nil, nil, false
		}
	default:
		return nil, nil, false
	}
	return as.Rhs[0], v, true
}

// isLenMinus1 recognises `len(<field key>) - 1`, directly or through one local.
func isLenMinus1(f *prog.Func, e ast.Expr, at ast.Node, fieldKey string) bool {
	info := f.Info()
	var test func(e ast.Expr, depth int) bool
	isLen := func(e ast.Expr, depth int) bool {
		call, ok := prog.Unparen(e).(*ast.CallExpr)
		if ok {
			if id, isI := call.Fun.(*ast.Ident); isI && id.Name == "len" && len(call.Args) == 1 {
				return prog.IsField(info, fieldKey)(prog.Unparen(call.Args[0])) || localAliasOfField(f, call.Args[0], at, fieldKey)
			}
		}
		if id, isI := prog.Unparen(e).(*ast.Ident); isI && depth < 2 {
			for _, d := range f.DefsOfPath(id) {
				if d.Rhs != nil && d.Idx < 0 {
					if c2, ok := prog.Unparen(d.Rhs).(*ast.CallExpr); ok {
						if id2, isI := c2.Fun.(*ast.Ident); isI && id2.Name == "len" && len(c2.Args) == 1 && (prog.IsField(info, fieldKey)(prog.Unparen(c2.Args[0])) || localAliasOfField(f, c2.Args[0], at, fieldKey)) {
							return true
						}
					}
				}
			}
		}
		return false
	}
	test = func(e ast.Expr, depth int) bool {
		e = prog.Unparen(e)
		if be, ok := e.(*ast.BinaryExpr); ok && be.Op == token.SUB {
			if k, isC := prog.ConstInt(info, be.Y); isC && k == 1 {
				return isLen(be.X, depth)
			}
		}
		if id, isI := e.(*ast.Ident); isI && depth < 2 {
			defs := f.DefsOfPath(id)
			if len(defs) == 0 {
				return false
			}
			for _, d := range defs {
				if d.Rhs == nil || d.Idx >= 0 || !test(d.Rhs, depth+1) {
					return false
				}
			}
			return true
		}
		return false
	}
	return test(e, 0)
}

// localAliasOfField: e is a local whose every definition is the field itself.
func localAliasOfField(f *prog.Func, e ast.Expr, at ast.Node, fieldKey string) bool {
	id, ok := prog.Unparen(e).(*ast.Ident)
	if !ok {
		return false
	}
	defs := f.DefsOfPath(id)
	if len(defs) == 0 {
		return false
	}
	for _, d := range defs {
		if d.Rhs == nil || d.Idx >= 0 || !prog.IsField(f.Info(), fieldKey)(prog.Unparen(d.Rhs)) {
			return false
		}
	}
	return true
}

func topLoops(f *prog.Func) []*ast.ForStmt {
	var out []*ast.ForStmt
	ast.Inspect(f.Decl.Body, func(x ast.Node) bool {
		switch s := x.(type) {
		case *ast.FuncLit:
			return false
		case *ast.ForStmt:
			out = append(out, s)
		}
		return true
	})
	return out
}

// c14r10: every walk over the hint chunks of a bucket and over the splits of a
// chunk goes from the newest to the oldest, so the first hit is the most
// recent record of the key.
func c14r10(c *Ctx) {
	const R = "C14.R10"
	type spec struct {
		key  string
		what string
		init func(f *prog.Func, e ast.Expr, at ast.Node) bool
	}
	fromMax := func(f *prog.Func, e ast.Expr, at ast.Node) bool {
		return prog.IsField(f.Info(), "store.hintMgr.maxChunkID")(prog.Unparen(e))
	}
	fromLast := func(f *prog.Func, e ast.Expr, at ast.Node) bool {
		return isLenMinus1(f, e, at, "store.hintChunk.splits")
	}
	fromMem := func(f *prog.Func, e ast.Expr, at ast.Node) bool {
		srcs := f.SourcesAt(e, at)
		if len(srcs) == 0 {
			return false
		}
		for _, s := range srcs {
			if !(s.Kind == "call" && s.Key == "store.hintChunk.getMemOnly" && s.Idx == 1) {
				return false
			}
		}
		return true
	}
	for _, s := range []spec{
		{"store.hintMgr.getItem", "chunks from maxChunkID down to 0", fromMax},
		{"store.hintMgr.getItemCollision", "chunks from maxChunkID down to 0", fromMax},
		{"store.hintChunk.getMemOnly", "splits from the last down to 0", fromLast},
		{"store.hintChunk.getItemCollision", "splits from the last down to 0", fromLast},
		{"store.hintChunk.get", "file splits from the one the buffer walk stopped at down to 0", fromMem},
	} {
		f := c.fn(R, s.key)
		if f == nil {
			continue
		}
		loops := topLoops(f)
		if len(loops) == 0 {
			c.viol(R, f.Key+": newest-first walk", f.Pos(), "no loop over "+s.what+" found: the lookup no longer visits every chunk/split")
			continue
		}
		ok := true
		bad := ""
		for _, l := range loops {
			init, _, isDown := downLoop(f.Info(), l)
			if !isDown {
				ok, bad = false, c.pos(l)+": not a descending loop ending at 0"
				break
			}
			if !s.init(f, init, l) {
				ok, bad = false, c.pos(l)+": does not start at the newest element ("+types.ExprString(init)+")"
				break
			}
		}
		c.check(ok, R, f.Key+": newest-first walk", f.Pos(), s.what, "the hint lookup does not walk "+s.what+" ("+bad+"): an older record of a key can shadow a newer one, or the newest chunk/split is never consulted", bad)
	}

	// HintBuffer.Set: within one buffer the last write of a key wins.
	if f := c.fn(R, "store.HintBuffer.Set"); f != nil {
		info := f.Info()
		it := f.Param(0)
		var store, index ast.Node
		ast.Inspect(f.Decl.Body, func(x ast.Node) bool {
			if as, ok := x.(*ast.AssignStmt); ok && len(as.Lhs) == 1 && len(as.Rhs) == 1 {
				if ix, isIx := prog.Unparen(as.Lhs[0]).(*ast.IndexExpr); isIx {
					if prog.IsField(info, "store.HintBuffer.items")(prog.Unparen(ix.X)) && prog.ObjOf(info, as.Rhs[0]) == it {
						store = as
					}
					if prog.IsField(info, "store.HintBuffer.index")(prog.Unparen(ix.X)) && prog.MentionsField(info, ix.Index, "store.HintItemMeta.Keyhash") {
						index = as
					}
				}
			}
			return true
		})
		ok := store != nil && index != nil
		if ok {
			g := f.CFG()
			for _, r := range g.Returns() {
				if len(r.Results) == 1 {
					if b, isB := prog.ConstBool(info, r.Results[0]); isB && b {
						if !g.Dominates(store, r) || !g.Dominates(index, r) {
							ok = false
						}
					}
				}
			}
		}
		c.check(ok, R, f.Key+": an accepted item replaces the slot of its key and is indexed", f.Pos(), "items[idx] = it and index[Keyhash] = idx dominate every `return true`", "HintBuffer.Set can report success without storing the item in its slot or without indexing it: the buffer keeps serving the older record of the key")
	}
}

// c14r11: an item handed to the hint layer is never dropped when a split is
// full, and the newest chunk id is tracked.
func c14r11(c *Ctx) {
	const R = "C14.R11"
	if f := c.fn(R, "store.hintChunk.setItem"); f != nil {
		info := f.Info()
		it, rs := f.Param(0), f.Param(1)
		sets := f.CallsTo("store.HintBuffer.Set")
		var first, second *ast.CallExpr
		for _, s := range sets {
			if len(s.Expr.Args) != 2 || prog.ObjOf(info, s.Expr.Args[0]) != it || prog.ObjOf(info, s.Expr.Args[1]) != rs {
				continue
			}
			viaRotate := false
			ast.Inspect(s.Expr.Fun, func(x ast.Node) bool {
				if call, ok := x.(*ast.CallExpr); ok && prog.CalleeKey(info, call) == "store.hintChunk.rotate" {
					viaRotate = true
				}
				return true
			})
			if !viaRotate {
				// receiver local defined from rotate()
				if sel, ok := s.Expr.Fun.(*ast.SelectorExpr); ok {
					if root := prog.RootObj(info, sel.X); root != nil {
						for _, src := range f.SourcesAt(rootIdent(sel.X), s.Expr) {
							if src.Kind == "call" && src.Key == "store.hintChunk.rotate" {
								viaRotate = true
							}
						}
					}
				}
			}
			if viaRotate {
				second = s.Expr
			} else if first == nil {
				first = s.Expr
			}
		}
		if first == nil {
			c.viol(R, f.Key+": item set into the current split", f.Pos(), "no HintBuffer.Set(it, recSize) on the current split")
		} else {
			// current split = last element of chunk.splits
			cur := false
			if sel, ok := first.Fun.(*ast.SelectorExpr); ok {
				if bsel, ok := prog.Unparen(sel.X).(*ast.SelectorExpr); ok { // sp.buf
					cur = isLastSplit(f, bsel.X, first)
				}
			}
			c.check(cur, R, f.Key+": item set into the current split", c.pos(first), "splits[len(splits)-1].buf.Set(it, recSize)", "the item is not set into the last (current) split of the chunk: lookups, which walk the splits newest-first, find an older record first")
			okSecond := false
			if second != nil {
				for _, a := range f.GuardsAt(second) {
					if a.Op == token.ILLEGAL && a.Neg {
						if call, isC := prog.Unparen(a.X).(*ast.CallExpr); isC && call == first {
							okSecond = true
						}
					}
				}
			}
			c.check(okSecond, R, f.Key+": a rejected item goes into a freshly rotated split", c.pos(first), "!Set ⇒ rotate().buf.Set(it, recSize)", "when the current split is full the item is no longer stored in a newly rotated split: the record has no hint and is lost at the next restart (and for colliding keys at once)")
		}
	}
	if f := c.fn(R, "store.hintMgr.setItem"); f != nil {
		info := f.Info()
		it, ck, rs := f.Param(0), f.Param(1), f.Param(2)
		okFwd := false
		for _, s := range f.CallsTo("store.hintChunk.setItem") {
			if len(s.Expr.Args) == 2 && prog.ObjOf(info, s.Expr.Args[0]) == it && prog.ObjOf(info, s.Expr.Args[1]) == rs {
				if sel, ok := s.Expr.Fun.(*ast.SelectorExpr); ok {
					if ix, ok := prog.Unparen(sel.X).(*ast.IndexExpr); ok && prog.IsField(info, "store.hintMgr.chunks")(prog.Unparen(ix.X)) && prog.ObjOf(info, ix.Index) == ck {
						okFwd = true
					}
				}
			}
		}
		c.check(okFwd, R, f.Key+": forwards to chunks[chunkID].setItem(it, recSize)", f.Pos(), "same item, size and chunk", "the item is not handed to the hint chunk of the data file it was written to")
		raised := false
		ast.Inspect(f.Decl.Body, func(x ast.Node) bool {
			if as, ok := x.(*ast.AssignStmt); ok && len(as.Lhs) == 1 && prog.IsField(info, "store.hintMgr.maxChunkID")(prog.Unparen(as.Lhs[0])) && prog.ObjOf(info, as.Rhs[0]) == ck {
				for _, a := range f.GuardsAt(as) {
					if prog.AtomCmp(a, token.GTR, prog.IsObj(info, ck), prog.IsField(info, "store.hintMgr.maxChunkID")) {
						raised = true
					}
				}
				// the raise must not be under any other condition than chunkID > maxChunkID
				for _, a := range f.GuardsAt(as) {
					if !prog.AtomCmp(a, token.GTR, prog.IsObj(info, ck), prog.IsField(info, "store.hintMgr.maxChunkID")) {
						raised = false
					}
				}
			}
			return true
		})
		c.check(raised, R, f.Key+": maxChunkID raised whenever a later chunk receives an item", f.Pos(), "maxChunkID = chunkID under chunkID > maxChunkID only", "the newest hint chunk id is not raised unconditionally when an item arrives for a later chunk: lookups start below it and the close-time dump skips it")
	}
}

func rootIdent(e ast.Expr) ast.Expr {
	for {
		switch x := prog.Unparen(e).(type) {
		case *ast.SelectorExpr:
			e = x.X
		case *ast.IndexExpr:
			e = x.X
		case *ast.StarExpr:
			e = x.X
		default:
			return x
		}
	}
}

// isLastSplit: e denotes chunk.splits[len(chunk.splits)-1] (through locals).
func isLastSplit(f *prog.Func, e ast.Expr, at ast.Node) bool {
	info := f.Info()
	e = prog.Unparen(e)
	if id, ok := e.(*ast.Ident); ok {
		defs := f.DefsOfPath(id)
		if len(defs) == 0 {
			return false
		}
		for _, d := range defs {
			if d.Rhs == nil || d.Idx >= 0 || !isLastSplit(f, d.Rhs, d.Stmt) {
				return false
			}
		}
		return true
	}
	ix, ok := e.(*ast.IndexExpr)
	if !ok {
		return false
	}
	if !(prog.IsField(info, "store.hintChunk.splits")(prog.Unparen(ix.X)) || localAliasOfField(f, ix.X, at, "store.hintChunk.splits")) {
		return false
	}
	return isLenMinus1(f, ix.Index, at, "store.hintChunk.splits")
}

var fmtPad = regexp.MustCompile(`^%0(\d+)d$`)

// c14r12: the writers of index file names and the start-up scan that parses
// them agree on the layout <chunk:W>.<split:W>.idx.<suffix>.
func c14r12(c *Ctx) {
	const R = "C14.R12"
	width := int64(-1)
	if f := c.fn(R, "store.idToStr"); f != nil {
		info := f.Info()
		star := false
		for _, r := range f.CFG().Returns() {
			if len(r.Results) == 1 {
				if s, ok := prog.ConstString(info, r.Results[0]); ok && s == "*" {
					for _, a := range f.GuardsAt(r) {
						if prog.AtomCmp(a, token.LSS, prog.IsObj(info, f.Param(0)), prog.IsIntConst(info, 0)) {
							star = true
						}
					}
				}
				if call, ok := prog.Unparen(r.Results[0]).(*ast.CallExpr); ok && prog.CalleeKey(info, call) == "fmt.Sprintf" && len(call.Args) == 2 {
					if s, ok := prog.ConstString(info, call.Args[0]); ok {
						if m := fmtPad.FindStringSubmatch(s); m != nil && prog.ObjOf(info, call.Args[1]) == f.Param(0) {
							w, _ := strconv.Atoi(m[1])
							width = int64(w)
						}
					}
				}
			}
		}
		c.check(width > 0 && star, R, f.Key+": zero-padded fixed width, `*` for a negative id", f.Pos(), "width "+itoa(int(width)), "ids are no longer printed zero-padded to a fixed width (or the glob wildcard for a negative id is gone): the name parser reads fixed columns")
	}
	if width <= 0 {
		return
	}
	W := width
	if f := c.fn(R, "store.getIndexPath"); f != nil {
		info := f.Info()
		ok := false
		for _, call := range f.CallsTo("fmt.Sprintf") {
			if len(call.Expr.Args) != 5 {
				continue
			}
			s, isS := prog.ConstString(info, call.Expr.Args[0])
			if !isS || s != "%s/%s.%s.idx.%s" {
				// accept any format whose file part is <%s>.<%s>.idx.<%s>
				if i := strings.LastIndex(s, "/"); !isS || i < 0 || s[i+1:] != "%s.%s.idx.%s" {
					continue
				}
			}
			a1, isC1 := prog.Unparen(call.Expr.Args[2]).(*ast.CallExpr)
			a2, isC2 := prog.Unparen(call.Expr.Args[3]).(*ast.CallExpr)
			if isC1 && isC2 && prog.CalleeKey(info, a1) == "store.idToStr" && prog.CalleeKey(info, a2) == "store.idToStr" &&
				prog.ObjOf(info, a1.Args[0]) == f.Param(1) && prog.ObjOf(info, a2.Args[0]) == f.Param(2) &&
				prog.ObjOf(info, call.Expr.Args[1]) == f.Param(0) && prog.ObjOf(info, call.Expr.Args[4]) == f.Param(3) {
				ok = true
			}
		}
		c.check(ok, R, f.Key+": <home>/<chunk>.<split>.idx.<suffix>", f.Pos(), "chunk id first, split id second, both through idToStr", "the index file name is no longer <chunk>.<split>.idx.<suffix> with the chunk id first: files are written under names the start-up scan attributes to another chunk/split")
	}
	sliceOf := func(f *prog.Func, lo, hi int64) bool {
		info := f.Info()
		found := false
		ast.Inspect(f.Decl.Body, func(x ast.Node) bool {
			if se, ok := x.(*ast.SliceExpr); ok {
				l := int64(0)
				if se.Low != nil {
					v, isC := prog.ConstInt(info, se.Low)
					if !isC {
						return true
					}
					l = v
				}
				if se.High == nil {
					return true
				}
				h, isC := prog.ConstInt(info, se.High)
				if isC && l == lo && h == hi {
					found = true
				}
			}
			return true
		})
		return found
	}
	if f := c.fn(R, "store.parseChunkIDFromName"); f != nil {
		c.check(sliceOf(f, 0, W) && len(f.CallsTo("strconv.Atoi")) == 1, R, f.Key+": columns [0:W]", f.Pos(), "Atoi(name[:"+itoa(int(W))+"])", "the chunk id is not parsed from the first W characters of the name, where idToStr/getIndexPath put it")
	}
	if f := c.fn(R, "store.parseSplitIDFromName"); f != nil {
		c.check(sliceOf(f, W+1, 2*W+1) && len(f.CallsTo("strconv.Atoi")) == 1, R, f.Key+": columns [W+1:2W+1]", f.Pos(), "Atoi(name["+itoa(int(W+1))+":"+itoa(int(2*W+1))+"])", "the split id is not parsed from the columns after `<chunk>.`, where getIndexPath puts it")
	}
	if f := c.fn(R, "store.hintMgr.findValidPaths"); f != nil {
		c.check(sliceOf(f, W+1, 2*W+1) || len(f.CallsTo("store.parseSplitIDFromName")) > 0, R, f.Key+": split id from columns [W+1:2W+1]", f.Pos(), "same columns as parseSplitIDFromName", "the start-up scan of hint files reads the split id from other columns than the writer uses")
	}
	if f := c.fn(R, "store.parseIDFromName"); f != nil {
		info := f.Info()
		ok := false
		var ckObj, spObj types.Object
		for _, as := range f.AssignsFrom("store.parseChunkIDFromName") {
			ckObj = prog.ObjOf(info, as.Lhs[0])
		}
		for _, as := range f.AssignsFrom("store.parseSplitIDFromName") {
			spObj = prog.ObjOf(info, as.Lhs[0])
		}
		ast.Inspect(f.Decl.Body, func(x ast.Node) bool {
			if cl, isL := x.(*ast.CompositeLit); isL {
				if tv, has := info.Types[cl]; has && tv.Type.String() == "github.com/douban/gobeansdb/store.HintID" {
					var ce, se ast.Expr
					if len(cl.Elts) == 2 {
						ce, se = cl.Elts[0], cl.Elts[1]
						if kv, isKV := ce.(*ast.KeyValueExpr); isKV {
							ce, se = nil, nil
							for _, e := range cl.Elts {
								kv = e.(*ast.KeyValueExpr)
								switch kv.Key.(*ast.Ident).Name {
								case "Chunk":
									ce = kv.Value
								case "Split":
									se = kv.Value
								}
							}
						}
					}
					if ce != nil && se != nil && ckObj != nil && prog.ObjOf(info, ce) == ckObj && prog.ObjOf(info, se) == spObj {
						ok = true
					}
				}
			}
			return true
		})
		c.check(ok, R, f.Key+": HintID{chunk, split} in field order", f.Pos(), "Chunk from the chunk columns, Split from the split columns", "the parsed ids are swapped or not both used when the HintID of a file name is built")
		// both parse errors are required to be nil
		okErr := false
		for _, r := range f.CFG().Returns() {
			if len(r.Results) == 2 {
				if b, isB := prog.ConstBool(info, r.Results[1]); isB && b {
					n := 0
					for _, a := range f.GuardsAt(r) {
						if a.Op == token.EQL && prog.IsNil(info, a.Y) {
							n++
						}
					}
					okErr = n >= 2
				}
			}
		}
		c.check(okErr, R, f.Key+": ok only when both ids parsed", f.Pos(), "err1 == nil && err2 == nil", "a name whose chunk or split id did not parse is accepted as an index file")
	}
	if f := c.fn(R, "store.hintMgr.getPath"); f != nil {
		info := f.Info()
		ok := false
		for _, call := range f.CallsTo("store.getIndexPath") {
			if len(call.Expr.Args) == 4 && prog.IsField(info, "store.hintMgr.home")(prog.Unparen(call.Expr.Args[0])) && prog.ObjOf(info, call.Expr.Args[1]) == f.Param(0) && prog.ObjOf(info, call.Expr.Args[2]) == f.Param(1) {
				ok = true
			}
		}
		c.check(ok, R, f.Key+": getIndexPath(home, chunkID, splitID, suffix)", f.Pos(), "ids forwarded in order", "hint file paths are built with chunk and split id swapped or from another directory")
	}
	if f := c.fn(R, "store.Bucket.getHtreePath"); f != nil {
		info := f.Info()
		ok := false
		for _, call := range f.CallsTo("store.getIndexPath") {
			if len(call.Expr.Args) == 4 && prog.ObjOf(info, call.Expr.Args[1]) == f.Param(0) && prog.ObjOf(info, call.Expr.Args[2]) == f.Param(1) {
				if s, isS := prog.ConstString(info, call.Expr.Args[3]); isS && s == "hash" {
					ok = true
				}
			}
		}
		hs, _ := constStr(c, "store", "HTREE_SUFFIX")
		c.check(ok && hs == "hash", R, f.Key+": tree dump named <chunk>.<split>.idx.hash = HTREE_SUFFIX", f.Pos(), "same suffix as the start-up scan (getAllIndex(HTREE_SUFFIX))", "the tree dump is written under a suffix the start-up scan does not look for (or ids swapped)")
	}
}

func constStr(c *Ctx, pkg, name string) (string, bool) {
	for _, p := range c.P.Pkgs {
		if p.Name == pkg {
			if o := p.Types.Scope().Lookup(name); o != nil {
				if k, ok := o.(*types.Const); ok {
					s := k.Val().ExactString()
					if u, err := strconv.Unquote(s); err == nil {
						return u, true
					}
				}
			}
		}
	}
	return "", false
}

// c14r13: start-up acceptance of the hint files of one chunk.
func c14r13(c *Ctx) {
	const R = "C14.R13"
	if f := c.fn(R, "store.hintMgr.findValidPaths"); f != nil {
		info := f.Info()
		g := f.CFG()
		var rng *ast.RangeStmt
		ast.Inspect(f.Decl.Body, func(x ast.Node) bool {
			if r, ok := x.(*ast.RangeStmt); ok && rng == nil {
				rng = r
			}
			return true
		})
		sorted := false
		for _, s := range f.CallsTo("sort.Sort", "sort.Strings") {
			if rng != nil && g.Dominates(s.Expr, rng) {
				sorted = true
			}
		}
		c.check(rng != nil && sorted, R, f.Key+": names sorted before the sequence check", f.Pos(), "sort ≺ loop", "the hint files of a chunk are not sorted before their split ids are checked for being 0,1,2,…: valid files are deleted as out of sequence")
		// append under sid == n, n++ in the same branch
		okApp, okInc := false, false
		var nObj types.Object
		ast.Inspect(f.Decl.Body, func(x ast.Node) bool {
			if as, ok := x.(*ast.AssignStmt); ok && len(as.Rhs) == 1 {
				if call, isC := prog.Unparen(as.Rhs[0]).(*ast.CallExpr); isC {
					if id, isI := call.Fun.(*ast.Ident); isI && id.Name == "append" && prog.ObjOf(info, as.Lhs[0]) == f.Result(0) {
						for _, a := range f.GuardsAt(as) {
							if a.Op == token.EQL && a.X != nil && a.Y != nil && !prog.IsNil(info, a.Y) && !prog.IsNil(info, a.X) {
								nObj = prog.ObjOf(info, a.Y)
								if nObj == nil {
									nObj = prog.ObjOf(info, a.X)
								}
								okApp = true
							}
						}
					}
				}
			}
			return true
		})
		if nObj != nil {
			ast.Inspect(f.Decl.Body, func(x ast.Node) bool {
				if incX, incTok, ok := incDecNode(info, x); ok && incTok == token.INC && prog.ObjOf(info, incX) == nObj {
					inc := x
					for _, a := range f.GuardsAt(inc) {
						if a.Op == token.EQL && (prog.ObjOf(info, a.Y) == nObj || prog.ObjOf(info, a.X) == nObj) {
							okInc = true
						}
					}
				}
				return true
			})
		}
		c.check(okApp && okInc, R, f.Key+": a file is accepted iff its split id is the next expected one", f.Pos(), "append and n++ under sid == n", "hint files are accepted although their split id is not the next in sequence (or the expected id does not advance with each accepted file): a gap in the splits goes unnoticed and its records are not rebuilt")
	}
	if f := c.fn(R, "store.hintMgr.loadHintsByChunk"); f != nil {
		info := f.Info()
		res := f.Result(0)
		ok := true
		n := 0
		ast.Inspect(f.Decl.Body, func(x ast.Node) bool {
			if as, isA := x.(*ast.AssignStmt); isA {
				for i, l := range as.Lhs {
					if prog.ObjOf(info, l) == res && len(as.Rhs) == len(as.Lhs) {
						n++
						if !prog.IsField(info, "store.hintFileMeta.datasize")(prog.Unparen(as.Rhs[i])) {
							ok = false
						}
					}
				}
			}
			return true
		})
		for _, r := range f.CFG().Returns() {
			for _, e := range r.Results {
				if v, isC := prog.ConstInt(info, e); !(isC && v == 0) && prog.ObjOf(info, e) != res {
					ok = false
				}
			}
		}
		c.check(ok && n >= 1, R, f.Key+": reported coverage = data size recorded in a loaded hint file (or 0)", f.Pos(), "result only from sp.file.datasize", "the data size the hints are said to cover no longer comes from the header of a hint file that was loaded: the rebuild from data starts too late and records between are unindexed")
		// a loaded file split is inserted before the (empty) buffer split
		okIns := false
		ast.Inspect(f.Decl.Body, func(x ast.Node) bool {
			if as, isA := x.(*ast.AssignStmt); isA && len(as.Lhs) == 1 && len(as.Rhs) == 1 {
				if ix, isIx := prog.Unparen(as.Lhs[0]).(*ast.IndexExpr); isIx && prog.IsField(info, "store.hintChunk.splits")(prog.Unparen(ix.X)) && isLenMinus1(f, ix.Index, as, "store.hintChunk.splits") {
					okIns = true
				}
			}
			return true
		})
		c.check(okIns, R, f.Key+": loaded splits go before the buffer split, in file order", f.Pos(), "splits[len-1] = loaded; append(buffer split)", "loaded hint splits are not inserted before the chunk's buffer split: the split index no longer equals the split id of the file")
	}
	c14r13b(c)
}

// c14r14: dumping splits.
func c14r14(c *Ctx) {
	const R = "C14.R14"
	if f := c.fn(R, "store.hintSplit.needDump"); f != nil {
		info := f.Info()
		nilFile, hasNum := false, false
		ast.Inspect(f.Decl.Body, func(x ast.Node) bool {
			if be, ok := x.(*ast.BinaryExpr); ok {
				if be.Op == token.EQL && prog.IsField(info, "store.hintSplit.file")(prog.Unparen(be.X)) && prog.IsNil(info, be.Y) {
					nilFile = true
				}
				if be.Op == token.GTR && prog.IsField(info, "store.HintBuffer.num")(prog.Unparen(be.X)) {
					if v, isC := prog.ConstInt(info, be.Y); isC && v == 0 {
						hasNum = true
					}
				}
			}
			return true
		})
		c.check(nilFile && hasNum, R, f.Key+": file == nil && buf.num > 0", f.Pos(), "a split is dumped once, and only when it holds items", "needDump no longer means `not yet dumped and not empty`")
	}
	if f := c.fn(R, "store.hintMgr.dump"); f != nil {
		info := f.Info()
		g := f.CFG()
		dumps := f.CallsTo("store.HintBuffer.Dump")
		var nilBuf ast.Node
		ast.Inspect(f.Decl.Body, func(x ast.Node) bool {
			if as, ok := x.(*ast.AssignStmt); ok && len(as.Lhs) == 1 && prog.IsField(info, "store.hintSplit.buf")(prog.Unparen(as.Lhs[0])) && prog.IsNil(info, as.Rhs[0]) {
				nilBuf = as
			}
			return true
		})
		ok := len(dumps) == 1
		if ok {
			// result 0 stored into sp.file
			stored := false
			ast.Inspect(f.Decl.Body, func(x ast.Node) bool {
				if as, isA := x.(*ast.AssignStmt); isA && len(as.Rhs) == 1 && prog.Unparen(as.Rhs[0]) == ast.Expr(dumps[0].Expr) && len(as.Lhs) == 2 && prog.IsField(info, "store.hintSplit.file")(prog.Unparen(as.Lhs[0])) {
					stored = true
				}
				return true
			})
			ok = stored && (nilBuf == nil || g.Dominates(dumps[0].Expr, nilBuf))
		}
		c.check(ok, R, f.Key+": sp.file = Dump(...) before sp.buf is dropped", f.Pos(), "file stored, buffer released afterwards", "the split's buffer is released before (or without) its file index being stored: its items are unreachable for lookups")
		// path of the dump = getPath(chunkID, splitID, false) with the same ids that select the split
		okPath := false
		for _, p := range f.CallsTo("store.hintMgr.getPath") {
			if len(p.Expr.Args) == 3 && prog.ObjOf(info, p.Expr.Args[0]) == f.Param(0) && prog.ObjOf(info, p.Expr.Args[1]) == f.Param(1) {
				if b, isB := prog.ConstBool(info, p.Expr.Args[2]); isB && !b {
					okPath = true
				}
			}
		}
		selOK := false
		ast.Inspect(f.Decl.Body, func(x ast.Node) bool {
			if ix, isIx := x.(*ast.IndexExpr); isIx && prog.IsField(info, "store.hintChunk.splits")(prog.Unparen(ix.X)) && prog.ObjOf(info, ix.Index) == f.Param(1) {
				selOK = true
			}
			return true
		})
		c.check(okPath && selOK, R, f.Key+": split (chunkID, splitID) dumped to the file named (chunkID, splitID)", f.Pos(), "getPath(chunkID, splitID, false)", "a split is dumped under the name of another chunk/split")
		okMax := false
		for _, s := range f.CallsTo("store.HintID.setIfLarger") {
			if len(s.Expr.Args) == 2 && prog.ObjOf(info, s.Expr.Args[0]) == f.Param(0) && prog.ObjOf(info, s.Expr.Args[1]) == f.Param(1) {
				for _, a := range f.GuardsAt(s.Expr) {
					if a.Op == token.EQL && prog.IsNil(info, a.Y) {
						okMax = true
					}
				}
			}
		}
		c.check(okMax, R, f.Key+": maxDumpedHintID advanced only after a successful dump", f.Pos(), "setIfLarger(chunkID, splitID) under err == nil", "the id of the last dumped split is advanced although the dump failed (or with other ids): a later tree dump claims to cover a split that is not on disk")
	}
	if f := c.fn(R, "store.HintID.setIfLarger"); f != nil {
		info := f.Info()
		n := 0
		ast.Inspect(f.Decl.Body, func(x ast.Node) bool {
			if as, ok := x.(*ast.AssignStmt); ok && len(as.Lhs) == 1 && len(as.Rhs) == 1 {
				if prog.IsField(info, "store.HintID.Chunk")(prog.Unparen(as.Lhs[0])) && prog.ObjOf(info, as.Rhs[0]) == f.Param(0) {
					n++
				}
				if prog.IsField(info, "store.HintID.Split")(prog.Unparen(as.Lhs[0])) && prog.ObjOf(info, as.Rhs[0]) == f.Param(1) {
					n++
				}
			}
			return true
		})
		c.check(n == 2 && len(f.CallsTo("store.HintID.isLarger")) == 1, R, f.Key+": both fields taken when larger", f.Pos(), "Chunk = ck; Split = sp under isLarger(ck, sp)", "setIfLarger does not take both the chunk and the split id")
	}
	if f := c.fn(R, "store.hintMgr.trydump"); f != nil {
		info := f.Info()
		g := f.CFG()
		dumps := f.CallsTo("store.hintMgr.dump")
		var inLoop, last *ast.CallExpr
		for _, d := range dumps {
			isIn := false
			for _, enc := range f.Enclosing(d.Expr) {
				if _, ok := enc.(*ast.ForStmt); ok {
					isIn = true
				}
			}
			if isIn {
				inLoop = d.Expr
			} else {
				last = d.Expr
			}
		}
		okOld := false
		if inLoop != nil {
			var loop *ast.ForStmt
			for _, enc := range f.Enclosing(inLoop) {
				if l, ok := enc.(*ast.ForStmt); ok {
					loop = l
				}
			}
			// loop: j from 0 while j < l-1 ; the only guard inside is needDump
			if loop != nil {
				if be, ok := prog.Unparen(loop.Cond).(*ast.BinaryExpr); ok && be.Op == token.LSS {
					minus1 := func(e ast.Expr) bool {
						if sub, ok := prog.Unparen(e).(*ast.BinaryExpr); ok && sub.Op == token.SUB {
							if k, isC := prog.ConstInt(info, sub.Y); isC && k == 1 {
								return true
							}
						}
						return false
					}
					if minus1(be.Y) {
						okOld = true
					} else if id, isI := prog.Unparen(be.Y).(*ast.Ident); isI {
						defs := f.DefsOfPath(id)
						okOld = len(defs) > 0
						for _, d := range defs {
							if d.Rhs == nil || !minus1(d.Rhs) {
								okOld = false
							}
						}
					}
				}
				extra := 0
				for _, a := range f.GuardsAt(inLoop) {
					if a.Src == nil || a.Src.Pos() < loop.Pos() || a.Src == ast.Node(loop) {
						continue
					}
					if a.Op == token.ILLEGAL && !a.Neg {
						if call, isC := prog.Unparen(a.X).(*ast.CallExpr); isC && prog.CalleeKey(info, call) == "store.hintSplit.needDump" {
							continue
						}
					}
					extra++
				}
				if extra > 0 {
					okOld = false
				}
			}
		}
		c.check(okOld, R, f.Key+": every earlier split that needs it is dumped", f.Pos(), "for j < len-1 { if needDump { dump } }", "the splits before the current one are no longer all dumped when they need it: their items stay only in memory and are lost at exit")
		okLast := false
		if last != nil {
			for _, r := range f.CallsTo("store.hintChunk.rotate") {
				if g.Dominates(r.Expr, last) {
					okLast = true
				}
			}
		}
		c.check(okLast, R, f.Key+": the current split is rotated away before it is dumped", f.Pos(), "rotate() ≺ dump(chunkID, last)", "the current split is dumped without a fresh split being rotated in first: items arriving meanwhile are set into a buffer that is about to be dropped")
	}
}

// c02r8: the rebuild of hints from a data file and the replay of a hint file
// into the tree carry every field from the record / item they read.
func c02r8(c *Ctx) {
	const R = "C02.R8"
	if f := c.fn(R, "store.Bucket.buildHintFromData"); f != nil {
		info := f.Info()
		chunk, start := f.Param(0), f.Param(1)
		var next *ast.CallExpr
		for _, n := range f.CallsTo("store.DataStreamReader.Next") {
			next = n.Expr
		}
		okRd := false
		for _, r := range f.CallsTo("store.dataStore.GetStreamReader") {
			if len(r.Expr.Args) == 1 && prog.ObjOf(info, r.Expr.Args[0]) == chunk {
				okRd = true
			}
		}
		okSeek := false
		for _, s := range f.CallsTo("store.DataStreamReader.seek") {
			if len(s.Expr.Args) == 1 && prog.ObjOf(info, s.Expr.Args[0]) == start {
				okSeek = true
			}
		}
		c.check(okRd && okSeek && next != nil, R, f.Key+": scans data file chunkID from the given offset", f.Pos(), "GetStreamReader(chunkID); seek(start); Next loop", "the rebuild does not scan the data file of the chunk it was asked for from the offset the hints already cover")
		if next == nil {
			return
		}
		recObj, offObj := f.ResultObj(next, 0), f.ResultObj(next, 1)
		okItem := false
		var itemCall *ast.CallExpr
		for _, n := range f.CallsTo("store.newHintItem") {
			a := n.Expr.Args
			if len(a) != 5 {
				continue
			}
			itemCall = n.Expr
			// key hash of the record's key
			kh := false
			for _, s := range f.SourcesAt(a[0], n.Expr) {
				if s.Kind == "call" && s.Call != nil && len(s.Call.Args) == 1 && prog.RootObj(info, s.Call.Args[0]) == recObj && prog.MentionsField(info, s.Call.Args[0], "store.Record.Key") {
					kh = true
				}
			}
			if !kh {
				if call, isC := prog.Unparen(a[0]).(*ast.CallExpr); isC && len(call.Args) == 1 && prog.RootObj(info, call.Args[0]) == recObj {
					kh = true
				}
			}
			ver := prog.MentionsField(info, a[1], "store.Meta.Ver")
			// position {0, offset}
			posOK := false
			if cl, isL := prog.Unparen(a[3]).(*ast.CompositeLit); isL && len(cl.Elts) == 2 {
				e0, e1 := cl.Elts[0], cl.Elts[1]
				if kv, isKV := e0.(*ast.KeyValueExpr); isKV {
					e0 = kv.Value
				}
				if kv, isKV := e1.(*ast.KeyValueExpr); isKV {
					e1 = kv.Value
				}
				if z, isC := prog.ConstInt(info, e0); isC && z == 0 && prog.ObjOf(info, e1) == offObj {
					posOK = true
				}
			}
			keyOK := prog.RootObj(info, argOfConv(a[4])) == recObj && prog.MentionsField(info, a[4], "store.Record.Key")
			vh := false
			for _, s := range f.SourcesAt(a[2], n.Expr) {
				if s.Kind == "call" && (s.Key == "store.Getvhash" || s.Key == "store.Payload.Getvhash") {
					vh = true
				}
			}
			if !vh && prog.MentionsField(info, a[2], "store.Meta.ValueHash") {
				vh = true
			}
			okItem = kh && ver && posOK && keyOK && vh
		}
		c.check(okItem, R, f.Key+": rebuilt item = (hash(rec.Key), Ver, value hash, offset of the record, rec.Key)", f.Pos(), "all five from the record just read", "a hint item rebuilt from the data file does not carry the key hash, version, value hash, offset and key of the record it was built from: after a restart the key reads another record, another version, or is lost")
		okSet := false
		if itemCall != nil {
			for _, s := range f.CallsTo("store.hintMgr.setItem") {
				a := s.Expr.Args
				if len(a) == 3 && prog.ObjOf(info, a[1]) == chunk && (prog.MentionsField(info, a[2], "store.Payload.RecSize") || prog.MentionsField(info, a[2], "store.Meta.RecSize")) {
					okSet = true
				}
			}
		}
		c.check(okSet, R, f.Key+": setItem(item, chunkID, RecSize)", f.Pos(), "chunk of the scanned file, size of the record", "the rebuilt item is registered under another chunk or with another size than the record's")
		okDump := false
		for _, d := range f.CallsTo("store.hintMgr.trydump") {
			if len(d.Expr.Args) == 2 && prog.ObjOf(info, d.Expr.Args[0]) == chunk {
				if b, isB := prog.ConstBool(info, d.Expr.Args[1]); isB && b {
					okDump = true
				}
			}
		}
		c.check(okDump, R, f.Key+": rebuilt hints dumped (trydump(chunkID, true))", f.Pos(), "forced dump of the rebuilt chunk", "the rebuilt hints are not dumped: the tree replay that follows reads hint files and never sees them")
	}
	if f := c.fn(R, "store.Bucket.updateHtreeFromHint"); f != nil {
		info := f.Info()
		var item types.Object
		for _, n := range f.CallsTo("store.hintFileReader.next") {
			item = f.ResultObj(n.Expr, 0)
		}
		if item == nil {
			c.undec(R, f.Key, "hintFileReader.next result not bound")
			return
		}
		okKI := false
		for _, n := range f.CallsTo("store.NewKeyInfoFromBytes") {
			a := n.Expr.Args
			if len(a) == 3 && prog.RootObj(info, argOfConv(a[0])) == item && prog.MentionsField(info, a[0], "store.HintItem.Key") && prog.RootObj(info, a[1]) == item && prog.MentionsField(info, a[1], "store.HintItemMeta.Keyhash") {
				if b, isB := prog.ConstBool(info, a[2]); isB && !b {
					okKI = true
				}
			}
		}
		c.check(okKI, R, f.Key+": key info from (item.Key, item.Keyhash)", f.Pos(), "NewKeyInfoFromBytes([]byte(item.Key), item.Keyhash, false)", "the tree is replayed under a key info that is not the item's key and key hash")
		want := map[string]string{"store.Meta.ValueHash": "store.HintItemMeta.Vhash", "store.Meta.Ver": "store.HintItemMeta.Ver", "store.Position.Offset": "store.Position.Offset"}
		got := map[string]bool{}
		ast.Inspect(f.Decl.Body, func(x ast.Node) bool {
			if as, ok := x.(*ast.AssignStmt); ok && len(as.Lhs) == 1 && len(as.Rhs) == 1 {
				k, _ := prog.FieldOf(info, prog.Unparen(as.Lhs[0]))
				if w, has := want[k]; has && prog.RootObj(info, as.Rhs[0]) == item {
					rk, _ := prog.FieldOf(info, prog.Unparen(as.Rhs[0]))
					_, inBlock := f.Parent(as).(*ast.BlockStmt)
					_, inLoop := f.Parent(f.Parent(as)).(*ast.ForStmt)
					if rk == w && prog.RootObj(info, as.Lhs[0]) != item && inBlock && inLoop {
						got[k] = true
					}
				}
			}
			return true
		})
		c.check(len(got) == 3, R, f.Key+": meta.ValueHash, meta.Ver, pos.Offset from the item", f.Pos(), "three fields copied for every item", "the replayed tree entry does not (always) carry the item's value hash, version and offset")
		okChunk := false
		ast.Inspect(f.Decl.Body, func(x ast.Node) bool {
			if as, ok := x.(*ast.AssignStmt); ok && len(as.Lhs) == 1 && prog.IsField(info, "store.Position.ChunkID")(prog.Unparen(as.Lhs[0])) && prog.ObjOf(info, as.Rhs[0]) == f.Param(0) {
				okChunk = true
			}
			return true
		})
		c.check(okChunk, R, f.Key+": pos.ChunkID = chunkID for live items", f.Pos(), "chunk of the hint file", "a replayed live item points into another data file than the one its hint file belongs to")
		okRd := false
		for _, n := range f.CallsTo("store.newHintFileReader") {
			if len(n.Expr.Args) >= 2 && prog.ObjOf(info, n.Expr.Args[0]) == f.Param(1) {
				okRd = true
			}
		}
		c.check(okRd && len(f.CallsTo("store.hintFileReader.open")) >= 1, R, f.Key+": reads the hint file it was given", f.Pos(), "newHintFileReader(path, …).open()", "the replay does not open the hint file it was asked to replay")
	}
	c02r8b(c)
}

func argOfConv(e ast.Expr) ast.Expr {
	if call, ok := prog.Unparen(e).(*ast.CallExpr); ok && len(call.Args) == 1 {
		return call.Args[0]
	}
	return e
}

// c02r9: choice of the tree dump at start-up.
func c02r9(c *Ctx) {
	const R = "C02.R9"
	f := c.fn(R, "store.Bucket.open")
	if f == nil {
		return
	}
	info := f.Info()
	loads := f.CallsTo("store.HTree.load")
	if len(loads) != 1 {
		c.viol(R, f.Key+": exactly one tree load site", f.Pos(), "expected one HTree.load in Bucket.open, found "+itoa(len(loads)))
		return
	}
	ld := loads[0].Expr
	// guarded by ¬(id.Chunk > maxdata) and isLarger
	var maxdata types.Object
	for _, n := range f.CallsTo("store.dataStore.ListFiles") {
		maxdata = f.ResultObj(n.Expr, 0)
	}
	beyond, larger := false, false
	for _, a := range f.GuardsAt(ld) {
		if prog.AtomCmp(a, token.LEQ, func(e ast.Expr) bool { return prog.IsField(info, "store.HintID.Chunk")(prog.Unparen(e)) }, prog.IsObj(info, maxdata)) {
			beyond = true
		}
		if a.Op == token.ILLEGAL && !a.Neg {
			if call, ok := prog.Unparen(a.X).(*ast.CallExpr); ok && prog.CalleeKey(info, call) == "store.HintID.isLarger" {
				larger = true
			}
		}
	}
	c.check(beyond, R, f.Key+": a tree dump beyond the last data file is never loaded", c.pos(ld), "load under id.Chunk <= maxdata", "a tree dump whose id lies beyond the last data file is loaded: it describes records that do not exist")
	c.check(larger, R, f.Key+": only a dump newer than the one already loaded is loaded", c.pos(ld), "load under TreeID.isLarger(id)", "tree dumps are loaded regardless of their id: an older dump can replace a newer one")
	// on error: fresh tree and TreeID reset; on success: TreeID = id
	var errObj types.Object
	if as, ok := f.Parent(ld).(*ast.AssignStmt); ok && len(as.Lhs) == 1 {
		errObj = prog.ObjOf(info, as.Lhs[0])
	}
	reset, fresh, taken := false, false, false
	ast.Inspect(f.Decl.Body, func(x ast.Node) bool {
		as, ok := x.(*ast.AssignStmt)
		if !ok || len(as.Lhs) != 1 || len(as.Rhs) != 1 || as.Pos() < ld.Pos() {
			return true
		}
		onErr, onOK := false, false
		for _, a := range f.GuardsAt(as) {
			if errObj != nil && a.Op == token.NEQ && prog.ObjOf(info, a.X) == errObj && prog.IsNil(info, a.Y) {
				onErr = true
			}
			if errObj != nil && a.Op == token.EQL && prog.ObjOf(info, a.X) == errObj && prog.IsNil(info, a.Y) {
				onOK = true
			}
		}
		if prog.IsField(info, "store.BucketStat.TreeID")(prog.Unparen(as.Lhs[0])) || prog.IsField(info, "store.BucketInfo.TreeID")(prog.Unparen(as.Lhs[0])) || strings.HasSuffix(prog.FieldPath(info, as.Lhs[0]), "TreeID") {
			if onErr {
				if cl, isL := prog.Unparen(as.Rhs[0]).(*ast.CompositeLit); isL && len(cl.Elts) == 2 {
					reset = true
				}
			}
			if onOK && prog.ObjOf(info, as.Rhs[0]) != nil {
				taken = true
			}
		}
		if onErr {
			if call, isC := prog.Unparen(as.Rhs[0]).(*ast.CallExpr); isC && prog.CalleeKey(info, call) == "store.newHTree" {
				fresh = true
			}
		}
		return true
	})
	c.check(reset && fresh, R, f.Key+": a dump that fails to load leaves an empty tree with the initial id", c.pos(ld), "err ⇒ TreeID = {0,-1}; htree = newHTree(…)", "after a failed tree load the partially loaded tree or its id is kept: the hint replay skips the splits the dump claimed to cover")
	c.check(taken, R, f.Key+": a loaded dump sets TreeID to its id", c.pos(ld), "TreeID = id on success", "the id of the loaded dump is not recorded: the hint replay starts from the wrong split")
	// maxDumpedHintID starts at TreeID
	okMax := false
	ast.Inspect(f.Decl.Body, func(x ast.Node) bool {
		if as, ok := x.(*ast.AssignStmt); ok && len(as.Lhs) == 1 && prog.IsField(info, "store.hintMgr.maxDumpedHintID")(prog.Unparen(as.Lhs[0])) && strings.HasSuffix(prog.FieldPath(info, as.Rhs[0]), "TreeID") {
			okMax = true
		}
		return true
	})
	c.check(okMax, R, f.Key+": maxDumpedHintID starts at the loaded TreeID", f.Pos(), "hints.maxDumpedHintID = bkt.TreeID", "the id of the last dumped hint split does not start at the loaded tree's id")
}
