SPECS = [
 dict(name='benign-gc-rename-locals', kind='benign', rule='all', why='rename locals in gc (isNewest->keep, oldPos->scanPos)',
      edits=[('store/gc.go', 'isNewest', 'keepIt', 9), ('store/gc.go', 'oldPos', 'scanPos', 9)]),
 dict(name='benign-gc-if-inverted', kind='benign', rule='all', why='`if !isNewest {continue}` -> `if isNewest { …rest… }` is too invasive; instead invert the Clear guard',
      edits=[('store/gc.go', '''		if gc.Src != gc.Dst {
			bkt.datas.chunks[gc.Src].Clear()
		}''', '''		if gc.Dst != gc.Src {
			src := &bkt.datas.chunks[gc.Src]
			src.Clear()
		}''')]),
 dict(name='benign-process-extra-logging', kind='benign', rule='all', why='extra debug logging in Process and ServeOnce',
      edits=[('memcache/protocol.go', '		key := req.Keys[0]\n		var suc bool\n		suc, err = store.Set(key, req.Item, req.NoReply)', '		key := req.Keys[0]\n		logger.Debugf("set %s", key)\n		var suc bool\n		suc, err = store.Set(key, req.Item, req.NoReply)'),
             ('memcache/server.go', '		req.SetStat("process")\n', '		req.SetStat("process")\n		logger.Debugf("process %s", req.Cmd)\n')]),
 dict(name='benign-read-else-to-early-return', kind='benign', rule='all', why='readRecordAt: else-if chain -> two early returns',
      edits=[('store/datafile.go', '''		logger.Errorf(err.Error())
		return
	} else if !config.IsValidValueSize(wrec.vsz) {''', '''		logger.Errorf(err.Error())
		return
	}
	if !config.IsValidValueSize(wrec.vsz) {''')]),
 dict(name='benign-getrecord-if-else', kind='benign', rule='all', why='GetRecordByOffset: early returns -> nested else',
      edits=[('store/datachunk.go', '''	if res != nil {
		inbuffer = true
		cmem.DBRL.GetData.AddSize(res.Payload.DiffSizeAfterDecompressed())
		res.Payload.Decompress()
		return
	}
	wrec, e := readRecordAtPath(dc.path, offset)
	if e != nil {
		return nil, false, e
	}
	cmem.DBRL.GetData.AddSize(wrec.rec.Payload.DiffSizeAfterDecompressed())
	wrec.rec.Payload.Decompress()
	return wrec.rec, false, nil''', '''	if res != nil {
		inbuffer = true
		cmem.DBRL.GetData.AddSize(res.Payload.DiffSizeAfterDecompressed())
		res.Payload.Decompress()
		return
	} else {
		wrec, e := readRecordAtPath(dc.path, offset)
		if e != nil {
			return nil, false, e
		}
		rec := wrec.rec
		cmem.DBRL.GetData.AddSize(rec.Payload.DiffSizeAfterDecompressed())
		rec.Payload.Decompress()
		return rec, false, nil
	}''')]),
 dict(name='benign-hstore-get-helper', kind='benign', rule='all', why='HStore.Get/Set/Incr: READY test phrased positively',
      edits=[('store/hstore.go', '''	atomic.AddInt64(&bkt.NumGet, 1)
	if bkt.State != BUCKET_STAT_READY {
		return
	}
	return bkt.get(ki, memOnly)''', '''	atomic.AddInt64(&bkt.NumGet, 1)
	if bkt.State == BUCKET_STAT_READY {
		return bkt.get(ki, memOnly)
	}
	return''')]),
 dict(name='benign-keepflag-switch', kind='benign', rule='all', why='updateHtreeFromHint: if/else -> switch',
      edits=[('store/bucket.go', '''		if item.Ver > 0 {
			pos.ChunkID = chunkID
			tree.set(ki, &meta, pos)
		} else {
			pos.ChunkID = -1
			tree.remove(ki, pos)
		}''', '''		switch {
		case item.Ver > 0:
			pos.ChunkID = chunkID
			tree.set(ki, &meta, pos)
		default:
			pos.ChunkID = -1
			tree.remove(ki, pos)
		}''')]),
 dict(name='benign-encode-header-reorder', kind='benign', rule='all', why='encodeHeader: independent field stores reordered',
      edits=[('store/datafile.go', '''	binary.LittleEndian.PutUint32(h[4:8], wrec.rec.Payload.TS)
	binary.LittleEndian.PutUint32(h[8:12], wrec.rec.Payload.Flag)''', '''	binary.LittleEndian.PutUint32(h[8:12], wrec.rec.Payload.Flag)
	binary.LittleEndian.PutUint32(h[4:8], wrec.rec.Payload.TS)''')]),
 dict(name='benign-lock-defer', kind='benign', rule='all', why='dataChunk.AppendRecord: explicit Unlock -> defer',
      edits=[('store/datachunk.go', '''	dc.Lock()
	dc.wbuf = append(dc.wbuf, wrec)

	size := wrec.rec.Payload.RecSize

	dc.writingHead += size
	dc.size = dc.writingHead
	dc.Unlock()''', '''	dc.Lock()
	defer dc.Unlock()
	dc.wbuf = append(dc.wbuf, wrec)

	size := wrec.rec.Payload.RecSize

	dc.writingHead += size
	dc.size = dc.writingHead''')]),
 dict(name='benign-getvhash-local', kind='benign', rule='all', why='Getvhash: length switch through a named constant',
      edits=[('store/item.go', '	l := len(value)\n	hash := uint32(l) * 97\n	if l <= 1024 {', '	const whole = 1024\n	l := len(value)\n	hash := uint32(l) * 97\n	if l <= whole {')]),
 dict(name='benign-storageclient-set-comment', kind='benign', rule='all', why='StorageClient.Set: error message and local rename',
      edits=[('gobeansdb/store.go', '''	tofree = nil
	err := s.hstore.Set(ki, payload)
	if err != nil {
		logger.Errorf("err to get %s: %s", key, err.Error())
		return false, err
	}
	return true, nil''', '''	tofree = nil
	if e := s.hstore.Set(ki, payload); e != nil {
		logger.Errorf("err to set %s: %s", key, e.Error())
		return false, e
	}
	return true, nil''')]),
 dict(name='benign-htree-set-inline-req', kind='benign', rule='all', why='HTree.remove: lock/unlock explicit instead of defer',
      edits=[('store/htree.go', '''	tree.Lock()
	defer tree.Unlock()

	tree.getLeafAndInvalidNodes(ki, &tree.ni)
	tree.remvoeFromLeaf(&tree.ni, ki, oldPos)''', '''	tree.Lock()
	tree.getLeafAndInvalidNodes(ki, &tree.ni)
	tree.remvoeFromLeaf(&tree.ni, ki, oldPos)
	tree.Unlock()''')]),
 dict(name='benign-serveonce-status-const', kind='benign', rule='all', why='ServeOnce: CLIENT_ERROR branch built through a helper variable',
      edits=[('memcache/server.go', '''			resp = new(Response)
			resp.Status = "CLIENT_ERROR"
			resp.Msg = err.Error()
			err = nil''', '''			r := new(Response)
			r.Status = "CLIENT_ERROR"
			r.Msg = err.Error()
			resp = r
			err = nil''')]),
 dict(name='benign-hintfile-writeitem-local', kind='benign', rule='all', why='writeItem: key length through a local',
      edits=[('store/hintfile.go', '	h[22] = byte(len(item.Key))\n', '	ksz := len(item.Key)\n	h[22] = byte(ksz)\n')]),
 dict(name='benign-close-order', kind='benign', rule='all', why='Bucket.close: dumpCollisions after hints.close',
      edits=[('store/bucket.go', '	bkt.hints.dumpCollisions()\n	bkt.hints.close()\n	bkt.dumpHtree()', '	bkt.hints.close()\n	bkt.hints.dumpCollisions()\n	bkt.dumpHtree()')]),
]
