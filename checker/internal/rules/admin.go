package rules

import (
	"go/ast"
	"go/token"
	"go/types"

	"gbcheck/internal/prog"
)

// c17r8: the admin GC handler forwards the request's parameters to HStore.GC
// in the positions HStore.GC reads them from, a request that does not say
// run=true is a pretend request, and the bucket comes from the URL.
func c17r8(c *Ctx) {
	const R = "C17.R8"
	f := c.fn(R, "gobeansdb.handleGC")
	if f == nil {
		return
	}
	info := f.Info()
	gcs := f.CallsTo("store.HStore.GC")
	if len(gcs) != 1 || len(gcs[0].Expr.Args) != 6 {
		c.undec(R, f.Key, "expected one HStore.GC(bucket, start, end, noGCDays, merge, pretend) call")
		return
	}
	args := gcs[0].Expr.Args
	formName := func(e ast.Expr) string {
		// value read by getFormValueInt(r, "<name>", default)
		for _, s := range f.SourcesAt(e, gcs[0].Expr) {
			if s.Kind == "call" && s.Key == "gobeansdb.getFormValueInt" && len(s.Call.Args) == 3 {
				if n, ok := prog.ConstString(info, s.Call.Args[1]); ok {
					return n
				}
			}
		}
		return ""
	}
	names := []string{formName(args[1]), formName(args[2]), formName(args[3])}
	c.check(names[0] == "start" && names[1] == "end" && names[2] == "nogcdays", R, f.Key+": (start, end, nogcdays) forwarded in HStore.GC's order", gcs[0].Pos(), "start, end, nogcdays", "the GC handler passes the form values ("+names[0]+", "+names[1]+", "+names[2]+") where HStore.GC expects (start, end, nogcdays): the pass runs over another range than the operator asked for")
	// pretend := FormValue("run") != "true" ; merge := FormValue("merge") == "true"
	boolFrom := func(e ast.Expr) (name string, op token.Token) {
		var id *ast.Ident
		if i, ok := prog.Unparen(e).(*ast.Ident); ok {
			id = i
		}
		if id == nil {
			return "", token.ILLEGAL
		}
		path, _ := prog.PathOf(info, id)
		for _, d := range f.DefsReaching(path, gcs[0].Expr) {
			if d.Rhs == nil {
				continue
			}
			be, ok := prog.Unparen(d.Rhs).(*ast.BinaryExpr)
			if !ok || (be.Op != token.EQL && be.Op != token.NEQ) {
				continue
			}
			lit, isS := prog.ConstString(info, be.Y)
			if !isS || lit != "true" {
				continue
			}
			// be.X is a local holding r.FormValue("<name>") at that point
			for _, s := range f.SourcesAt(be.X, d.Stmt) {
				if s.Kind == "call" && len(s.Call.Args) == 1 {
					if sel, isSel := s.Call.Fun.(*ast.SelectorExpr); isSel && sel.Sel.Name == "FormValue" {
						if n, ok := prog.ConstString(info, s.Call.Args[0]); ok {
							return n, be.Op
						}
					}
				}
			}
		}
		return "", token.ILLEGAL
	}
	mn, mop := boolFrom(args[4])
	pn, pop := boolFrom(args[5])
	c.check(pn == "run" && pop == token.NEQ, R, f.Key+": pretend unless run=true", gcs[0].Pos(), "pretend = FormValue(\"run\") != \"true\"", "a GC request without run=true is no longer a pretend request: opening the admin page's GC link rewrites and deletes data files")
	c.check(mn == "merge" && mop == token.EQL, R, f.Key+": merge only when merge=true", gcs[0].Pos(), "merge = FormValue(\"merge\") == \"true\"", "the merge flag handed to HStore.GC is not the request's merge parameter")
	// bucket from the URL
	okB := false
	for _, s := range f.SourcesAt(args[0], gcs[0].Expr) {
		if s.Kind == "call" && s.Key == "gobeansdb.getBucket" {
			okB = true
		}
	}
	c.check(okB, R, f.Key+": bucket id from the request path", gcs[0].Pos(), "getBucket(r)", "the bucket handed to HStore.GC is not the one named in the request")
	if g := c.fn(R, "gobeansdb.getFormValueInt"); g != nil {
		ginfo := g.Info()
		okDef := false
		ast.Inspect(g.Decl.Body, func(x ast.Node) bool {
			if as, ok := x.(*ast.AssignStmt); ok && len(as.Lhs) == 1 && len(as.Rhs) == 1 && prog.ObjOf(ginfo, as.Lhs[0]) == g.Result(0) && prog.ObjOf(ginfo, as.Rhs[0]) == g.Param(2) && len(g.GuardsAt(as)) == 0 {
				okDef = true
			}
			return true
		})
		okName := false
		ast.Inspect(g.Decl.Body, func(x ast.Node) bool {
			if call, ok := x.(*ast.CallExpr); ok {
				if sel, isS := call.Fun.(*ast.SelectorExpr); isS && sel.Sel.Name == "FormValue" && len(call.Args) == 1 && prog.ObjOf(ginfo, call.Args[0]) == g.Param(1) {
					okName = true
				}
			}
			return true
		})
		c.check(okDef && okName, R, g.Key+": FormValue(name), default when absent", g.Pos(), "n = ndefault; Atoi(FormValue(name)) when present", "the form helper does not read the named parameter or does not fall back to the given default")
	}
	c17r8b(c)
}

// c15r11: the served-bucket vector of this server is exactly the set the route
// table lists under this server's address.
func c15r11(c *Ctx) {
	const R = "C15.R11"
	if f := c.fn(R, "config.RouteTable.GetDBRouteConfig"); f != nil {
		info := f.Info()
		addr := f.Param(0)
		var set types.Object
		ast.Inspect(f.Decl.Body, func(x ast.Node) bool {
			if as, ok := x.(*ast.AssignStmt); ok && len(as.Rhs) == 1 {
				if ix, isIx := prog.Unparen(as.Rhs[0]).(*ast.IndexExpr); isIx && prog.IsField(info, "config.RouteTable.Servers")(prog.Unparen(ix.X)) && prog.ObjOf(info, ix.Index) == addr {
					set = prog.ObjOf(info, as.Lhs[0])
				}
			}
			return true
		})
		okMark := false
		ast.Inspect(f.Decl.Body, func(x ast.Node) bool {
			rs, ok := x.(*ast.RangeStmt)
			if !ok || set == nil || prog.ObjOf(info, rs.X) != set || rs.Key == nil {
				return true
			}
			b := prog.ObjOf(info, rs.Key)
			ast.Inspect(rs.Body, func(y ast.Node) bool {
				if as, isA := y.(*ast.AssignStmt); isA && len(as.Lhs) == 1 && len(as.Rhs) == 1 {
					if ix, isIx := prog.Unparen(as.Lhs[0]).(*ast.IndexExpr); isIx && prog.IsField(info, "config.DBRouteConfig.BucketsStat")(prog.Unparen(ix.X)) && prog.ObjOf(info, ix.Index) == b {
						if v, isC := prog.ConstInt(info, as.Rhs[0]); isC && v > 0 && len(f.GuardsAt(as)) <= 1 {
							okMark = true
						}
					}
				}
				return true
			})
			return true
		})
		c.check(set != nil && okMark, R, f.Key+": BucketsStat[b] > 0 exactly for b in Servers[addr]", f.Pos(), "this server's address, every listed bucket", "the served-bucket vector is not built from the route table's entry for this server's address: the server opens buckets the table gives to others, or misses its own")
		okNum := false
		ast.Inspect(f.Decl.Body, func(x ast.Node) bool {
			if kv, ok := x.(*ast.KeyValueExpr); ok {
				if id, isI := kv.Key.(*ast.Ident); isI && id.Name == "NumBucket" && prog.IsField(info, "config.RouteTable.NumBucket")(prog.Unparen(kv.Value)) {
					okNum = true
				}
			}
			if as, ok := x.(*ast.AssignStmt); ok && len(as.Lhs) == 1 && prog.IsField(info, "config.DBRouteConfig.NumBucket")(prog.Unparen(as.Lhs[0])) && prog.IsField(info, "config.RouteTable.NumBucket")(prog.Unparen(as.Rhs[0])) {
				okNum = true
			}
			return true
		})
		c.check(okNum, R, f.Key+": NumBucket taken from the route table", f.Pos(), "r.NumBucket = rt.NumBucket", "the number of buckets handed to the store is not the route table's")
	}
	if f := c.fn(R, "config.RouteTable.LoadFromYaml"); f != nil {
		info := f.Info()
		ok := false
		ast.Inspect(f.Decl.Body, func(x ast.Node) bool {
			outer, isR := x.(*ast.RangeStmt)
			if !isR || outer.Value == nil || !prog.IsField(info, "config.RouteTable.Main")(prog.Unparen(outer.X)) {
				return true
			}
			srv := prog.ObjOf(info, outer.Value)
			ast.Inspect(outer.Body, func(y ast.Node) bool {
				inner, isR2 := y.(*ast.RangeStmt)
				if !isR2 || inner.Value == nil || prog.RootObj(info, inner.X) != srv || !prog.MentionsField(info, inner.X, "config.Server.Buckets") {
					return true
				}
				bk := prog.ObjOf(info, inner.Value)
				ast.Inspect(inner.Body, func(z ast.Node) bool {
					if as, isA := z.(*ast.AssignStmt); isA && len(as.Lhs) == 1 {
						if ix, isIx := prog.Unparen(as.Lhs[0]).(*ast.IndexExpr); isIx && prog.ObjOf(info, ix.Index) == bk {
							if ix2, isIx2 := prog.Unparen(ix.X).(*ast.IndexExpr); isIx2 && prog.IsField(info, "config.RouteTable.Servers")(prog.Unparen(ix2.X)) {
								// Servers[<addr of this server>][bucket] = true
								for _, s := range f.SourcesAt(ix2.Index, as) {
									if s.Expr != nil && prog.RootObj(info, s.Expr) == srv {
										ok = true
									}
									if s.Obj == srv || (s.Field != "" && s.Obj == srv) {
										ok = true
									}
								}
								if prog.RootObj(info, ix2.Index) == srv {
									ok = true
								}
								if id, isI := prog.Unparen(ix2.Index).(*ast.Ident); isI && !ok {
									for _, d := range f.DefsOfPath(id) {
										if d.Rhs != nil && prog.RootObj(info, d.Rhs) == srv && prog.MentionsField(info, d.Rhs, "config.Server.Addr") {
											ok = true
										}
									}
								}
							}
						}
					}
					return true
				})
				return true
			})
			return true
		})
		c.check(ok, R, f.Key+": Servers[server.Addr][bucket] = true for the server's own buckets", f.Pos(), "address and buckets of the same entry", "the route table's per-server bucket sets are not filled from each entry's own address and bucket list")
	}
}
