#!/bin/bash
# Self-validation of the checker: every mutant patch must make its expected rule
# fire; every benign patch must leave all checks silent. One process per variant,
# up to $JOBS (default 6) in parallel, each on its own scratch copy of /repo that is
# removed as soon as the variant has been judged.
#   tools/selftest.sh [property-id|all] [mutants|benign|both]
cd "$(dirname "$0")/.."
V=$(pwd)
export GOFLAGS=-mod=mod GOPROXY=off GOSUMDB=off GOTOOLCHAIN=local
if [ "$1" = "--one" ]; then
  patch=$2; kind=$3; T=$4
  name=$(basename "$patch" .patch)
  expect=$(sed -n 's/^# expect: *//p' "$patch" | head -1)
  prop=$(echo "$expect" | cut -d. -f1)
  [ "$kind" = benign ] && prop=${expect:-all}
  d="$T/$name.$kind"; mkdir -p "$d"
  rsync -a --exclude .git --exclude '*.tmp' /repo/ "$d/"
  if ! ( cd "$d" && patch -p1 -s -f < "$patch" ) >/dev/null 2>&1; then
    echo "SKIP $kind $name (patch does not apply to the current tree)"; rm -rf "$d"; exit 0
  fi
  out=$("$V/bin/gbcheck" -verif "$V" -repo "$d" -property "$prop" -tier quick -no-evidence -json "$d.json" 2>&1); code=$?
  rm -rf "$d"
  if [ "$kind" = mutants ]; then
    if python3 "$V/tools/has_violation.py" "$d.json" "$expect"; then echo "DETECTED $name ($expect)"
    else echo "SELFTEST-FAILED rule=$expect mutant=$name not detected (exit $code) :: $(echo "$out" | grep -v '^ok\|^KNOWN' | tail -2 | tr '\n' ' ' | cut -c1-300)"; fi
  else
    if [ $code -eq 0 ]; then echo "SILENT $name"
    else echo "SELFTEST-FAILED benign=$name raised an alarm (exit $code) :: $(echo "$out" | grep -v '^ok\|^KNOWN' | head -3 | tr '\n' ' ' | cut -c1-400)"; fi
  fi
  rm -f "$d.json"
  exit 0
fi
P=${1:-all}; KIND=${2:-both}
T=$(mktemp -d "${TMPDIR:-/tmp}/gbself.XXXXXX")
trap 'rm -rf "$T"' EXIT
list="$T/list"; : > "$list"
for kind in mutants benign; do
  [ "$KIND" = both ] || [ "$KIND" = "$kind" ] || continue
  for patch in "$V/$kind"/*.patch; do
    [ -f "$patch" ] || continue
    if [ "$P" != all ]; then
      e=$(sed -n 's/^# expect: *//p' "$patch" | head -1)
      case "$kind:$e" in mutants:$P.*|benign:$P|benign:all|benign:) ;; *) continue;; esac
    fi
    echo "$patch $kind $T" >> "$list"
  done
done
n=$(wc -l < "$list")
xargs -P "${JOBS:-6}" -L 1 "$V/tools/selftest.sh" --one < "$list" > "$T/res" 2>&1
sort "$T/res"
ok=$(grep -c '^DETECTED\|^SILENT\|^SKIP' "$T/res")
fail=$((n - ok))
echo "selftest: $n variants, $fail failures"
[ "$fail" -eq 0 ]
