package prog

import (
	"go/ast"
	"go/token"
	"go/types"
	"strings"
)

// Def is one assignment to a variable or field path inside a function.
type Def struct {
	Rhs  ast.Expr // nil for `var x T` (zero) and range definitions
	Idx  int      // index into the tuple returned by Rhs when Rhs is a multi-value call; -1 otherwise
	Stmt ast.Node
	Zero bool
}

// defsIndex maps PathOf(lhs) -> defs, for the whole declared body (closures included).
func (f *Func) defsIndex() map[string][]Def {
	if f.defs != nil {
		return f.defs
	}
	info := f.Info()
	idx := map[string][]Def{}
	f.defs = idx
	add := func(l ast.Expr, d Def) {
		if id, ok := l.(*ast.Ident); ok && id.Name == "_" {
			return
		}
		if p, ok := PathOf(info, l); ok {
			idx[p] = append(idx[p], d)
		}
	}
	ast.Inspect(f.Decl, func(n ast.Node) bool {
		switch s := n.(type) {
		case *ast.AssignStmt:
			if len(s.Rhs) == 1 && len(s.Lhs) > 1 {
				for i, l := range s.Lhs {
					add(l, Def{Rhs: s.Rhs[0], Idx: i, Stmt: s})
				}
			} else {
				for i, l := range s.Lhs {
					if i < len(s.Rhs) {
						if s.Tok != token.ASSIGN && s.Tok != token.DEFINE {
							// op-assign: value depends on old value and rhs
							add(l, Def{Rhs: &ast.BinaryExpr{X: l, Op: opOf(s.Tok), Y: s.Rhs[i]}, Idx: -1, Stmt: s})
						} else {
							add(l, Def{Rhs: s.Rhs[i], Idx: -1, Stmt: s})
						}
					}
				}
			}
		case *ast.ValueSpec:
			for i, name := range s.Names {
				switch {
				case len(s.Values) == len(s.Names):
					add(name, Def{Rhs: s.Values[i], Idx: -1, Stmt: s})
				case len(s.Values) == 1:
					add(name, Def{Rhs: s.Values[0], Idx: i, Stmt: s})
				default:
					add(name, Def{Zero: true, Idx: -1, Stmt: s})
				}
			}
		case *ast.RangeStmt:
			if s.Key != nil {
				add(s.Key, Def{Rhs: nil, Idx: 0, Stmt: s})
			}
			if s.Value != nil {
				add(s.Value, Def{Rhs: nil, Idx: 1, Stmt: s})
			}
		case *ast.IncDecStmt:
			add(s.X, Def{Rhs: s.X, Idx: -1, Stmt: s})
		}
		return true
	})
	return idx
}

func opOf(t token.Token) token.Token {
	switch t {
	case token.ADD_ASSIGN:
		return token.ADD
	case token.SUB_ASSIGN:
		return token.SUB
	case token.MUL_ASSIGN:
		return token.MUL
	case token.QUO_ASSIGN:
		return token.QUO
	case token.OR_ASSIGN:
		return token.OR
	case token.AND_ASSIGN:
		return token.AND
	case token.XOR_ASSIGN:
		return token.XOR
	case token.SHL_ASSIGN:
		return token.SHL
	case token.SHR_ASSIGN:
		return token.SHR
	}
	return token.ILLEGAL
}

// DefsOfPath returns assignments to the exact lvalue path of e.
func (f *Func) DefsOfPath(e ast.Expr) []Def {
	p, ok := PathOf(f.Info(), e)
	if !ok {
		return nil
	}
	return f.defsIndex()[p]
}

// Source is a leaf an expression's value may come from.
type Source struct {
	Kind  string // "call", "param", "const", "zero", "range", "field", "other", "recvfield"
	Call  *ast.CallExpr
	Key   string // callee key for calls
	Idx   int    // result index (-1: single result)
	Field string // trailing field path read from the call result / param
	Expr  ast.Expr
	Obj   types.Object
}

// Sources traces e backwards through local variable definitions to its
// leaves. Only definitions that can reach the use along the CFG without being
// overwritten by another definition of the same path are followed.
func (f *Func) Sources(e ast.Expr) []Source { return f.SourcesAt(e, e) }

// reaching filters defs of one path to those reaching node `at`.
func (f *Func) reaching(defs []Def, at ast.Node) []Def {
	if len(defs) == 0 || at == nil {
		return defs
	}
	c := f.CFGFor(at)
	var out []Def
	for i, d := range defs {
		if d.Stmt == nil || f.EnclosingLit(d.Stmt) != f.EnclosingLit(at) {
			out = append(out, d)
			continue
		}
		others := func(n ast.Node) bool {
			for j, o := range defs {
				if j != i && o.Stmt != nil && o.Stmt != d.Stmt && n.Pos() <= o.Stmt.Pos() && o.Stmt.End() <= n.End() {
					return true
				}
			}
			return false
		}
		if _, ok := c.Locate(d.Stmt); !ok {
			out = append(out, d)
			continue
		}
		if c.ReachesWithout(d.Stmt, at, others) {
			out = append(out, d)
		}
	}
	return out
}

// SourcesAt is Sources with an explicit use point.
func (f *Func) SourcesAt(e ast.Expr, at ast.Node) []Source {
	idx := f.defsIndex()
	seen := map[string]bool{}
	var out []Source
	var walk func(e ast.Expr, field string, depth int, at ast.Node)
	info := f.Info()
	walk = func(e ast.Expr, field string, depth int, at ast.Node) {
		if depth > 12 {
			out = append(out, Source{Kind: "other", Expr: e})
			return
		}
		e = StripConv(info, e)
		if u, ok := e.(*ast.UnaryExpr); ok && u.Op == token.AND {
			e = Unparen(u.X)
		}
		if s, ok := e.(*ast.StarExpr); ok {
			e = Unparen(s.X)
		}
		if _, ok := ConstInt(info, e); ok {
			out = append(out, Source{Kind: "const", Expr: e})
			return
		}
		switch x := e.(type) {
		case *ast.CallExpr:
			out = append(out, Source{Kind: "call", Call: x, Key: CalleeKey(info, x), Idx: -1, Field: field, Expr: e})
			return
		case *ast.BinaryExpr:
			walk(x.X, field, depth+1, at)
			walk(x.Y, field, depth+1, at)
			return
		case *ast.CompositeLit:
			if len(x.Elts) == 0 {
				out = append(out, Source{Kind: "zero", Expr: e, Field: field})
				return
			}
			for _, el := range x.Elts {
				if kv, ok := el.(*ast.KeyValueExpr); ok {
					walk(kv.Value, field, depth+1, at)
				} else {
					walk(el, field, depth+1, at)
				}
			}
			return
		case *ast.Ident, *ast.SelectorExpr:
			p, ok := PathOf(info, x.(ast.Expr))
			if !ok {
				out = append(out, Source{Kind: "other", Expr: e})
				return
			}
			k := p + "|" + field + "|" + itoa(int(at.Pos()))
			if seen[k] {
				return
			}
			seen[k] = true
			defs := f.reaching(idx[p], at)
			root := RootObj(info, x.(ast.Expr))
			// field-wise stores into a local struct (x.f = …) also feed x
			for fp, fdefs := range idx {
				if strings.HasPrefix(fp, p+".") {
					suffix := fp[len(p)+1:]
					if field != "" && field != suffix && !strings.HasPrefix(field, suffix+".") && !strings.HasPrefix(suffix, field+".") {
						continue
					}
					for _, d := range f.reaching(fdefs, at) {
						if d.Zero || d.Rhs == nil {
							continue
						}
						if c, ok := StripConv(info, d.Rhs).(*ast.CallExpr); ok && d.Idx >= 0 {
							out = append(out, Source{Kind: "call", Call: c, Key: CalleeKey(info, c), Idx: d.Idx, Field: suffix, Expr: d.Rhs})
						} else {
							mark := len(out)
							walk(d.Rhs, "", depth+1, d.Stmt)
							for i := mark; i < len(out); i++ {
								if out[i].Field == "" {
									out[i].Field = suffix
								}
							}
						}
					}
				}
			}
			if len(defs) == 0 {
				if se, ok := x.(*ast.SelectorExpr); ok {
					nf := se.Sel.Name
					if field != "" {
						nf = nf + "." + field
					}
					if sel := info.Selections[se]; sel != nil && sel.Kind() == types.FieldVal {
						walk(se.X, nf, depth+1, at)
						return
					}
				}
				if v, ok := root.(*types.Var); ok && isParam(f, v) {
					out = append(out, Source{Kind: "param", Obj: v, Field: field, Expr: e})
					return
				}
				if v, ok := root.(*types.Var); ok && v.Pkg() != nil && v.Parent() == v.Pkg().Scope() {
					out = append(out, Source{Kind: "global", Obj: v, Field: field, Expr: e})
					return
				}
				out = append(out, Source{Kind: "zero", Obj: root, Field: field, Expr: e})
				return
			}
			if se, ok := x.(*ast.SelectorExpr); ok {
				if bp, ok := PathOf(info, se.X); ok && len(idx[bp]) > 0 {
					nf := se.Sel.Name
					if field != "" {
						nf = nf + "." + field
					}
					for _, d := range f.reaching(idx[bp], at) {
						if d.Zero || d.Rhs == nil {
							continue
						}
						if c, ok := StripConv(info, d.Rhs).(*ast.CallExpr); ok && d.Idx >= 0 {
							out = append(out, Source{Kind: "call", Call: c, Key: CalleeKey(info, c), Idx: d.Idx, Field: nf, Expr: d.Rhs})
						}
					}
				}
			}
			for _, d := range defs {
				switch {
				case d.Zero:
					out = append(out, Source{Kind: "zero", Obj: root, Field: field, Expr: e})
				case d.Rhs == nil:
					out = append(out, Source{Kind: "range", Obj: root, Field: field, Expr: e, Idx: d.Idx})
				default:
					if c, ok := StripConv(info, d.Rhs).(*ast.CallExpr); ok && d.Idx >= 0 {
						out = append(out, Source{Kind: "call", Call: c, Key: CalleeKey(info, c), Idx: d.Idx, Field: field, Expr: d.Rhs})
					} else if d.Rhs == x.(ast.Expr) {
						// x++ : self
					} else {
						walk(d.Rhs, field, depth+1, d.Stmt)
					}
				}
			}
			if v, ok := root.(*types.Var); ok && isParam(f, v) {
				if _, isIdent := x.(*ast.Ident); isIdent {
					// the parameter's incoming value reaches unless every path redefines it
					c := f.CFGFor(at)
					redefined := func(n ast.Node) bool {
						for _, o := range idx[p] {
							if o.Stmt != nil && n.Pos() <= o.Stmt.Pos() && o.Stmt.End() <= n.End() {
								return true
							}
						}
						return false
					}
					if f.EnclosingLit(at) != nil || c.ReachesWithout(nil, at, redefined) {
						out = append(out, Source{Kind: "param", Obj: v, Field: field, Expr: e})
					}
				}
			}
			return
		}
		out = append(out, Source{Kind: "other", Expr: e, Field: field})
	}
	walk(e, "", 0, at)
	return out
}

func isParam(f *Func, v *types.Var) bool {
	sig := f.Obj.Type().(*types.Signature)
	for i := 0; i < sig.Params().Len(); i++ {
		if sig.Params().At(i) == v {
			return true
		}
	}
	if sig.Recv() == v {
		return true
	}
	// named results count as zero-initialised locals, not params
	return false
}

// OnlyFromCall reports whether every leaf source of e is result idx of a call
// to key (idx < 0: any result). Returns the call sites found.
func (f *Func) OnlyFromCall(e ast.Expr, key string, idx int) (bool, []*ast.CallExpr) {
	srcs := f.Sources(e)
	if len(srcs) == 0 {
		return false, nil
	}
	var calls []*ast.CallExpr
	for _, s := range srcs {
		if s.Kind != "call" || s.Key != key {
			return false, nil
		}
		if idx >= 0 && s.Idx >= 0 && s.Idx != idx {
			return false, nil
		}
		calls = append(calls, s.Call)
	}
	return true, calls
}

// Param returns the i-th parameter object of f.
func (f *Func) Param(i int) *types.Var {
	sig := f.Obj.Type().(*types.Signature)
	if i < sig.Params().Len() {
		return sig.Params().At(i)
	}
	return nil
}

// Recv returns the receiver object.
func (f *Func) Recv() *types.Var { return f.Obj.Type().(*types.Signature).Recv() }

// Result returns the i-th named result object (nil if unnamed).
func (f *Func) Result(i int) *types.Var {
	sig := f.Obj.Type().(*types.Signature)
	if i < sig.Results().Len() {
		v := sig.Results().At(i)
		if v.Name() != "" {
			return v
		}
	}
	return nil
}

// LocalNamed finds a local variable object by the name of its declaration;
// used only for diagnostics, never for matching.
func (f *Func) AssignsFrom(key string) []*ast.AssignStmt {
	var out []*ast.AssignStmt
	ast.Inspect(f.Decl.Body, func(n ast.Node) bool {
		if as, ok := n.(*ast.AssignStmt); ok && len(as.Rhs) == 1 {
			if c, ok := StripConv(f.Info(), as.Rhs[0]).(*ast.CallExpr); ok && CalleeKey(f.Info(), c) == key {
				out = append(out, as)
			}
		}
		return true
	})
	return out
}

// ResultObj returns the object the i-th result of call c is assigned to in
// the statement that contains it (nil when discarded or not a plain assign).
func (f *Func) ResultObj(c *ast.CallExpr, i int) types.Object {
	par := f.Parent(c)
	for {
		if p, ok := par.(*ast.ParenExpr); ok {
			par = f.Parent(p)
			continue
		}
		break
	}
	info := f.Info()
	switch s := par.(type) {
	case *ast.AssignStmt:
		if len(s.Rhs) == 1 && i < len(s.Lhs) {
			return ObjOf(info, s.Lhs[i])
		}
		for k, r := range s.Rhs {
			if Unparen(r) == ast.Expr(c) && i == 0 && k < len(s.Lhs) {
				return ObjOf(info, s.Lhs[k])
			}
		}
	case *ast.ValueSpec:
		if len(s.Values) == 1 && i < len(s.Names) {
			return info.Defs[s.Names[i]]
		}
	}
	return nil
}

// ResultLhs is ResultObj but returns the lvalue expression.
func (f *Func) ResultLhs(c *ast.CallExpr, i int) ast.Expr {
	par := f.Parent(c)
	if s, ok := par.(*ast.AssignStmt); ok {
		if len(s.Rhs) == 1 && i < len(s.Lhs) {
			return s.Lhs[i]
		}
		for k, r := range s.Rhs {
			if Unparen(r) == ast.Expr(c) && i == 0 && k < len(s.Lhs) {
				return s.Lhs[k]
			}
		}
	}
	return nil
}

// SourcesOfField traces the value of base.field (base a local struct
// variable or named result) at use point `at`: field-wise stores
// `base.field = …` and whole-struct stores `base = T{…}` / `base = call()`.
func (f *Func) SourcesOfField(base ast.Expr, field string, at ast.Node) []Source {
	info := f.Info()
	bp, ok := PathOf(info, base)
	if !ok {
		return []Source{{Kind: "other", Expr: base}}
	}
	idx := f.defsIndex()
	var out []Source
	for _, d := range f.reaching(idx[bp+"."+field], at) {
		switch {
		case d.Zero || d.Rhs == nil:
			out = append(out, Source{Kind: "zero", Field: field})
		default:
			if c, ok := StripConv(info, d.Rhs).(*ast.CallExpr); ok && d.Idx >= 0 {
				out = append(out, Source{Kind: "call", Call: c, Key: CalleeKey(info, c), Idx: d.Idx, Expr: d.Rhs})
			} else {
				out = append(out, f.SourcesAt(d.Rhs, d.Stmt)...)
			}
		}
	}
	// whole-struct definitions, unless a field store overwrites them on every path
	for _, d := range f.reaching(idx[bp], at) {
		if d.Zero || d.Rhs == nil {
			if len(out) == 0 {
				out = append(out, Source{Kind: "zero", Field: field})
			}
			continue
		}
		// is the whole-struct def shadowed by a later field store on all paths?
		fieldDefs := idx[bp+"."+field]
		if len(fieldDefs) > 0 && d.Stmt != nil && f.EnclosingLit(d.Stmt) == f.EnclosingLit(at) {
			c := f.CFGFor(at)
			over := func(n ast.Node) bool {
				for _, o := range fieldDefs {
					if o.Stmt != nil && n.Pos() <= o.Stmt.Pos() && o.Stmt.End() <= n.End() {
						return true
					}
				}
				return false
			}
			if !c.ReachesWithout(d.Stmt, at, over) {
				continue
			}
		}
		rhs := StripConv(info, d.Rhs)
		if u, ok := rhs.(*ast.UnaryExpr); ok && u.Op == token.AND {
			rhs = Unparen(u.X)
		}
		switch r := rhs.(type) {
		case *ast.CompositeLit:
			st, _ := info.TypeOf(r).Underlying().(*types.Struct)
			found := false
			for i, el := range r.Elts {
				if kv, ok := el.(*ast.KeyValueExpr); ok {
					if id, ok := kv.Key.(*ast.Ident); ok && id.Name == field {
						out = append(out, f.SourcesAt(kv.Value, d.Stmt)...)
						found = true
					}
				} else if st != nil && i < st.NumFields() && st.Field(i).Name() == field {
					out = append(out, f.SourcesAt(el, d.Stmt)...)
					found = true
				}
			}
			if !found {
				out = append(out, Source{Kind: "zero", Field: field})
			}
		case *ast.CallExpr:
			out = append(out, Source{Kind: "call", Call: r, Key: CalleeKey(info, r), Idx: d.Idx, Field: field, Expr: d.Rhs})
		default:
			for _, s := range f.SourcesAt(d.Rhs, d.Stmt) {
				if s.Field == "" {
					s.Field = field
				} else {
					s.Field = s.Field + "." + field
				}
				out = append(out, s)
			}
		}
	}
	if len(out) == 0 {
		if v, ok := RootObj(info, base).(*types.Var); ok && isParam(f, v) {
			out = append(out, Source{Kind: "param", Obj: v, Field: field})
		} else {
			out = append(out, Source{Kind: "zero", Field: field})
		}
	}
	return out
}

// DefsReaching returns the definitions of the lvalue path (PathOf string)
// that reach node at.
func (f *Func) DefsReaching(path string, at ast.Node) []Def {
	return f.reaching(f.defsIndex()[path], at)
}
