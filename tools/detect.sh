#!/bin/bash
# static detection only: apply <patch> to a scratch copy of /repo, run all 18 checks, print who fires
#   tools/detect.sh <patch.diff> [name]
V=$(cd "$(dirname "$0")/.." && pwd)
P=$(readlink -f "$1"); N=${2:-$(basename $(dirname $P))}
D=$(mktemp -d /tmp/gbdet.XXXXXX)
trap 'rm -rf "$D"' EXIT
rsync -a --exclude .git --exclude '*.tmp' /repo/ "$D/r/"
mkdir -p "$D/v"; cp "$V/known_findings.json" "$D/v/"
if ! ( cd "$D/r" && patch -p1 -s -f < "$P" ) >/dev/null 2>&1; then echo "$N: PATCH-FAILS"; exit 0; fi
out=$("${GBBIN:-$V/bin/gbcheck}" -verif "$D/v" -repo "$D/r" -property all -no-evidence 2>&1)
echo "$out" > "${OUTDIR:-/tmp}/det_$N.out"
python3 - "$N" "${OUTDIR:-/tmp}/det_$N.out" <<'PY'
import re,sys
n,f=sys.argv[1:3]
fired={};last=''
for ln in open(f):
    m=re.match(r'^(\S+): (C\d\d\.[A-Za-z0-9′\']+) ',ln)
    if m: last=m.group(2)
    m=re.match(r'^VIOLATION property=(C\d\d)',ln)
    if m: fired.setdefault(m.group(1),set()).add(last)
    m=re.match(r'^UNDECIDED property=(C\d\d) rule=(\S+)',ln)
    if m: fired.setdefault(m.group(1),set()).add(m.group(2)+'?')
    m=re.match(r'^UNDECIDED property=(C\d\d) reason=(type errors|packages)',ln)
    if m: fired.setdefault('LOAD',set()).add('typeerror')
print(n+':',' '.join('%s[%s]'%(p,','.join(sorted(r))) for p,r in sorted(fired.items())))
PY
