package store

import (
	"testing"

	"github.com/douban/gobeansdb/cmem"
)

// Two keys sharing one 64-bit hash are written into data file 1 (file 0 holds a
// filler from an earlier run), no get in between, clean close, reopen with all
// index files intact: both keys must still be readable.
func TestReproCollidingKeysReadableAfterRestart(t *testing.T) {
	Conf.InitDefault()
	setupTest("TestReproMaxChunk")
	defer clearTest()
	Conf.NumBucket = 1
	Conf.BucketsStat = []int{1}
	Conf.TreeHeight = 3
	Conf.Init()
	getKeyHash = func(key []byte) uint64 {
		s := string(key)
		if s == "coll_A" || s == "coll_B" {
			return 0x1234567812345678
		}
		return getKeyHashDefalut(key)
	}
	defer func() { getKeyHash = getKeyHashDefalut }()
	set := func(store *HStore, k, v string) {
		ki := NewKeyInfoFromBytes([]byte(k), getKeyHash([]byte(k)), false)
		p := &Payload{}
		p.Body = []byte(v)
		p.Ver = 0
		p.TS = 1
		cmem.DBRL.SetData.AddSizeAndCount(p.CArray.Cap)
		if err := store.Set(ki, p); err != nil {
			t.Fatal(err)
		}
	}
	get := func(store *HStore, k string) string {
		ki := NewKeyInfoFromBytes([]byte(k), getKeyHash([]byte(k)), false)
		p, _, err := store.Get(ki, false)
		if err != nil {
			t.Fatalf("get %s: %v", k, err)
		}
		if p == nil {
			return "<miss>"
		}
		return string(p.Body)
	}
	store, err := NewHStore()
	if err != nil {
		t.Fatal(err)
	}
	set(store, "filler", "f")
	store.Close()
	store, err = NewHStore()
	if err != nil {
		t.Fatal(err)
	}
	set(store, "coll_A", "value-A")
	set(store, "coll_B", "value-B")
	store.Close()
	store, err = NewHStore()
	if err != nil {
		t.Fatal(err)
	}
	defer store.Close()
	t.Logf("maxChunkID after reopen = %d", store.buckets[0].hints.maxChunkID)
	if a, b := get(store, "coll_A"), get(store, "coll_B"); a != "value-A" || b != "value-B" {
		t.Fatalf("after restart: coll_A=%q coll_B=%q", a, b)
	}
}
