package rules

import (
	"go/ast"
	"go/token"
	"go/types"
	"sort"
	"strings"

	"golang.org/x/tools/go/cfg"

	"gbcheck/internal/prog"
)

func init() {
	register(&Property{
		ID:      "C11",
		Clause:  "every verb the parser accepts has a handler (or is one of the frozen verbs answered by an orderly close) and every verb the client serialiser writes is parsed; every path of the per-command loop body either writes and flushes exactly one reply, is a noreply, or closes the connection; a contained panic closes the connection instead of leaving the client waiting; constant indices and slices of request-derived strings/lists are dominated by a sufficient length test, variable-length slices of fixed buffers by a capacity test, bucket indices derived from directory keys by a test of the parse result, header reads of stored bytes by a length test or a recover; the body is read with the validated (non-negative) length and both terminator bytes are checked; a network error closes without a reply, every other parse error is answered; per-command request state is reset unconditionally; no lock is held across a blocking channel operation",
		NotDec:  "syntactic validity of every reply for every byte stream, byte-exact transfer, parse/print round trip, behaviour on truncated streams, swallowing of a rejected body",
		Engines: "E7 verb tables + E2 edge-sensitive path search over ServeOnce's CFG + E8 panic containment + E9 length lower-bound solver",
		Rules: []Rule{
			{"C11.R1", "q", "verb tables", c11r1},
			{"C11.R2", "q", "one reply per path", c11r2},
			{"C11.R3", "q", "contained panic is surfaced", c11r3},
			{"C11.R4", "q", "request-controlled bounds", c11r4},
			{"C11.R4b", "q", "negative bucket index", c11r4b},
			{"C11.R4c", "q", "unchecked header reads of stored bytes", c11r4c},
			{"C11.R5", "q", "body length and terminator", c11r5},
			{"C11.R6", "q", "error classification", c11r6},
			{"C11.R9", "q", "per-command state reset", c11r9},
			{"C11.R10", "q", "reply shapes: every line CRLF-terminated, VALUE blocks closed by END", c11r10},
			{"C11.R8", "q", "no lock across blocking channel operations", c11r8},
			{"C15.R1", "q", "shared: bucket used only when READY (otherwise nil dereference ⇒ contained panic, no reply)", c15r1},
			{"C11.R11", "q", "command line split on the ASCII space only", c11r11},
			{"C12.R1", "q", "shared: request tokens (a lost token wedges every connection)", c12r1},
		},
	})
}

func c11r1(c *Ctx) {
	const R = "C11.R1"
	vt := buildVerbTables(c, R)
	if vt == nil {
		return
	}
	frozenNoHandler := map[string]string{"quit": "closes the connection", "prepend": "not supported: orderly close", "decr": "not supported: orderly close"}
	var verbs []string
	for v := range vt.read {
		verbs = append(verbs, v)
	}
	sort.Strings(verbs)
	if len(verbs) < 10 {
		c.undec(R, "memcache.Request.Read", "fewer than 10 verbs recognised in the parser's switch")
		return
	}
	for _, v := range verbs {
		key := "verb " + v + ": accepted by Read ⇒ handled by Process"
		switch {
		case vt.proc[v]:
			c.ok(R, key, "-", "handler produces a response")
		case frozenNoHandler[v] != "":
			c.ok(R, key, "-", "frozen: "+frozenNoHandler[v])
		default:
			c.viol(R, key, "memcache/protocol.go", "the parser accepts `"+v+"` but Process has no handler producing a response for it: the command falls into the default branch (no reply object) and the connection is closed although the command is well-formed")
		}
	}
	var ws []string
	for v := range vt.write {
		ws = append(ws, v)
	}
	sort.Strings(ws)
	for _, v := range ws {
		c.check(vt.read[v], R, "verb "+v+": written by Request.Write ⇒ parsed by Request.Read", "-", "parsed", "the client-side serialiser writes `"+v+"` but the parser does not accept it: serialise/parse no longer round-trips")
	}
}

// serveModel recognises the pieces of ServeOnce.
func c11r2(c *Ctx) {
	const R = "C11.R2"
	f := c.fn(R, "memcache.ServerConn.ServeOnce")
	if f == nil {
		return
	}
	info := f.Info()
	writes := f.CallsTo("memcache.Response.Write")
	flushes := f.CallsTo("bufio.Writer.Flush")
	if len(writes) == 0 || len(flushes) == 0 {
		c.viol(R, f.Key+": reply written and flushed", f.Pos(), "ServeOnce no longer writes the response and flushes the connection's writer")
		return
	}
	g := f.CFG()
	// edge-sensitive search: a path from entry to a normal exit that neither
	// passes Shutdown nor resp.Write, and does not take the noreply edge
	isPass := f.ContainsCall("memcache.Response.Write", "memcache.ServerConn.Shutdown", "memcache.ServerConn.Close")
	type res struct {
		trail []ast.Node
		exit  ast.Node
	}
	var found *res
	seen := map[*cfg.Block]bool{}
	var trail []ast.Node
	var walk func(b *cfg.Block) bool
	walk = func(b *cfg.Block) bool {
		mark := len(trail)
		defer func() { trail = trail[:mark] }()
		for _, n := range b.Nodes {
			if isPass(n) {
				return false
			}
			trail = append(trail, n)
		}
		if len(b.Succs) == 0 {
			last := ast.Node(nil)
			if len(b.Nodes) > 0 {
				last = b.Nodes[len(b.Nodes)-1]
				if es, ok := last.(*ast.ExprStmt); ok {
					if call, ok := es.X.(*ast.CallExpr); ok && !c.P.MayReturn(info, call) {
						return false
					}
				}
			}
			found = &res{append([]ast.Node(nil), trail...), last}
			return true
		}
		succs := b.Succs
		// noreply test: follow only the reply-required edge
		if len(b.Nodes) > 0 && len(succs) == 2 {
			if cond, ok := b.Nodes[len(b.Nodes)-1].(ast.Expr); ok && prog.MentionsField(info, cond, "memcache.Response.Noreply") {
				for _, a := range prog.Decompose(cond, true, nil) {
					if a.Op == token.ILLEGAL && prog.IsField(info, "memcache.Response.Noreply")(prog.Unparen(a.X)) {
						if a.Neg {
							succs = succs[:1] // then-branch = reply required
						} else {
							succs = succs[1:]
						}
					}
				}
			}
		}
		for _, s := range succs {
			if seen[s] {
				continue
			}
			seen[s] = true
			if walk(s) {
				return true
			}
		}
		return false
	}
	if len(g.G.Blocks) > 0 {
		seen[g.G.Blocks[0]] = true
		walk(g.G.Blocks[0])
	}
	c.Paths++
	if found != nil {
		pos := f.Pos()
		if found.exit != nil {
			pos = c.pos(found.exit)
		}
		c.viol(R, f.Key+": every reply-required path writes the reply or closes", pos, "a path through ServeOnce reaches a normal return with a reply owed (not noreply) without writing it and without scheduling the connection to close: the client waits for a reply that never comes and every later reply on the connection is off by one", c.trail(found.trail)...)
	} else {
		c.ok(R, f.Key+": every reply-required path writes the reply or closes", f.Pos(), "no silent exit")
	}
	// Write ≺ Flush on success
	c.Paths++
	esc := g.EscapesWithout(writes[0].Expr, f.ContainsCall("bufio.Writer.Flush"), func(n ast.Node) bool {
		rs, ok := n.(*ast.ReturnStmt)
		if !ok {
			return false
		}
		for _, a := range f.GuardsAt(rs) {
			if a.Op == token.NEQ && a.Y != nil && prog.IsNil(info, a.Y) {
				return true
			}
		}
		return false
	})
	c.check(!esc.Found, R, f.Key+": written reply is flushed", writes[0].Pos(), "Write ⇒ Flush on every non-error path", "a reply is written into the buffered writer but a path returns without flushing it", c.trail(esc.Trail)...)
	// exactly one Write site
	c.check(len(writes) == 1, R, f.Key+": single reply write site", writes[0].Pos(), "1", "ServeOnce writes replies at "+itoa(len(writes))+" sites: a path may answer twice")
	// Serve closes the connection once Shutdown was requested
	if sv := c.fn(R, "memcache.ServerConn.Serve"); sv != nil {
		sinfo := sv.Info()
		okLoop := false
		ast.Inspect(sv.Decl.Body, func(x ast.Node) bool {
			if fs, ok := x.(*ast.ForStmt); ok && fs.Cond != nil && prog.MentionsField(sinfo, fs.Cond, "memcache.ServerConn.closeAfterReply") {
				okLoop = true
			}
			return true
		})
		c.check(okLoop && len(sv.CallsTo("memcache.ServerConn.Close")) > 0, R, sv.Key+": loop ends on closeAfterReply and closes", sv.Pos(), "for !closeAfterReply { … } Close()", "Serve no longer stops serving and closes the connection after Shutdown was requested")
	}
}

func c11r3(c *Ctx) {
	const R = "C11.R3"
	f := c.fn(R, "memcache.ServerConn.ServeOnce")
	if f == nil {
		return
	}
	info := f.Info()
	var recIf *ast.IfStmt
	var dfr *ast.DeferStmt
	ast.Inspect(f.Decl.Body, func(x ast.Node) bool {
		if d, ok := x.(*ast.DeferStmt); ok && len(f.CallsIn(d, "builtin.recover")) > 0 {
			dfr = d
			ast.Inspect(d, func(y ast.Node) bool {
				if is, ok := y.(*ast.IfStmt); ok && recIf == nil {
					// if e := recover(); e != nil  /  if recover() != nil
					if len(f.CallsIn(is.Init, "builtin.recover")) > 0 || len(f.CallsIn(is.Cond, "builtin.recover")) > 0 {
						recIf = is
					}
				}
				return true
			})
		}
		return true
	})
	if dfr == nil || recIf == nil {
		c.viol(R, f.Key+": panics contained per command", f.Pos(), "ServeOnce has no deferred recover: a panic in one command kills the connection goroutine (and, unrecovered, the process)")
		return
	}
	reads := f.CallsTo("memcache.Request.Read")
	if len(reads) > 0 {
		c.Paths++
		c.check(f.CFG().Dominates(dfr, reads[0].Expr), R, f.Key+": recover registered before the command is read", c.pos(dfr), "dominates req.Read", "the recover is registered after req.Read: a panic while parsing is not contained")
	}
	surf := len(f.CallsIn(recIf.Body, "memcache.ServerConn.Shutdown", "memcache.ServerConn.Close", "memcache.Response.Write")) > 0
	_ = info
	c.check(surf, R, f.Key+": recovered panic closes the connection or replies", c.pos(recIf), "Shutdown/Close/Write in the recover branch", "after a contained panic ServeOnce returns normally with no reply written and the connection left open: the client of that command waits forever")
	c11r3b(c)
}

var requestPathFuncs = []string{
	"memcache.splitKeys", "memcache.Request.Read", "memcache.Request.Process", "memcache.Response.CleanBuffer",
	"gobeansdb.StorageClient.Get", "gobeansdb.StorageClient.GetMulti", "gobeansdb.StorageClient.getMeta", "gobeansdb.StorageClient.listDir",
	"store.ParsePathString", "store.KeyInfo.Prepare", "store.KeyInfo.setKeyHashByPath", "store.IsValidKeyString",
	"store.HStore.ListDir", "store.HStore.GetRecordByKeyHash",
}

func c11r4(c *Ctx) {
	const R = "C11.R4"
	c.Floor(R, 15)
	s := &lenSolver{c: c}
	for _, k := range requestPathFuncs {
		f := c.fn(R, k)
		if f == nil {
			continue
		}
		info := f.Info()
		ord := map[string]int{}
		ast.Inspect(f.Decl.Body, func(x ast.Node) bool {
			var base ast.Expr
			var need int64 = -1
			var desc string
			var site ast.Node
			switch e := x.(type) {
			case *ast.IndexExpr:
				t := info.TypeOf(e.X)
				if t == nil {
					return true
				}
				switch t.Underlying().(type) {
				case *types.Basic, *types.Slice:
				default:
					return true
				}
				if v, ok := prog.ConstInt(info, e.Index); ok {
					base, need, desc, site = e.X, v+1, "["+itoa(int(v))+"]", e
				} else if be, ok := prog.Unparen(e.Index).(*ast.BinaryExpr); ok && be.Op == token.SUB && isLenOf(info, be.X, e.X) {
					if v, ok := prog.ConstInt(info, be.Y); ok {
						base, need, desc, site = e.X, v, "[len-"+itoa(int(v))+"]", e
					}
				}
			case *ast.SliceExpr:
				t := info.TypeOf(e.X)
				if t == nil {
					return true
				}
				var hi, lo int64 = -1, 0
				if e.Low != nil {
					if v, ok := prog.ConstInt(info, e.Low); ok {
						lo = v
					} else if !isLenMinus(info, e.Low, e.X) {
						lo = -1
					}
				}
				if e.High != nil {
					if v, ok := prog.ConstInt(info, e.High); ok {
						hi = v
					} else if be, ok := prog.Unparen(e.High).(*ast.BinaryExpr); ok && be.Op == token.SUB && isLenOf(info, be.X, e.X) {
						if v, ok := prog.ConstInt(info, be.Y); ok {
							base, need, desc, site = e.X, v, "[:len-"+itoa(int(v))+"]", e
						}
					} else {
						// variable high bound on a fixed buffer: capacity rule
						c11capacity(c, R, f, e)
						return true
					}
				}
				if site == nil {
					n := hi
					if lo > n {
						n = lo
					}
					if n > 0 {
						base, need, desc, site = e.X, n, "["+boundStr(lo)+":"+boundStr(hi)+"]", e
					}
				}
			}
			if site == nil || need <= 0 {
				return true
			}
			bt := types.ExprString(base)
			if fk, _ := prog.FieldOf(info, base); fk != "" {
				bt = short(fk)
			} else if o := prog.RootObj(info, base); o != nil {
				if v, ok := o.(*types.Var); ok && isParamOf(f, v) {
					bt = "param" + itoa(paramIndex(f, v))
				} else {
					bt = "local"
				}
			}
			kk := f.Key + ": " + bt + desc
			ord[kk]++
			if ord[kk] > 1 {
				kk += " #" + itoa(ord[kk])
			}
			c.Paths++
			got := s.lower(f, base, site)
			c.check(got >= need, R, kk, c.pos(site), "len >= "+itoa(int(got))+" proven, "+itoa(int(need))+" needed", "an index/slice of request-derived data needs length >= "+itoa(int(need))+" but only >= "+itoa(int(got))+" is established on every path: a short or malformed request panics here (the panic is contained, so the client gets no reply)")
			return true
		})
	}
}

func boundStr(v int64) string {
	if v < 0 {
		return ""
	}
	return itoa(int(v))
}

func isLenMinus(info *types.Info, e, base ast.Expr) bool {
	if be, ok := prog.Unparen(e).(*ast.BinaryExpr); ok && be.Op == token.SUB && isLenOf(info, be.X, base) {
		return true
	}
	return isLenOf(info, e, base)
}

// c11capacity: `buf[:n]` with a non-constant n on a slice/array: n must be
// bounded above by a dominating comparison, unless n is a loop-bounded index
// or len() of the same object.
func c11capacity(c *Ctx, R string, f *prog.Func, e *ast.SliceExpr) {
	info := f.Info()
	hi := prog.Unparen(e.High)
	t := info.TypeOf(e.X)
	if t == nil {
		return
	}
	if _, isStr := t.Underlying().(*types.Basic); isStr {
		// s[:n] on strings in these functions: n derived by loops over the same string — judged by the constant rule only
		if !strings.Contains(types.ExprString(hi), "len(") {
			return
		}
	}
	// high bound is len(<something else>) or a value flowing from one
	fromLen := false
	var lenArg ast.Expr
	if call, ok := prog.StripConv(info, hi).(*ast.CallExpr); ok && prog.CalleeKey(info, call) == "builtin.len" {
		fromLen, lenArg = true, call.Args[0]
	}
	if !fromLen {
		// Conf.TreeDepth etc.: configuration-bounded, judged by the explicit guard below as well
		lenArg = hi
	}
	if lenArg != nil && sameBase(info, lenArg, e.X) {
		return
	}
	key := f.Key + ": " + types.ExprString(e.X) + "[:" + types.ExprString(hi) + "] bounded by capacity"
	if fk, _ := prog.FieldOf(info, e.X); fk != "" {
		key = f.Key + ": " + short(fk) + "[:n] bounded by capacity"
	} else if o := prog.RootObj(info, e.X); o != nil {
		if v, ok := o.(*types.Var); ok && isParamOf(f, v) {
			key = f.Key + ": param" + itoa(paramIndex(f, v)) + "[:n] bounded by capacity"
		}
	}
	bounded := false
	for _, a := range f.GuardsAt(e) {
		if a.Y == nil {
			continue
		}
		for _, pr := range [][3]interface{}{{a.X, a.Y, a.Op}, {a.Y, a.X, mirrorOp(a.Op)}} {
			x, op := pr[0].(ast.Expr), pr[2].(token.Token)
			if (op == token.LEQ || op == token.LSS || op == token.EQL) && (prog.SameExpr(info, prog.StripConv(info, x), prog.StripConv(info, hi)) || (lenArg != nil && isLenOf(info, x, lenArg))) {
				bounded = true
			}
			// KeyPath[:TreeDepth] guarded by len(KeyPath) >= TreeDepth
			if (op == token.GEQ || op == token.GTR) && isLenOf(info, x, e.X) && prog.SameExpr(info, prog.StripConv(info, pr[1].(ast.Expr)), prog.StripConv(info, hi)) {
				bounded = true
			}
		}
	}
	if !bounded && f.Key == "store.KeyInfo.Prepare" {
		// non-path keys: KeyPath is the 16-digit path of the hash and TreeDepth <= 2 by InitTree
		for _, a := range f.GuardsAt(e) {
			_ = a
		}
		if !fromLen {
			ok := true
			// every path reaching this slice either took the non-path branch (16 digits) or passed the len(KeyPath) < TreeDepth return
			isPath := prog.IsField(info, "store.KeyInfo.KeyIsPath")
			ast.Inspect(f.Decl.Body, func(x ast.Node) bool {
				if is, isIf := x.(*ast.IfStmt); isIf && isPath(prog.Unparen(is.Cond)) {
					guarded := false
					ast.Inspect(is.Body, func(y ast.Node) bool {
						if in, ok2 := y.(*ast.IfStmt); ok2 && f.Terminates(in.Body) {
							for _, at := range prog.Decompose(in.Cond, true, in) {
								if at.Op == token.LSS && at.Y != nil && prog.SameExpr(info, prog.StripConv(info, at.Y), prog.StripConv(info, hi)) {
									guarded = true
								}
							}
						}
						return true
					})
					ok = ok && guarded
				}
				return true
			})
			bounded = ok
		}
	}
	c.Paths++
	c.check(bounded, "C11.R4", key, c.pos(e), "upper bound tested before slicing", "a fixed-capacity buffer is sliced to a length that comes from the request (or configuration) with no dominating comparison against its capacity: an over-long input panics here; the panic is contained by ServeOnce, so the client gets no reply and keeps waiting")
}

func c11r4b(c *Ctx) {
	const R = "C11.R4b"
	n := 0
	for _, f := range c.P.SortedFuncs() {
		if f.Pkg.Name != "store" || f.Decl.Recv == nil || !strings.HasPrefix(f.Key, "store.HStore.") {
			continue
		}
		info := f.Info()
		preps := f.CallsTo("store.KeyInfo.Prepare")
		if len(preps) == 0 {
			continue
		}
		// entry points for path keys: no fresh hash is computed from ki.Key before Prepare
		hashes := false
		ast.Inspect(f.Decl.Body, func(x ast.Node) bool {
			if as, ok := x.(*ast.AssignStmt); ok && len(as.Lhs) == 1 && prog.IsField(info, "store.KeyInfo.KeyHash")(as.Lhs[0]) {
				hashes = true
			}
			return true
		})
		if hashes {
			continue
		}
		errObj := f.ResultObj(preps[0].Expr, 0)
		ast.Inspect(f.Decl.Body, func(x ast.Node) bool {
			ix, ok := x.(*ast.IndexExpr)
			if !ok || !prog.IsField(info, "store.HStore.buckets")(prog.Unparen(ix.X)) || !prog.IsField(info, "store.KeyPos.BucketID")(prog.Unparen(ix.Index)) {
				return true
			}
			n++
			c.Funcs[f.Key] = true
			g := f.GuardsAt(ix)
			okG := errObj != nil && prog.HasNilFact(info, g, prog.IsObj(info, errObj), true)
			for _, a := range g {
				if prog.AtomCmp(a, token.GEQ, prog.IsField(info, "store.KeyPos.BucketID"), prog.IsIntConst(info, 0)) {
					okG = true
				}
			}
			c.check(okG, R, f.Key+": buckets[ki.BucketID] after a checked Prepare", c.pos(ix), "guarded by the parse result", "a directory/key-hash key is parsed by KeyInfo.Prepare, whose error (non-hex digit, too short ⇒ BucketID = -1) is ignored before store.buckets[ki.BucketID]: `get @@` + 16 non-hex characters indexes buckets[-1]; the panic is contained and the client gets no reply")
			return true
		})
	}
	if n == 0 {
		c.undec(R, "store.HStore", "no path-key entry point indexing store.buckets recognised")
	}
}

func c11r4c(c *Ctx) {
	const R = "C11.R4c"
	// helpers that index their []byte argument at constant offsets with no length test
	unchecked := map[string]bool{}
	pk := "quicklz"
	for iter := 0; iter < 3; iter++ {
		for _, f := range c.P.SortedFuncs() {
			if f.Pkg.Name != pk || unchecked[f.Key] {
				continue
			}
			info := f.Info()
			p0 := f.Param(0)
			if p0 == nil {
				continue
			}
			if _, isSlice := p0.Type().Underlying().(*types.Slice); !isSlice {
				continue
			}
			if len(f.CallsTo("builtin.recover")) > 0 {
				continue
			}
			hasLen := false
			idx := false
			ast.Inspect(f.Decl.Body, func(x ast.Node) bool {
				switch e := x.(type) {
				case *ast.CallExpr:
					if prog.CalleeKey(info, e) == "builtin.len" && len(e.Args) == 1 && prog.ObjOf(info, e.Args[0]) == p0 {
						hasLen = true
					}
					if unchecked[prog.CalleeKey(info, e)] && len(e.Args) > 0 && prog.ObjOf(info, e.Args[0]) == p0 {
						idx = true
					}
				case *ast.IndexExpr:
					if prog.ObjOf(info, e.X) == p0 {
						idx = true
					}
				}
				return true
			})
			if idx && !hasLen && len(f.Decl.Body.List) <= 8 {
				unchecked[f.Key] = true
			}
		}
	}
	var names []string
	for k := range unchecked {
		names = append(names, k)
	}
	sort.Strings(names)
	if len(names) < 2 {
		c.undec(R, "quicklz header helpers", "unchecked header readers not recognised (found: "+strings.Join(names, ",")+")")
		return
	}
	c.note("unchecked header readers: %s", strings.Join(names, ","))
	n := 0
	for _, f := range c.P.SortedFuncs() {
		if unchecked[f.Key] {
			continue
		}
		info := f.Info()
		for _, call := range f.Calls() {
			if !unchecked[call.Key] {
				continue
			}
			if f.Pkg.Name == "quicklz" && (strings.Contains(f.Key, "ompress") && !strings.Contains(f.Key, "Safe")) {
				continue // the raw codecs themselves; reached only through the Safe wrappers or with self-produced input
			}
			n++
			c.Funcs[f.Key] = true
			key := f.Key + ": " + short(call.Key) + " on stored bytes is length-checked or recovered"
			if len(c.P.CallersOf(f.Key)) == 0 && f.Decl.Recv != nil && f.Pkg.Name == "store" {
				c.ok(R, key, call.Pos(), "no caller in the program (dead code)")
				continue
			}
			// (a) deferred recover in the same function
			rec := false
			ast.Inspect(f.Decl.Body, func(x ast.Node) bool {
				if d, ok := x.(*ast.DeferStmt); ok && len(f.CallsIn(d, "builtin.recover")) > 0 {
					rec = true
				}
				return true
			})
			// (b) dominating length test
			lenOK := false
			if len(call.Expr.Args) > 0 {
				for _, a := range f.GuardsAt(call.Expr) {
					if a.Y != nil && (isLenOf(info, a.X, call.Expr.Args[0]) || isLenOf(info, a.Y, call.Expr.Args[0])) {
						lenOK = true
					}
				}
			}
			c.check(rec || lenOK, R, key, call.Pos(), "recover or len test", "a QuickLZ header field is read from stored bytes (fixed offsets 0..8) with no length test and no recover in "+f.Key+": a client can store any flag word, including the server's compress bit, with a body shorter than a QuickLZ header; every later read of that key panics (contained ⇒ no reply)")
		}
	}
	if n < 3 {
		c.undec(R, "quicklz header helpers", "fewer than 3 call sites found")
	}
}

func c11r5(c *Ctx) {
	const R = "C11.R5"
	f := c.fn(R, "memcache.Request.Read")
	if f == nil {
		return
	}
	info := f.Info()
	allocs := f.CallsTo("cmem.CArray.Alloc")
	if len(allocs) == 0 {
		c.undec(R, f.Key, "body allocation not found")
		return
	}
	al := allocs[0]
	length := prog.ObjOf(info, al.Expr.Args[0])
	// length is the parsed <bytes> field and was validated as an unsigned size
	okVal := false
	for _, a := range f.GuardsAt(al.Expr) {
		if a.Op == token.ILLEGAL && !a.Neg {
			if call, ok := prog.Unparen(a.X).(*ast.CallExpr); ok && prog.CalleeKey(info, call) == "config.IsValidValueSize" {
				// argument must be an unsigned conversion of length (negatives become huge)
				if conv, ok := prog.Unparen(call.Args[0]).(*ast.CallExpr); ok && len(conv.Args) == 1 && prog.ObjOf(info, conv.Args[0]) == length {
					if tv, ok := info.Types[conv.Fun]; ok && tv.IsType() && strings.HasPrefix(tv.Type.String(), "uint") {
						okVal = true
					}
				}
			}
		}
		if prog.AtomCmp(a, token.GEQ, prog.IsObj(info, length), prog.IsIntConst(info, 0)) {
			// explicit non-negativity plus an upper bound elsewhere
			for _, b := range f.GuardsAt(al.Expr) {
				if prog.AtomCmp(b, token.LEQ, func(e ast.Expr) bool { return prog.Mentions(info, e, length) }, func(ast.Expr) bool { return true }) {
					okVal = true
				}
			}
		}
	}
	c.check(okVal, R, f.Key+": body length validated (non-negative, bounded) before allocation", al.Pos(), "IsValidValueSize(uint32(length)) holds", "the body length parsed from the command line reaches Alloc/make without a check that rejects negative values: `set k 0 0 -1` panics in make; the panic is contained, no reply is sent and the stream is left out of sync")
	// body read with exactly the allocated buffer
	rf := f.CallsTo("io.ReadFull")
	okRead := false
	for _, r := range rf {
		if prog.MentionsField(info, r.Expr.Args[1], "cmem.CArray.Body") && f.CFG().Dominates(al.Expr, r.Expr) {
			okRead = true
		}
	}
	c.check(okRead, R, f.Key+": body read with io.ReadFull into the allocated buffer", al.Pos(), "ReadFull(b, item.Body)", "the value is no longer read with io.ReadFull into the buffer of the declared length: short reads or delimiter-based reads break binary safety")
	// terminator: two ReadByte results compared with '\r' and '\n', mismatch ⇒ ErrBadDataChunk
	rb := f.CallsTo("bufio.Reader.ReadByte")
	okTerm := false
	if len(rb) >= 2 {
		c1, c2 := f.ResultObj(rb[0].Expr, 0), f.ResultObj(rb[1].Expr, 0)
		ast.Inspect(f.Decl.Body, func(x ast.Node) bool {
			is, ok := x.(*ast.IfStmt)
			if !ok {
				return true
			}
			m1, m2 := false, false
			ast.Inspect(is.Cond, func(y ast.Node) bool {
				if be, ok := y.(*ast.BinaryExpr); ok && be.Op == token.NEQ {
					if v, isC := prog.ConstInt(info, be.Y); isC {
						if prog.ObjOf(info, be.X) == c1 && v == '\r' {
							m1 = true
						}
						if prog.ObjOf(info, be.X) == c2 && v == '\n' {
							m2 = true
						}
					}
				}
				return true
			})
			if m1 && m2 {
				var rets []*ast.ReturnStmt
				ast.Inspect(is.Body, func(z ast.Node) bool {
					if _, isLit := z.(*ast.FuncLit); isLit {
						return false
					}
					if r, ok := z.(*ast.ReturnStmt); ok {
						rets = append(rets, r)
					}
					return true
				})
				for _, r := range rets {
					if len(r.Results) == 1 {
						if o := prog.ObjOf(info, r.Results[0]); o != nil && o.Name() == "ErrBadDataChunk" {
							okTerm = true
						}
					}
				}
			}
			return true
		})
	}
	c.check(okTerm, R, f.Key+": both terminator bytes checked", f.Pos(), "c1 != '\\r' || c2 != '\\n' ⇒ ErrBadDataChunk", "the two bytes after the value are not both compared with CR LF (or a mismatch is not rejected): a wrong length silently desynchronises the stream")
}

func c11r6(c *Ctx) {
	const R = "C11.R6"
	f := c.fn(R, "memcache.ServerConn.ServeOnce")
	if f == nil {
		return
	}
	info := f.Info()
	reads := f.CallsTo("memcache.Request.Read")
	if len(reads) == 0 {
		c.undec(R, f.Key, "req.Read not found")
		return
	}
	errObj := f.ResultLhs(reads[0].Expr, 0)
	// network error ⇒ Shutdown and return without a reply
	okNet := false
	ast.Inspect(f.Decl.Body, func(x ast.Node) bool {
		is, ok := x.(*ast.IfStmt)
		if !ok {
			return true
		}
		for _, a := range prog.Decompose(is.Cond, true, is) {
			if a.Op == token.EQL && a.Y != nil {
				if o := prog.ObjOf(info, a.Y); o != nil && o.Name() == "ErrNetworkError" && errObj != nil && prog.SameExpr(info, a.X, errObj) {
					if len(f.CallsIn(is.Body, "memcache.ServerConn.Shutdown")) > 0 && f.Terminates(is.Body) && len(f.CallsIn(is.Body, "memcache.Response.Write")) == 0 {
						okNet = true
					}
				}
			}
		}
		return true
	})
	c.check(okNet, R, f.Key+": network error ⇒ close, no reply", f.Pos(), "Shutdown; return", "a read error on the connection is no longer answered by closing it without writing")
	// every other parse-error branch builds a response with a non-empty status
	n := 0
	bad := ""
	ast.Inspect(f.Decl.Body, func(x ast.Node) bool {
		as, ok := x.(*ast.AssignStmt)
		if !ok || len(as.Lhs) != 1 || len(as.Rhs) != 1 {
			return true
		}
		if k, _ := prog.FieldOf(info, as.Lhs[0]); k == "memcache.Response.Status" && f.EnclosingLit(as) == nil {
			n++
			if v, isC := prog.ConstString(info, as.Rhs[0]); isC && v == "" {
				bad = c.pos(as)
			}
		}
		return true
	})
	c.check(n >= 3 && bad == "", R, f.Key+": error replies carry a status", f.Pos(), itoa(n)+" status assignments, none empty", "an error reply is built with an empty status line ("+bad+")")
}

func c11r9(c *Ctx) {
	const R = "C11.R9"
	f := c.fn(R, "memcache.Request.Clear")
	if f == nil {
		return
	}
	info := f.Info()
	ok := false
	cond := ""
	ast.Inspect(f.Decl.Body, func(x ast.Node) bool {
		if as, isA := x.(*ast.AssignStmt); isA && len(as.Lhs) == 1 && prog.IsField(info, "memcache.Request.NoReply")(as.Lhs[0]) {
			if b, isC := prog.ConstBool(info, as.Rhs[0]); isC && !b {
				ok = true
				for _, a := range f.Enclosing(as) {
					switch x := a.(type) {
					case *ast.IfStmt, *ast.SwitchStmt, *ast.ForStmt, *ast.RangeStmt, *ast.CaseClause:
						ok = false
						cond = c.pos(x)
					}
				}
			}
		}
		return true
	})
	c.check(ok, R, f.Key+": NoReply reset unconditionally", f.Pos(), "req.NoReply = false", "the per-connection request object is reused for every command but its NoReply flag is reset only under a condition ("+cond+") or not at all: after `delete k noreply` the next get/version/stats on that connection inherits the flag and is never answered")
	// ServeOnce's deferred cleanup calls Clear
	if sv := c.fn(R, "memcache.ServerConn.ServeOnce"); sv != nil {
		okD := false
		ast.Inspect(sv.Decl.Body, func(x ast.Node) bool {
			if d, isD := x.(*ast.DeferStmt); isD {
				for _, call := range sv.CallsIn(d, "memcache.Request.Clear") {
					if len(sv.GuardsAt(call.Expr)) == 0 {
						okD = true
					}
				}
			}
			return true
		})
		c.check(okD, R, sv.Key+": request cleared after every command", sv.Pos(), "deferred req.Clear()", "the request object is not cleared after every command")
	}
	// Read assigns Cmd on every parsed line and Keys before use
	if rd := c.fn(R, "memcache.Request.Read"); rd != nil {
		rinfo := rd.Info()
		okCmd := false
		ast.Inspect(rd.Decl.Body, func(x ast.Node) bool {
			if as, isA := x.(*ast.AssignStmt); isA && len(as.Lhs) == 1 && prog.IsField(rinfo, "memcache.Request.Cmd")(as.Lhs[0]) && len(rd.GuardsAt(as)) <= 3 {
				okCmd = true
			}
			return true
		})
		c.check(okCmd, R, rd.Key+": Cmd assigned from the parsed line", rd.Pos(), "req.Cmd = parts[0]", "the verb is not taken from the parsed line")
	}
}

func c11r8(c *Ctx) {
	const R = "C11.R8"
	L := c.P.Locks()
	n := 0
	for _, f := range c.P.SortedFuncs() {
		if f.Pkg.Name != "memcache" && f.Pkg.Name != "store" && f.Pkg.Name != "gobeansdb" {
			continue
		}
		ast.Inspect(f.Decl.Body, func(x ast.Node) bool {
			var op ast.Node
			switch e := x.(type) {
			case *ast.UnaryExpr:
				if e.Op == token.ARROW {
					op = e
				}
			case *ast.SendStmt:
				op = e
			}
			if op == nil {
				return true
			}
			// inside a select with a default clause it cannot block
			for _, a := range f.Enclosing(op) {
				if sel, ok := a.(*ast.SelectStmt); ok {
					for _, cs := range sel.Body.List {
						if cs.(*ast.CommClause).Comm == nil {
							return true
						}
					}
				}
			}
			n++
			ls, ok := L.At(f, op)
			if !ok {
				return true
			}
			c.Funcs[f.Key] = true
			c.check(len(ls) == 0, R, f.Key+": blocking channel operation with no lock held", c.pos(op), "lockset {}", "a possibly blocking channel operation runs with "+ls.String()+" held: a full/empty channel wedges every goroutine that needs that lock")
			return true
		})
	}
	if n == 0 {
		c.undec(R, "channel operations", "none found")
	}
}

// c11r10: structural well-formedness of Response.Write.
func c11r10(c *Ctx) {
	const R = "C11.R10"
	f := c.fn(R, "memcache.Response.Write")
	if f == nil {
		return
	}
	info := f.Info()
	cases := map[string]*ast.CaseClause{}
	ast.Inspect(f.Decl.Body, func(n ast.Node) bool {
		sw, ok := n.(*ast.SwitchStmt)
		if !ok || sw.Tag == nil || !prog.IsField(info, "memcache.Response.Status")(prog.Unparen(sw.Tag)) {
			return true
		}
		for _, cs := range sw.Body.List {
			cc := cs.(*ast.CaseClause)
			if cc.List == nil {
				cases["<default>"] = cc
			}
			for _, e := range cc.List {
				if v, ok := prog.ConstString(info, e); ok {
					cases[v] = cc
				}
			}
		}
		return false
	})
	if cases["VALUE"] == nil || cases["<default>"] == nil {
		c.undec(R, f.Key, "VALUE / default clauses not recognised")
		return
	}
	// the last thing every clause writes ends with CRLF
	lastLit := func(cc *ast.CaseClause) (string, bool) {
		last, found := "", false
		for _, st := range cc.Body {
			ast.Inspect(st, func(y ast.Node) bool {
				if _, isLoop := y.(*ast.RangeStmt); isLoop && y != ast.Node(st) {
					return true
				}
				if call, ok := y.(*ast.CallExpr); ok {
					switch prog.CalleeKey(info, call) {
					case "io.WriteString", "fmt.Fprintf", "memcache.WriteFull", "memcache.writeLine":
						for _, a := range call.Args[1:] {
							if v, isS := prog.ConstString(info, a); isS {
								last, found = v, true
							} else if cl, isCL := prog.Unparen(a).(*ast.CallExpr); isCL && len(cl.Args) == 1 {
								if v, isS := prog.ConstString(info, cl.Args[0]); isS {
									last, found = v, true
								}
							}
						}
					}
				}
				return true
			})
		}
		return last, found
	}
	for name, cc := range cases {
		l, ok := lastLit(cc)
		c.check(ok && strings.HasSuffix(l, "\r\n"), R, f.Key+": clause "+name+" ends its reply with CRLF", c.pos(cc), "last literal written ends with \\r\\n", "the `"+name+"` reply is not terminated by CRLF: the client keeps waiting for the end of the line and every later reply is misparsed")
	}
	// VALUE: per item header with key, flag, len(body); body; CRLF; END after the loop
	vc := cases["VALUE"]
	var rng *ast.RangeStmt
	ast.Inspect(vc, func(y ast.Node) bool {
		if r, ok := y.(*ast.RangeStmt); ok && prog.MentionsField(info, r.X, "memcache.Response.Items") {
			rng = r
		}
		return true
	})
	if rng == nil {
		c.viol(R, f.Key+": VALUE block per item", c.pos(vc), "the VALUE reply no longer iterates over the response items")
		return
	}
	hdr, body := false, false
	nh := 0
	for _, call := range f.CallsIn(rng.Body, "fmt.Fprintf") {
		if v, ok := prog.ConstString(info, call.Expr.Args[1]); ok && strings.HasPrefix(v, "VALUE ") {
			nh++
			good := strings.HasPrefix(v, "VALUE %s %d %d") && strings.HasSuffix(v, "\r\n") && len(call.Expr.Args) >= 5
			// the third value (after key and flag) is len(item.Body)
			if good {
				a := call.Expr.Args[4]
				cl, isCL := prog.Unparen(a).(*ast.CallExpr)
				good = isCL && prog.CalleeKey(info, cl) == "builtin.len" && prog.MentionsField(info, cl.Args[0], "cmem.CArray.Body")
			}
			if good {
				hdr = true
			} else {
				hdr = false
				break
			}
		}
	}
	if nh == 0 {
		hdr = false
	}
	for _, call := range f.CallsIn(rng.Body, "memcache.WriteFull") {
		if prog.MentionsField(info, call.Expr.Args[1], "cmem.CArray.Body") {
			body = true
		}
	}
	c.check(hdr && body, R, f.Key+": VALUE <key> <flags> <len(body)> CRLF body CRLF per item", c.pos(rng), "header carries len(item.Body); body written in full", "the per-item VALUE block does not announce exactly len(body) bytes and then write the body: values are not transferred byte-exactly")
	tail := ""
	for _, st := range vc.Body {
		if st.Pos() > rng.End() {
			for _, call := range f.CallsIn(st, "io.WriteString", "memcache.writeLine", "fmt.Fprintf") {
				for _, a := range call.Expr.Args[1:] {
					if v, ok := prog.ConstString(info, a); ok {
						tail += v
						if call.Key == "memcache.writeLine" {
							tail += "\r\n"
						}
					}
				}
			}
		}
	}
	end := tail == "END\r\n"
	c.check(end, R, f.Key+": END after the items", c.pos(vc), "END\\r\\n after the loop", "a get reply is not closed by END: the client waits for more values")
	// noreply writes nothing
	nr := false
	ast.Inspect(f.Decl.Body, func(y ast.Node) bool {
		if is, ok := y.(*ast.IfStmt); ok && prog.IsField(info, "memcache.Response.Noreply")(prog.Unparen(is.Cond)) && f.Terminates(is.Body) && len(f.CallsIn(is.Body)) == 0 {
			nr = true
		}
		return true
	})
	c.check(nr, R, f.Key+": noreply writes nothing", f.Pos(), "if resp.Noreply { return nil }", "a noreply response is written")
}
