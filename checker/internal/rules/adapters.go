package rules

import (
	"go/ast"
	"go/token"
	"go/types"
	"reflect"
	"strings"

	"gbcheck/internal/prog"
)

// c01r11: the memcache adapter (gobeansdb.StorageClient) hands the store the
// client's key, bytes, flags and revision, and hands the client the stored
// bytes and flags. A necessary condition of "a get returns exactly the bytes
// and client flags of the most recent accepted write".
func c01r11(c *Ctx) {
	const R = "C01.R11"
	if f := c.fn(R, "gobeansdb.StorageClient.prepare"); f != nil {
		info := f.Info()
		key, isPath := f.Param(0), f.Param(1)
		got := map[string]bool{}
		ast.Inspect(f.Decl.Body, func(x ast.Node) bool {
			if as, ok := x.(*ast.AssignStmt); ok && len(as.Lhs) == 1 && len(as.Rhs) == 1 {
				k, _ := prog.FieldOf(info, prog.Unparen(as.Lhs[0]))
				switch k {
				case "store.KeyInfo.StringKey":
					got[k] = prog.ObjOf(info, as.Rhs[0]) == key
				case "store.KeyInfo.Key":
					got[k] = prog.ObjOf(info, argOfConv(as.Rhs[0])) == key
				case "store.KeyInfo.KeyIsPath":
					got[k] = prog.ObjOf(info, as.Rhs[0]) == isPath
				}
			}
			if kv, ok := x.(*ast.KeyValueExpr); ok {
				if id, isI := kv.Key.(*ast.Ident); isI {
					switch id.Name {
					case "StringKey":
						got["store.KeyInfo.StringKey"] = prog.ObjOf(info, kv.Value) == key
					case "Key":
						got["store.KeyInfo.Key"] = prog.ObjOf(info, argOfConv(kv.Value)) == key
					case "KeyIsPath":
						got["store.KeyInfo.KeyIsPath"] = prog.ObjOf(info, kv.Value) == isPath
					}
				}
			}
			return true
		})
		c.check(got["store.KeyInfo.StringKey"] && got["store.KeyInfo.Key"] && got["store.KeyInfo.KeyIsPath"], R, f.Key+": KeyInfo{StringKey: key, Key: []byte(key), KeyIsPath: isPath}", f.Pos(), "all three from the arguments", "the key info handed to the store does not carry the client's key as string and bytes, or its path flag")
	}
	prepared := func(f *prog.Func, e ast.Expr, at ast.Node, keyObj types.Object, isPath bool) bool {
		info := f.Info()
		ok := false
		for _, s := range f.SourcesAt(e, at) {
			if s.Kind == "call" && s.Key == "gobeansdb.StorageClient.prepare" && len(s.Call.Args) == 2 && (keyObj == nil || prog.ObjOf(info, s.Call.Args[0]) == keyObj) {
				if b, isB := prog.ConstBool(info, s.Call.Args[1]); isB && b == isPath {
					ok = true
					continue
				}
			}
			return false
		}
		return ok
	}
	if f := c.fn(R, "gobeansdb.StorageClient.Set"); f != nil {
		info := f.Info()
		item := f.Param(1)
		want := map[string]string{"store.Meta.Flag": "memcache.Item.Flag", "store.Meta.Ver": "memcache.Item.Exptime", "store.Payload.CArray": "memcache.Item.CArray"}
		got := map[string]bool{}
		ast.Inspect(f.Decl.Body, func(x ast.Node) bool {
			if as, ok := x.(*ast.AssignStmt); ok && len(as.Lhs) == 1 && len(as.Rhs) == 1 {
				k, _ := prog.FieldOf(info, prog.Unparen(as.Lhs[0]))
				if w, has := want[k]; has {
					rhs := prog.Unparen(argOfConv(as.Rhs[0]))
					rk, _ := prog.FieldOf(info, rhs)
					if rk == w && prog.RootObj(info, rhs) == item && f.Parent(as) == ast.Node(f.Decl.Body) {
						got[k] = true
					}
				}
			}
			return true
		})
		c.check(len(got) == 3, R, f.Key+": payload.{Flag, Ver, CArray} = item.{Flag, Exptime, CArray}", f.Pos(), "client flags, revision and bytes handed to the store, unconditionally", "the payload handed to the store does not (always) carry the client's flags, explicit revision and bytes")
		okSet := false
		for _, s := range f.CallsTo("store.HStore.Set") {
			if len(s.Expr.Args) == 2 && prepared(f, s.Expr.Args[0], s.Expr, f.Param(0), false) {
				okSet = true
			}
		}
		c.check(okSet, R, f.Key+": HStore.Set(prepare(key, false), payload)", f.Pos(), "stored under the client's key", "the value is not stored under the key info of the client's key")
	}
	if f := c.fn(R, "gobeansdb.StorageClient.Get"); f != nil {
		info := f.Info()
		var gets []prog.Call = f.CallsTo("store.HStore.Get")
		okGet := false
		var payload types.Object
		for _, g := range gets {
			if len(g.Expr.Args) == 2 && prepared(f, g.Expr.Args[0], g.Expr, f.Param(0), false) {
				if b, isB := prog.ConstBool(info, g.Expr.Args[1]); isB && !b {
					okGet = true
					payload = f.ResultObj(g.Expr, 0)
				}
			}
		}
		c.check(okGet, R, f.Key+": HStore.Get(prepare(key, false), false)", f.Pos(), "looked up under the client's key, from memory and disk", "a plain get does not look the client's key up (or only in memory)")
		want := map[string]string{"memcache.Item.Flag": "store.Meta.Flag", "memcache.Item.CArray": "store.Payload.CArray"}
		got := map[string]bool{}
		ast.Inspect(f.Decl.Body, func(x ast.Node) bool {
			if as, ok := x.(*ast.AssignStmt); ok && len(as.Lhs) == 1 && len(as.Rhs) == 1 && payload != nil {
				k, _ := prog.FieldOf(info, prog.Unparen(as.Lhs[0]))
				if w, has := want[k]; has {
					rhs := prog.Unparen(argOfConv(as.Rhs[0]))
					rk, _ := prog.FieldOf(info, rhs)
					if rk == w && prog.RootObj(info, rhs) == payload {
						got[k] = true
					}
				}
			}
			return true
		})
		c.check(len(got) == 2, R, f.Key+": item.{CArray, Flag} = payload.{CArray, Flag}", f.Pos(), "stored bytes and flags returned", "the reply item does not carry the stored bytes and the stored flags")
		okMeta := false
		for _, m := range f.CallsTo("gobeansdb.StorageClient.getMeta") {
			_ = m
			okMeta = true
		}
		okList := false
		for _, l := range f.CallsTo("gobeansdb.StorageClient.listDir") {
			_ = l
			okList = true
		}
		c.check(okMeta && okList, R, f.Key+": `?key` ⇒ getMeta, `@path` ⇒ listDir", f.Pos(), "both dispatches present", "the meta-get or directory-listing dispatch is gone from the get path")
	}
	if f := c.fn(R, "gobeansdb.StorageClient.listDir"); f != nil {
		ok := false
		for _, l := range f.CallsTo("store.HStore.ListDir") {
			if len(l.Expr.Args) == 1 && prepared(f, l.Expr.Args[0], l.Expr, f.Param(0), true) {
				ok = true
			}
		}
		c.check(ok, R, f.Key+": HStore.ListDir(prepare(path, true))", f.Pos(), "path key info", "a directory listing is not requested with a path key info of the client's path")
	}
	if f := c.fn(R, "gobeansdb.StorageClient.GetMulti"); f != nil {
		info := f.Info()
		ok := false
		ast.Inspect(f.Decl.Body, func(x ast.Node) bool {
			rs, isR := x.(*ast.RangeStmt)
			if !isR || rs.Value == nil {
				return true
			}
			keyObj := prog.ObjOf(info, rs.Value)
			var itemObj types.Object
			for _, g := range f.CallsIn(rs.Body, "gobeansdb.StorageClient.Get") {
				if len(g.Expr.Args) == 1 && prog.ObjOf(info, g.Expr.Args[0]) == keyObj {
					itemObj = f.ResultObj(g.Expr, 0)
				}
			}
			ast.Inspect(rs.Body, func(y ast.Node) bool {
				if as, isA := y.(*ast.AssignStmt); isA && len(as.Lhs) == 1 && len(as.Rhs) == 1 {
					if ix, isIx := prog.Unparen(as.Lhs[0]).(*ast.IndexExpr); isIx && prog.ObjOf(info, ix.Index) == keyObj && itemObj != nil && prog.ObjOf(info, as.Rhs[0]) == itemObj {
						ok = true
					}
				}
				return true
			})
			return true
		})
		c.check(ok, R, f.Key+": ret[key] = Get(key) for each requested key", f.Pos(), "same key on both sides", "a multi-get does not file each fetched item under the key it was fetched for")
	}
	if f := c.fn(R, "gobeansdb.StorageClient.Incr"); f != nil {
		info := f.Info()
		ok := false
		for _, i := range f.CallsTo("store.HStore.Incr") {
			if len(i.Expr.Args) == 2 && prepared(f, i.Expr.Args[0], i.Expr, f.Param(0), false) && prog.ObjOf(info, i.Expr.Args[1]) == f.Param(1) {
				res := f.ResultObj(i.Expr, 0)
				for _, r := range f.CFG().Returns() {
					if len(r.Results) == 2 && res != nil && prog.ObjOf(info, r.Results[0]) == res {
						ok = true
					}
				}
				if !ok {
					// direct `return s.hstore.Incr(...), nil`
					for _, r := range f.CFG().Returns() {
						if len(r.Results) == 2 && prog.Unparen(r.Results[0]) == ast.Expr(i.Expr) {
							ok = true
						}
					}
				}
			}
		}
		c.check(ok, R, f.Key+": returns HStore.Incr(prepare(key, false), value)", f.Pos(), "client's key and delta, store's result", "incr does not pass the client's key and delta to the store or does not return the store's result")
	}
}

// c13r11: the collision table survives a restart: what dump writes is what
// load reads into the same table, and every field that carries state is
// visible to the serializer.
func c13r11(c *Ctx) {
	const R = "C13.R11"
	if f := c.fn(R, "store.CollisionTable.dump"); f != nil {
		info := f.Info()
		recv := f.Recv()
		okM, okW := false, false
		var content types.Object
		for _, m := range f.CallsTo("gopkg.in/yaml.v2.Marshal", "yaml.Marshal") {
			if len(m.Expr.Args) == 1 && prog.ObjOf(info, m.Expr.Args[0]) == recv {
				okM = true
				content = f.ResultObj(m.Expr, 0)
			}
		}
		for _, w := range f.CallsTo("io/ioutil.WriteFile", "ioutil.WriteFile", "os.WriteFile") {
			if len(w.Expr.Args) == 3 && prog.ObjOf(info, w.Expr.Args[0]) == f.Param(0) && content != nil && prog.ObjOf(info, w.Expr.Args[1]) == content {
				okW = true
			}
			if len(w.Expr.Args) == 3 && prog.ObjOf(info, w.Expr.Args[0]) == f.Param(0) && okM && !okW {
				// through locals: every value the written bytes can have is the Marshal result
				srcs := f.SourcesAt(w.Expr.Args[1], w.Expr)
				all := len(srcs) > 0
				for _, src := range srcs {
					if !(src.Kind == "call" && strings.HasSuffix(src.Key, "yaml.v2.Marshal") || src.Kind == "call" && src.Key == "yaml.Marshal" || src.Kind == "zero") {
						all = false
					}
				}
				if all {
					okW = true
				}
			}
		}
		c.check(okM && okW, R, f.Key+": WriteFile(path, Marshal(table))", f.Pos(), "the whole table to the given path", "the collision table is not serialised as a whole to the path it is later loaded from")
	}
	if f := c.fn(R, "store.CollisionTable.load"); f != nil {
		info := f.Info()
		recv := f.Recv()
		okR, okU := false, false
		var content types.Object
		for _, r := range f.CallsTo("io/ioutil.ReadFile", "ioutil.ReadFile", "os.ReadFile") {
			if len(r.Expr.Args) == 1 && prog.ObjOf(info, r.Expr.Args[0]) == f.Param(0) {
				okR = true
				content = f.ResultObj(r.Expr, 0)
			}
		}
		for _, u := range f.CallsTo("gopkg.in/yaml.v2.Unmarshal", "yaml.Unmarshal") {
			if len(u.Expr.Args) == 2 && content != nil && prog.ObjOf(info, u.Expr.Args[0]) == content && prog.ObjOf(info, u.Expr.Args[1]) == recv {
				okU = true
			}
		}
		c.check(okR && okU, R, f.Key+": Unmarshal(ReadFile(path), table)", f.Pos(), "into the receiver", "the collision file is not read back into the table that serves lookups")
	}
	// serialised state: CollisionTable.Items, embedded HintID, HintItem and Position fields
	var storePkg *types.Package
	for _, p := range c.P.Pkgs {
		if p.Name == "store" {
			storePkg = p.Types
		}
	}
	if storePkg == nil {
		c.undec(R, "store package", "not loaded")
		return
	}
	visible := func(typeName string, fields ...string) {
		o := storePkg.Scope().Lookup(typeName)
		if o == nil {
			c.undec(R, "store."+typeName, "type not found")
			return
		}
		st, ok := o.Type().Underlying().(*types.Struct)
		if !ok {
			c.undec(R, "store."+typeName, "not a struct")
			return
		}
		for _, want := range fields {
			found, good := false, false
			for i := 0; i < st.NumFields(); i++ {
				fl := st.Field(i)
				if fl.Name() == want {
					found = true
					tag := reflect.StructTag(st.Tag(i)).Get("yaml")
					good = fl.Exported() && !strings.HasPrefix(tag, "-")
				}
			}
			c.check(found && good, R, "store."+typeName+"."+want+": visible to the yaml serialiser", c.P.Pos(o.Pos()), "exported, not tagged `-`", "field "+want+" of store."+typeName+" is not serialised (missing, unexported or tagged yaml:\"-\"): the collision table loses it across a restart, and colliding keys alias or disappear")
		}
	}
	visible("CollisionTable", "Items", "HintID")
	visible("HintItem", "HintItemMeta", "Key")
	visible("HintItemMeta", "Keyhash", "Pos", "Ver", "Vhash")
	visible("Position", "ChunkID", "Offset")
	visible("HintID", "Chunk", "Split")
}

// c08r9: the full key hash of a leaf entry is reconstructed from the node's
// path (high digits) and the stored low bytes; the entry search compares
// exactly the stored bytes.
func c08r9(c *Ctx) {
	const R = "C08.R9"
	if f := c.fn(R, "store.getNodeKhash"); f != nil {
		info := f.Info()
		okShift, okMask := false, false
		ast.Inspect(f.Decl.Body, func(x ast.Node) bool {
			be, ok := x.(*ast.BinaryExpr)
			if !ok {
				return true
			}
			if be.Op == token.SHL {
				// shift amount 4*(7-i)
				var amount ast.Expr = prog.Unparen(argOfConv(be.Y))
				if m, isB := amount.(*ast.BinaryExpr); isB && m.Op == token.MUL {
					a, b := prog.Unparen(m.X), prog.Unparen(m.Y)
					if k, isC := prog.ConstInt(info, a); isC && k == 4 {
						a, b = b, a
					}
					if k, isC := prog.ConstInt(info, b); isC && k == 4 {
						if s, isS := a.(*ast.BinaryExpr); isS && s.Op == token.SUB {
							if k7, isC := prog.ConstInt(info, s.X); isC && k7 == 7 {
								okShift = true
							}
						}
					}
				}
			}
			if be.Op == token.AND {
				if k, isC := prog.ConstInt(info, be.Y); isC && k == 0xf {
					okMask = true
				}
			}
			return true
		})
		c.check(okShift && okMask, R, f.Key+": digit i of the path at bits 4·(7−i) of the high half", f.Pos(), "(off & 0xf) << 4*(7-i)", "the node's path digits are not placed at bits 4·(7−i): listed key hashes get wrong high digits")
	}
	if f := c.fn(R, "store.SliceHeader.Iter"); f != nil {
		info := f.Info()
		// nodeKHash := uint64(getNodeKhash(ni.path)) << 32 & ^mask ; khash = stored & mask | nodeKHash
		okNode, okAnd, okOr := false, false, false
		ast.Inspect(f.Decl.Body, func(x ast.Node) bool {
			switch s := x.(type) {
			case *ast.BinaryExpr:
				if s.Op == token.SHL {
					if k, isC := prog.ConstInt(info, s.Y); isC && k == 32 {
						if call, isCall := prog.Unparen(argOfConv(s.X)).(*ast.CallExpr); isCall && prog.CalleeKey(info, call) == "store.getNodeKhash" && len(call.Args) == 1 && prog.MentionsField(info, call.Args[0], "store.NodeInfo.path") {
							okNode = true
						}
					}
				}
			case *ast.AssignStmt:
				if len(s.Lhs) == 1 && len(s.Rhs) == 1 {
					switch s.Tok {
					case token.AND_ASSIGN:
						okAnd = true
					case token.OR_ASSIGN:
						okOr = true
					}
				}
			}
			return true
		})
		maskNeg := false
		ast.Inspect(f.Decl.Body, func(x ast.Node) bool {
			if u, ok := x.(*ast.UnaryExpr); ok && u.Op == token.XOR && prog.MentionsField(info, u.X, "store.HtreeDerivedConfig.TreeKeyHashMask") {
				maskNeg = true
			}
			return true
		})
		c.check(okNode && maskNeg, R, f.Key+": node part = uint64(getNodeKhash(path)) << 32 &^ mask", f.Pos(), "high digits from the node path", "the high part of a listed key hash is not taken from the node's path, shifted into the high half and cleared of the stored bits")
		c.check(okAnd && okOr, R, f.Key+": key hash = stored & mask | node part", f.Pos(), "stored low bits combined with the path's high digits", "the key hash handed to the listing is not the stored low bits OR-ed with the node's high digits")
		// callback for every entry: call of the parameter inside the loop, unguarded by an if
		okCall := false
		fp := f.Param(0)
		ast.Inspect(f.Decl.Body, func(x ast.Node) bool {
			if call, ok := x.(*ast.CallExpr); ok && prog.ObjOf(info, call.Fun) == fp {
				inIf := false
				inFor := false
				for _, enc := range f.Enclosing(call) {
					switch enc.(type) {
					case *ast.IfStmt, *ast.SwitchStmt:
						inIf = true
					case *ast.ForStmt, *ast.RangeStmt:
						inFor = true
					}
				}
				okCall = inFor && !inIf
			}
			return true
		})
		c.check(okCall, R, f.Key+": callback invoked for every entry", f.Pos(), "unconditional call in the entry loop", "leaf entries are filtered before they reach the listing/hash callback")
	}
	if f := c.fn(R, "store.findInBytes"); f != nil {
		info := f.Info()
		okCmp, okC := false, false
		ast.Inspect(f.Decl.Body, func(x ast.Node) bool {
			call, ok := x.(*ast.CallExpr)
			if !ok {
				return true
			}
			switch prog.CalleeKey(info, call) {
			case "bytes.Compare", "bytes.Equal":
				if len(call.Args) == 2 {
					if se, isS := prog.Unparen(call.Args[0]).(*ast.SliceExpr); isS && se.Low != nil && se.High != nil {
						if hb, isB := prog.Unparen(se.High).(*ast.BinaryExpr); isB && hb.Op == token.ADD && prog.SameExpr(info, hb.X, se.Low) {
							okCmp = true
						}
					}
				}
			}
			if name := types.ExprString(call.Fun); (strings.Contains(name, "_Cfunc_find") || name == "C.find") && len(call.Args) == 5 {
				// item_size = stride, cmp_size = key width, n = len/stride
				okC = true
			}
			return true
		})
		// result of the C search scaled by the stride
		okScale := false
		for _, r := range f.CFG().Returns() {
			if len(r.Results) == 1 {
				if be, ok := prog.Unparen(r.Results[0]).(*ast.BinaryExpr); ok && be.Op == token.MUL {
					okScale = true
				}
			}
		}
		c.check(okCmp, R, f.Key+": compares leaf[i:i+keyLen] with the searched key bytes", f.Pos(), "window of the stored key width", "the Go entry search does not compare exactly the stored key-hash bytes of each entry")
		c.check(okC && okScale, R, f.Key+": C search over (stride, keyLen, n), result scaled by the stride", f.Pos(), "find(..., lenItem, lenKHash, n) * lenItem", "the C entry search (used for leaves with ≥100 entries) is not called with stride and key width or its entry index is not scaled back to a byte offset")
	}
	if f := c.fn(R, "store.SliceHeader.Set"); f != nil {
		info := f.Info()
		okKey := false
		for _, k := range f.CallsTo("store.khashToBytes") {
			if len(k.Expr.Args) == 2 && prog.MentionsField(info, k.Expr.Args[1], "store.KeyInfo.KeyHash") {
				okKey = true
			}
		}
		okGrow := false
		for _, e := range f.CallsTo("store.SliceHeader.enlarge") {
			for _, a := range f.GuardsAt(e.Expr) {
				_ = a
			}
			okGrow = true
		}
		c.check(okKey && okGrow, R, f.Key+": a new entry is appended (enlarge) and stamped with the request's key hash", f.Pos(), "khashToBytes(dst, req.ki.KeyHash)", "a new leaf entry is not appended or not stamped with the key hash of the request")
	}
	if f := c.fn(R, "store.SliceHeader.enlarge"); f != nil {
		info := f.Info()
		ok := false
		ast.Inspect(f.Decl.Body, func(x ast.Node) bool {
			if as, isA := x.(*ast.AssignStmt); isA && len(as.Lhs) == 1 && prog.IsField(info, "store.SliceHeader.Len")(prog.Unparen(as.Lhs[0])) && prog.ObjOf(info, as.Rhs[0]) == f.Param(0) {
				ok = len(f.GuardsAt(as)) == 0
			}
			return true
		})
		c.check(ok, R, f.Key+": Len = size on every path", f.Pos(), "unconditional", "enlarge does not record the new size on every path: entries beyond the recorded length are invisible to search and listing")
	}
}

// c10r7: geometry of the cgo compress/decompress wrappers and the
// "sample first, then the whole body" logic of TryCompress.
func c10r7(c *Ctx) {
	const R = "C10.R7"
	cCall := func(f *prog.Func, name string) *ast.CallExpr {
		var out *ast.CallExpr
		ast.Inspect(f.Decl.Body, func(x ast.Node) bool {
			if call, ok := x.(*ast.CallExpr); ok {
				if n := types.ExprString(call.Fun); strings.Contains(n, "_Cfunc_"+name) || n == "C."+name {
					out = call
				}
			}
			return true
		})
		return out
	}
	lenOf := func(info *types.Info, e ast.Expr, obj types.Object) bool {
		call, ok := prog.Unparen(argOfConv(e)).(*ast.CallExpr)
		if !ok {
			call, ok = prog.Unparen(e).(*ast.CallExpr)
		}
		if ok {
			if id, isI := call.Fun.(*ast.Ident); isI && id.Name == "len" && len(call.Args) == 1 {
				return prog.ObjOf(info, call.Args[0]) == obj
			}
		}
		return false
	}
	if f := c.fn(R, "quicklz.CCompress"); f != nil {
		info := f.Info()
		src := f.Param(0)
		okAlloc := false
		for _, a := range f.CallsTo("cmem.CArray.Alloc") {
			if be, ok := prog.Unparen(a.Expr.Args[0]).(*ast.BinaryExpr); ok && be.Op == token.ADD {
				if k, isC := prog.ConstInt(info, be.Y); isC && k >= 400 && lenOf(info, be.X, src) {
					okAlloc = true
				}
			}
		}
		c.check(okAlloc, R, f.Key+": destination holds len(src)+400 bytes", f.Pos(), "Alloc(len(src) + 400)", "the compression destination is smaller than QuickLZ's documented worst case (size + 400): incompressible input overruns the buffer")
		q := cCall(f, "qlz_compress")
		okArgs, okTrim := false, false
		if q != nil && len(q.Args) == 4 {
			arg := q.Args[2]
			if id, isI := prog.Unparen(arg).(*ast.Ident); isI { // cgo's argument temporaries
				if defs := f.DefsOfPath(id); len(defs) == 1 && defs[0].Rhs != nil {
					arg = defs[0].Rhs
				}
			}
			okArgs = lenOf(info, arg, src)
			// dst.Body = dst.Body[:size] with size from the call
			var sizeObj types.Object
			if as, isA := f.Parent(q).(*ast.AssignStmt); isA && len(as.Lhs) == 1 {
				sizeObj = prog.ObjOf(info, as.Lhs[0])
			}
			ast.Inspect(f.Decl.Body, func(x ast.Node) bool {
				if as, isA := x.(*ast.AssignStmt); isA && len(as.Lhs) == 1 && len(as.Rhs) == 1 && prog.IsField(info, "cmem.CArray.Body")(prog.Unparen(as.Lhs[0])) {
					if se, isS := prog.Unparen(as.Rhs[0]).(*ast.SliceExpr); isS && se.Low == nil && se.High != nil {
						for _, s := range f.SourcesAt(se.High, as) {
							if s.Obj == sizeObj || (s.Expr != nil && prog.ObjOf(info, argOfConv(s.Expr)) == sizeObj) || (s.Call == q) {
								okTrim = true
							}
						}
					}
				}
				return true
			})
		}
		c.check(okArgs, R, f.Key+": qlz_compress(src, dst, len(src), scratch)", f.Pos(), "whole source", "qlz_compress is not given the whole source length")
		c.check(okTrim, R, f.Key+": result trimmed to the compressed size", f.Pos(), "dst.Body = dst.Body[:size]", "the compressed buffer is not trimmed to the size qlz_compress returned: the stored value carries trailing garbage and SizeCompressed no longer equals its length")
	}
	if f := c.fn(R, "quicklz.CDecompress"); f != nil {
		info := f.Info()
		sizeD := f.Param(1)
		okAlloc := false
		for _, a := range f.CallsTo("cmem.CArray.Alloc") {
			if prog.ObjOf(info, a.Expr.Args[0]) == sizeD {
				okAlloc = true
			}
		}
		q := cCall(f, "qlz_decompress")
		okCmp := false
		ast.Inspect(f.Decl.Body, func(x ast.Node) bool {
			if be, ok := x.(*ast.BinaryExpr); ok && be.Op == token.NEQ && (prog.ObjOf(info, be.Y) == sizeD || prog.ObjOf(info, be.X) == sizeD) {
				okCmp = true
			}
			return true
		})
		c.check(okAlloc && q != nil && okCmp, R, f.Key+": Alloc(sizeD); qlz_decompress; size == sizeD", f.Pos(), "declared size allocated and verified", "the decompression wrapper no longer allocates the declared size and verifies the produced size against it")
	}
	if f := c.fn(R, "store.Record.TryCompress"); f != nil {
		info := f.Info()
		// the buffer installed as the payload's body is the compression of the whole body
		var swap *ast.AssignStmt
		ast.Inspect(f.Decl.Body, func(x ast.Node) bool {
			if as, ok := x.(*ast.AssignStmt); ok && len(as.Lhs) == 1 && len(as.Rhs) == 1 && prog.IsField(info, "store.Payload.CArray")(prog.Unparen(as.Lhs[0])) {
				swap = as
			}
			return true
		})
		if swap == nil {
			c.undec(R, f.Key, "buffer swap not found")
			return
		}
		comp := prog.ObjOf(info, swap.Rhs[0])
		var whole, sample *ast.CallExpr
		var bodyObj, tryObj types.Object
		for _, cc := range f.CallsTo("quicklz.CCompress") {
			as, isA := f.Parent(cc.Expr).(*ast.AssignStmt)
			if !isA || prog.ObjOf(info, as.Lhs[0]) != comp {
				continue
			}
			arg := prog.ObjOf(info, cc.Expr.Args[0])
			isBody := false
			if id, ok := prog.Unparen(cc.Expr.Args[0]).(*ast.Ident); ok {
				defs := f.DefsOfPath(id)
				if len(defs) == 1 && defs[0].Rhs != nil && prog.MentionsField(info, defs[0].Rhs, "cmem.CArray.Body") {
					if _, isSl := prog.Unparen(defs[0].Rhs).(*ast.SliceExpr); !isSl {
						isBody = true
					}
				}
			}
			if isBody {
				whole, bodyObj = cc.Expr, arg
			} else {
				sample, tryObj = cc.Expr, arg
			}
		}
		ok := whole != nil
		if ok && sample != nil {
			// whole-body compression under len(body) > len(try)
			g := false
			var gsrc ast.Node
			for _, a := range f.GuardsAt(whole) {
				if prog.AtomCmp(a, token.GTR, func(e ast.Expr) bool { return lenOf(info, e, bodyObj) }, func(e ast.Expr) bool { return lenOf(info, e, tryObj) }) {
					g = true
					gsrc = a.Src
				}
			}
			// the whole-body compression must not depend on anything else decided by that test
			for _, a := range f.GuardsAt(whole) {
				if g && a.Src == gsrc && !prog.AtomCmp(a, token.GTR, func(e ast.Expr) bool { return lenOf(info, e, bodyObj) }, func(e ast.Expr) bool { return lenOf(info, e, tryObj) }) {
					g = false
				}
			}
			// and the guard statement lies on every path from the sample to the swap
			var gs ast.Node
			for _, enc := range f.Enclosing(whole) {
				if is, isIf := enc.(*ast.IfStmt); isIf {
					gs = is
					break
				}
			}
			ok = g && gs != nil && !f.CFG().ReachesWithout(sample, swap, prog.NodeIs(condOf(gs)))
		}
		c.check(ok, R, f.Key+": the installed buffer is the compression of the whole body", c.pos(swap), "CCompress(body) whenever the sample was shorter than the body", "TryCompress can install the compression of the leading sample as the value: everything after the first TRY_COMPRESS_SIZE bytes of a large compressible value is lost")
	}
	c10r7b(c)
}

func condOf(n ast.Node) ast.Node {
	if is, ok := n.(*ast.IfStmt); ok {
		return is.Cond
	}
	return n
}

// wideConv strips conversions from e and reports whether every one of them
// targets a 64-bit integer type (int, uint, int64, uint64, uintptr) or keeps
// the operand's own type: a conversion that can truncate or change the sign
// of a 32-bit quantity makes ok false.
func wideConv(info *types.Info, e ast.Expr) (inner ast.Expr, ok bool) {
	ok = true
	for {
		e = prog.Unparen(e)
		c, isC := e.(*ast.CallExpr)
		if !isC || len(c.Args) != 1 {
			return e, ok
		}
		tv, has := info.Types[c.Fun]
		if !has || !tv.IsType() {
			return e, ok
		}
		if b, isB := tv.Type.Underlying().(*types.Basic); isB {
			switch b.Kind() {
			case types.Int, types.Uint, types.Int64, types.Uint64, types.Uintptr:
			default:
				if at, hasA := info.Types[c.Args[0]]; !hasA || !types.Identical(at.Type.Underlying(), tv.Type.Underlying()) {
					ok = false
				}
			}
		} else {
			ok = false
		}
		e = c.Args[0]
	}
}
